(* props/C20.v — property theorems for C20 (deletion removes exactly the requested data).
   Nothing but statements; proofs are in proof/IntervalsProofs.v (interval sets),
   proof/DeleteHistProofs.v (histories) and proof/TombFileProofs.v (tombstone files).

   FULL STATEMENT of the first sentence (what the property asks): for every configuration and
   every history ops1 ++ Delete mint maxt sel :: ops2 of commits, deletions, head / out-of-order
   compactions, tombstone cleaning and restarts, every query of the implementation returns no
   sample of a selected series inside [mint, maxt] that was not stored by ops2, and every other
   sample unchanged.  Proved here:
     - on the flat "live samples" specification, in full (C20_delete_exact_spec: equality of every
       query answer with del_answer of the answer before; C20_no_resurrection_spec: arbitrary
       later operations);
     - for the structured TSDB model of C01 (head with tombstones clamped by Head.Delete, blocks
       with Block.Delete tombstones, tombstone-aware head compaction, CleanTombstones, WAL
       tombstone replay): the Delete step in full (C20_delete_step_exact), and histories whose
       suffix after the Delete consists of compactions, tombstone cleanings and restarts
       (C20_delete_history_partial).  The latter is `_partial` because it INHERITS the assumptions
       of C01_refinement_partial: wf_ops (admission facts of accepted samples; no out-of-order
       head sample of a selected series inside a Delete range; and, for every Restart and
       CompactPending step, that the step re-establishes the invariant and preserves the visible
       sample set — assumed, not proved, false in two C01 findings) and dead_covered of the final
       state (false in C01 finding F6).  The six C01_refuted lemmas of props/C01.v (five of them
       contain a Delete) show the unrestricted statement is false of the code as it is. *)
From Coq Require Import List NArith ZArith Bool.
From Verif Require Import lib.Int64 lib.Bytes model.Intervals proof.IntervalsProofs.
From Verif Require Import model.TsdbSpec model.Tsdb proof.TsdbProofs model.DeleteHist proof.DeleteHistProofs.
From Verif Require Import model.TombFile proof.TombFileProofs.
Import ListNotations.
Open Scope Z_scope.

(* ================= second sentence: the interval-set core, tombstones.Intervals.Add ========= *)

(* Adding to a canonical (sorted, disjoint, non-adjacent) interval list never panics ... *)
Theorem C20_add_total : forall ivs n, canonical ivs -> wf_iv n -> exists r, add ivs n = Intervals.Ok r.
Proof. exact add_total. Qed.

(* ... yields a canonical list covering exactly the old timestamps plus the new interval ... *)
Theorem C20_add_canonical : forall ivs n r, canonical ivs -> wf_iv n -> add ivs n = Intervals.Ok r ->
  canonical r /\ forall t, Intervals.covered r t <-> Intervals.covered ivs t \/ imin n <= t <= imax n.
Proof. exact add_canonical. Qed.

(* ... hence every interval set reachable from the empty one by any sequence of deletions. *)
Theorem C20_adds_reachable : forall ns, Forall wf_iv ns ->
  exists r, fold_add [] ns = Intervals.Ok r /\ canonical r /\
            forall t, Intervals.covered r t <-> Exists (fun n => imin n <= t <= imax n) ns.
Proof. exact adds_reachable. Qed.

(* The code before "fix: tombstones: Intervals.Add ... MaxInt64" violated totality. *)
Theorem C20_add_old_refuted : exists ivs n, canonical ivs /\ wf_iv n /\ add_old ivs n = Intervals.Panic.
Proof. exact add_old_refuted. Qed.

Example C20_nonvacuous : canonical [mkI 1 2; mkI 10 20] /\ wf_iv (mkI 5 maxInt64).
Proof. exact nonvacuous_example. Qed.

(* ================= first sentence: histories ================================================ *)

(* On the flat specification a Delete changes EVERY query answer exactly as del_answer says: the
   points of the selected series inside [mint, maxt] disappear (a series left empty is absent),
   every other point of every series stays, in the same order, with the same values. *)
Theorem C20_delete_exact_spec : forall (sp : sstate) (mint maxt : Z) (sel : list sid) (qmin qmax : Z) (qsel : list sid),
  spec_query (spec_step sp (SDelete mint maxt sel)) qmin qmax qsel =
  del_answer mint maxt sel (spec_query sp qmin qmax qsel).
Proof. exact delete_exact_spec. Qed.

(* ... and whatever happens later (commits, further deletes, maintenance), a live sample of a
   selected series inside the range was acknowledged after the Delete. *)
Theorem C20_no_resurrection_spec : forall (ops1 ops2 : list sop) mint maxt sel i x,
  In x (spec_run (ops1 ++ SDelete mint maxt sel :: ops2) i) -> In i sel -> mint <= st x <= maxt ->
  acked_in ops2 i x.
Proof. exact no_resurrection_spec. Qed.

(* The Delete step of the structured model (Head.Delete with both clampings and the WAL record,
   Block.Delete on the overlapping blocks) removes from the visible samples exactly [mint, maxt] of
   the selected series, from any state satisfying the C01 invariant, provided no out-of-order head
   sample of a selected series lies in the range (C01 findings F1/F2 otherwise). *)
Theorem C20_delete_step_exact : forall (c : cfg) (s : state) mint maxt sel,
  wf_cfg c -> inv c s -> wf_delete (s_head s) mint maxt sel ->
  inv c (delete mint maxt sel s) /\
  sequiv (abs (delete mint maxt sel s)) (spec_step (abs s) (SDelete mint maxt sel)).
Proof. exact delete_step_exact. Qed.

(* Histories (partial: inherits wf_ops — incl. the ASSUMED refinement step of every Restart /
   CompactPending — and dead_covered from C01_refinement_partial, see the header): after any
   well-formed history, a Delete, and any suffix of head compactions, out-of-order compactions,
   tombstone cleanings and restarts, every query of the structured model answers like the
   specification's answer before the Delete with exactly the deleted points removed. *)
Theorem C20_delete_history_partial : forall (c : cfg) (ops1 ops2 : list op) mint maxt sel,
  wf_cfg c -> wf_ops c state0 (ops1 ++ Delete mint maxt sel :: ops2) ->
  forallb is_maint ops2 = true ->
  dead_covered (run c (ops1 ++ Delete mint maxt sel :: ops2)) ->
  forall qmin qmax qsel,
    answer_equiv (query (run c (ops1 ++ Delete mint maxt sel :: ops2)) qmin qmax qsel)
                 (del_answer mint maxt sel (spec_query (spec_run (map spec_of_op ops1)) qmin qmax qsel)).
Proof. exact delete_history_partial. Qed.

(* ... and for ARBITRARY later operations (further commits and deletes included; same inherited
   assumptions): whatever a query of the structured model returns for a selected series inside
   [mint, maxt] was stored by a Commit after the Delete. *)
Theorem C20_no_resurrection_history_partial : forall (c : cfg) (ops1 ops2 : list op) mint maxt sel,
  wf_cfg c -> wf_ops c state0 (ops1 ++ Delete mint maxt sel :: ops2) ->
  dead_covered (run c (ops1 ++ Delete mint maxt sel :: ops2)) ->
  forall qmin qmax qsel i pts t vs v,
    In (i, pts) (query (run c (ops1 ++ Delete mint maxt sel :: ops2)) qmin qmax qsel) ->
    In i sel -> In (t, vs) pts -> mint <= t <= maxt -> In v vs ->
    exists l lg f, In (Commit l lg f) ops2 /\ In (i, mkS t v) (map (fun a => (fst (fst a), snd (fst a))) l).
Proof. exact no_resurrection_history_partial. Qed.

(* The hypothesis dead_covered of the two theorems above cannot be dropped — a FINDING on the code
   as it is (replayed on the real tsdb.DB, see notes/C20.md): a deleted sample whose chunk
   straddles the new Head.MinTime is returned again after the head compaction, because Head.gc
   truncates its tombstone (MemTombstones.TruncateBefore) while the chunk stays and the head
   querier has no floor at Head.MinTime.  Witness: series 1 = -707, -498, 0 (one chunk, since
   rangeForTimestamp(-707) = 1000), series 0 = -1000, 503; Delete(-707,-707,{1}); Compact. *)
Theorem C20_delete_history_refuted :
  exists (c : cfg) (ops1 ops2 : list op) mint maxt sel,
    wf_cfg c /\ wf_ops c state0 (ops1 ++ Delete mint maxt sel :: ops2) /\ forallb is_maint ops2 = true /\
    ~ answer_equiv (query (run c (ops1 ++ Delete mint maxt sel :: ops2)) minInt64 maxInt64 [0; 1])
                   (del_answer mint maxt sel (spec_query (spec_run (map spec_of_op ops1)) minInt64 maxInt64 [0; 1])).
Proof. exact delete_history_refuted. Qed.

(* non-vacuity: two series, negative and positive times, an out-of-order sample compacted into its
   own block, a head compaction (blocks [-2000,-1000) and [0,1000)), then Delete(120, 1750) across
   two blocks and the head, tombstone cleaning, another Compact / CompactOOO: all hypotheses hold
   and of the eight visible samples exactly the five in range are gone *)
Example C20_history_nonvacuous :
  (wf_cfg ex_cfg /\ wf_ops ex_cfg state0 (ex_ops1 ++ Delete 120 1750 [0; 1] :: ex_ops2)) /\
  forallb is_maint ex_ops2 = true /\
  dead_covered (run ex_cfg (ex_ops1 ++ Delete 120 1750 [0; 1] :: ex_ops2)) /\
  query (run ex_cfg (ex_ops1 ++ Delete 120 1750 [0; 1] :: ex_ops2)) minInt64 maxInt64 [0; 1]
    = [(0, [(-1500, [1]); (2700, [8])]); (1, [(1800, [7])])] /\
  spec_query (spec_run (map spec_of_op ex_ops1)) minInt64 maxInt64 [0; 1]
    = [(0, [(-1500, [1]); (900, [3]); (1700, [6]); (2700, [8])]); (1, [(150, [2]); (400, [5]); (950, [4]); (1800, [7])])].
Proof. exact ex_all. Qed.

(* ================= third sentence: tombstone files ========================================== *)

(* For EVERY checksum function, every list of groups handed to WriteFile (any order, repeated
   refs, overlapping / adjacent / unsorted intervals; refs uint64, bounds int64, mint <= maxt),
   ReadTombstones of the written bytes succeeds and returns the canonical form: every interval
   re-added through MemTombstones.AddInterval -> Intervals.Add ... *)
Theorem C20_tombstone_file_roundtrip : forall (crc : list N -> N) (stones : list stone),
  wf_stones stones -> read_file crc (write_file crc stones) = canon stones.
Proof. exact tombstone_file_roundtrip. Qed.

(* ... which exists, has strictly increasing refs and no empty group, and holds for every ref the
   sorted / disjoint / non-adjacent list covering exactly the union of the intervals written for it *)
Theorem C20_tombstone_canonical_form : forall stones, wf_stones stones ->
  exists m, canon stones = ROk m /\ refs_incr m /\ Forall (fun s => snd s <> []) m /\
    forall ref, exists r, fold_add [] (ivs_of ref (flatten stones)) = Intervals.Ok r /\ get m ref = r /\
                          canonical r /\
                          forall t, Intervals.covered r t <-> Exists (fun n => (imin n <= t <= imax n)%Z) (ivs_of ref (flatten stones)).
Proof. exact canon_spec. Qed.

(* What a MemTombstones can hold (strictly increasing refs, non-empty canonical groups) reads back
   EXACTLY as written. *)
Theorem C20_tombstone_file_roundtrip_exact : forall crc stones,
  stones_canonical stones -> read_file crc (write_file crc stones) = ROk stones.
Proof. exact tombstone_file_roundtrip_exact. Qed.

(* the fuel of the model's decode loop is not a restriction *)
Theorem C20_tombstone_decode_fuel : forall fuel bs m, (length bs <= fuel)%nat -> decode_loop fuel bs m <> RErr RFuel.
Proof. exact decode_loop_fuel_enough. Qed.

Example C20_tombstone_nonvacuous : forall crc : list N -> N,
  stones_canonical ex_stones /\ wf_stones ex_stones /\
  read_file crc (write_file crc ex_stones) = ROk ex_stones /\ length (write_file crc ex_stones) = 49%nat.
Proof. exact ex_stones_ok. Qed.

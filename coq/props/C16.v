(* props/C16.v — property theorems for C16 (series selection and label queries follow matcher
   semantics).  Statements only; proofs are in proof/PostingsProofs.v.

   Vocabulary (model/Postings.v, proof/PostingsProofs.v):
     store_wfb st           the store read back from an index reader is well formed (refs strictly
                            increasing, label names/values non-empty, the raw value table lists
                            exactly the stored values)
     oracle_consistent st m what PostingsForMatchers assumes about the compiled regex of m when it
                            decides by the value string (".*", ".+", "") or uses SetMatches — true
                            of Go's regexp; checked on every case by oracle_ok
     series_matches ms s    every matcher of ms matches the value of its label on s, an absent
                            label counting as ""  *)
From Coq Require Import List ZArith NArith Bool Sorted.
From Verif Require Import model.Postings proof.PostingsProofs proof.PostingsMoreProofs.
Import ListNotations.
Open Scope Z_scope.

(* PostingsForMatchers never fails on a non-empty list of matchers with non-empty label names,
   and yields, ref-sorted and duplicate-free, exactly the refs of the stored series that satisfy
   every matcher — for all stores, all matcher lists (=, !=, =~, !~; any regex tables), incl.
   empty-matching regexes, negations on absent labels, set regexes, duplicates on one name. *)
Theorem C16_select_exact : forall st ms,
  store_wfb st = true -> ms <> [] ->
  (forall m, In m ms -> m_name m <> []) ->
  (forall m, In m ms -> oracle_consistent st m) ->
  exists p, postings_for_matchers st ms = Ok p /\
    StronglySorted Z.lt p /\
    (forall r, In r p -> exists s, In s (st_series st) /\ s_ref s = r) /\
    (forall s, In s (st_series st) -> (In (s_ref s) p <-> series_matches ms s)).
Proof. exact pfm_exact. Qed.

(* Select on one store (head or block) over [mint,maxt], sorted or not: returns the label sets
   of exactly the stored series that satisfy every matcher and have a chunk overlapping the
   range — every matching series with a sample in range, and no series that does not match. *)
Theorem C16_select_store_exact : forall st mint maxt sorted ms,
  store_wfb st = true -> ms <> [] ->
  (forall m, In m ms -> m_name m <> []) ->
  (forall m, In m ms -> oracle_consistent st m) ->
  exists l, select_store st mint maxt sorted ms = Ok l /\
    forall ls, In ls l <->
      exists s, In s (st_series st) /\ s_labels s = ls /\ series_matches ms s /\
                existsb (chunk_overlaps mint maxt) (s_chunks s) = true.
Proof. exact select_exact. Qed.

(* Intersect / Merge / Without on ref-sorted postings: sorted results with set semantics. *)
Theorem C16_postings_algebra : forall a b, StronglySorted Z.lt a -> StronglySorted Z.lt b ->
  (StronglySorted Z.lt (isect a b) /\ forall x, In x (isect a b) <-> In x a /\ In x b) /\
  (StronglySorted Z.lt (merge2 a b) /\ forall x, In x (merge2 a b) <-> In x a \/ In x b) /\
  (StronglySorted Z.lt (without a b) /\ forall x, In x (without a b) <-> In x a /\ ~ In x b).
Proof. exact postings_algebra. Qed.

(* "sorted by labels when sorting is requested": Select(sortSeries=true) on a store returns the
   label sets in labels.Compare order (labels_le a b := labels_cmp a b <> Gt, a total preorder
   whose Eq is equality).  No hypothesis on the store or the matchers. *)
Theorem C16_sorted : forall st mint maxt ms l,
  select_store st mint maxt true ms = Ok l -> StronglySorted labels_le l.
Proof. exact select_sorted. Qed.

(* labelValuesWithMatchers (LabelValues with matchers, one store): only values of [name] carried
   by stored series that satisfy every matcher; without a limit, all of them. *)
Theorem C16_label_values : forall st, store_wfb st = true -> forall ms, ms <> [] ->
  (forall m, In m ms -> m_name m <> []) ->
  (forall m, In m ms -> oracle_consistent st m) ->
  forall name, name <> [] -> forall limit,
  exists vs, label_values_with_matchers st name limit ms = Ok vs /\
    (forall v, In v vs -> value_of_matching st ms name v) /\
    (limit = 0 -> forall v, value_of_matching st ms name v -> In v vs).
Proof. exact lvwm_exact. Qed.

(* labelNamesWithMatchers (LabelNames with matchers, one store): exactly the label names of the
   stored series that satisfy every matcher. *)
Theorem C16_label_names : forall st, store_wfb st = true -> forall ms, ms <> [] ->
  (forall m, In m ms -> m_name m <> []) ->
  (forall m, In m ms -> oracle_consistent st m) ->
  exists p, postings_for_matchers st ms = Ok p /\
    forall n, In n (names_of (lookup_all st p)) <->
      exists s, In s (st_series st) /\ series_matches ms s /\ In n (map fst (s_labels s)).
Proof. exact lnwm_exact. Qed.

(* Merging the per-store answers (mergeResults/mergeStrings/truncateToLimit), any number of
   stores, any limit: the recursion terminates within the fuel used by run_query; every entry
   comes from some store's answer; without a limit nothing is lost; with a limit N (and
   per-store answers of at most N entries) at most N entries are returned.
   FULL STATEMENT (not proved here, hence _partial): for sorted duplicate-free per-store
   answers s_i taken from unlimited answers U_i with |s_i| = min(N,|U_i|), the result is sorted,
   duplicate-free and has exactly min(N, |U_1 u ... u U_k|) entries.  Missing: the counting
   argument and sortedness of merge_str; both are checked per case by holds (limit_spec). *)
Theorem C16_limit_partial : forall fuel limit rs, (length rs < fuel)%nat ->
  exists r, merge_results fuel limit rs = Some r /\
    (forall x, In x r -> exists l, In l rs /\ In x l) /\
    (limit <= 0 -> forall l x, In l rs -> In x l -> In x r) /\
    (0 < limit -> (forall l, In l rs -> Z.of_nat (length l) <= limit) -> Z.of_nat (length r) <= limit).
Proof. exact merge_results_props. Qed.

(* Domain note (why C16_select_exact needs ms <> []): with an empty matcher list
   PostingsForMatchers selects nothing (Intersect of no postings), not every series. *)
Theorem C16_select_no_matchers : forall st, postings_for_matchers st [] = Ok [].
Proof. exact pfm_nil. Qed.

(* FINDING (known-findings.txt, key empty-label-name-matcher): matchers on the empty label name
   see the index's pseudo pair ""="" — the faithful model violates the exactness statement as
   soon as the hypothesis "label names are non-empty" of C16_select_exact is dropped. *)
Theorem C16_empty_name_refuted :
  exists st ms p s,
    store_wfb st = true /\ ms <> [] /\
    (forall m, In m ms -> oracle_consistent st m) /\
    postings_for_matchers st ms = Ok p /\
    In s (st_series st) /\ In (s_ref s) p /\ ~ series_matches ms s.
Proof. exact empty_name_refuted. Qed.

Theorem C16_all_key_in_list_refuted :
  exists st ms, store_wfb st = true /\ (forall m, In m ms -> oracle_consistent st m) /\
    postings_for_matchers st ms = Err /\
    exists s, In s (st_series st) /\ series_matches ms s.
Proof. exact all_key_in_list_refuted. Qed.

(* Non-vacuity: a concrete store and the matcher list {a=~".+", b!="1"} meet all hypotheses;
   one of three series is selected, and the time range decides whether Select returns it. *)
Example C16_nonvacuous :
  store_wfb ex_st = true /\ ex_ms <> [] /\
  (forall m, In m ex_ms -> m_name m <> []) /\
  (forall m, In m ex_ms -> oracle_consistent ex_st m) /\
  postings_for_matchers ex_st ex_ms = Ok [2] /\
  select_store ex_st 0 35 true ex_ms = Ok [[(ex_a, ex_y)]] /\
  select_store ex_st 0 29 true ex_ms = Ok [].
Proof. exact ex_nonvacuous. Qed.

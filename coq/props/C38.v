(* props/C38.v — Relabeling follows its documented semantics.
   Model: model/Relabel.v (relabel.relabel / ProcessBuilder over labels.Builder);
   documented semantics: doc_rule / doc_process on canonical label sets; proofs: proof/RelabelProofs.v.
   Regex operations, md5, case mapping, label-name validity are oracles [O : oracle]; the two
   facts assumed about them are explicit premises (expand_literal, default_matches_empty). *)
From Coq Require Import List ZArith NArith Bool Permutation.
From Verif Require Import model.Relabel proof.RelabelProofs.
Import ListNotations.

(* Assumed oracle behaviour (Go regexp): a template without '$' expands to itself; the default
   regex matches the empty string. *)
Definition oracle_ok (O : oracle) : Prop :=
  (forall re t s idx, has_dollar t = false -> o_expand O re t s idx = t) /\
  o_find O default_re_text [] <> None.

(* 1. For every sorted base label set, every chain of valid rules and every oracle, what
   ProcessBuilder leaves in the builder (Labels()) is exactly what the documented semantics
   computes from the label set (empty values removed); drop iff the documentation drops; no
   panic.  labelmap's visiting order is left unspecified by the documentation: the
   implementation's result is the documented result for SOME order of the current labels. *)
Theorem C38_refines_doc : forall O base rs,
  oracle_ok O -> ssorted base = true -> Forall (rule_ok O) rs ->
  match process O rs (new_builder base) with
  | OKeep b' => doc_process_rel O rs (strip_empty base) (DKeep (blabels b'))
  | ODrop _ => doc_process_rel O rs (strip_empty base) DDrop
  | OPanic => False
  end.
Proof.
  intros O base rs [H1 H2] Hs Hok.
  pose proof (process_refines_rel O H1 H2 rs (new_builder base) (strip_empty base)
                (binv_new base Hs) (spec_new base Hs) Hok) as H.
  destruct (process O rs (new_builder base)) as [b'|b'|]; auto.
  destruct H as (Hb' & L' & HL' & Hs').
  rewrite (labels_spec_unique b' (blabels b') L' (blabels_spec b' Hb') Hs'). exact HL'.
Qed.

(* 2. When no labelmap step of the documented run copies two different values to one target
   name (chain_cf), the result is the deterministic documented function doc_process (labelmap
   in name order) of the label set and the rules. *)
Theorem C38_refines_doc_deterministic : forall O base rs,
  oracle_ok O -> ssorted base = true -> Forall (rule_ok O) rs -> chain_cf O rs (strip_empty base) ->
  match process O rs (new_builder base) with
  | OKeep b' => doc_process O rs (strip_empty base) = DKeep (blabels b')
  | ODrop _ => doc_process O rs (strip_empty base) = DDrop
  | OPanic => False
  end.
Proof.
  intros O base rs [H1 H2] Hs Hok Hcf.
  pose proof (process_refines O H1 H2 rs (new_builder base) (strip_empty base)
                (binv_new base Hs) (spec_new base Hs) Hok Hcf) as H.
  destruct (process O rs (new_builder base)) as [b'|b'|]; auto.
  destruct H as (Hb' & L' & HL' & Hs').
  rewrite (labels_spec_unique b' (blabels b') L' (blabels_spec b' Hb') Hs'). exact HL'.
Qed.

(* 3. The result is a sorted label set without empty values or duplicate names — for any rules
   (valid or not) and any oracle. Strict sortedness by name excludes duplicate names. *)
Theorem C38_result_canonical : forall O base rs, ssorted base = true ->
  match process O rs (new_builder base) with
  | OKeep b' | ODrop b' =>
      ssorted (blabels b') = true /\ no_empty (blabels b') = true /\ NoDup (map lname (blabels b'))
  | OPanic => True
  end.
Proof.
  intros O base rs Hs.
  pose proof (process_binv O rs (new_builder base) (binv_new base Hs)) as H.
  destruct (process O rs (new_builder base)) as [b'|b'|]; auto;
    destruct (blabels_spec b' H) as [Hc _]; apply canonical_iff in Hc as [Hc1 Hc2];
    repeat split; auto using ssorted_NoDup.
Qed.

(* 4. Builder.Set/Del/Get are map operations; Labels() is the canonical list with the same
   lookups; Range enumerates exactly the non-empty bindings. *)
Theorem C38_builder_is_a_map : forall b n v m, binv b ->
  bget (bset b n v) m = (if str_eqb m n then v else bget b m) /\
  bget (bdel b n) m = (if str_eqb m n then [] else bget b m) /\
  lget (blabels b) m = bget b m /\
  (forall l, In l (brange b) <-> (bget b (lname l) = lvalue l /\ lvalue l <> [])) /\
  binv (bset b n v) /\ binv (bdel b n).
Proof.
  intros b n v m Hb. split; [apply bget_bset|]. split; [apply bget_bdel|].
  split; [apply (blabels_spec b Hb)|]. split; [intros l; apply brange_in; auto|].
  split; [apply binv_bset|apply binv_bdel]; auto.
Qed.

(* 5. Builder.Del's in-place range/append loop (transcribed with its aliasing and Go bounds
   checks) neither panics nor removes anything else, under the invariant that Set maintains. *)
Theorem C38_del_loop_safe : forall n add, NoDup (map lname add) -> go_del_add n add = Some (remove_add n add).
Proof. exact go_del_add_spec. Qed.

(* 6. A drop stops the chain and leaves the builder untouched by the dropping rule and all
   later rules. *)
Theorem C38_drop_short_circuits : forall O rs1 r rs2 b b1 b2,
  process O rs1 b = OKeep b1 -> relabel O r b1 = ODrop b2 ->
  process O (rs1 ++ r :: rs2) b = ODrop b1 /\ b2 = b1.
Proof.
  intros O rs1 r rs2 b b1 b2 H1 H2. pose proof (relabel_drop_unchanged O r b1 b2 H2) as E. subst b2.
  split; auto. rewrite process_app, H1. simpl. rewrite H2. reflexivity.
Qed.

(* 7. REFUTED as a statement about label SETS: with colliding labelmap targets the outcome is
   not a function of (label set, rule) — it depends on which labels earlier rules touched
   (Builder.Range visits base labels first, then added ones in insertion order).
   Full statement that fails:  forall b1 b2 r, blabels b1 = blabels b2 ->
     labels after relabel r b1 = labels after relabel r b2. *)
Definition ex_oracle : oracle :=
  mkO (fun _ s => match s with 97%N :: _ :: [] => true | _ => false end)   (* regex a(.) anchored *)
      (fun _ _ => Some [0%Z; 0%Z; 0%Z; 0%Z]) (fun _ t _ _ => t)
      (fun _ _ rp => rp) (fun _ => 0%Z) (fun s => s) (fun s => s) (fun _ _ => true).
Definition ex_a1 : str := [97; 49]%N.
Definition ex_a2 : str := [97; 50]%N.
Definition ex_b : str := [98]%N.
Definition ex_labelmap : rule := mkRule LabelMap [] [59%N] [97; 40; 46; 41]%N false 0 [] ex_b false.
Definition ex_b1 : builder := bset (new_builder [(ex_a1, [120%N]); (ex_a2, [121%N])]) ex_a1 [122%N].
Definition ex_b2 : builder := new_builder [(ex_a1, [122%N]); (ex_a2, [121%N])].

Theorem C38_labelmap_set_function_refuted :
  exists O r b1 b2 b1' b2', binv b1 /\ binv b2 /\ blabels b1 = blabels b2 /\
    relabel O r b1 = OKeep b1' /\ relabel O r b2 = OKeep b2' /\ blabels b1' <> blabels b2'.
Proof.
  exists ex_oracle, ex_labelmap, ex_b1, ex_b2.
  eexists. eexists.
  split; [apply binv_bset, binv_new; reflexivity|]. split; [apply binv_new; reflexivity|].
  split; [vm_compute; reflexivity|]. split; [reflexivity|]. split; [reflexivity|].
  vm_compute. intros H. discriminate H.
Qed.

(* ---------------------------------------------------------------- non-vacuity *)
Definition ex_base : list label := [(ex_a1, [120%N]); (ex_a2, [121%N]); (ex_b, [])].
Definition ex_replace : rule := mkRule Replace [] [59%N] default_re_text true 0 [99%N] [122%N] false.
Definition ex_drop : rule := mkRule Keep [ex_a1] [59%N] [97; 40; 46; 41]%N false 0 [] [] false.

Example C38_ex_oracle_ok : oracle_ok ex_oracle.
Proof. split; [reflexivity|discriminate]. Qed.
Example C38_ex_rules_ok : Forall (rule_ok ex_oracle) [ex_replace; ex_labelmap].
Proof. repeat constructor; try discriminate. Qed.
(* the chain really runs: fast path adds c="z", labelmap then copies a1,a2 to b (a collision) *)
Example C38_ex_run :
  match process ex_oracle [ex_replace; ex_labelmap] (new_builder ex_base) with
  | OKeep b' => blabels b' = [(ex_a1, [120%N]); (ex_a2, [121%N]); (ex_b, [121%N]); ([99%N], [122%N])]
  | _ => False
  end.
Proof. vm_compute. reflexivity. Qed.
(* a collision-free chain satisfying chain_cf *)
Example C38_ex_chain_cf : chain_cf ex_oracle [ex_replace] (strip_empty ex_base).
Proof. simpl. split; auto. intros E. discriminate E. Qed.
(* drop: the short-circuit theorem's hypotheses are met *)
Example C38_ex_drop :
  relabel ex_oracle ex_drop (new_builder ex_base) = ODrop (new_builder ex_base).
Proof. reflexivity. Qed.
(* the Del loop's modelled panic is real outside the invariant (duplicate names in b.add) *)
Example C38_ex_del_loop_panics_on_duplicates :
  go_del_add ex_b [(ex_b, [120%N]); (ex_b, [121%N])] = None.
Proof. reflexivity. Qed.

(* props/C24.v — Persistent blocks round-trip and detect corruption.

   Statement (properties.jsonl): any set of series with labels and chunks written into a block
   is read back with identical labels, chunk time ranges, chunk bytes, symbols, postings and
   label values; altering any byte of a stored chunk record or series index entry is reported as
   an error when it is read instead of being returned as data.

   The theorems are about the model of model/BlockFmt.v (index.Writer / Reader, chunks.Writer /
   Reader, encoding.NewDecbuf*At).  They hold for EVERY checksum function [crc] with 32 bit
   results (round trips) that, for the corruption theorems, detects every single-byte alteration
   — the oracle assumption about CRC-32C stated in DESIGN.md §5.  The records are placed at an
   arbitrary position of an arbitrary file ([pre ++ record ++ suf]), which is how the readers
   find them (series ref * 16, chunk ref = segment << 32 | offset).

   Not covered by a theorem (tie only, see notes/C24.md): the byte layout of the TOC and of the
   postings offset table inside a whole index file, the sampled-offset lookups of the Reader,
   segment cutting.  For alterations of the LENGTH PREFIX of a record only the `_partial`
   theorems at the end are provable (see the comment there). *)
From Coq Require Import List NArith ZArith Bool Lia Sorting.Sorted.
From Verif Require Import lib.Int64 lib.Bytes lib.Varint model.BlockFmt proof.BlockFmtProofs.
Import ListNotations.
Open Scope N_scope.

Section C24.
Variable crc : list N -> N.
Hypothesis crc_range : forall l, crc l < 4294967296.

(* A chunk record written by chunks.Writer.writeChunks anywhere in a segment file is read back
   by Reader.ChunkOrIterable with the same encoding and the same bytes: for every valid
   encoding and every payload shorter than 2^35 bytes (the reader only looks at
   MaxVarintLen32 = 5 length bytes). *)
Theorem C24_chunk_record_roundtrip : forall enc data pre suf,
  valid_enc enc = true -> blen data < two35 ->
  chunk_at crc (pre ++ enc_chunk_record crc enc data ++ suf) (blen pre) = ROk (enc, data).
Proof. exact (chunk_record_roundtrip crc crc_range). Qed.

(* A series entry written by index.Writer.AddSeries (labels resolved through the symbol table,
   chunk metas delta-encoded with int64 wrap-around) at a 16-byte aligned position is read back
   by Reader.Series with identical labels and identical (ref, mint, maxt) of every chunk — for
   ALL int64 time stamps and uint64 chunk references, including the extremes where the deltas
   wrap. *)
Theorem C24_series_entry_roundtrip : forall syms ls cs entry pre suf id,
  blen syms <= 4294967296 ->
  enc_series_entry crc syms ls cs = Some entry ->
  Forall cmeta_ok cs ->
  blen entry < two35 ->
  blen pre = id * 16 ->
  series_at crc syms (pre ++ entry ++ suf) id = ROk (ls, cs).
Proof. exact (series_entry_roundtrip crc crc_range). Qed.

(* A postings list written by writePosting/EncodePostingsRaw is read back by
   NewDecbufAt + DecodePostingsRaw as the same list of series references. *)
Theorem C24_postings_roundtrip : forall refs pre suf,
  Forall (fun r => r < 4294967296) refs -> 4 + 4 * blen refs < 4294967296 ->
  postings_at crc (pre ++ enc_postings crc refs ++ suf) (blen pre) = ROk refs.
Proof. exact (postings_roundtrip crc crc_range). Qed.

(* The symbol table: whatever sequence of AddSymbol calls the Writer accepted is read back by
   NewSymbols unchanged ... *)
Theorem C24_symbols_roundtrip : forall l bs pre suf,
  enc_symbols crc l = Some bs ->
  Forall (fun s => blen s < 9223372036854775808) l ->
  blen l < 4294967296 -> blen (enc_symbols_content l) < 4294967296 ->
  read_symbols crc (pre ++ bs ++ suf) (blen pre) = ROk l.
Proof. exact (symbols_roundtrip crc crc_range). Qed.

(* ... and is strictly sorted (bytewise), hence free of duplicates. *)
Theorem C24_symbols_sorted_unique : forall l bs,
  enc_symbols crc l = Some bs -> StronglySorted bs_lt l /\ NoDup l.
Proof. exact (symbols_sorted_unique crc). Qed.

(* ---- corruption: every byte covered by a CRC, and the stored CRC itself *)
Hypothesis crc_detects : forall l pos b,
  bytes_ok l -> b < 256 -> (pos < length l)%nat -> nth pos l 0 <> b -> crc (alter pos b l) <> crc l.

(* Altering any one byte of the encoding byte, the payload or the checksum of a chunk record
   makes ChunkOrIterable of that record return the checksum error — never data. *)
Theorem C24_chunk_corruption_detected : forall enc data pre suf pos b,
  blen data < two35 -> bytes_ok (enc :: data) -> b < 256 ->
  let rec := enc_chunk_record crc enc data in
  (length (put_uvarint (blen data)) <= pos < length rec)%nat ->
  nth pos rec 0 <> b ->
  chunk_at crc (alter (length pre + pos) b (pre ++ rec ++ suf)) (blen pre) = RErr RCrc.
Proof. exact (chunk_corruption_detected crc crc_range crc_detects). Qed.

(* The same for a series entry: any one byte of the entry's content or checksum altered makes
   Reader.Series of that entry return the checksum error, for every content (in particular the
   ones AddSeries writes) and whatever the symbol table. *)
Theorem C24_series_corruption_detected : forall syms content pre suf id pos b,
  blen content < two35 -> bytes_ok content -> b < 256 ->
  blen pre = id * 16 ->
  let rec := frame_uvarint crc content in
  (length (put_uvarint (blen content)) <= pos < length rec)%nat ->
  nth pos rec 0 <> b ->
  series_at crc syms (alter (length pre + pos) b (pre ++ rec ++ suf)) id = RErr RCrc.
Proof. exact (series_corruption_detected crc crc_range crc_detects). Qed.

End C24.

(* ---------------------------------------------------------------- the length prefix
   Full statement wanted by the property: altering a byte of the uvarint length prefix of a
   record makes the read of that record fail (or return the same data).
   It is NOT provable, and false for a 2^-32 fraction of file contents: the altered prefix
   moves the window over which the reader computes the CRC and the four bytes it compares with;
   nothing a checksum guarantees about single-byte alterations applies to two different windows.
   What is proved (for every checksum function, no hypothesis on it at all): whatever the reader
   returns as data after such an alteration comes from a DIFFERENT record extent (another length
   or another start) — it never re-reads the original extent and never returns the original
   extent with other content; so only a checksum coincidence over the other extent lets data
   through.  Missing for the full statement: excluding that coincidence (impossible in general). *)
Theorem C24_chunk_length_prefix_partial : forall crc enc data pre suf pos b r,
  blen data < two35 -> bytes_ok (enc :: data) -> bytes_ok suf -> b < 256 ->
  (pos < length (put_uvarint (blen data)))%nat -> nth pos (put_uvarint (blen data)) 0 <> b ->
  let file' := alter (length pre + pos) b (pre ++ enc_chunk_record crc enc data ++ suf) in
  chunk_at crc file' (blen pre) = ROk r ->
  exists l' n', uvarint5 file' (blen pre) = Some (l', n') /\
                (l', n') <> (blen data, blen (put_uvarint (blen data))).
Proof. exact chunk_length_prefix_partial. Qed.

Theorem C24_series_length_prefix_partial : forall crc syms content pre suf id pos b r,
  blen content < two35 -> bytes_ok content -> bytes_ok suf -> b < 256 ->
  blen pre = id * 16 ->
  (pos < length (put_uvarint (blen content)))%nat -> nth pos (put_uvarint (blen content)) 0 <> b ->
  let file' := alter (length pre + pos) b (pre ++ frame_uvarint crc content ++ suf) in
  series_at crc syms file' id = ROk r ->
  exists l' n', uvarint5 file' (blen pre) = Some (l', n') /\
                (l', n') <> (blen content, blen (put_uvarint (blen content))).
Proof. exact series_length_prefix_partial. Qed.

(* an altered length prefix in a concrete segment: 3 -> 4 makes the record reach beyond the file *)
Example C24_length_prefix_example :
  let seg := seg_header ++ enc_chunk_record crc32c 1 [10; 20; 30] in
  chunk_at crc32c (alter 8 4 seg) 8 = RErr RSize /\ chunk_at crc32c (alter 8 2 seg) 8 = RErr RCrc /\
  chunk_at crc32c (alter 8 131 seg) 8 = RErr RSize.
Proof. vm_compute. auto. Qed.

(* ---------------------------------------------------------------- LabelNamesFor (refuted)
   Full statement wanted: a read API that is handed a damaged postings list reports the error.
   index.Reader.LabelNamesFor iterates `for postings.Next()` and never calls postings.Err(); the
   model takes (ids delivered before the failure, the failure) and the failure is not used.
   On the real code (harness, shape labelnames-matchers-ignores-postings-error): one byte of the
   postings list of a="b" altered -> block.Index().LabelNames(a=~".+") returns [] and no error
   (PostingsForLabelMatching reports the checksum error lazily through the iterator, PostingsForMatchers
   passes the iterator on, labelNamesWithMatchers hands it to LabelNamesFor). *)
Theorem C24_label_names_for_ignores_failure : forall crc r ids e,
  label_names_for crc r ids (Some e) = label_names_for crc r ids None.
Proof. exact label_names_for_ignores_failure. Qed.

Theorem C24_label_names_for_refuted :
  exists crc r ids e res, label_names_for crc r ids (Some e) = ROk res.
Proof. exact label_names_for_refuted. Qed.

(* ---------------------------------------------------------------- non-vacuity *)
(* the two checksum hypotheses are jointly satisfiable: the byte sum mod 2^32 has both *)
Example C24_hypotheses_satisfiable :
  (forall l, sum32 l < 4294967296) /\
  (forall l pos b, bytes_ok l -> b < 256 -> (pos < length l)%nat -> nth pos l 0 <> b ->
                   sum32 (alter pos b l) <> sum32 l).
Proof. split; [exact sum32_range | exact sum32_detects]. Qed.

(* concrete records under the executable CRC-32C: a chunk record (XOR encoding, 3 payload
   bytes) behind a segment header, read back; its payload byte 1 altered: checksum error *)
Example C24_chunk_example :
  let seg := seg_header ++ enc_chunk_record crc32c 1 [10; 20; 30] ++ [7; 7] in
  chunk_at crc32c seg 8 = ROk (1, [10; 20; 30]) /\
  chunk_at crc32c (alter (8 + 3) 21 seg) 8 = RErr RCrc /\
  chunk_at crc32c (alter (8 + 6) 0 seg) 8 = RErr RCrc.
Proof. vm_compute. auto. Qed.

(* a series entry with two labels and three chunks whose times span the whole int64 range *)
Example C24_series_example :
  let syms := [[97]; [98]; [99; 99]] in
  let ls := [([97], [98]); ([98], [99; 99])] in
  let cs := [mkCM 8 (-9223372036854775808) (-5); mkCM 4294967304 0 0; mkCM 18446744073709551615 9223372036854775807 9223372036854775807] in
  match enc_series_entry crc32c syms ls cs with
  | Some e =>
      series_at crc32c syms (repeat 0 32 ++ e ++ [1; 2; 3]) 2 = ROk (ls, cs) /\
      series_at crc32c syms (alter (32 + 2) 9 (repeat 0 32 ++ e ++ [1; 2; 3])) 2 = RErr RCrc
  | None => False
  end.
Proof. vm_compute. auto. Qed.

Example C24_symbols_example :
  enc_symbols crc32c [[97]; [97; 0]; [98]] <> None /\ enc_symbols crc32c [[98]; [97]] = None /\
  enc_symbols crc32c [[97]; [97]] = None.
Proof. vm_compute. repeat split; discriminate. Qed.

(* props/C18.v — property theorems for C18: query sharding partitions series deterministically.

   Property text: "With query sharding enabled in the storage, for any shard count n of at
   least 1, selecting shard indexes 0 to n-1 returns pairwise disjoint sets of series whose
   union is the unsharded result, for head and block data alike. A series' shard depends only
   on its label set and is the same in every label-set build variant and across restarts."

   xxhash is an oracle ([xxh_sum] = xxhash.Sum64, [xxh_stream] = Digest fed with a sequence of
   writes); the only assumption about it (needed for the build-variant statement alone) is
   that streaming equals the one-shot sum of the concatenated writes. *)
From Coq Require Import List NArith ZArith Bool Permutation.
From Verif Require Import lib.Bytes model.Sharding proof.ShardingProofs.
Import ListNotations.
Open Scope Z_scope.

(* ------------------------------------------------------------------ partition *)
(* Statement for one index reader [s] (head or block), any postings list [p] produced by the
   matchers, any chunk-visibility predicate [vis] and any n >= 1:
   U = the unsharded Select result, S i = the result of Select with ShardIndex i, ShardCount n.
   - every shard query succeeds and S i is U filtered by "StableHash(labels) mod n = i";
   - S 0 ++ ... ++ S (n-1) is a permutation of U (union = U, nothing twice);
   - S i and S j have no element in common for i <> j;
   - x is in U iff it is in some S i with 0 <= i < n;
   - an index outside 0..n-1 selects nothing. *)
Definition partition_statement (xxh_sum : bytes -> Z) (s : source) (vis : Z -> bool) (p : list Z) (n : nat) : Prop :=
  let U := series_set s vis p in
  let S := fun i => filter (shard_pred xxh_sum i (Z.of_nat n)) U in
  select xxh_sum s vis p no_shard = SOk U /\
  (forall i, select xxh_sum s vis p (mkHints i (Z.of_nat n)) = SOk (S i)) /\
  Permutation (concat (map S (range n))) U /\
  (forall i j x, i <> j -> In x (S i) -> ~ In x (S j)) /\
  (forall x, In x U <-> exists i, 0 <= i < Z.of_nat n /\ In x (S i)) /\
  (forall i, ~ (0 <= i < Z.of_nat n) -> S i = []) /\
  (NoDup U -> forall i, NoDup (S i)).

(* head: any head reachable from the empty head with sharding enabled by any sequence of
   series creations, WAL/snapshot replays (restart) and series garbage collections *)
Theorem C18_partition_head :
  forall xxh_sum (ops : list head_op) vis p (n : nat), (1 <= n)%nat ->
    partition_statement xxh_sum (SrcHead (run_head xxh_sum true ops)) vis p n.
Proof. exact partition_head. Qed.

(* block: any series table, any postings list whose references resolve in it *)
Theorem C18_partition_block :
  forall xxh_sum (b : block) vis p (n : nat), (1 <= n)%nat ->
    (forall r, In r p -> block_series b r <> None) ->
    partition_statement xxh_sum (SrcBlock b) vis p n.
Proof. exact partition_block. Qed.

(* ------------------------------------------------------------------ only the label set matters *)
(* Two index readers (a head with any history — fresh, restarted, other refs — or a block),
   two postings lists, same n: if the same label set is returned for shard i by one and for
   shard j by the other, then i = j = xxh(stable_bytes labels) mod n. *)
Theorem C18_depends_only_on_labels :
  forall xxh_sum s1 s2 vis1 vis2 p1 p2 n i j r1 r2 ls l1 l2,
    1 <= n -> src_ok xxh_sum s1 p1 -> src_ok xxh_sum s2 p2 ->
    select xxh_sum s1 vis1 p1 (mkHints i n) = SOk l1 ->
    select xxh_sum s2 vis2 p2 (mkHints j n) = SOk l2 ->
    In (r1, ls) l1 -> In (r2, ls) l2 ->
    i = shard xxh_sum ls n /\ j = shard xxh_sum ls n.
Proof. exact depends_only_on_labels. Qed.

(* the sources the previous theorem talks about: every reachable sharding-enabled head *)
Theorem C18_reachable_head_ok :
  forall xxh_sum ops p, src_ok xxh_sum (SrcHead (run_head xxh_sum true ops)) p.
Proof. exact reachable_head_ok. Qed.

(* the cached memSeries.shardHash of every series of every reachable head (restarts included)
   is the stable hash of its label set *)
Theorem C18_head_caches_stable_hash :
  forall xxh_sum en ops s, In s (h_series (run_head xxh_sum en ops)) ->
    ms_shardHash s = if en then stable_hash xxh_sum (ms_lset s) else 0.
Proof. exact head_caches_stable_hash. Qed.

(* with sharding disabled in the head, a sharded Select fails instead of returning data *)
Theorem C18_disabled_head_errors :
  forall xxh_sum ops vis p idx n, 1 <= n ->
    select xxh_sum (SrcHead (run_head xxh_sum false ops)) vis p (mkHints idx n) = SErrDisabled.
Proof. exact disabled_head_errors. Qed.

(* ------------------------------------------------------------------ build variants *)
(* The three StableHash implementations feed the same byte string to xxhash — the reference
   serialisation name 0xff value 0xff ... — and take the streaming (> 1 KB) path in exactly
   the same situations; with a digest that equals the one-shot sum they return equal values. *)
Theorem C18_variants_equal :
  forall ls v,
    feed_bytes (feed_of v ls) = stable_bytes ls /\
    is_stream (feed_of v ls) = (1024 <=? len (stable_bytes ls)).
Proof. exact variants_equal. Qed.

Theorem C18_variants_hash_equal :
  forall xxh_sum xxh_stream,
    (forall ws, xxh_stream ws = xxh_sum (concat ws)) ->
    forall ls v1 v2,
      stable_hash_v xxh_sum xxh_stream v1 ls = stable_hash_v xxh_sum xxh_stream v2 ls /\
      stable_hash_v xxh_sum xxh_stream v1 ls = stable_hash xxh_sum ls.
Proof. exact variants_hash_equal. Qed.

(* stringlabels keeps a label set as size-prefixed bytes and StableHash walks that encoding:
   decoding the encoding of any label list (sizes below 2^24, the encoder's limit) gives the
   list back, so the hash over Labels.data is the hash over the labels *)
Theorem C18_stringlabels_roundtrip :
  forall ls,
    Forall (fun v => len (l_name v) < 16777216 /\ len (l_value v) < 16777216) ls ->
    sl_decode (length (sl_encode ls)) (sl_encode ls) = Some ls /\
    feed_string_data (sl_encode ls) = Some (feed_of VString ls).
Proof.
  intros ls H. split; [apply sl_decode_encode; [exact H|apply sl_encode_length]|exact (feed_string_data_encode ls H)].
Qed.

(* ------------------------------------------------------------------ non-vacuity *)
Definition ex_sum (b : bytes) : Z := Z.of_N (fold_left N.add b 0%N).   (* a toy hash *)
Definition ex_l (v : N) : labels := [mkL [110%N] [v]].
Definition ex_ops : list head_op := [OpCreate (ex_l 1); OpCreate (ex_l 2); OpReplay 9 (ex_l 3); OpCreate (ex_l 4); OpGC 2].
Definition ex_head := run_head ex_sum true ex_ops.

Example C18_ex_unsharded :
  select ex_sum (SrcHead ex_head) (fun _ => true) [1; 2; 9; 10; 77] no_shard
  = SOk [(1, ex_l 1); (9, ex_l 3); (10, ex_l 4)].
Proof. vm_compute. reflexivity. Qed.

Example C18_ex_shards :
  select ex_sum (SrcHead ex_head) (fun _ => true) [1; 2; 9; 10; 77] (mkHints 0 2) = SOk [(10, ex_l 4)] /\
  select ex_sum (SrcHead ex_head) (fun _ => true) [1; 2; 9; 10; 77] (mkHints 1 2) = SOk [(1, ex_l 1); (9, ex_l 3)] /\
  select ex_sum (SrcBlock [(5, ex_l 4); (6, ex_l 3)]) (fun _ => true) [5; 6] (mkHints 0 2) = SOk [(5, ex_l 4)].
Proof. vm_compute. repeat split. Qed.

(* a label set beyond 1 KB takes the streaming path in all three variants *)
Example C18_ex_slow_path :
  let ls := [mkL [97%N] (repeat 120%N 600); mkL [98%N] (repeat 121%N 600); mkL [99%N] [1%N]] in
  map (fun v => is_stream (feed_of v ls)) [VString; VSlice; VDedupe] = [true; true; true] /\
  map (fun v => is_stream (feed_of v (ex_l 1))) [VString; VSlice; VDedupe] = [false; false; false].
Proof. vm_compute. split; reflexivity. Qed.

(* a value of 300 bytes uses the 4-byte size prefix of the stringlabels encoding *)
Example C18_ex_roundtrip :
  let ls := [mkL [97%N] (repeat 120%N 300); mkL [98%N] []] in
  firstn 7 (sl_encode ls) = [1; 97; 255; 44; 1; 0; 120]%N /\
  sl_decode (length (sl_encode ls)) (sl_encode ls) = Some ls.
Proof. vm_compute. split; reflexivity. Qed.

(* props/C27.v — property theorems for C27 (a range query equals instant queries at each step).
   Nothing but statements; the proofs are in proof/PromqlRangeProofs.v.  The model
   (model/PromqlRange.v) transcribes storage.BufferedSeriesIterator / sampleRing,
   storage.MemoizedSeriesIterator, evaluator.matrixIterSlice, vectorSelectorSingle, the step
   loops of evalSeries and of range-function calls, subqueryTimeRange and PreprocessExpr. *)
From Coq Require Import List ZArith Lia.
From Verif Require Import model.PromqlRange proof.PromqlRangeProofs.
Import ListNotations.
Open Scope Z_scope.

(* The window that matrixIterSlice builds incrementally — retaining the overlap with the
   previous step's window, taking only newer points from the buffered iterator whose look-back
   is lowered to min(range, step) by ReduceDelta after the first non-empty window — is at every
   step exactly the non-stale samples in (maxt - range, maxt]: for any series ordered by
   timestamp (irregular spacing, gaps, staleness markers), any offset, any positive range and
   step, any number of steps. *)
Theorem C27_window_incremental : forall s range offset interval n start,
  sortedT s -> 0 < range -> 0 < interval ->
  range_windows s range offset interval true n start =
  map (fun k => let maxt := start + Z.of_nat k * interval - offset in
                window_spec s (maxt - range) maxt) (seq 0 n).
Proof. exact window_incremental. Qed.

(* vectorSelectorSingle driven through the steps of a range query on ONE memoized iterator
   (delta = lookbackDelta in evalSeries, lookbackDelta - 1 in the timestamp() path) returns at
   every step what a fresh selection returns: the latest sample at or before the reference
   time if it is newer than the lookback and not a staleness marker.  interval = 0 covers the
   repeated seeks of an @-modified selector. *)
Theorem C27_selector_memo : forall lookback delta s offset interval n start,
  0 < lookback -> lookback - 1 <= delta -> 0 <= interval -> sortedT s ->
  sel_steps lookback delta s offset interval n start =
  map (fun k => select_spec lookback s (start + Z.of_nat k * interval - offset)) (seq 0 n).
Proof. exact selector_memo. Qed.

(* For every expression e of the modelled fragment (selectors and range functions over matrix
   selectors with offset and @, range functions over subqueries e1[range:step] offset o with an
   arbitrary inner expression, pointwise functions of 0/1/2 arguments — aggregations with and
   without parameter, binary operators, instant functions, literals, time()), the range
   evaluation of the preprocessed expression (step-invariant parts wrapped and evaluated once,
   memoized / buffered iterators carried through the steps, the subquery evaluated once on its
   own aligned grid) equals, at every step, the direct instant evaluation at that step's time.
   Window functions and pointwise functions are arbitrary; the only assumptions are the ones
   PreprocessExpr itself relies on: functions outside AtModifierUnsafeFunctions do not look at
   the evaluation time.  okexpr: positive ranges and subquery steps, an @-modified range
   selector only under an at-modifier-safe function (i.e. not predict_linear), source
   expressions contain no StepInvariantExpr.  Not in the fragment: @ on a subquery itself. *)
Theorem C27_range_eq_instant :
  forall (Sel F G L : Type) (matches : Sel -> L -> bool) (l_eqb : L -> L -> bool) (universe : list L)
         (wf : F -> Z -> Z -> Z -> list sample -> option Z)
         (pf : G -> Z -> list (list (L * Z)) -> list (L * Z))
         (safe : G -> bool) (safeF : F -> bool) (lookback : Z),
  (forall g, safe g = true -> forall t t' args, pf g t args = pf g t' args) ->
  (forall f, safeF f = true -> forall mint maxt t t' w, wf f mint maxt t w = wf f mint maxt t' w) ->
  0 < lookback ->
  forall d e start interval n k,
  wf_data L d -> okexpr Sel F G safeF e -> 0 < interval -> (k < n)%nat ->
  nth k (eval_range Sel F G L matches l_eqb universe wf pf lookback d
           (preprocess Sel F G safe safeF e) start interval n) [] =
  eval_instant Sel F G L matches l_eqb universe wf pf lookback d e (start + Z.of_nat k * interval).
Proof. exact range_eq_instant. Qed.

(* An instant query with `offset dl` on every outermost selector / subquery at time t equals
   the query without it at t - dl, when there is no @ modifier at that level and no function
   of the evaluation time (subqueries included). *)
Theorem C27_offset_shift :
  forall (Sel F G L : Type) (matches : Sel -> L -> bool) (l_eqb : L -> L -> bool) (universe : list L)
         (wf : F -> Z -> Z -> Z -> list sample -> option Z)
         (pf : G -> Z -> list (list (L * Z)) -> list (L * Z))
         (safe : G -> bool) (safeF : F -> bool) (lookback : Z),
  (forall g, safe g = true -> forall t t' args, pf g t args = pf g t' args) ->
  (forall f, safeF f = true -> forall mint maxt t t' w, wf f mint maxt t w = wf f mint maxt t' w) ->
  forall d e dl t, shiftable Sel F G safe safeF e ->
  eval_instant Sel F G L matches l_eqb universe wf pf lookback d (shift Sel F G dl e) t =
  eval_instant Sel F G L matches l_eqb universe wf pf lookback d e (t - dl).
Proof. exact offset_shift. Qed.

(* ---- non-vacuity ----------------------------------------------------------------------------- *)
Definition ex_series : list sample :=
  [mkS 1000 1; mkS 2500 2; mkS 3000 STALE; mkS 4700 4; mkS 9000 5; mkS 9001 6].

Example C27_nonvacuous_sorted : sortedT ex_series.
Proof. unfold ex_series. repeat (constructor; [|repeat constructor; simpl; lia]). constructor. Qed.

(* overlapping windows (step < range): points are retained, dropped and added; the stale
   marker never appears; the last window is empty *)
Example C27_nonvacuous_windows :
  range_windows ex_series 2000 0 800 true 5 2600 =
  [[mkS 1000 1; mkS 2500 2]; [mkS 2500 2]; [mkS 2500 2]; [mkS 4700 4]; [mkS 4700 4]].
Proof. vm_compute. reflexivity. Qed.

(* a selection that is absent at a stale marker, present before it and after the next sample *)
Example C27_nonvacuous_select :
  sel_steps 3000 3000 ex_series 0 1100 4 2600 =
  [Some (mkS 2500 2); None; Some (mkS 4700 4); Some (mkS 4700 4)].
Proof. vm_compute. reflexivity. Qed.

(* a subquery whose child grid is shared by the steps: sum of the selected values over
   (p)[2000:700] at 3 steps, evaluated by the range algorithm *)
Example C27_nonvacuous_subquery :
  let wfs := fun (_ : unit) (_ _ _ : Z) (w : list sample) => Some (fold_left (fun a p => a + sV p) w 0) in
  let e := ESub unit unit unit tt (EVec unit unit unit tt 0 None) 2000 700 0 in
  okexpr unit unit unit (fun _ => true) e /\
  eval_range unit unit unit Z (fun _ _ => true) Z.eqb [0] wfs (fun _ _ _ => []) 3000 [(0, ex_series)]
    (preprocess unit unit unit (fun _ => true) (fun _ => true) e) 2600 800 3 =
  [[(0, 2)]; [(0, 3)]; [(0, 2)]].
Proof. split; [simpl; repeat split; lia|vm_compute; reflexivity]. Qed.

(* an expression of the proved fragment with a wrapped step-invariant part:
   g2 (f(m[2000] offset 100)) (m @ 2600): the second argument is wrapped, the whole is not *)
Example C27_nonvacuous_expr :
  let e := EP2 unit unit unit tt (ECall unit unit unit tt tt 2000 100 None)
                                 (EVec unit unit unit tt 0 (Some 2600)) in
  okexpr unit unit unit (fun _ => true) e /\
  preprocess unit unit unit (fun _ => true) (fun _ => true) e =
    EP2 unit unit unit tt (ECall unit unit unit tt tt 2000 100 None)
                          (EStepInv unit unit unit (EVec unit unit unit tt 0 (Some 2600))).
Proof. simpl. split; [split; [split; [lia|congruence]|exact I]|reflexivity]. Qed.

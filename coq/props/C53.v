(* props/C53.v — property theorems for C53 (a read-only open returns what a read-write open
   would, and changes nothing).  Nothing but statements; proofs are in proof/ReadOnlyProofs.v.
   The model is model/ReadOnly.v: a data directory = its blocks (any list: any order, overlaps,
   any hints) + the oracle [init] (Head.Init as a function of the cut-off it is given);
   [oracle_ok init] = Head.MinTime() is an int64 and a lower bound of the loaded in-order samples;
   [tomb_ok init] = no replayed tombstone ending below the loaded in-order minimum covers an
   out-of-order head sample.

   Full statement of the property (for the record; FALSE of the code as it is, see the
   _refuted theorems):
     forall init bs mint maxt sel, oracle_ok init ->
       query (open_ro init bs maxt) mint maxt sel = query (open_rw init bs) mint maxt sel
     forall init bs sel maxt, cutoff bs <= maxt ->
       flush_content (flush_wal init bs sel) = head_data (open_ro init bs maxt) sel *)
From Coq Require Import List ZArith Lia.
From Verif Require Import lib.Int64 model.ReadOnly proof.ReadOnlyProofs.
Import ListNotations.
Open Scope Z_scope.

(* Same results, for EVERY directory (every list of blocks, every head content) and every query
   whose maxt is not below the cut-off, i.e. whenever the read-only open loads the head at all.
   _partial: the case maxt < cutoff is missing - it is false, see C53_same_results_refuted; and
   tomb_ok is assumed - without it the statement is false, see C53_same_results_tomb_refuted. *)
Theorem C53_same_results_partial :
  forall (init : Z -> hdata) (bs : list blockd) (mint maxt : Z) (sel : list sid),
    oracle_ok init -> tomb_ok init -> cutoff bs <= maxt ->
    query (open_ro init bs maxt) mint maxt sel = query (open_rw init bs) mint maxt sel.
Proof. exact same_results. Qed.

(* Below the cut-off the read-only open consults blocks only; the results agree exactly when
   whatever the read-write head contributes to the query is also in a block. *)
Theorem C53_same_results_below_cutoff_partial :
  forall (init : Z -> hdata) (bs : list blockd) (mint maxt : Z) (sel : list sid),
    maxt < cutoff bs ->
    (forall i t, In i sel -> mint <= t <= maxt ->
       In t (head_cands (open_rw init bs) mint maxt i) -> In t (block_cands bs mint maxt i)) ->
    query (open_ro init bs maxt) mint maxt sel = query (open_rw init bs) mint maxt sel.
Proof. exact same_results_below. Qed.

(* The unrestricted statement is false of the code as it is (finding
   ro-skips-head-when-blocks-cover-maxt): an acknowledged out-of-order sample that lives only in
   the WBL is not returned by a read-only querier whose maxt lies below an in-order block's
   MaxTime.  100, 200, 1700, 1800; Compact; out-of-order 500; Close; Querier(0, 900). *)
Theorem C53_same_results_refuted :
  exists init bs mint maxt sel, oracle_ok init /\
    query (open_ro init bs maxt) mint maxt sel <> query (open_rw init bs) mint maxt sel.
Proof. exact same_results_refuted. Qed.

(* finding ro-drops-head-tombstone-below-head-mintime: even where the head is loaded, the
   read-only open's Head.Init drops (gc: TruncateBefore(Head.MinTime())) a replayed tombstone that
   ends below the loaded in-order minimum, while tsdb.Open's head (MinTime = cut-off after
   Head.Truncate) keeps it; a deleted out-of-order sample still sitting in a head chunk file is
   returned by the read-only querier only. *)
Theorem C53_same_results_tomb_refuted :
  exists init bs mint maxt sel, oracle_ok init /\ cutoff bs <= maxt /\
    query (open_ro init bs maxt) mint maxt sel <> query (open_rw init bs) mint maxt sel.
Proof. exact same_results_tomb_refuted. Qed.

(* The rule before "fix: tsdb: read-only DB hides WAL samples below an out-of-order block's max
   time" (cut-off = MaxTime of the last block by MinTime) violated the statement even where the
   head is loaded.  100, 200; out-of-order 150; CompactOOOHead; Close (block range 1000). *)
Theorem C53_same_results_old_refuted :
  exists init bs mint maxt sel, oracle_ok init /\ cutoff bs <= maxt /\
    query (open_ro_old init bs maxt) mint maxt sel <> query (open_rw init bs) mint maxt sel.
Proof. exact same_results_old_refuted. Qed.

(* The cut-off of the read-only open (blocks sorted by MinTime) is the cut-off of the read-write
   open (blocks in directory order): the highest MaxTime among the blocks without a hint. *)
Theorem C53_cutoff_order_independent :
  forall bs, cutoff (sort_blocks bs) = cutoff bs
    /\ (forall b, In b bs -> b_hint b = false -> b_maxt b <= cutoff bs)
    /\ (cutoff bs = minInt64 \/ exists b, In b bs /\ b_hint b = false /\ b_maxt b = cutoff bs).
Proof. intros bs. split; [apply cutoff_sort|apply cutoff_spec]. Qed.

(* FlushWAL writes exactly the head data - _partial: only when the last block of the sorted list
   gives the same cut-off as the opens use, the head holds no out-of-order data and no in-order
   sample below the cut-off; the first two restrictions are findings (next two theorems). *)
Theorem C53_flush_exact_partial :
  forall (init : Z -> hdata) (bs : list blockd) (sel : list sid) (maxt : Z),
    cutoff_old bs = cutoff bs -> cutoff bs <= maxt ->
    (forall i, get (h_ooo (init (cutoff bs))) i = []) ->
    (forall i t, In t (get (h_io (init (cutoff bs))) i) ->
         cutoff bs <= t /\ h_min (init (cutoff bs)) <= t <= h_max (init (cutoff bs))) ->
    flush_content (flush_wal init bs sel) = head_data (open_ro init bs maxt) sel.
Proof. exact flush_exact_partial. Qed.

(* finding flushwal-cutoff-from-last-block: FlushWAL still takes the cut-off from the last block,
   whatever its hints.  100, 200; out-of-order 150; CompactOOOHead; Close; FlushWAL writes nothing. *)
Theorem C53_flush_refuted_old_cutoff :
  exists init bs sel, oracle_ok init /\ (forall i, get (h_ooo (init (cutoff bs))) i = []) /\
    flush_content (flush_wal init bs sel) <> head_data (open_ro init bs maxInt64) sel.
Proof. exact flush_refuted_old_cutoff. Qed.

(* finding flushwal-omits-out-of-order-head-data: the block is written from the in-order
   RangeHead only.  100, 200, 300; out-of-order 150; Close; the flushed block lacks 150. *)
Theorem C53_flush_refuted_ooo :
  exists init bs sel, cutoff_old bs = cutoff bs /\
    flush_content (flush_wal init bs sel) <> head_data (open_ro init bs maxInt64) sel.
Proof. exact flush_refuted_ooo. Qed.

(* The file system trace of a read-only session (MkdirTemp sandbox; hard links of the head chunk
   files; whatever the replay creates or removes below the sandbox; RemoveAll sandbox), for every
   file system in which the sandbox name is fresh, wherever the sandbox lies (inside the data
   directory or not): at EVERY prefix of the trace every pre-existing path still resolves to the
   same node and every pre-existing inode has its content; after the whole trace the tree is
   the original tree. *)
Theorem C53_fs_unchanged :
  forall (f0 : fs) (dir sb : path) (has_cd : bool) (files : list Z)
         (created : list (Z * Z * Z)) (removed : list Z),
    fresh sb f0 ->
    let tr := ro_trace dir sb has_cd files created removed in
    (forall k f, run f0 (firstn k tr) = Some f ->
       (forall p n, lookup (f_tree f0) p = Some n -> lookup (f_tree f) p = Some n)
       /\ (forall ino h, content (f_data f0) ino = Some h -> content (f_data f) ino = Some h))
    /\ (forall f, run f0 tr = Some f ->
          (forall p, lookup (f_tree f) p = lookup (f_tree f0) p)
          /\ (forall ino h, content (f_data f0) ino = Some h -> content (f_data f) ino = Some h)).
Proof. exact fs_unchanged. Qed.

(* ---- non-vacuity ---- *)
(* a directory with an in-order block, an out-of-order block sorting last and overlapping it,
   in-order and out-of-order head data: hypotheses of C53_same_results_partial hold and the
   answer is not trivial *)
Definition ex_blocks : list blockd :=
  [mkB 0 1000 true [(0, [150; 700])]; mkB (-1000) 0 false [(0, [-900; -5]); (1, [-300])]; mkB 500 2000 true [(1, [1500])]].
Definition ex_init : Z -> hdata :=
  fun mv => mkH 100 2600 [(0, [100; 200; 2600]); (1, [2100])] [(1, [40])] 40 40 [(0, (160, 250)); (1, (-20, 30))].

Example C53_ex_same_results :
  oracle_ok ex_init /\ tomb_ok ex_init /\ cutoff ex_blocks = 0 /\ cutoff_old ex_blocks = 2000
  /\ query (open_ro ex_init ex_blocks 300) (-950) 300 [0; 1]
     = [(0, [-900; -5; 100; 150]); (1, [-300; 40])]
  /\ query (open_rw ex_init ex_blocks) (-950) 300 [0; 1]
     = [(0, [-900; -5; 100; 150]); (1, [-300; 40])].
Proof.
  split; [|split; [|vm_compute; repeat split; reflexivity]].
  - intros mv. split; [vm_compute; discriminate|].
    intros i t. unfold ex_init; cbn [h_io h_min get flat_map fst snd].
    destruct (0 =? i); destruct (1 =? i); simpl; intuition lia.
  - intros mv i a b t Hin Hb Ht Hc. unfold ex_init in *; cbn [h_tomb h_min h_ooo] in *.
    simpl in Hin. destruct Hin as [E|[E|[]]]; inversion E; subst; [lia|].
    simpl in Ht. destruct Ht as [<-|[]]. lia.
Qed.

(* hypotheses of C53_flush_exact_partial hold in a non-trivial state *)
Definition ex2_blocks : list blockd := [mkB 0 1000 false [(0, [100; 900])]].
Definition ex2_init : Z -> hdata := fun mv => mkH 1200 1800 [(0, [1200; 1800])] [] maxInt64 minInt64 [].
Example C53_ex_flush :
  cutoff_old ex2_blocks = cutoff ex2_blocks
  /\ flush_wal ex2_init ex2_blocks [0] = Some (1200, 1801, [(0, [1200; 1800])])
  /\ head_data (open_ro ex2_init ex2_blocks 5000) [0] = [(0, [1200; 1800])].
Proof. vm_compute. repeat split; reflexivity. Qed.

(* a session on a tree with two head chunk files, sandbox inside the data directory (2 = the
   data directory, 1 = chunks_head, 7 = the sandbox): the trace runs, links share the inode,
   one new chunk file is cut and one link removed in the sandbox, and the hypotheses of
   C53_fs_unchanged hold *)
Definition ex_fs : fs :=
  mkFS [([2], NDir); ([2; 1], NDir); ([2; 1; 3], NFile 10); ([2; 1; 4], NFile 11); ([2; 5], NDir); ([2; 5; 6], NFile 12)]
       [(10, 111); (11, 222); (12, 333)].
Example C53_ex_fs :
  (forall e, In e (f_tree ex_fs) -> under [2; 7] (fst e) = false)
  /\ (exists f, run ex_fs (ro_open_ops [2] [2; 7] true [3; 4] [(8, 13, 444)] [4]) = Some f
        /\ lookup (f_tree f) [2; 7; 1; 3] = Some (NFile 10)
        /\ lookup (f_tree f) [2; 7; 1; 4] = None
        /\ lookup (f_tree f) [2; 7; 1; 8] = Some (NFile 13)
        /\ lookup (f_tree f) [2; 1; 4] = Some (NFile 11))
  /\ (exists f, run ex_fs (ro_trace [2] [2; 7] true [3; 4] [(8, 13, 444)] [4]) = Some f
        /\ f_tree f = f_tree ex_fs).
Proof.
  split; [|split].
  - intros e He. simpl in He. repeat (destruct He as [<-|He]; [reflexivity|]). inversion He.
  - eexists. vm_compute. repeat split; reflexivity.
  - eexists. vm_compute. repeat split; reflexivity.
Qed.

(* props/C02.v — property theorems for C02 (append admission and commit apply the documented
   ordering rules), about the model of tsdb/head_append.go, head_append_v2.go and ooo_head.go in
   model/Appendable.v. Statements only; proofs are in proof/AppendableProofs.v. *)
From Coq Require Import List ZArith Bool Lia.
From Verif Require Import lib.Int64 model.Appendable proof.AppendableProofs proof.AppendableSeq.
Import ListNotations.
Open Scope Z_scope.

(* The admission decision (memSeries.appendable / appendableHistogram / appendableFloatHistogram)
   is exactly the documented table over: t against the appender's minValidTime, t against the
   series' newest in-order sample, bit-identity of the value, and the out-of-order window taken
   from the appender's snapshot (`table` has one constructor per row: fresh series, newer, exact
   duplicate, different value at the newest timestamp, out of order accepted, too old,
   out of bounds, out of order rejected). *)
Theorem C02_decision_table : forall last t v sn r,
  appendable last t v sn = r <-> table last t v sn r.
Proof. exact decision_table. Qed.

(* Re-appending the newest in-order sample with a bit-identical value is accepted and is a no-op:
   per sample (whatever the window), and as a transaction (the head is unchanged). *)
Theorem C02_exact_dup_noop : forall c sn h sid t v,
  head_wf h -> s_last (h_series h sid) = Some (t, v) -> sn_minValid sn <= t ->
  appendable (s_last (h_series h sid)) t v sn = (false, None) /\
  commit_sample (c_oooCap c) sn (h_series h sid) t v = (h_series h sid, None) /\
  head_eq (commit c h (appender_of sn [(sid, t, v)])) h.
Proof.
  intros c sn h sid t v Hw El Hm.
  destruct (exact_dup_sample (c_oooCap c) sn (h_series h sid) t v El Hm) as [A B].
  split; [exact A|]. split; [exact B|]. apply exact_dup_commit; assumption.
Qed.

(* A rejected or rolled-back sample is never stored: an append (v1 or v2, any options) never
   touches the series, and if it returns an error it leaves the appender's batches as they were;
   Rollback changes nothing; and every sample a series holds after a Commit was there before or
   is an accepted sample of the committed appender (for a float staleness marker possibly its
   histogram-typed form). *)
Theorem C02_rejected_never_stored :
  (forall c h a flag sid t v h' a' e,
     append c h a flag sid t v = (h', a', e) ->
     h_series h' = h_series h /\
     (e <> 0 -> a_batches a' = a_batches a /\ a_types a' = a_types a)) /\
  (forall h a, rollback h a = h) /\
  (forall c h a sid x,
     In x (series_samples (h_series (commit c h a) sid)) ->
     In x (series_samples (h_series h sid)) \/
     exists e, In e (entries a) /\ e_sid e = sid /\ fst x = e_t e /\
               (snd x = e_val e \/
                (is_stale_float (e_val e) = true /\ (snd x = VH 0 \/ snd x = VFH 0)))).
Proof.
  split; [|split].
  - intros c h a flag sid t v h' a' e E.
    destruct (append_spec c h a flag sid t v h' a' e E) as (A & B & _). auto.
  - exact rollback_nothing.
  - exact commit_only_accepted.
Qed.

(* An accepted append adds exactly that sample to the appender (getCurrentBatch batching), so
   the appenders reachable by appends are `appender_of sn log` for the accepted samples log. *)
Theorem C02_accepted_is_logged : forall c h a flag sid t v h' a',
  append c h a flag sid t v = (h', a', 0) ->
  exists v' a1, a' = add_entry a1 (sid, t, v') /\ derived (sid, t, v') (sid, t, v) /\
                a_batches a1 = a_batches a /\ a_types a1 = a_types a.
Proof.
  intros c h a flag sid t v h' a' E.
  destruct (append_spec c h a flag sid t v h' a' 0 E) as (_ & _ & C). apply C. reflexivity.
Qed.

(* FULL STATEMENT (refuted below): for every head h, snapshot sn and accepted samples log,
     head_eq (commit c h (appender_of sn log)) (commit_each c sn log h)
   i.e. committing the transaction [a1..an] = committing a1..an one at a time, in append order,
   each through its own appender with the original appender's window snapshot.
   PROVED PART: every transaction in which no float staleness marker is followed by another
   sample of the same series (`safe log`; markers already typed as histograms at append and
   histogram-valued markers are not restricted). What is excluded is exactly the configuration
   of the refuted theorem below: commitFloats re-queues the converted marker at the end of the
   batch's histograms, which is only visible if a later sample of that series exists. *)
Theorem C02_commit_sequential_partial : forall c sn h log,
  head_wf h -> safe log ->
  head_eq (commit c h (appender_of sn log)) (commit_each c sn log h).
Proof. exact commit_sequential_safe. Qed.

(* in particular all transactions without float staleness markers *)
Corollary C02_commit_sequential_nostale : forall c sn h log,
  head_wf h -> nostale log ->
  head_eq (commit c h (appender_of sn log)) (commit_each c sn log h).
Proof. intros c sn h log Hw Hn. apply commit_sequential_safe; [exact Hw|apply nostale_safe; exact Hn]. Qed.

(* The code as it is violates the full statement: a float staleness marker for a histogram series
   followed, in the same appender, by a newer histogram of that series is converted at commit
   and re-queued behind the newer sample; with out-of-order ingestion disabled it is dropped.
   Reproduced on the real code (corpus case 0 of the harness; known finding
   stale-float-deferred-after-histogram). *)
Theorem C02_commit_sequential_refuted :
  exists c sn h log, head_wf h /\
    ~ head_eq (commit c h (appender_of sn log)) (commit_each c sn log h).
Proof. exact commit_sequential_refuted. Qed.

(* ---- non-vacuity *)
Definition ex_sn := mkSnap 500 1000 300.
Definition ex_head :=
  mkHead 900 1000 minInt64
         (fun k => if k =? 1 then mkSeries (Some (1000, VF 7)) [(1000, VF 7); (900, VF 7)] [] []
                   else empty_series).

(* every row of the table is inhabited *)
Example C02_table_rows :
  appendable None 600 (VF 1) ex_sn = (false, None) /\
  appendable (Some (1000, VF 7)) 1001 (VH 1) ex_sn = (false, None) /\
  appendable (Some (1000, VF 7)) 1000 (VF 7) ex_sn = (false, None) /\
  appendable (Some (1000, VF 7)) 1000 (VF 8) ex_sn = (false, Some EDup) /\
  appendable (Some (1000, VF 7)) 1000 (VH 7) ex_sn = (false, Some EDup) /\
  appendable (Some (1000, VF 7)) 700 (VF 1) ex_sn = (true, None) /\
  appendable (Some (1000, VF 7)) 699 (VF 1) ex_sn = (true, Some ETooOld) /\
  appendable (Some (1000, VF 7)) 499 (VF 1) (mkSnap 500 1000 0) = (false, Some EOOB) /\
  appendable (Some (1000, VF 7)) 999 (VF 1) (mkSnap 500 1000 0) = (false, Some EOOO).
Proof. repeat split; vm_compute; reflexivity. Qed.

Example C02_dup_nonvacuous :
  head_wf ex_head /\ s_last (h_series ex_head 1) = Some (1000, VF 7) /\ sn_minValid ex_sn <= 1000.
Proof. unfold head_wf. cbn. unfold maxInt64, minInt64. repeat split; lia. Qed.

(* a transaction with intra-transaction disorder, a duplicate, two series and a type change:
   the hypotheses of the sequential theorem hold, and the commit re-check drops / reroutes *)
Definition ex_log : list entry :=
  [(1, 1010, VF 1); (2, 800, VH 1); (1, 950, VF 2); (1, 1010, VF 3); (2, 800, VH 1); (1, 1020, VH 2); (1, 1030, VF 4)].
(* ... and one with a float staleness marker that is converted at commit (series 3 ends with a
   histogram) and is the last sample of its series *)
Definition ex_head2 :=
  mkHead 900 1000 minInt64
         (fun k => if k =? 3 then mkSeries (Some (1000, VH 7)) [(1000, VH 7)] [] [] else empty_series).
Definition ex_log2 : list entry := [(1, 1010, VF 1); (3, 1010, VF staleBits); (1, 1020, VH 2); (2, 1000, VFH 1)].
Example C02_sequential_marker_nonvacuous :
  head_wf ex_head2 /\ safe ex_log2 /\ ~ nostale ex_log2 /\
  series_samples (h_series (commit (mkCfg 1000 300 32) ex_head2 (appender_of ex_sn ex_log2)) 3)
    = [(1000, VH 7); (1010, VH 0)].
Proof.
  split; [unfold head_wf; cbn; unfold maxInt64, minInt64; lia|].
  split; [cbn; repeat split; try discriminate; repeat constructor; cbn; lia|].
  split; [|vm_compute; reflexivity].
  intros H. inversion H as [|? ? _ H2]; subst. inversion H2 as [|? ? H3 _]; subst. vm_compute in H3. discriminate.
Qed.

Example C02_sequential_nonvacuous :
  head_wf ex_head /\ nostale ex_log /\
  length (a_batches (appender_of ex_sn ex_log)) = 2%nat /\
  series_samples (h_series (commit (mkCfg 1000 300 32) ex_head (appender_of ex_sn ex_log)) 1)
    = [(900, VF 7); (1000, VF 7); (1010, VF 1); (1020, VH 2); (1030, VF 4); (950, VF 2)].
Proof.
  split; [unfold head_wf; cbn; unfold maxInt64, minInt64; lia|].
  split; [repeat constructor|]. split; vm_compute; reflexivity.
Qed.

From Coq Require Import List ZArith.
From Verif Require Import lib.Int64 model.Backfill proof.BackfillProofs.
Import ListNotations.
Open Scope Z_scope.

(* props/C50.v — property theorems for C50 (backfilled blocks contain exactly the input samples).
   Model: model/Backfill.v (promtool's getMinAndMaxTimestamps, getCompatibleBlockDuration,
   createBlocks, backfill, and the Append / Commit batches of 5000 samples on the BlockWriter's
   head of each block).  Statements only;
   proofs are in proof/BackfillProofs.v.

   Vocabulary (model/Backfill.v): an input is the list of entries the OpenMetrics parser yields;
   [well_formed] = no line without timestamp and no parse error; [in_range] = |ts| <= 2^62 (the
   domain on which the code's int64 arithmetic cannot wrap); [ordered d] = inside one series and
   one block window of duration d, later lines carry later timestamps or repeat a line exactly
   ("one sample per series and timestamp"; out-of-order lines are not valid OpenMetrics). *)
From Coq Require Import List ZArith Sorting.Sorted.
From Verif Require Import lib.Int64 model.Backfill proof.BackfillProofs.
Import ListNotations.
Open Scope Z_scope.

(* The union of the blocks' samples is exactly the set of input samples — same series, same
   timestamp, same value bits — and no (series, timestamp) is stored twice, in one block or in
   two; in particular the run succeeds. For every --max-block-duration and every input. *)
Theorem C50_partition : forall mx input,
  well_formed input -> in_range input ->
  (forall d, compatible_block_duration mx = Some d -> ordered d (samples_of input)) ->
  exists bl, backfill mx input = BFOk bl /\
    (forall s t v, In (s, t, v) (all_samples bl) <-> In (ESample s (Some t) v) input) /\
    NoDup (map key (all_samples bl)).
Proof. exact partition. Qed.

(* Whatever the order of the lines, for the blocks a run leaves in the output directory (all of
   them on success, those written before an "add sample" error otherwise): nothing is invented
   and nothing is stored twice. *)
Theorem C50_sound : forall mx input bl, in_range input ->
  backfill mx input = BFOk bl \/ backfill mx input = BFCreateErr bl ->
  (forall s t v, In (s, t, v) (all_samples bl) -> In (ESample s (Some t) v) input) /\
  NoDup (map key (all_samples bl)).
Proof. exact sound. Qed.

(* The chosen duration d is the largest of 2h * 3^i (i < 10) not above the requested maximum
   (2h if the maximum is smaller); every block was written for a window [d*k, d*k + d), is not
   empty, holds only samples of that window, its meta range [mint, maxt) lies inside the window
   and covers its samples; the windows of the blocks are pairwise different (increasing). *)
Theorem C50_aligned : forall mx input bl, in_range input ->
  backfill mx input = BFOk bl \/ backfill mx input = BFCreateErr bl ->
  exists d, compatible_block_duration mx = Some d /\ In d block_ranges /\
    (default_block_duration <= mx -> d <= mx) /\
    (forall r, In r block_ranges -> r <= mx -> r <= d) /\
    Forall (fun b =>
      (exists k, b_lo b = d * k) /\ b_samples b <> [] /\
      (forall x, In x (b_samples b) -> b_lo b <= s_ts x < b_lo b + d) /\
      b_lo b <= b_mint b /\ b_mint b < b_maxt b /\ b_maxt b <= b_lo b + d /\
      (forall x, In x (b_samples b) -> b_mint b <= s_ts x < b_maxt b)) bl /\
    StronglySorted Z.lt (map b_lo bl).
Proof. exact aligned. Qed.

(* An input with a line without timestamp (or one the parser rejects) is rejected as a whole:
   the result carries no block (createBlocks is never entered) ... *)
Theorem C50_reject_without_ts : forall mx input,
  (exists s v, In (ESample s None v) input) \/ In EParseErr input ->
  exists e, backfill mx input = BFRejected e.
Proof. exact backfill_rejects. Qed.

(* ... and nothing else is rejected; there is never a panic on ranges[idx]; an error after the
   scan ("add sample", possibly after blocks were written) happens only for inputs that are
   not ordered. *)
Theorem C50_total : forall mx input,
  (exists e, backfill mx input = BFRejected e /\ ~ well_formed input) \/
  (exists bl, backfill mx input = BFOk bl /\ well_formed input) \/
  (exists w, backfill mx input = BFCreateErr w /\ well_formed input).
Proof. exact backfill_total. Qed.

Theorem C50_create_err_only_unordered : forall mx input w,
  in_range input -> backfill mx input = BFCreateErr w ->
  well_formed input /\
  ~ (forall d, compatible_block_duration mx = Some d -> ordered d (samples_of input)).
Proof. exact create_err_unordered. Qed.

(* The code before "fix: promtool: backfill drops samples with negative timestamps" (first
   block start = d * (mint / d) with Go's truncating division) violated C50_partition. *)
Theorem C50_partition_old_refuted : exists mx input,
  well_formed input /\ in_range input /\
  (forall d, compatible_block_duration mx = Some d -> ordered d (samples_of input)) /\
  exists bl, backfill_old mx input = BFOk bl /\
    exists s t v, In (ESample s (Some t) v) input /\ ~ In (s, t, v) (all_samples bl).
Proof. exact partition_old_refuted. Qed.

(* The ordering hypothesis of C50_partition cannot be dropped: lines of one series that go back
   in time inside one block window (and inside one appender batch) are dropped by the head's
   Commit without an error. *)
Theorem C50_partition_unordered_refuted : exists mx input,
  well_formed input /\ in_range input /\
  exists bl, backfill mx input = BFOk bl /\
    exists s t v, In (ESample s (Some t) v) input /\ ~ In (s, t, v) (all_samples bl).
Proof. exact partition_unordered_refuted. Qed.

(* Non-vacuity: an input with two interleaved series, negative timestamps, samples exactly on
   block boundaries, an exact repetition and a gap of empty windows meets the hypotheses of
   C50_partition; the model writes four blocks for it. *)
Example C50_nonvacuous : well_formed ex_input /\ in_range ex_input /\
  (forall d, compatible_block_duration 0 = Some d -> ordered d (samples_of ex_input)) /\
  backfill 0 ex_input = BFOk
    [mkBlock (-14400000) [(0, -7200001, 11)];
     mkBlock (-7200000) [(1, -1, 12); (0, -7200000, 13)];
     mkBlock 0 [(1, 0, 14); (0, 7199999, 15)];
     mkBlock 50400000 [(1, 50400000, 16)]].
Proof. exact ex_input_ok. Qed.

Example C50_reject_nonvacuous :
  backfill 0 [ESample 0 (Some 5) 1; ESample 1 None 2; ESample 0 (Some 7200005) 3] = BFRejected RejNoTs.
Proof. exact reject_example. Qed.

(* the input of C50_partition_old_refuted under the tree's version *)
Example C50_old_input_fixed :
  backfill 0 old_input = BFOk [mkBlock (-7200000) [(0, -1, 7)]; mkBlock 0 [(0, 5, 8)]].
Proof. exact old_input_fixed. Qed.

(* (The batch-boundary behaviour - the same out-of-order line is a fatal "add sample" error when
   it comes after the 5000th sample of a block, with the earlier window's block left in the output
   directory - needs inputs of 5001 lines; it is exercised as fixed corpus cases of the thorough
   tier, where the model and the real binary agree: see notes/C50.md.) *)

From Verif Require Import model.LimitRatio.

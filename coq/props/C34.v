(* props/C34.v — property C34: complementary limit_ratio selections partition the input.

   "For any input vector and any ratio r in [0, 1], limit_ratio(r, v) and limit_ratio(r - 1, v)
    select disjoint sets of samples whose union is v, and whether a sample is selected depends
    only on its labels. Raising r never deselects a sample."

   Model: model/LimitRatio.v over binary64 primitive floats (add_ratio_sample =
   HashRatioSampler.AddRatioSampleWithOffset, sample_offset = SampleOffset, limit_ratio = the
   LIMIT_RATIO branch of aggregationK, complement r = r - 1 in float64).

   FULL STATEMENT of the partition clause (false of the faithful model, see C34_partition_refuted):
     forall r off, 0 <= r <= 1 -> 0 <= off <= 1 ->
       xorb (add_ratio_sample r off) (add_ratio_sample (r - 1) off) = true.
   What is proved instead: it fails (C34_partition_refuted, C34_offset_one_refuted); it holds
   exactly off the gap between r and fl(1 + fl(r - 1)) for offsets in [0,1)
   (C34_partition_gap_exact), hence whenever fl(1 + fl(r - 1)) = r (C34_partition_partial), and
   the same for whole vectors through the engine model (C34_partition_vector_partial).
   Monotonicity and labels-only hold in full (all binary64 values, NaN and infinities included). *)
From Coq Require Import ZArith List Bool Floats.
From Verif Require Import model.LimitRatio.
From Verif Require Import proof.LimitRatioProofs.
Import ListNotations.

Local Open Scope float_scope.

(* ---- partition: refuted ---- *)

(* an offset of [0,1) selected by both r and r - 1 (r = 0.1, off = 0.09999999999999998) *)
Theorem C34_partition_refuted :
  exists r off, (0 <=? r) && (r <=? 1) = true /\ (0 <=? off) = true /\ (off <? 1) = true /\
    xorb (add_ratio_sample r off) (add_ratio_sample (complement r) off) = false.
Proof. exact partition_refuted. Qed.

Example C34_refuted_both :   (* r = 0.1: offset 0.09999999999999998 is selected twice *)
  add_ratio_sample 0x1.999999999999ap-4 0x1.9999999999998p-4 = true /\
  add_ratio_sample (complement 0x1.999999999999ap-4) 0x1.9999999999998p-4 = true.
Proof. vm_compute. split; reflexivity. Qed.
Example C34_refuted_neither : (* r = 0.3: offset 0.3 is selected by neither *)
  add_ratio_sample 0x1.3333333333333p-2 0x1.3333333333333p-2 = false /\
  add_ratio_sample (complement 0x1.3333333333333p-2) 0x1.3333333333333p-2 = false.
Proof. vm_compute. split; reflexivity. Qed.

(* second shape: SampleOffset maps the hashes >= 2^64 - 1024 to exactly 1.0, and no ratio of
   [0,1] selects the offset 1.0 — so for r = 1 such a series is in neither selection *)
Theorem C34_offset_one_refuted :
  sample_offset (2 ^ 64 - 1) = 1 /\
  (forall r, (0 <=? r) = true -> (r <=? 1) = true -> add_ratio_sample r 1 = false) /\
  add_ratio_sample (complement 1) 1 = false.
Proof.
  split; [exact (proj1 offset_one_reachable)|].
  split; [exact offset_one_unselected|]. vm_compute. reflexivity.
Qed.

(* ---- partition: what does hold ---- *)

(* exact characterisation: for r in [0,1] and an offset in [0,1), exactly one of r and r - 1
   selects the offset iff the offset is not between the boundaries r and fl(1 + fl(r - 1)) *)
Theorem C34_partition_gap_exact : forall r off,
  (0 <=? r) = true -> (r <=? 1) = true -> (0 <=? off) = true -> (off <? 1) = true ->
  xorb (add_ratio_sample r off) (add_ratio_sample (complement r) off) = negb (in_gap r off).
Proof. exact partition_iff_not_in_gap. Qed.

(* partial: the partition holds whenever the complement is exact, fl(1 + fl(r - 1)) = r
   (missing for the full statement: inexact complements — refuted above — and offset 1.0) *)
Theorem C34_partition_partial : forall r off,
  (0 <=? r) = true -> (r <=? 1) = true -> (0 <=? off) = true -> (off <? 1) = true ->
  (complement_boundary r =? r) = true ->
  xorb (add_ratio_sample r off) (add_ratio_sample (complement r) off) = true.
Proof. exact partition_partial. Qed.

Example C34_partial_nonvacuous :  (* r = 0.75 and r = 0.7 have exact complements; boundary offsets *)
  (complement_boundary 0x1.8p-1 =? 0x1.8p-1) = true /\
  (complement_boundary 0x1.6666666666666p-1 =? 0x1.6666666666666p-1) = true /\
  add_ratio_sample 0x1.8p-1 0x1.8p-1 = false /\ add_ratio_sample (complement 0x1.8p-1) 0x1.8p-1 = true /\
  add_ratio_sample 0x1.8p-1 0x1.7ffffffffffffp-1 = true /\
  add_ratio_sample (complement 0x1.8p-1) 0x1.7ffffffffffffp-1 = false.
Proof. vm_compute. repeat split. Qed.

(* a usable sufficient condition: every ratio in [1/2, 1] has an exact complement (Sterbenz),
   so limit_ratio(r) / limit_ratio(r - 1) are complementary for r >= 0.5 on offsets of [0,1) *)
Theorem C34_partition_upper_half : forall r off,
  (0x1p-1 <=? r) = true -> (r <=? 1) = true -> (0 <=? off) = true -> (off <? 1) = true ->
  xorb (add_ratio_sample r off) (add_ratio_sample (complement r) off) = true.
Proof. exact partition_upper_half. Qed.

Example C34_upper_half_nonvacuous :   (* r = 0.7, off = 0.7 and its predecessor *)
  (0x1p-1 <=? 0x1.6666666666666p-1) = true /\
  add_ratio_sample 0x1.6666666666666p-1 0x1.6666666666666p-1 = false /\
  add_ratio_sample (complement 0x1.6666666666666p-1) 0x1.6666666666666p-1 = true /\
  add_ratio_sample 0x1.6666666666666p-1 0x1.6666666666665p-1 = true /\
  add_ratio_sample (complement 0x1.6666666666666p-1) 0x1.6666666666665p-1 = false.
Proof. vm_compute. repeat split. Qed.

(* the same for a whole vector through the engine model: if no series' offset falls into the
   gap (in particular if the complement is exact) and all offsets are in [0,1), then
   limit_ratio(r, v) and limit_ratio(r - 1, v) both succeed, are sub-vectors of v, and every
   sample of v is in exactly one of them.  `hash` is the labels.Hash oracle. *)
Theorem C34_partition_vector_partial : forall (L P : Type) (hash : L -> Z) r (v : list (L * P)),
  (0 <=? r) = true -> (r <=? 1) = true ->
  (forall s, In s v ->
     let off := sample_offset (hash (fst s)) in
     (0 <=? off) = true /\ (off <? 1) = true /\ in_gap r off = false) ->
  exists a b,
    limit_ratio L P hash r v = Selected a /\ limit_ratio L P hash (complement r) v = Selected b /\
    (forall s, In s v -> (In s a <-> ~ In s b)) /\ incl a v /\ incl b v.
Proof. exact partition_vector. Qed.

Example C34_vector_nonvacuous :  (* r = 0.5 on three series: one below, one at, one above the boundary *)
  let hash := fun l : Z => l in
  let v := [(2 ^ 62, tt); (2 ^ 63, tt); (2 ^ 63 + 2 ^ 62, tt)]%Z in
  limit_ratio Z unit hash 0x1p-1 v = Selected [(2 ^ 62, tt)]%Z /\
  limit_ratio Z unit hash (complement 0x1p-1) v = Selected [(2 ^ 63, tt); (2 ^ 63 + 2 ^ 62, tt)]%Z /\
  forallb (fun s => in_gap 0x1p-1 (sample_offset (hash (fst s)))) v = false.
Proof. vm_compute. repeat split. Qed.

(* ---- monotonicity: full, for all binary64 values ---- *)
Theorem C34_monotone : forall r1 r2 off,
  (0 <=? r1) = true -> (r1 <=? r2) = true ->
  add_ratio_sample r1 off = true -> add_ratio_sample r2 off = true.
Proof. exact monotone. Qed.

Example C34_monotone_nonvacuous :
  (0 <=? 0x1p-2) = true /\ (0x1p-2 <=? 0x1.8p-1) = true /\ add_ratio_sample 0x1p-2 0x1p-3 = true.
Proof. vm_compute. repeat split. Qed.

(* ---- labels only: full ---- *)
(* Whether a sample is in the output of limit_ratio(f, .) is decided by its label set alone:
   two samples with the same labels — whatever their values/payloads, positions, and whatever
   else the two vectors contain — are both selected or both not. *)
Theorem C34_labels_only : forall (L P : Type) (hash : L -> Z) f (v v' a a' : list (L * P)) (s s' : L * P),
  limit_ratio L P hash f v = Selected a -> limit_ratio L P hash f v' = Selected a' ->
  In s v -> In s' v' -> fst s = fst s' ->
  (In s a <-> In s' a').
Proof. exact labels_only. Qed.

(* and the output is always a sub-vector of the input *)
Theorem C34_selected_subvector : forall (L P : Type) (hash : L -> Z) f (v a : list (L * P)),
  limit_ratio L P hash f v = Selected a -> incl a v.
Proof. exact selected_sublist. Qed.

Example C34_labels_only_nonvacuous :
  let hash := fun l : Z => l in
  limit_ratio Z Z hash 0x1p-1 [(2 ^ 62, 7); (2 ^ 63, 8)]%Z = Selected [(2 ^ 62, 7)]%Z /\
  limit_ratio Z Z hash 0x1p-1 [(5, 0); (2 ^ 62, 99)]%Z = Selected [(5, 0); (2 ^ 62, 99)]%Z.
Proof. vm_compute. split; reflexivity. Qed.

(* ---- range queries: a step-varying ratio is evaluated step by step ---- *)
(* rangeEvalAgg with a non-constant parameter (fParams.Max/Min early return, NaN test, then
   aggregationK per step) is exactly the per-step map of the instant semantics: the result at
   step k is the instant selection with the ratio of step k (so every per-vector theorem above
   applies at every step), and the query fails iff some step's ratio is NaN. *)
Theorem C34_range_is_per_step : forall (L P : Type) (hash : L -> Z) fs (vs : list (list (L * P))),
  length fs = length vs -> existsb PrimFloat.is_nan fs = false ->
  limit_ratio_range L P hash fs vs =
    RSelected (map (fun fv => step_select L P hash (fst fv) (snd fv)) (combine fs vs)) /\
  forall f v, In (f, v) (combine fs vs) ->
    limit_ratio L P hash f v = Selected (step_select L P hash f v).
Proof.
  intros L P hash fs vs Hl Hn. split; [now apply range_is_per_step|].
  intros f v Hfv. apply step_is_instant.
  apply Bool.not_true_is_false. intros E.
  assert (Hx : existsb PrimFloat.is_nan fs = true).
  { apply existsb_exists. exists f. split; [eapply in_combine_l; eassumption|exact E]. }
  congruence.
Qed.

Theorem C34_range_nan_error : forall (L P : Type) (hash : L -> Z) fs (vs : list (list (L * P))),
  existsb PrimFloat.is_nan fs = true -> limit_ratio_range L P hash fs vs = RErrNaN.
Proof. exact range_nan. Qed.

(* partition per step (partial in the same sense as C34_partition_vector_partial): ratios
   r_k in [0,1], complements r_k - 1, offsets in [0,1) outside each step's gap: both range queries
   succeed and at every step every sample present is in exactly one of the two selections.
   Covers profiles where the complement's maximum over the steps is exactly 0 (r reaches 1). *)
Theorem C34_range_partition_partial : forall (L P : Type) (hash : L -> Z) fs (vs : list (list (L * P))),
  length fs = length vs ->
  (forall f, In f fs -> (0 <=? f) = true /\ (f <=? 1) = true) ->
  (forall f v s, In (f, v) (combine fs vs) -> In s v ->
     let off := sample_offset (hash (fst s)) in
     (0 <=? off) = true /\ (off <? 1) = true /\ in_gap f off = false) ->
  limit_ratio_range L P hash fs vs =
    RSelected (map (fun fv => step_select L P hash (fst fv) (snd fv)) (combine fs vs)) /\
  limit_ratio_range L P hash (map complement fs) vs =
    RSelected (map (fun fv => step_select L P hash (complement (fst fv)) (snd fv)) (combine fs vs)) /\
  forall f v, In (f, v) (combine fs vs) -> forall s, In s v ->
    (In s (step_select L P hash f v) <-> ~ In s (step_select L P hash (complement f) v)).
Proof. exact range_partition. Qed.

Example C34_range_nonvacuous :  (* r = (0.5, 1): the complement (-0.5, 0) has maximum exactly 0 *)
  let hash := fun l : Z => l in
  let v := [(2 ^ 62, tt); (2 ^ 63, tt); (2 ^ 63 + 2 ^ 62, tt)]%Z in
  limit_ratio_range Z unit hash [0x1p-1; 1] [v; v] = RSelected [[(2 ^ 62, tt)]%Z; v] /\
  limit_ratio_range Z unit hash (map complement [0x1p-1; 1]) [v; v] =
    RSelected [[(2 ^ 63, tt); (2 ^ 63 + 2 ^ 62, tt)]%Z; []] /\
  (params_max (map complement [0x1p-1; 1]) =? 0) = true /\
  (params_min (map complement [0x1p-1; 1]) =? 0) = false /\
  limit_ratio_range Z unit hash [0; -0] [v; v] = RSelected [[]; []].
Proof. vm_compute. repeat split. Qed.

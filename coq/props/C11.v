From Coq Require Import List ZArith Bool Lia.
From Verif Require Import model.HistChunk proof.HistChunkProofs.
Import ListNotations.
Open Scope Z_scope.

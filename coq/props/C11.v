(* props/C11.v — C11: native histograms are stored and read back faithfully.
   Theorems about the model model/HistChunk.v (semantic layer of tsdb/chunkenc/histogram*.go,
   float_histogram*.go, histogram_meta.go). *)
From Coq Require Import List ZArith Bool Lia.
From Verif Require Import model.HistChunk model.HistBatch proof.HistBatchProofs proof.HistChunkProofs proof.HistChunkIns
  proof.HistChunkDelta proof.HistChunkMaps proof.HistChunkCounter proof.HistChunkAdjust proof.HistChunkReencode proof.HistChunkSeq.
Import ListNotations.
Open Scope Z_scope.

(* addBucket (the closure that builds mergedSpans in expandSpansBothWays and the result of
   adjustForInserts) rebuilds exactly the bucket indices it is fed, for ANY index sequence;
   together with [idxs] being the bucketIterator this is "span layout <-> bucket indices". *)
Theorem C11_spans_of_roundtrip : forall l : list Z, idxs (spans_of l) = l.
Proof. exact idxs_spans_of. Qed.
Example C11_spans_of_roundtrip_ex :
  spans_of [-3; -2; 0; 4; 5; 6] = [mkSpan (-3) 2; mkSpan 1 1; mkSpan 3 3] /\
  idxs [mkSpan (-3) 2; mkSpan 0 0; mkSpan 1 1; mkSpan 3 2; mkSpan 0 1] = [-3; -2; 0; 4; 5; 6].
Proof. split; reflexivity. Qed.

(* valid span lists (Histogram.Validate: no negative offset except in the first span) yield
   strictly increasing bucket indices, one per unit of span length *)
Theorem C11_valid_spans_increasing : forall l,
  wf_spans l -> (exists lo, incr lo (idxs l)) /\ Z.of_nat (length (idxs l)) = count_spans l.
Proof.
  intros l H. split; [now apply idxs_incr|]. apply idxs_from_length. now apply wf_spans_len.
Qed.

(* insert() on delta-encoded integer buckets = insert() on the absolute counts *)
Theorem C11_insert_deltas_are_prefix_sums : forall inp l i v v',
  match ins_body true i v inp l, ins_body false i v' (prefix_sums v inp) l with
  | Ok w, Ok wa => wa = prefix_sums v w
  | Panic, Panic => True
  | Fuel, Fuel => True
  | _, _ => False
  end.
Proof. intros. exact (ins_body_rel inp i v v' l). Qed.
Example C11_insert_deltas_ex :
  insert_go true [6; -3; 0] [mkIns 2 2 0; mkIns 3 1 0] 6 = Ok [6; -3; -3; 0; 3; -3] /\
  prefix_sums 0 [6; -3; -3; 0; 3; -3] = [6; 3; 0; 0; 3; 0] /\
  insert_go false [6; 3; 3] [mkIns 2 2 0; mkIns 3 1 0] 6 = Ok [6; 3; 0; 0; 3; 0].
Proof. repeat split; reflexivity. Qed.

(* C11_bucket_map_preserved, gauge path (appendableGauge -> expandSpansBothWays -> recode with
   the forward inserts / recodeHistogram with the backward inserts), for integer (delta) and
   float (absolute) buckets alike and for ALL valid span layouts a (chunk) and b (new sample):
   the call never panics or diverges; mergedSpans covers exactly the buckets of a and b;
   applying the forward inserts to ANY bucket slice laid out on a (every stored sample) and the
   backward inserts to ANY slice laid out on b (the new sample) fills the widened slice exactly
   and leaves the absolute bucket map (index -> count, absent = 0) unchanged. *)
Theorem C11_bucket_map_preserved_gauge : forall a b,
  wf_spans a -> wf_spans b ->
  exists F B M,
    expand_both a b = Ok (F, B, M) /\
    (forall i, In i (idxs M) <-> In i (idxs a) \/ In i (idxs b)) /\
    (forall k buckets, Z.of_nat (length buckets) = count_spans a ->
       exists out, insert_go (is_deltas k) buckets F (count_spans M) = Ok out /\
                   Z.of_nat (length out) = count_spans M /\ same_map k M out a buckets) /\
    (forall k buckets, Z.of_nat (length buckets) = count_spans b ->
       exists out, insert_go (is_deltas k) buckets B (count_spans M) = Ok out /\
                   Z.of_nat (length out) = count_spans M /\ same_map k M out b buckets).
Proof. exact expand_both_correct. Qed.
Example C11_bucket_map_preserved_gauge_ex :
  let a := [mkSpan 0 2; mkSpan 2 1] in let b := [mkSpan 1 2; mkSpan 0 0; mkSpan 3 1] in
  wf_spans a /\ wf_spans b /\
  expand_both a b = Ok ([mkIns 2 1 0; mkIns 3 1 0], [mkIns 0 1 0; mkIns 2 1 0], [mkSpan 0 3; mkSpan 1 1; mkSpan 1 1]) /\
  insert_go true [6; -3; 0] [mkIns 2 1 0; mkIns 3 1 0] 5 = Ok [6; -3; -3; 3; -3].
Proof. cbv [wf_spans wf_tail]. repeat split; try lia; repeat constructor; simpl; lia. Qed.

(* C11_bucket_map_preserved, counter path (appendable -> expandIntSpansAndBuckets /
   expandFloatSpansAndBuckets -> adjustForInserts -> recode / recodeHistogram).  For ALL valid
   layouts a (chunk, last bucket values ab) and b (new sample, values bb) of either kind:
   whenever the expansion answers "ok" there is ONE strictly increasing widened index list M,
   containing the buckets of a and of b, such that
   - no forward inserts => M = a's buckets; no backward inserts => M = b's buckets;
     adjustForInserts(b, backward) returns spans enumerating exactly M (hence in each of the
     three branches of AppendHistogram the spans handed to recode / recodeHistogram enumerate M);
   - the forward inserts widen ANY bucket slice laid out on a (i.e. every stored sample) to M,
     the backward inserts ANY slice laid out on b (the new sample), in delta and in absolute
     encoding: no panic, output filled exactly, absolute bucket map (index -> count) unchanged. *)
Theorem C11_bucket_map_preserved_counter : forall k a b ab bb F Bk,
  wf_spans a -> wf_spans b ->
  expand_counts k a b ab bb = Ok (Some (F, Bk)) ->
  exists M,
    (exists lo, incr lo M) /\ incl (idxs a) M /\ incl (idxs b) M /\
    (F = [] -> M = idxs a) /\ (Bk = [] -> M = idxs b) /\
    (exists sp, adjust_for_inserts b Bk = Ok sp /\ idxs sp = M /\ count_spans sp = Z.of_nat (length M)) /\
    (forall k' buckets, Z.of_nat (length buckets) = count_spans a ->
       exists out, insert_go (is_deltas k') buckets F (Z.of_nat (length M)) = Ok out /\
                   length out = length M /\
                   forall i, lookup i (combine M (abs_counts k' out)) = lookup i (bucket_alist k' a buckets)) /\
    (forall k' buckets, Z.of_nat (length buckets) = count_spans b ->
       exists out, insert_go (is_deltas k') buckets Bk (Z.of_nat (length M)) = Ok out /\
                   length out = length M /\
                   forall i, lookup i (combine M (abs_counts k' out)) = lookup i (bucket_alist k' b buckets)).
Proof. exact expand_counts_correct. Qed.
(* the example of the comment above expandIntSpansAndBuckets, with an unused (zero) bucket of the
   chunk missing in the new sample: forward AND backward inserts at once *)
Example C11_bucket_map_preserved_counter_ex :
  let a := [mkSpan 0 2; mkSpan 2 1; mkSpan 3 2] in let b := [mkSpan 0 3; mkSpan 5 2] in
  wf_spans a /\ wf_spans b /\
  expand_counts KInt a b [6; -3; -3; 2; 2] [6; -3; -2; 1; 2] =
    Ok (Some ([mkIns 2 1 2], [mkIns 3 1 4])) /\
  adjust_for_inserts b [mkIns 3 1 4] = Ok [mkSpan 0 3; mkSpan 1 1; mkSpan 3 2] /\
  insert_go true [6; -3; -3; 2; 2] [mkIns 2 1 2] 6 = Ok [6; -3; -3; 0; 2; 2] /\
  insert_go true [6; -3; -2; 1; 2] [mkIns 3 1 4] 6 = Ok [6; -3; -2; -1; 2; 2].
Proof. cbv [wf_spans wf_tail]. repeat split; try lia; repeat constructor; simpl; lia. Qed.

(* the counter-path expansion never diverges and, for bucket slices as long as their spans
   say (Histogram.Validate), never panics *)
Theorem C11_expand_counts_total : forall k a b ab bb,
  wf_spans a -> wf_spans b ->
  Z.of_nat (length ab) = count_spans a -> Z.of_nat (length bb) = count_spans b ->
  exists r, expand_counts k a b ab bb = Ok r.
Proof. exact expand_counts_total. Qed.

(* "... however the storage cut or RE-ENCODED chunks."  Full statement for re-encoding (what
   compaction does with an open or partially covered chunk: iterate it and append every sample,
   append-only, to a fresh chunk):
     forall k ops cs c, Forall (fun o => valid_hist (o_h o)) ops -> run k ops = Ok cs -> In c cs ->
       exists c', reencode k c = Ok (Some c') /\ read_chunk c' = read_chunk c.
   It is FALSE of the faithful model (and of the code, see notes/C11.md): a gauge chunk that holds
   a staleness marker appended with the GaugeType hint is built without complaint, but its
   iterator returns the marker as a bare {Sum: StaleNaN} with hint Unknown, which the append-only
   appender then refuses to add to a gauge chunk ("histogram schema change"). *)
Theorem C11_reencode_refuted : exists k ops cs c,
  Forall (fun o => valid_hist (o_h o)) ops /\ run k ops = Ok cs /\ In c cs /\
  reencode k c = Ok None.
Proof.
  exists KInt, w_ops, [w_chunk], w_chunk.
  destruct (reencode_witness KInt) as (R & _ & E).
  split; [exact w_ops_valid|]. split; [exact R|]. split; [now left|exact E].
Qed.

(* ------------------------------------------------------------------------------------------
   The sequence-level statements.  [valid_h h]: h is a staleness marker, or its spans are valid
   (no negative offset except the first), its bucket slices are as long as the spans say and an
   exponential-schema histogram has no custom values (all enforced by Histogram.Validate).
   [sem k x t h] (read-back x against the histogram h appended at time t): same timestamp;
   h stale => x stale; otherwise x not stale and same sum (bits), count, zero count, schema,
   zero threshold and custom bounds equal as floats (zt_rel: identical bits or ==), and the same
   absolute bucket map (index -> count, absent = 0) on the positive and on the negative side.
   [run k ops] appends the ops in order through AppendHistogram / AppendFloatHistogram (k), every
   op carrying an ARBITRARY "cut a new chunk first" decision (the Head's policy is abstract).  *)

(* C11_roundtrip: for any sequence of valid integer or float histograms (any layouts, schema /
   threshold / bounds changes, gauge or counter, hints, staleness markers) and any cut decisions,
   storing never panics or diverges and reading all chunks back yields, position by position,
   what was appended - however often chunks were cut or recoded on the way. *)
Theorem C11_roundtrip : forall k ops,
  Forall (fun o => valid_h (o_h o)) ops ->
  exists cs, run k ops = Ok cs /\ Forall inv cs /\ Forall2 (sem_op k) (read_series cs) ops.
Proof. exact run_roundtrip. Qed.
(* non-vacuity: backward + forward inserts (recode), a staleness marker, a gauge sample *)
Example C11_roundtrip_ex :
  let h0 := mkH HUnknown 0 0 [] 3 0 0 [mkSpan 0 2] [] [3; -3] [] in
  let h1 := mkH HUnknown 0 0 [] 5 0 0 [mkSpan 0 1; mkSpan 1 1] [] [4; -3] [] in
  let h2 := mkH HUnknown 0 0 [] 0 0 stale_nan [] [] [] [] in
  let h3 := mkH HGauge 0 0 [] 2 0 0 [mkSpan (-1) 1] [] [2] [] in
  let ops := [mkOp false 1 h0; mkOp false 2 h1; mkOp false 3 h2; mkOp false 4 h3] in
  Forall (fun o => valid_h (o_h o)) ops /\
  match run KInt ops with
  | Ok cs => map (fun x => (fst x, h_ps (snd x), h_pb (snd x))) (read_series cs) =
             [(1, [mkSpan 0 3], [3; -3; 0]); (2, [mkSpan 0 3], [4; -4; 1]); (3, [], []); (4, [mkSpan (-1) 1], [2])]
             /\ length cs = 2%nat
  | _ => False
  end.
Proof.
  cbn zeta. split; [|vm_compute; split; reflexivity].
  repeat (constructor; [unfold valid_h; cbn [o_h h_zt h_custom h_sum h_ps h_ns h_pb h_nb h_schema];
                        split; [lia|]; split; [constructor|];
                        first [left; reflexivity
                              |right; cbv [wf_spans wf_tail]; cbn;
                               repeat first [split | (cbn; lia) | (intros; reflexivity) | constructor]]|]).
  constructor.
Qed.

(* one call: for a chunk in the invariant (every chunk the appenders build) and a valid
   histogram, AppendHistogram succeeds, leaves the caller's histogram semantically unchanged
   (input_same), and the chunk it appended to / recoded / newly cut satisfies the invariant
   again and decodes to the old samples (up to re-layout, rd_eq) followed by the new one *)
Theorem C11_append_step : forall k c t h,
  inv c -> valid_h h -> exists r, append k c t h = Ok r /\ step_ok k c t h r.
Proof. exact append_step. Qed.

(* C11_input_unchanged: whatever AppendHistogram does to the histogram it was handed (it
   replaces spans and bucket slices when backward inserts are needed), the result has the same
   hint, schema, threshold, bounds, count, zero count, sum, and the same bucket maps *)
Theorem C11_input_unchanged : forall k c t h r,
  inv c \/ c_samples c = [] -> valid_h h -> append k c t h = Ok r -> input_same k (fst r) h.
Proof. exact append_input_same. Qed.
Example C11_input_unchanged_ex :
  let h0 := mkH HUnknown 0 0 [] 3 0 0 [mkSpan 0 2] [] [3; -3] [] in
  let h1 := mkH HUnknown 0 0 [] 4 0 0 [mkSpan 0 1] [] [4] [] in
  match run KInt [mkOp false 1 h0] with
  | Ok [c] => match append KInt c 2 h1 with
              | Ok (h1', Same _) => h_ps h1' = [mkSpan 0 2] /\ h_pb h1' = [4; -4]
              | _ => False end
  | _ => False
  end.
Proof. vm_compute. split; reflexivity. Qed.

(* ------------------------------------------------------------------------------------------
   One appender transaction (model/HistBatch.v: getCurrentBatch / newBatch / typesInBatch, the
   commit order floats -> integer histograms -> float histograms per batch, in-order acceptance
   at commit).  For ANY number of series and ANY mix of sample flavours (float, integer / float
   histogram, integer / float custom-bucket histogram) appended through one appender and
   committed once: if the timestamps of every series increase in append order, every series
   holds afterwards exactly the samples appended to it, in that order - no sample is committed
   ahead of an earlier one of its series and then makes it out of order. *)
Theorem C11_tx_order : forall l : list txs,
  Forall (fun x => x_ty x <> StNone) l ->
  (forall s, sincr None (of_series s l)) ->
  forall s, of_series s (tx_run l) = of_series s l.
Proof. exact tx_run_faithful. Qed.
(* non-vacuity: a float NHCB opens the batch, an integer histogram of the same series follows
   (it must open a second batch), floats of another series are interleaved *)
Example C11_tx_order_ex :
  let l := [mkTx 0 StCBFHist 1000 0; mkTx 1 StFloat 1000 1; mkTx 0 StHist 2000 2; mkTx 1 StFloat 2000 3;
            mkTx 0 StFloat 3000 4; mkTx 0 StCBFHist 4000 5] in
  map x_id (tx_run l) = [1; 0; 3; 2; 4; 5] /\
  map x_id (of_series 0 (tx_run l)) = [0; 2; 4; 5] /\
  length (a_done (fold_left tx_append l init_state)) = 2%nat.
Proof. vm_compute. repeat split; reflexivity. Qed.

(* props/C13.v — property theorems for C13 (the write-ahead log returns exactly the records
   written).  Model: model/Wal.v (writer WL.log/flushPage/nextSegment/Log/Close, Reader over
   segmentBufReader, LiveReader).  Proofs: proof/WalProofs.v. *)
From Coq Require Import List ZArith NArith Bool.
From Verif Require Import model.Wal proof.WalProofs.
Import ListNotations.
Open Scope Z_scope.

(* For every page size that can hold a header and a byte and whose fragments fit the 16-bit
   length field (the real 32768 is one), every CRC function with 32-bit values, every
   compression codec that round-trips, every valid compression setting, every pagesPerSegment
   (any integer: also segments smaller than a record) and every sequence of Log calls with any
   records (empty, larger than a page, larger than a segment):
   - no Log call fails (no panic, no divergence of the fragment loop), and
   - wlog.Reader over the resulting segment files returns exactly the logged records, in
     order, and ends without error — whether or not Close() padded the last page. *)
Theorem C13_roundtrip :
  forall (page_size : Z) (crc : list N -> N) (enc : N -> list N -> list N)
         (dec : N -> list N -> option (list N)),
  8 <= page_size <= 65542 ->
  (forall l, (crc l < 4294967296)%N) ->
  (forall c r, r <> [] -> enc c r <> [] /\ dec c (enc c r) = Some r) ->
  forall (c : N) (pps : Z) (batches : list (list (list N))),
  In c [0%N; 1%N; 2%N] ->
  exists st,
    log_batches page_size crc enc c pps batches w_init = WOk st /\
    read_segments page_size crc dec (segments st) = (concat batches, RClean) /\
    read_segments page_size crc dec (segments (close page_size st)) = (concat batches, RClean).
Proof. exact wal_roundtrip. Qed.

(* non-vacuity: a concrete log with 16-byte pages and 2 pages per segment whose records are
   empty, split over pages, and larger than a segment; the hypotheses of the theorem hold for
   these oracles, the log has 4 segments, and reading it back returns the records *)
Definition ex_crc (l : list N) : N := (N.of_nat (length l) * 2654435761 mod 4294967296)%N.
Definition ex_enc (_ : N) (r : list N) : list N := r.
Definition ex_dec (_ : N) (s : list N) : option (list N) := Some s.
Definition ex_batches : list (list (list N)) :=
  [[[1; 2; 3]%N; []]; [[4; 5; 6; 7; 8; 9; 10; 11; 12; 13; 14; 15]%N];
   [repeat 7%N 40; [9]%N]; [[]]].

Example C13_roundtrip_nonvacuous :
  (forall l, (ex_crc l < 4294967296)%N) /\
  (forall c r, r <> [] -> ex_enc c r <> [] /\ ex_dec c (ex_enc c r) = Some r) /\
  match log_batches 16 ex_crc ex_enc 0 2 ex_batches w_init with
  | WOk st => length (segments st) = 4%nat /\
              read_segments 16 ex_crc ex_dec (segments st) = (concat ex_batches, RClean)
  | _ => False
  end.
Proof.
  split; [|split].
  - intros. unfold ex_crc. apply N.mod_lt. discriminate.
  - intros c r Hr. split; [exact Hr|reflexivity].
  - vm_compute. split; reflexivity.
Qed.

(* Layout: after any sequence of Log calls every finished segment file is a whole number of
   pages (so no record crosses a segment: a record is written entirely after the switch), all
   logged bytes are on disk (flushed = alloc), the page is never left with fewer than 7 free
   bytes, and the active file ends alloc bytes into a page. *)
Theorem C13_layout :
  forall (page_size : Z) (crc : list N -> N) (enc : N -> list N -> list N)
         (dec : N -> list N -> option (list N)),
  8 <= page_size <= 65542 ->
  (forall l, (crc l < 4294967296)%N) ->
  (forall c r, r <> [] -> enc c r <> [] /\ dec c (enc c r) = Some r) ->
  forall (c : N) (pps : Z) (batches : list (list (list N))) (st : wst),
  In c [0%N; 1%N; 2%N] ->
  log_batches page_size crc enc c pps batches w_init = WOk st ->
  Forall (fun s => exists q, 0 <= q /\ zlen s = page_size * q) (w_closed st) /\
  w_flushed st = alloc st /\ alloc st + 7 <= page_size /\
  exists q, 0 <= q /\ zlen (active_file st) = page_size * q + alloc st.
Proof. exact wal_layout. Qed.

(* Live reader.  Full statement (NOT proved in general):
     forall page_size crc enc dec (same hypotheses), c, pps, batches, st,
       log_batches ... batches w_init = WOk st ->
       forall seg (the i-th of segments st) and every split of seg into chunks (chunks of any
       sizes, including cuts inside headers and empty chunks),
         live_run page_size crc dec chunks l_init = (outs, NEof) with
         concat outs = the records stored in segment i, and the concatenation over all
         segments = concat batches.
   Proved here: the statement for a bounded family, by evaluation of the model —
   page size 16 / 2 pages per segment, all logs of at most 3 records with lengths in
   {0,1,2,8,9,10,19,30} (585 logs: empty records, records filling a page exactly, +-1, records
   larger than a segment), and page size 9 / 3 pages per segment, all logs of 1..3 records with
   lengths in {0,1,2,3,5,7}; for every segment of every such log, EVERY single cut position
   (the reader sees a prefix, drains, then sees the rest — this includes every partial flush and
   every cut inside a header) and byte-by-byte release.  In each case the LiveReader returns
   exactly the records of that segment, ends in the EOF ("try again") state, and the
   per-segment record lists concatenate to the logged records.
   Missing: the induction over arbitrary page sizes, record lengths and multi-cut chunkings. *)
Theorem C13_live_partial :
  forallb (fun ls => check_log 16 2 (mklog ls)) live_logs = true /\
  forallb (fun ls => check_log 9 3 (mklog ls)) live_logs2 = true.
Proof. exact (conj live_bounded live_bounded2). Qed.

(* non-vacuity: the family contains a log with a record spanning two segments' worth of pages,
   and a wrong expectation is rejected by the same checker *)
Example C13_live_partial_nonvacuous :
  existsb (fun l => match l with [30; 0; 9]%nat => true | _ => false end) live_logs = true /\
  length live_logs = 585%nat /\
  check_log 16 2 (mklog [30; 0; 9]%nat) = true /\
  live_ok 16 [[1%N]] [[1; 0; 1; 5; 5; 5; 5; 2]%N] = false.
Proof. vm_compute. repeat split; reflexivity. Qed.

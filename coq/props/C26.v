(* props/C26.v — property theorems for C26 (PromQL expressions print to text that parses back
   unchanged). Statements only; proofs are in proof/PromqlPrintProofs.v, proof/PromqlParseProofs.v,
   proof/PromqlRoundtrip.v. Models: model/PromqlPrint.v (printer.go, prettier.go at token level),
   model/PromqlParse.v (generated_parser.y + parse.go helpers + checkAST's rewriting).

   FULL STATEMENT (property text): for every expression e accepted by the parser under any
   option set, parse (print e) = Ok e, print (parse (print e)) = print e, and
   parse (prettify e) = Ok e; every input string parses or is rejected with a syntax/type error.

   PROVED (hence "_partial"): the round trip for every AST satisfying the decidable predicate
   [wfb] — the shape the parser builds (explicit parentheses where precedence needs them,
   literal folding of unary minus, modifiers on selectors only, typing of VectorMatching) —
   for ALL option sets, function tables and float-oracle tables, EXCLUDING exactly the shapes of
   the recorded findings (the [_refuted] lemmas below show the statement is false there):
   grouping labels that lex as WITHOUT/NUMBER, durations that are not fixed points of
   print-then-parse (sub-millisecond; beyond 2^53 ns), @ timestamps that are not fixed points of
   "%.3f", fill values +0/-0. Not covered by the model at all: duration expressions, metric
   names that are keywords, the lexer's character level (tokens are tied to the real lexer by the
   harness), checkAST's rejections and the totality part (checked on the real parser only). *)
From Coq Require Import List ZArith Bool NArith String.
From Verif Require Import model.PromqlPrint model.PromqlParse proof.PromqlRoundtrip.
Import ListNotations.
Open Scope Z_scope.

(* printing and parsing back yields the same expression ... *)
Theorem C26_roundtrip_partial : forall oc o ft e,
  wfb oc o ft e = true -> parse oc o ft (print oc e) = Ok e.
Proof. exact roundtrip. Qed.

(* ... which prints identically *)
Theorem C26_reprint_partial : forall oc o ft e, wfb oc o ft e = true ->
  match parse oc o ft (print oc e) with Ok e' => print oc e' = print oc e | Err _ => False end.
Proof. exact reprint. Qed.

(* Prettify differs from String only by white space, for EVERY expression and every
   needsSplit oracle (no well-formedness needed) ... *)
Theorem C26_pretty_tokens : forall oc split e, strip_ws (pretty oc split e) = print oc e.
Proof. exact pretty_tokens. Qed.

(* ... hence the prettified text parses back to the same expression *)
Theorem C26_pretty_roundtrip_partial : forall oc o ft split e,
  wfb oc o ft e = true -> parse oc o ft (strip_ws (pretty oc split e)) = Ok e.
Proof. intros. rewrite pretty_tokens. apply roundtrip. assumption. Qed.

(* ------------------------------------------------------------------ non-vacuity *)
Definition o_all : opts := mkO true true true.
Definition ft_ex : ftab := [(s2b "rate", (VVector, false)); (s2b "time", (VScalar, false))].
Definition foo := s2b "foo".
Definition vsel_foo : vsel := mkVS foo [mkM (s2b "a.b") MNre (s2b "x|y"); mkM (s2b "job") MEq (s2b "api")] (AtTs (-1500)) XAnchored 60000000000.

(*  sum by (job, "a.b", on) (rate(foo{"a.b"!~"x|y",job="api"}[5m] anchored @ -1.500 offset 1m))
      / on (job) group_left () fill_right (-1) (bar[10m:30s] ... ) > bool 2 ^ -time() *)
Definition ex1 : expr :=
  EBin BGtr true None
    (EBin BDiv false (Some (mkVM CManyToOne true [s2b "job"] [] None (Some 13830554455654793216)))
       (EAgg ASum false [s2b "job"; s2b "a.b"; s2b "on"] None
          (ECall (s2b "rate") [EMat vsel_foo 300000000000]))
       (EAgg ATopk true [] (Some (ENum 4613937818241073152))
          (EParen (EBin BAnd false (Some (mkVM CManyToMany false [s2b "x"] [] None None))
                     (EVS (mkVS (s2b "bar") [] AtStart XNone (-5000000)))
                     (EVS (mkVS [] [mkM (s2b "__name__") MRe (s2b "b.*")] AtNone XSmoothed 0))))))
    (EBin BPow false None (ENum 4611686018427387904) (EUn true (ECall (s2b "time") []))).

Example C26_nonvacuous :
  wfb orc_id o_all ft_ex ex1 = true /\ parse orc_id o_all ft_ex (print orc_id ex1) = Ok ex1 /\
  Nat.ltb 60 (List.length (print orc_id ex1)) = true.
Proof. vm_compute. repeat split. Qed.

Example C26_nonvacuous_subquery :
  let e := ESub (EParen (EBin BAdd false (Some (mkVM COneToOne false [] [] None None)) (EVS (mkVS foo [] AtNone XNone 0)) (EVS (mkVS (s2b "bar") [] AtNone XNone 0))))
                600000000000 30000000000 AtEnd (-3600000000000) in
  wfb orc_id o_all [] e = true /\ parse orc_id o_all [] (print orc_id e) = Ok e.
Proof. vm_compute. split; reflexivity. Qed.

(* ------------------------------------------------------------------ where the statement is false *)
Definition e_foo : expr := EVS (mkVS foo [] AtNone XNone 0).

(* finding grouping-label-keyword-unquoted: `sum by ("without") (foo)` prints `sum by (without) (foo)` *)
Theorem C26_grouping_keyword_refuted :
  exists e, (exists s, e = EAgg ASum false [s] None e_foo /\ legacy_label s = true) /\
            parse orc_id o_all [] (print orc_id e) = Err ESyntax.
Proof. exists (EAgg ASum false [s2b "without"] None e_foo). split; [eexists; split; reflexivity|vm_compute; reflexivity]. Qed.

Theorem C26_grouping_nan_refuted :
  parse orc_id o_all [] (print orc_id (EBin BAdd false (Some (mkVM COneToOne true [s2b "NaN"] [] None None)) e_foo e_foo)) = Err ESyntax.
Proof. vm_compute. reflexivity. Qed.

(* finding duration-sub-millisecond: `foo offset 0.0001` prints `foo offset 0s`, re-parses to `foo` *)
Theorem C26_sub_millisecond_refuted :
  exists e, parse orc_id o_all [] (print orc_id e) = Ok e_foo /\ e <> e_foo /\ print orc_id e_foo <> print orc_id e.
Proof.
  exists (EVS (mkVS foo [] AtNone XNone 100000)). split; [vm_compute; reflexivity|].
  split; intro H; discriminate H.
Qed.

(* finding duration-float-seconds-precision: the parser reads the DURATION item of
   41510d13h4m27s634ms (3586511067634000000 ns) as 3586511067633999872 ns (float64 seconds; the
   oracle value is the one computed by the real code), which prints one millisecond lower *)
Theorem C26_float_seconds_refuted :
  let oc := mkOrc [(3586511067634000000, 3586511067633999872)] [] [] in
  let e := EVS (mkVS foo [] AtNone XNone 3586511067634000000) in
  exists e', parse oc o_all [] (print oc e) = Ok e' /\ e' <> e /\ print oc e' <> print oc e.
Proof.
  eexists. split; [vm_compute; reflexivity|]. split; intro H; discriminate H.
Qed.

(* finding at-timestamp-float-precision: "%.3f" of 4503599627370401/1000 reads back as ...402 *)
Theorem C26_at_timestamp_refuted :
  let oc := mkOrc [] [] [(4503599627370401, 4503599627370402)] in
  let e := EVS (mkVS foo [] (AtTs 4503599627370401) XNone 0) in
  exists e', parse oc o_all [] (print oc e) = Ok e' /\ e' <> e.
Proof. eexists. split; [vm_compute; reflexivity|]. intro H; discriminate H. Qed.

(* finding fill-signed-zero: fill_left(0) fill_right(-0) prints as fill(0) *)
Theorem C26_fill_signed_zero_refuted :
  let e := EBin BAdd false (Some (mkVM COneToOne false [] [] (Some 0) (Some sign_bit))) e_foo e_foo in
  exists e', parse orc_id o_all [] (print orc_id e) = Ok e' /\ e' <> e.
Proof. eexists. split; [vm_compute; reflexivity|]. intro H; discriminate H. Qed.

(* the code before "fix: promql/parser: duration literals print one millisecond too low"
   (08a939fd28): model.Duration(Val*1e9) truncated 1.001*1e9 = 1000999999.9999999 to 1s; with that
   oracle value `1s1ms` printed as `1s` *)
Theorem C26_durlit_old_refuted :
  let oc_old := mkOrc [] [(1001000000, 1000000000)] [] in
  let e := EDurLit false 1001000000 in
  parse oc_old o_all [] (print oc_old e) = Ok (EDurLit false 1000000000).
Proof. vm_compute. reflexivity. Qed.

(* the code between 08a939fd28 and "fix: ... round to milliseconds" (346b90dbb7):
   model.Duration(math.Round(Val*1e9)) still lost the last millisecond beyond 2^53 ns: `200d3ms`
   (17280000003000000 ns) printed as `200d2ms` (oracle value computed by that code) *)
Theorem C26_durlit_old2_refuted :
  let oc_old := mkOrc [] [(17280000003000000, 17280000002000000)] [] in
  let e := EDurLit false 17280000003000000 in
  parse oc_old o_all [] (print oc_old e) = Ok (EDurLit false 17280000002000000).
Proof. vm_compute. reflexivity. Qed.

(* finding inf-literal-power-lhs: `Inf ^ 2` is BinaryExpr(POW, +Inf, 2); the literal prints as
   "+Inf", and `+Inf ^ 2` parses as +(Inf ^ 2): a UnaryExpr is added at every round trip *)
Theorem C26_inf_power_refuted :
  let e := EBin BPow false None (ENum inf_bits) (ENum 4611686018427387904) in
  parse orc_id o_all [] (print orc_id e) = Ok (EUn false e).
Proof. vm_compute. reflexivity. Qed.

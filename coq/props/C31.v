(* props/C31.v — property theorems for C31 (native histogram arithmetic preserves bucket
   semantics).  Nothing but statements; proofs are in proof/HistArithProofs.v.
   Vocabulary: `total l t` is the bucket map (count recorded for absolute bucket index t) of a
   bucket list l = `expand spans buckets`; `retarget k l` re-indexes l into the schema that is k
   steps coarser (targetIdx); counts are integers (see model/HistArith.v). *)
From Coq Require Import List ZArith Bool Lia.
From Verif Require Import model.HistArith proof.HistArithProofs corr.CorrC31.
Import ListNotations.
Open Scope Z_scope.

(* Valid spans expand to strictly increasing bucket indices (no bucket is described twice). *)
Theorem C31_expand_increasing : forall sp bs l, expand sp bs = Ok l -> increasing l.
Proof. exact expand_increasing. Qed.

(* addBuckets / kahanAddBuckets: the resulting bucket map is the bucket-wise sum (sgn = 1,
   Add and KahanAdd) or difference (sgn = -1, Sub), for every index. *)
Theorem C31_add_buckets_bucketwise : forall sgn la lb t,
  total (merge_add sgn la lb) t = total la t + sgn * total lb t.
Proof. exact total_merge_add. Qed.

(* reduceResolution by k >= 0 schema steps: every target bucket t holds exactly the sum of the
   origin buckets i with targetIdx(i) = t; the result has strictly increasing indices. *)
Theorem C31_reduce_preserves_totals : forall sp bs l k t, expand sp bs = Ok l -> 0 <= k ->
  total (reduce_abs k l) t = sumc (filter (fun b => target_idx (fst b) k =? t) l) /\
  increasing (reduce_abs k l).
Proof. exact p_reduce_preserves_totals. Qed.

(* Compact(maxEmptyBuckets = k) never changes the total of any bucket, whatever k; and with
   k = 0 no empty bucket is left. *)
Theorem C31_compact_preserves_totals : forall k l t, total (compact_abs k l) t = total l t.
Proof. exact total_compact. Qed.
Theorem C31_compact0_no_empty_bucket : forall l, Forall (fun b => snd b <> 0) (compact_abs 0 l).
Proof. exact compact0_no_empty. Qed.

(* Histogram.ToFloat: spans are kept and the float buckets decode back to exactly the integer
   histogram's deltas, i.e. every absolute count is preserved; exponential histograms keep
   zero bucket and negative side, custom ones keep their bounds. *)
Theorem C31_to_float_preserves : forall h,
  let f := to_float h in
  r_ps f = i_ps h /\ deltas_from 0 (r_pb f) = i_pd h /\ r_cnt f = i_cnt h /\ r_schema f = i_schema h /\
  (is_custom (i_schema h) = false ->
     r_ns f = i_ns h /\ deltas_from 0 (r_nb f) = i_nd h /\ r_zc f = i_zc h /\ r_zt f = i_zt h /\
     abs_of_raw f = abs_of_raw (mkRF (i_hint h) (i_schema h) (i_zt h) (i_zc h) (i_cnt h) (i_sum h)
                                     (i_ps h) (cumsum (i_pd h)) (i_ns h) (cumsum (i_nd h)) [])) /\
  (is_custom (i_schema h) = true -> r_cv f = i_cv h /\ r_ns f = [] /\ r_nb f = [] /\ r_zc f = 0).
Proof. exact p_to_float_preserves. Qed.

(* detectReset on the two aligned bucket sequences reports a reset exactly when some bucket of
   the previous histogram is populated and missing now, or has a smaller count now. *)
Theorem C31_detect_buckets_iff : forall prev cur, increasing prev -> increasing cur ->
  (dr_lists prev cur = true <->
   exists p, In p prev /\
     match find_idx (fst p) cur with None => snd p <> 0 | Some c => c < snd p end).
Proof. exact p_detect_buckets_iff. Qed.

(* ... which for non-negative counts is: some bucket count decreased. *)
Theorem C31_detect_buckets_decreased : forall prev cur, increasing prev -> increasing cur ->
  Forall (fun p => 0 <= snd p) prev ->
  (dr_lists prev cur = true <-> exists p, In p prev /\ total cur (fst p) < snd p).
Proof. exact p_detect_buckets_decreased. Qed.

(* Custom buckets with different bounds: every bucket t of the intersected layout holds the
   sum (difference) of the two operands mapped onto that layout, and every source bucket is
   mapped to some bucket of it. *)
Theorem C31_custom_mismatch_bucketwise : forall sgn la ba lb bb inter t,
  0 <= t <= Z.of_nat (length inter) ->
  total (add_mism sgn la ba lb bb inter) t =
  total (remap inter ba la) t + sgn * total (remap inter bb lb) t.
Proof. exact add_mism_total. Qed.
Theorem C31_custom_mapping_in_range : forall inter bounds idx,
  0 <= map_idx inter bounds idx <= Z.of_nat (length inter).
Proof. exact map_idx_range. Qed.

(* Add / Sub / KahanAdd on two custom-bucket histograms: with equal bounds the bucket map is the
   bucket-wise sum/difference; with different bounds the result lives on the intersection of the
   bounds (exactly the bounds present in both) and every bucket of that layout holds the
   sum/difference of the operands' buckets mapped onto it (first bound >= the source bound,
   else the +Inf bucket: C31_custom_target_bucket). *)
Theorem C31_add_sub_custom : forall sgn h o,
  is_custom (schema h) = true -> is_custom (schema o) = true ->
  idx_nonneg (pos h) = true -> idx_nonneg (pos o) = true ->
  exists r, arith sgn h o = Ok r /\
    let R := ao_h r in
    schema R = schema h /\ cnt R = cnt h + sgn * cnt o /\ sum R = sum h + sgn * sum o /\
    zc R = zc h /\ zt R = zt h /\
    (list_eqb (cv h) (cv o) = true ->
       ao_reconciled r = false /\ cv R = cv h /\
       forall t, total (pos R) t = total (pos h) t + sgn * total (pos o) t) /\
    (list_eqb (cv h) (cv o) = false ->
       ao_reconciled r = true /\ cv R = intersect (cv h) (cv o) /\
       forall t, 0 <= t <= Z.of_nat (length (cv R)) ->
         total (pos R) t = total (remap (cv R) (cv h) (pos h)) t +
                           sgn * total (remap (cv R) (cv o) (pos o)) t).
Proof. exact arith_custom. Qed.
Theorem C31_custom_bounds_intersection : forall a b lo z, zinc lo a -> zinc lo b ->
  (In z (intersect a b) <-> In z a /\ In z b).
Proof. exact intersect_spec. Qed.
Theorem C31_custom_target_bucket : forall inter x p,
  (forall r, find_ge inter x p = Some r ->
     exists pre y post, inter = pre ++ y :: post /\ r = p + Z.of_nat (length pre) /\ x <= y /\
                        Forall (fun z => z < x) pre) /\
  (find_ge inter x p = None -> Forall (fun z => z < x) inter).
Proof. intros inter x p. split; [intro r; apply find_ge_some|apply find_ge_none]. Qed.

(* zeroCountForLargerThreshold (slow path, T above the histogram's own threshold): the
   returned threshold T' is >= T, cuts through no populated bucket, differs from T only if T
   cut a populated bucket, and the returned zero count is the old one plus exactly the buckets
   (both signs) whose lower bound lies below T'.  (EFuel/EPanic excluded by "= Ok".) *)
Theorem C31_zero_bucket_widening : forall h T z T',
  schema h <= 8 -> increasing (pos h) -> increasing (neg h) -> zcflt h T = Ok (z, T') ->
  (thr_eqb T (zt h) = true /\ z = zc h /\ T' = T) \/
  (thr_ltb (zt h) T = true /\ thr_leb T T' = true /\
   z = zc h + absorbed_sum (schema h) T' (pos h) + absorbed_sum (schema h) T' (neg h) /\
   nocut (schema h) T' (pos h) /\ nocut (schema h) T' (neg h) /\
   (T' = T \/ (thr_ltb T T' = true /\ exists b, In b (pos h ++ neg h) /\ snd b <> 0 /\
                 inside (schema h) T b = true /\ thr_ltb T (upper (fst b) (schema h)) = true))).
Proof. exact zcflt_spec. Qed.

(* FULL STATEMENT for Add (sgn = 1, also KahanAdd) and Sub (sgn = -1) on exponential
   histograms: the result has the lower of the two schemas and a zero threshold T' >= both
   thresholds that cuts no populated bucket of a histogram whose zero bucket grew; its zero
   count is the sum/difference of both zero counts each increased by what T' absorbed; count
   and sum are added/subtracted; and every regular bucket t (positive and negative side) holds
   the sum/difference of the non-absorbed buckets of both operands brought to the result
   schema (retarget = targetIdx).
   The statement as such is FALSE of the code (C31_add_refuted).  It is proved here under
   `no_double_count o s' T'`, which excludes exactly the configuration of the finding (a
   populated bucket of `other` inside the common zero bucket whose merged bucket at the result
   schema sticks out of it), and for `other` not having populated buckets wholly inside its own
   zero bucket (wf_own).  no_double_count holds whenever other's schema is not the higher one,
   when T' = 0, and when T' is a bucket boundary of the result schema (three lemmas below). *)
Theorem C31_add_sub_partial : forall sgn h o r,
  is_exp (schema h) = true -> is_exp (schema o) = true ->
  increasing (pos h) -> increasing (neg h) -> increasing (pos o) -> increasing (neg o) ->
  wf_own o ->
  arith sgn h o = Ok r ->
  let R := ao_h r in let T' := zt R in let s' := Z.min (schema h) (schema o) in
  no_double_count o s' T' ->
  schema R = s' /\ thr_leb (zt h) T' = true /\ thr_leb (zt o) T' = true /\
  cnt R = cnt h + sgn * cnt o /\ sum R = sum h + sgn * sum o /\
  zc R = zc h + absorbed_at h T' + sgn * (zc o + absorbed_at o T') /\
  (thr_eqb T' (zt h) = false -> nocut (schema h) T' (pos h) /\ nocut (schema h) T' (neg h)) /\
  (thr_eqb T' (zt o) = false -> nocut (schema o) T' (pos o) /\ nocut (schema o) T' (neg o)) /\
  (forall t, total (pos R) t =
             total (retarget (schema h - s') (kept_at (schema h) (zt h) T' (pos h))) t +
             sgn * total (retarget (schema o - s') (kept_at (schema o) (zt o) T' (pos o))) t) /\
  (forall t, total (neg R) t =
             total (retarget (schema h - s') (kept_at (schema h) (zt h) T' (neg h))) t +
             sgn * total (retarget (schema o - s') (kept_at (schema o) (zt o) T' (neg o))) t).
Proof. exact arith_general. Qed.

Theorem C31_no_double_count_other_not_higher_res : forall h o T,
  schema o <= schema h -> no_double_count o (Z.min (schema h) (schema o)) T.
Proof. exact ndc_other_not_higher_res. Qed.
Theorem C31_no_double_count_zero_threshold : forall o s', no_double_count o s' T0.
Proof. exact ndc_zero_threshold. Qed.
Theorem C31_no_double_count_threshold_on_grid : forall o s' j,
  s' <= schema o -> schema o <= 8 -> no_double_count o s' (TC (bcode j s')).
Proof. exact ndc_threshold_on_grid. Qed.

(* the same without any side condition when both zero buckets already have the same width *)
Theorem C31_add_same_threshold_partial : forall sgn h o,
  is_custom (schema h) = false -> is_custom (schema o) = false ->
  thr_eqb (zt o) (zt h) = true -> increasing (pos h) -> increasing (neg h) ->
  increasing (pos o) -> increasing (neg o) ->
  exists r, arith sgn h o = Ok r /\
    let s' := Z.min (schema h) (schema o) in
    schema (ao_h r) = s' /\ zt (ao_h r) = zt h /\
    zc (ao_h r) = zc h + sgn * zc o /\ cnt (ao_h r) = cnt h + sgn * cnt o /\
    (forall t, total (pos (ao_h r)) t =
               total (retarget (schema h - s') (pos h)) t +
               sgn * total (drop_below s' (zt h) (reduced_to s' (schema o) (pos o))) t) /\
    (forall t, total (neg (ao_h r)) t =
               total (retarget (schema h - s') (neg h)) t +
               sgn * total (drop_below s' (zt h) (reduced_to s' (schema o) (neg o))) t).
Proof. exact arith_same_threshold. Qed.

(* FULL STATEMENT for DetectReset: a reset is reported exactly when the hint says so, or
   (hint unknown/gauge) the count decreased, the bucket type changed, the resolution
   increased, the zero threshold decreased or now cuts through a populated bucket, or after
   aligning the previous histogram (lower resolution, wider zero bucket; intersected custom
   bounds) the zero count or some bucket count decreased.
   FALSE of the code as it is (C31_detect_refuted).  Proved here for exponential histograms
   with non-negative counts, hint unknown/gauge, under the same no_double_count condition on
   the previous histogram; the custom-bounds branch is covered by the correspondence check
   only (model function dmm), hence "_partial". *)
Theorem C31_detect_reset_iff_partial : forall c p b,
  is_exp (schema c) = true -> is_exp (schema p) = true ->
  increasing (pos c) -> increasing (neg c) -> increasing (pos p) -> increasing (neg p) ->
  nonneg (pos c) -> nonneg (neg c) -> nonneg (pos p) -> nonneg (neg p) ->
  wf_own c -> wf_own p -> hint c <> 1 -> hint c <> 2 ->
  detect_reset c p = Ok b ->
  no_double_count p (schema c) (zt c) ->
  (b = true <->
   cnt c < cnt p \/ schema p < schema c \/ thr_ltb (zt c) (zt p) = true \/
   cuts_populated p (zt c) \/
   zc c < zc p + absorbed_at p (zt c) \/
   (exists t, total (pos c) t <
              total (retarget (schema p - schema c) (kept_at (schema p) (zt p) (zt c) (pos p))) t) \/
   (exists t, total (neg c) t <
              total (retarget (schema p - schema c) (kept_at (schema p) (zt p) (zt c) (neg p))) t)).
Proof. exact detect_general. Qed.

(* hints short-cut; a change of the bucket type (custom <-> exponential) is a reset *)
Theorem C31_detect_reset_hint_and_type : forall c p,
  (hint c = 1 -> detect_reset c p = Ok true) /\ (hint c = 2 -> detect_reset c p = Ok false) /\
  (hint c <> 1 -> hint c <> 2 -> cnt p <= cnt c ->
   (is_custom (schema c) = true /\ is_custom (schema p) = false) \/
   (is_exp (schema c) = true /\ is_custom (schema p) = true) ->
   detect_reset c p = Ok true).
Proof. exact p_detect_reset_hint_and_type. Qed.

(* Finding 1: when `other` has the higher resolution and the common zero threshold is not a
   bucket boundary of the receiver's schema, buckets of `other` that were added to the zero
   count are added again to the merged bucket the threshold cuts: observations are counted
   twice.  Witness: receiver schema 0, zero threshold 2^(1/8), bucket (2,4]:3, zero count 1;
   other schema 3, buckets (1,2^(1/8)]:5 and (2^(1/8),2^(2/8)]:7.  The sum has 16 observations
   but zero count 6 + buckets 12 + 3 = 21. *)
Definition w_recv : fh := mkH 0 0 (TC 64) 1 4 0 [(2, 3)] [] [].
Definition w_other : fh := mkH 0 3 T0 0 12 0 [(1, 5); (2, 7)] [] [].
Theorem C31_add_refuted : exists h o r,
  wf h = true /\ wf o = true /\ arith 1 h o = Ok r /\
  cnt (ao_h r) = 16 /\
  zc (ao_h r) + sumc (pos (ao_h r)) + sumc (neg (ao_h r)) = 21 /\
  (zc h + sumc (pos h) + sumc (neg h)) + (zc o + sumc (pos o) + sumc (neg o)) = 16.
Proof. exists w_recv, w_other. eexists. repeat split; vm_compute; reflexivity. Qed.

(* Finding 2: for the same reason DetectReset reports a reset although nothing decreased: the
   previous histogram (schema 3, bucket (1,2^(1/8)]:5) and the current one (schema 0, zero
   bucket widened to 2^(1/8) holding those 5 observations) describe the same data. *)
Definition w_prev : fh := mkH 0 3 T0 0 5 0 [(1, 5)] [] [].
Definition w_cur : fh := mkH 0 0 (TC 64) 5 5 0 [] [] [].
Theorem C31_detect_refuted : exists c p,
  wf c = true /\ wf p = true /\ detect_reset c p = Ok true /\ reset_spec c p = false.
Proof. exists w_cur, w_prev. repeat split; vm_compute; reflexivity. Qed.

(* non-vacuity of C31_add_sub_partial / C31_detect_reset_iff_partial: a case where the zero
   bucket of the receiver is widened past one of its buckets, other has the higher resolution
   and the threshold is on the receiver's grid *)
Definition e_h : fh := mkH 0 0 (TC 0) 2 12 0 [(1, 4); (2, 6)] [] [].          (* schema 0, zt 1, (1,2]:4 (2,4]:6 *)
Definition e_o : fh := mkH 0 1 (TC 512) 3 11 0 [(3, 5); (4, 3)] [] [].        (* schema 1, zt 2, (2,2.83]:5 (2.83,4]:3 *)
Example C31_nonvacuous_add_sub_partial :
  wf_own e_o /\ no_double_count e_o 0 (TC 512) /\
  exists r, arith 1 e_h e_o = Ok r /\ zt (ao_h r) = TC 512 /\ zc (ao_h r) = 9 /\ pos (ao_h r) = [(2, 14)].
Proof.
  split; [|split].
  - intros b Hb. cbn in Hb. destruct Hb as [<-|[<-|[]]]; cbn; intro; discriminate.
  - apply (ndc_threshold_on_grid e_o 0 1); cbn; lia.
  - eexists. vm_compute. repeat split.
Qed.
Example C31_nonvacuous_detect_partial :
  detect_reset (mkH 0 0 (TC 512) 9 23 0 [(2, 14)] [] []) e_h = Ok false /\
  detect_reset (mkH 0 0 (TC 512) 9 23 0 [(2, 5)] [] []) e_h = Ok true /\
  no_double_count e_h 0 (TC 512).
Proof. repeat split; try (vm_compute; reflexivity). apply (ndc_threshold_on_grid e_h 0 1); cbn; lia. Qed.

Example C31_nonvacuous_custom :
  exists r, arith 1 (mkH 0 (-53) T0 0 9 0 [(0, 2); (1, 3); (3, 4)] [] [1; 2; 5])
                    (mkH 0 (-53) T0 0 6 0 [(0, 1); (2, 5)] [] [2; 5; 7]) = Ok r /\
            cv (ao_h r) = [2; 5] /\ pos (ao_h r) = [(0, 6); (2, 9)] /\ ao_reconciled r = true.
Proof. eexists. vm_compute. repeat split. Qed.

(* non-vacuity *)
Example C31_nonvacuous_expand :
  expand [mkSpan (-2) 2; mkSpan 3 1] [5; 0; 7] = Ok [(-2, 5); (-1, 0); (3, 7)].
Proof. reflexivity. Qed.
Example C31_nonvacuous_reduce :
  reduce_abs 1 [(-2, 5); (-1, 1); (0, 2); (3, 7); (4, 1)] = [(-1, 5); (0, 3); (2, 8)].
Proof. reflexivity. Qed.
Example C31_nonvacuous_compact :
  compact_abs 1 [(0, 0); (1, 4); (2, 0); (3, 5); (4, 0); (5, 0); (6, 2); (9, 1); (10, 0)] =
  [(1, 4); (2, 0); (3, 5); (6, 2); (9, 1)].
Proof. reflexivity. Qed.
Example C31_nonvacuous_detect :
  dr_lists [(1, 5); (2, 0); (4, 3)] [(1, 5); (4, 2)] = true /\
  dr_lists [(1, 5); (2, 0); (4, 3)] [(0, 9); (1, 6); (4, 3); (7, 1)] = false.
Proof. split; reflexivity. Qed.
Example C31_nonvacuous_same_threshold :
  exists r, arith (-1) (mkH 0 2 (TC 10) 3 20 0 [(1, 4); (5, 6)] [(2, 7)] [])
                       (mkH 3 0 (TC 10) 1 6 0 [(1, 2); (2, 3)] [] []) = Ok r /\
            pos (ao_h r) = [(1, 2); (2, 3)] /\ schema (ao_h r) = 0.
Proof. eexists. vm_compute. repeat split. Qed.

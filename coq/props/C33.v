(* props/C33.v — property theorems for C33 (query evaluation never fails internally).

   C33 is PARTIAL by nature. The theorems below are about a Gallina model of the typing
   (parser.checkAST), the preprocessing (promql.PreprocessExpr) and the control structure of
   the evaluator (evaluator.eval: every type assertion on values and AST nodes, every index
   into a scalar's sample, every explicit panic), with all data-dependent behaviour given by an
   arbitrary world. They establish the *typing* reason why evaluation cannot get stuck. They
   cannot establish the absence of nil dereferences or slice panics in Go code that the model
   does not contain (function bodies, histogram arithmetic, pooled buffers), nor independence
   of concurrently evaluated queries: that part of C33 rests on the generated runs of the
   harness (testing) only.

   Full statement (C33_type_soundness):
     forall e t, check_ast e = TyOk t -> forall w k, steps k >= 1 -> sound_query w k e t
   It is FALSE of the faithful model and of the code (C33_type_soundness_refuted, finding
   info-selector-step-invariant-wrapped). Proved: the statement for all expressions in which no
   info() label-selector argument carries an @ modifier (C33_type_soundness_partial). *)
From Coq Require Import List ZArith Bool String.
From Verif Require Import model.PromqlTyping proof.PromqlTypingProofs.
Import ListNotations.
Local Open Scope string_scope.

(* Type soundness. If checkAST accepts e with type t, then for every world (all stored data, all
   data-dependent results and user-facing errors, all subquery step counts) and every query kind
   (instant; range with any number n >= 1 of steps), running the query — preprocessing,
   evaluation, conversion of the result — never ends in an internal failure: it yields a value
   of type t (a matrix for range queries), a user-facing error, or, for a range query on a
   range-vector/string expression, the documented refusal.
   Side condition (what is missing for the full statement): info_plain e. *)
Theorem C33_type_soundness_partial :
  forall e t, check_ast e = TyOk t -> info_plain e = true ->
  forall w k, match k with QRange n => (1 <= n)%nat | QInstant => True end ->
  sound_query w k e t.
Proof. exact type_soundness. Qed.

(* The side condition cannot be dropped: info(foo, {version="v1"} @ 100) is accepted by checkAST
   with type vector, and evaluating it (instant and range) ends in the internal failure of the
   type assertion args[1].(parser.VectorSelector). Replayed on the real engine by the harness
   (corpus case info-at-selector). *)
Theorem C33_type_soundness_refuted :
  exists e t w, check_ast e = TyOk t /\
    run_query w QInstant e = QInternal FAssertNode /\ run_query w (QRange 3) e = QInternal FAssertNode.
Proof. exact type_soundness_refuted. Qed.

(* Ill-typed expressions are rejected before evaluation, whatever the data and the query kind. *)
Theorem C33_untyped_rejected :
  forall e, check_ast e = TyErr -> forall w k, run_query w k e = QRejected.
Proof. exact untyped_rejected. Qed.

(* The evaluator on preprocessed well-typed trees, in every evaluator context in which a node can
   be reached (any number of steps, including the empty range of a subquery): a value of the
   node's type or a user-facing error. *)
Theorem C33_eval_sound :
  forall w e, wtp e = true -> forall n, ctx_ok n e -> sound n (type_of e) (eval w n e).
Proof. exact eval_sound. Qed.

(* checkAST + PreprocessExpr establish the invariant the evaluator relies on (string arguments
   are StringLiteral nodes, range-vector arguments are MatrixSelector/SubqueryExpr nodes,
   StepInvariantExpr wraps scalars and instant vectors only, ...), and preserve the type. *)
Theorem C33_preprocess_establishes_invariant :
  forall e, check e = true -> info_plain e = true ->
  exists pe, preprocess e = Some pe /\ wtp pe = true /\ type_of pe = type_of e.
Proof. exact preprocess_wtp. Qed.

(* The function tables satisfy what the evaluator's Call case relies on: functions return
   scalars or vectors only; a function with a range-vector parameter is not variadic, has exactly
   one such parameter, and all its other parameters are scalars; only label_replace/label_join/
   info (special-cased) and start/end/range/step (folded away) have no FunctionCalls entry. *)
Theorem C33_function_tables_wf : ftab_wf ftab = true.
Proof. exact ftab_wf_ok. Qed.

(* Non-vacuity: well-typed queries that meet the side condition and evaluate to values
   (ex_topk is the repaired finding agg-param-not-preprocessed), and ill-typed ones. *)
Example C33_ex_topk :
  check_ast ex_topk = TyOk TVector /\ info_plain ex_topk = true /\
  run_query canon_world QInstant ex_topk = QValue TVector /\ run_query canon_world (QRange 3) ex_topk = QValue TMatrix.
Proof. exact ex_topk_ok. Qed.
Example C33_ex_rate :
  check_ast ex_rate = TyOk TVector /\ info_plain ex_rate = true /\
  run_query canon_world QInstant ex_rate = QValue TVector /\ run_query canon_world (QRange 3) ex_rate = QValue TMatrix.
Proof. exact ex_rate_ok. Qed.
Example C33_ex_illtyped :
  check_ast (EUn 1 EStr) = TyErr /\ check_ast (ECall 1 "rate" [EVec 2 (mkVS true false true false)]) = TyErr.
Proof. exact ex_illtyped. Qed.

(* props/C33.v — property theorems for C33 (query evaluation never fails internally). *)
From Coq Require Import List ZArith Bool String.
From Verif Require Import model.PromqlTyping proof.PromqlTypingProofs.
Import ListNotations.
Local Open Scope string_scope.

(* The function tables satisfy what the evaluator's Call case relies on: functions return
   scalars or vectors only; a function with a range-vector parameter has exactly one, and all
   its other parameters are scalars; only label_replace/label_join/info (special-cased) and
   start/end/range/step (folded away) have no FunctionCalls entry. *)
Theorem C33_function_tables_wf : ftab_wf ftab = true.
Proof. exact ftab_wf_ok. Qed.

(* props/C22.v — property C22: samples are never attributed to the wrong series.

   Full statement (properties.jsonl): a sample is only ever returned under the label set it was
   appended with; series references handed out are never reused for a different label set while any
   cached reference, WAL record or head-chunk file may still refer to them, across series garbage
   collection, stale-series and selected-series eviction, WAL checkpoints and restarts with or
   without fast startup; appending with an outdated reference either resolves to the right series
   or falls back to the given labels.

   Model: model/SeriesRef.v.  All theorems quantify over every history `ops` (every sequence of
   transactions, truncations, gc passes, evictions and restarts) and over every value of the
   inputs the model does not compute (which series a gc pass removes, keepUntil values, append
   acceptance, head-chunk file / WBL content, series_state.json content, minValidTime, fast
   startup on/off, clean/unclean). *)
From Coq Require Import List ZArith Bool Lia.
From Verif Require Import model.SeriesRef proof.SeriesRefProofs.
Import ListNotations.
Open Scope Z_scope.

(* (1) lastSeriesID bounds, in every reachable state, the ref of every series record and every
   tombstone record of the durable WAL (checkpoint and segments), of every head series, of every
   reference the client cached and — since fix 422818037d — of every chunk found in the head-chunk
   files at the last restart; hence a reference allocated for a new series is greater than all
   of them — after any number of restarts, with any series_state.json content and fast startup on
   or off (fix 38fca1216f: the state file can only raise the id). *)
Theorem C22_ref_fresh : forall ops a,
  let m := run ops in
  by_ref (head m) (a_cref a) = None -> by_lset (head m) (a_l a) = None ->
  let '(_, _, _, crt, _) := append1 (last m) (head m) a in
  crt = [RSeries (last m + 1) (a_l a)] /\
  (forall x r, In x (wal m) -> rec_alloc_ref x = Some r -> r < last m + 1) /\
  (forall s, In s (head m) -> s_ref s < last m + 1) /\
  (forall p, In p (cache m) -> fst p < last m + 1) /\
  (* head-chunk files: cs is what was on disk at the last restart of the history *)
  (forall ops1 cl fo fn sf mv cs wbl ea alive ops2 c,
     ops = ops1 ++ ORestart cl fo fn sf mv cs wbl ea alive :: ops2 ->
     forallb (fun o => negb (is_restart o)) ops2 = true -> In c cs -> ck_ref c < last m + 1).
Proof. exact fresh_ref_above_chunks. Qed.

(* non-vacuity: a history with a gc'd series, a checkpoint, a stale state file read by fast
   startup and a restart, after which a series is created *)
Definition ex_ops : list op :=
  [OTx [mkApp 0 0 100 true false; mkApp 0 1 100 true false];
   ORestart true true false (Some (2, 0, true)) min_int64 [] [] [] [1; 2];
   OTx [mkApp 0 2 200 true false];
   ORestart true false false (Some (2, 0, true)) min_int64 [] [] [] [1; 2; 3];
   ORestart true false false (Some (2, 0, true)) min_int64 [] [] [] [1; 2; 3];
   OTruncate 1000 [(3, 50)];
   OTruncate 2000 [];
   ORestart false false true (Some (2, 0, true)) 2000 [] [] [] [1; 2]].

Example C22_ref_fresh_nonvacuous :
  let m := run ex_ops in
  (* series 3 was garbage-collected and its records have left the WAL: its ref is free again *)
  last m = 2 /\ map s_ref (head m) = [2; 1] /\ wal m = [RSeries 1 0; RSeries 2 1] /\
  by_ref (head m) 0 = None /\ by_lset (head m) 7 = None /\
  append1 (last m) (head m) (mkApp 0 7 300 true false)
  = (3, [mkS 3 7 [7]; mkS 2 1 []; mkS 1 0 []], 3, [RSeries 3 7], [RSample 3 7 300]).
Proof. vm_compute. repeat split; auto. Qed.

Example C22_ref_fresh_chunks_nonvacuous :
  (* a head-chunk file is the only thing that still knows ref 5 *)
  let ops := [OTx [mkApp 0 0 100 true false];
              ORestart true false true (Some (0, 0, true)) min_int64 [mkChunk 5 true 10 [9]] [] [] [1]] in
  last (run ops) = 5 /\ wal (run ops) = [RSeries 1 0; RSample 1 0 100] /\
  last (run_old ops) = 1.
Proof. vm_compute. repeat split; reflexivity. Qed.

(* (2) Under the two conditions the property text names —
     * the client passes 0 or a reference it was handed for the same labels in this process
       (tx_ok; its cache is lost at a restart), and
     * what head-chunk files and the WBL hold for a ref at a restart belongs to the label set
       that the WAL's series record for this ref names (restart_ok) —
   every history leaves every head series holding only samples appended with its own labels (so
   a query over the head returns every sample under the labels it was appended with), the durable
   WAL never contains two series records with one ref and different labels, and every sample
   record follows only series records of its ref that carry its own labels.  Quantified over all
   gc decisions, keepUntil values, checkpoints, state-file contents, clean/unclean restarts and
   fast startup on/off. *)
Theorem C22_labels_stable : forall ops,
  ops_ok init ops ->
  let m := run ops in
  head_pure m = true /\
  (forall q, In q (query_head m) -> forall g, In g (snd q) -> g = fst q) /\
  stream_uniq (wal m) /\ attr_from [] (wal m).
Proof.
  intros ops Hok m. pose proof (inv2_run ops Hok) as Hi. fold m in Hi.
  split; [now apply head_pure_of_inv2|]. split; [|split; [apply (i_uniq _ Hi)|apply (i_attr _ Hi)]].
  intros q Hq g Hg. unfold query_head in Hq. apply in_map_iff in Hq. destruct Hq as (s & <- & Hs).
  simpl in *. eapply i_pure; eauto.
Qed.

(* (3) appending through an outdated reference: the sample lands in a series carrying the given
   labels (the reference resolves to the right series, or the append falls back to the labels) —
   every head series that has the returned ref carries the labels given to Append. *)
Theorem C22_stale_ref_safe : forall ops a,
  ops_ok init ops ->
  let m := run ops in
  client_ok (cache m) a -> a_ok a = true ->
  let '(_, h1, ret, _, _) := append1 (last m) (head m) a in
  (exists s, In s h1 /\ s_ref s = ret) /\
  (forall s, In s h1 -> s_ref s = ret -> s_l s = a_l a /\ series_pure_p s).
Proof. exact stale_ref_safe. Qed.

Example C22_labels_stable_nonvacuous :
  ops_ok init ex_ops /\ client_ok (cache (run ex_ops)) (mkApp 0 7 300 true false).
Proof. vm_compute. intuition (try lia; try discriminate; auto). Qed.

(* (4) The code BEFORE fix 422818037d (model: run_old = replay that ignores the refs of the
   head-chunk files and stores the state file's id unconditionally) violated (1) for chunk files
   and, through it, the second condition of (2).  Witness = the operations and inputs OBSERVED on
   the real tsdb.DB before the fix in the corpus history "ooo-chunk-file-outlives-series" of
   harness/cmd/h_c22: series {l=1} (ref 2) has an out-of-order chunk m-mapped into a head-chunk
   file, is garbage-collected, and its series record leaves the WAL through a checkpoint while the
   chunk file survives.  After a restart lastSeriesID was 1, so the new series {l=2} was handed
   ref 2; after the next restart loadWAL attached the old out-of-order chunk of {l=1} to it and a
   query returned the sample appended to {l=1} under {l=2}.  The same history is replayed on the
   fixed code by every run of the check (regression case). *)
Definition witness_ops : list op :=
  [OTx [mkApp 0 0 550 true false; mkApp 0 1 550 true false];
   OTx [mkApp 1 0 1000 true false; mkApp 2 1 1000 true false];
   OTx [mkApp 2 1 775 true false];
   ORestart true false false None (-9223372036854775808) [mkChunk 1 false 550 [0]; mkChunk 2 false 550 [1]] [RSample 2 1 775] [] [1; 2];
   ORestart true false false None (-9223372036854775808) [mkChunk 1 false 550 [0]; mkChunk 2 false 550 [1]] [RSample 2 1 775] [] [1; 2];
   OTx [mkApp 0 0 1900 true false];
   OTx [mkApp 1 0 2350 true false];
   OTx [mkApp 1 0 2800 true false];
   OTx [mkApp 1 0 3250 true false];
   OTx [mkApp 1 0 3700 true false];
   OTx [mkApp 1 0 4150 true false];
   OTx [mkApp 1 0 4600 true false];
   OTx [mkApp 1 0 5050 true false];
   OGc [];
   OTruncate 1000 [];
   OTx [mkApp 1 0 5500 true false];
   OTruncate 2000 [(2,2350)];
   OTx [mkApp 1 0 5950 true false];
   OTruncate 3000 [];
   OTx [mkApp 1 0 6400 true false];
   OTruncate 4000 [];
   OTx [mkApp 1 0 6850 true false];
   OTruncate 5000 [];
   OTx [mkApp 1 0 7300 true false];
   OTruncate 6000 [];
   OTx [mkApp 1 0 7750 true false];
   ORestart true false false None 6000 [mkChunk 1 false 1900 [0]; mkChunk 1 false 2800 [0]; mkChunk 1 false 3700 [0]; mkChunk 1 false 4600 [0]; mkChunk 2 true 775 [1]; mkChunk 1 false 6850 [0]] [] [] [1];
   OTx [mkApp 0 2 8200 true false];
   ORestart true false false None 6000 [mkChunk 1 false 1900 [0]; mkChunk 1 false 2800 [0]; mkChunk 1 false 3700 [0]; mkChunk 1 false 4600 [0]; mkChunk 2 true 775 [1]; mkChunk 1 false 6850 [0]] [] [] [1; 2];
   OTx [mkApp 0 3 8650 true false]].

Theorem C22_chunk_file_ref_reuse_old_refuted :
  exists ops,
    (* the client is disciplined and all sf ids are fine; only the chunk-file condition fails *)
    (forall n, match nth_error ops n with
               | Some (OTx apps) => tx_ok (run_old (firstn n ops)) apps
               | _ => True
               end) /\
    (* a ref handed out after a restart is NOT greater than every ref in a surviving head-chunk file *)
    (exists cs, In (mkChunk 2 true 775 [1]) cs /\ In (RSeries 2 2) (wal (run_old ops))) /\
    head_pure (run_old ops) = false /\
    In (2, [2; 1]) (query_head (run_old ops)).
Proof.
  exists witness_ops. split; [|split; [|split]].
  - intros n. do 31 (destruct n as [|n]; [vm_compute; intuition (try lia; auto)|]).
    vm_compute. destruct n; exact I.
  - exists [mkChunk 2 true 775 [1]]. split; [now left|]. vm_compute. intuition.
  - vm_compute. reflexivity.
  - vm_compute. intuition.
Qed.

(* the fixed replay on the same disk content: lastSeriesID is 2 after the restart that used to
   yield 1, so the next series gets ref 3 *)
Example C22_fixed_on_old_witness :
  last (run_old (firstn 27 witness_ops)) = 1 /\ last (run (firstn 27 witness_ops)) = 2.
Proof. vm_compute. split; reflexivity. Qed.

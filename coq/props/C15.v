(* props/C15.v — property theorems for C15 (WAL truncation keeps everything replay still needs).
   Statements only; proofs are in proof/CheckpointProofs.v.

   Full statement of the property (for reference): after any history of appends, series churn, GC,
   evictions, restarts, deletes and repeated truncations, for the truncation time g,
       view g (replay (checkpoint ++ remaining segments)) = view g (replay (untruncated log))
   for samples, exemplars, tombstones and latest metadata, and every sample / exemplar / metadata /
   tombstone record left in the log is preceded by a series record of its ref.

   What is proved here:
   * C15_checkpoint_equiv — for EVERY log, keep function, mint and minValidTime: samples, exemplars and
     tombstones at or after mint are the same, under the side condition [safe] (a dropped record, or a
     record of a series whose series record is dropped, contributes nothing at or after mint — checked
     along the replay of the untruncated log; decidable: C15_safe_decidable).
   * C15_truncate_wal_is_checkpoint / C15_truncate_wal_equiv — Head.truncateWAL with the head's own keep
     function (series in head or walExpiries >= mint) is an instance.
   * C15_checkpoint_preceded — precedence for everything at or after mint.
   * C15_history_partial is NOT proved: that [safe] holds at every truncation of every history (induction
     over gc / eviction / restart with multiRef).  Instead `holds` evaluates the conclusion on every
     generated truncation of the real implementation.
   * refuted parts of the literal statement: C15_metadata_refuted, C15_precede_literal_refuted. *)
From Coq Require Import List ZArith Bool Sorted.
From Verif Require Import lib.Int64 model.Checkpoint proof.CheckpointProofs.
Import ListNotations.
Open Scope Z_scope.

(* Replaying checkpoint(low) ++ high yields the same samples, exemplars and tombstones at or after mint
   as replaying low ++ high — for all logs, keep functions, truncation times and minValidTimes. *)
Theorem C15_checkpoint_equiv : forall keep mint mv low high,
  safe keep mint mv low high ->
  view_items mint (d_items (replay_data mv (checkpoint keep mint low ++ high))) =
  view_items mint (d_items (replay_data mv (low ++ high))).
Proof. exact checkpoint_equiv. Qed.

(* the side condition can be computed (the correspondence evaluates it on real logs) *)
Theorem C15_safe_decidable : forall keep mint mv low high,
  safeb keep mint mv low high = true -> safe keep mint mv low high.
Proof. exact safeb_sound. Qed.

(* Every sample / exemplar / deletion tombstone at or after mint of the truncated log is preceded by a
   series record of its ref, if that was so before and the series of such records are kept. *)
Theorem C15_checkpoint_preceded : forall keep mint low high,
  (forall x, In x (flat_map (rec_refs_at mint) (low ++ high)) -> keep x = true) ->
  preceded mint (low ++ high) = true ->
  preceded mint (checkpoint keep mint low ++ high) = true.
Proof. exact checkpoint_preceded. Qed.

(* Head.truncateWAL(mint) replaces the records of the last checkpoint and of segments <= last by
   Checkpoint(keepSeriesInWALCheckpointFn(mint), mint) of them and leaves the later segments alone. *)
Theorem C15_truncate_wal_is_checkpoint : forall h mint last,
  h_last_trunc h < mint ->
  plan_last (w_first (h_wal h)) (w_cur (h_wal h)) = Some last ->
  w_cpidx (h_wal h) <= last ->
  StronglySorted seg_le (w_segs (h_wal h)) ->
  let low := cp_input (h_wal h) last in
  let high := map snd (filter (fun sr => last <? fst sr) (w_segs (h_wal h))) in
  wal_records (h_wal h) = low ++ high /\
  wal_records (h_wal (truncate_wal h mint)) =
    checkpoint (keep_head (h_series h) (h_exp h) mint) mint low ++ high.
Proof. exact truncate_wal_records. Qed.

Theorem C15_truncate_wal_equiv : forall h mint mv last,
  h_last_trunc h < mint ->
  plan_last (w_first (h_wal h)) (w_cur (h_wal h)) = Some last ->
  w_cpidx (h_wal h) <= last ->
  StronglySorted seg_le (w_segs (h_wal h)) ->
  safe (keep_head (h_series h) (h_exp h) mint) mint mv (cp_input (h_wal h) last)
       (map snd (filter (fun sr => last <? fst sr) (w_segs (h_wal h)))) ->
  view_items mint (d_items (replay_data mv (wal_records (h_wal (truncate_wal h mint))))) =
  view_items mint (d_items (replay_data mv (wal_records (h_wal h)))).
Proof. exact truncate_wal_equiv. Qed.

(* Agent: DB.truncate(mint) is Checkpoint(agent keep function, mint) of the last checkpoint and the segments
   <= last; it preserves precedence when the records at or after mint belong to kept series. *)
Theorem C15_agent_truncate_is_checkpoint : forall a mint gone last,
  plan_last (w_first (a_wal a)) (w_cur (a_wal a)) = Some last ->
  w_cpidx (a_wal a) <= last ->
  StronglySorted seg_le (w_segs (a_wal a)) ->
  let low := cp_input (a_wal a) last in
  let high := map snd (filter (fun sr => last <? fst sr) (w_segs (a_wal a))) in
  let ser := filter (fun r => negb (memz r gone)) (a_series a) in
  let del := set_all gone (w_cur (a_wal a)) (a_deleted a) in
  wal_records (a_wal a) = low ++ high /\
  wal_records (a_wal (agent_truncate a mint gone)) = checkpoint (agent_keep ser del last) mint low ++ high.
Proof. exact agent_truncate_records. Qed.

Theorem C15_agent_truncate_preceded : forall a mint gone last,
  plan_last (w_first (a_wal a)) (w_cur (a_wal a)) = Some last ->
  w_cpidx (a_wal a) <= last ->
  StronglySorted seg_le (w_segs (a_wal a)) ->
  let ser := filter (fun r => negb (memz r gone)) (a_series a) in
  let del := set_all gone (w_cur (a_wal a)) (a_deleted a) in
  (forall x, In x (flat_map (rec_refs_at mint) (wal_records (a_wal a))) -> agent_keep ser del last x = true) ->
  preceded mint (wal_records (a_wal a)) = true ->
  preceded mint (wal_records (a_wal (agent_truncate a mint gone))) = true.
Proof. exact agent_truncate_preceded. Qed.

(* "Latest metadata" part of the statement: false for a label set whose old series record is dropped. *)
Theorem C15_metadata_refuted :
  exists keep mint mv low high L,
    safe keep mint mv low high /\
    In L (map i_lab (view_items mint (d_items (replay_data mv (low ++ high))))) /\
    lookup L (d_meta (replay_data mv (checkpoint keep mint low ++ high))) <>
    lookup L (d_meta (replay_data mv (low ++ high))).
Proof. exact metadata_refuted. Qed.

(* Literal "every record left in the log" precedence: false (a sample below the truncation time of a
   garbage-collected series stays in a later segment after its series record is dropped). *)
Theorem C15_precede_literal_refuted :
  w_cpidx (h_wal (run ex_history)) = 1 /\
  preceded minInt64 (wal_records (h_wal (run ex_history))) = false /\
  preceded 100 (wal_records (h_wal (run ex_history))) = true.
Proof. exact precede_literal_refuted. Qed.

(* non-vacuity: a log with a dropped series, a re-created label set, a tombstone and an orphan sample
   meets the side condition; the checkpoint really drops records; six items are visible *)
Example C15_nonvacuous :
  safe ex_keep 100 minInt64 ex_low ex_high /\
  length (checkpoint ex_keep 100 ex_low) = 7%nat /\
  length (view_items 100 (d_items (replay_data minInt64 (ex_low ++ ex_high)))) = 6%nat.
Proof. split; [exact ex_safe|]. split; [rewrite ex_checkpoint; reflexivity|exact ex_view_nonempty]. Qed.

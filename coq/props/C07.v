(* props/C07.v — property theorems for C07 (compaction preserves the union of its inputs).
   Statements only; proofs are in proof/CompactMergeProofs.v. The model is model/CompactMerge.v
   (DefaultBlockPopulator.PopulateBlock over persisted blocks: block chunk series sets with
   trimming and tombstones, merge of the sets, compacting chunk merger, index chunk-order check,
   BlockMeta.Stats), on top of model/Merge.v (C19) and model/Intervals.v (C20).

   Vocabulary. [inputs_ok blocks mint maxt]: at least one block; in every block the series are
   strictly label-sorted, every series' chunks are well-formed ([cb]: non-empty, strictly
   time-sorted, MinTime/MaxTime attained), time-ordered and disjoint ([cdisj]), of one value
   type each, with int64 bounds; its tombstones are canonical (what Intervals.Add produces, C20);
   every timestamp is > MinInt64 (C19's known finding chain-minint64-dropped otherwise);
   mint is an int64 and MinInt64 < maxt <= MaxInt64. The output range is [mint, maxt), i.e. the
   closed range [mint, maxt-1].
   [survivors mint (maxt-1) blocks l]: every sample, of every series labelled l in every block,
   that lies in the range and in none of that series' tombstone intervals of that block.
   [dedup_ts]: the sorted, de-duplicated timestamps of a sample list.
   Every theorem quantifies over the choice stream [ch], i.e. holds for every tie-breaking of the
   heaps in storage/merge.go. *)
From Coq Require Import List ZArith Sorted.
From Verif Require Import lib.Int64 model.Intervals model.Merge proof.MergeProofs model.CompactMerge
     proof.CompactMergeProofs.
Import ListNotations.
Open Scope Z_scope.

(* A compaction of well-formed blocks never fails (no Intervals.Add panic, no mixed-type chunk,
   no merge error, no out-of-order chunk rejected by the index writer). *)
Theorem C07_total : forall ch blocks mint maxt, inputs_ok blocks mint maxt ->
  exists out st ch', populate_block ch true blocks mint maxt = (Some (out, st), ch').
Proof. exact pb_total. Qed.

(* The samples of every output series are exactly the de-duplicated union of the inputs within
   the output range minus the deleted intervals: one sample per surviving timestamp, in time
   order, and each one IS a surviving input sample of that label set (its value is the value of
   one of the inputs that hold the timestamp undeleted). *)
Theorem C07_union : forall ch blocks mint maxt out st ch', inputs_ok blocks mint maxt ->
  populate_block ch true blocks mint maxt = (Some (out, st), ch') ->
  forall l chks, In (l, chks) out ->
    map s_t (all_smps chks) = dedup_ts (survivors mint (maxt - 1) blocks l) /\
    (forall x, In x (all_smps chks) -> In x (survivors mint (maxt - 1) blocks l)).
Proof. exact pb_union. Qed.

(* No series lost or invented: the output label sets are strictly increasing (each once, in
   index order) and are exactly those with at least one surviving sample. *)
Theorem C07_series : forall ch blocks mint maxt out st ch', inputs_ok blocks mint maxt ->
  populate_block ch true blocks mint maxt = (Some (out, st), ch') ->
  StronglySorted Z.lt (map fst out) /\
  forall l, In l (map fst out) <-> survivors mint (maxt - 1) blocks l <> [].
Proof. exact pb_series. Qed.

(* The output chunks of each series are well-formed, time-ordered and non-overlapping, and no
   series is written without chunks. *)
Theorem C07_chunks_ordered : forall ch blocks mint maxt out st ch', inputs_ok blocks mint maxt ->
  populate_block ch true blocks mint maxt = (Some (out, st), ch') ->
  forall l chks, In (l, chks) out -> chks <> [] /\ Forall cb chks /\ cdisj chks.
Proof. exact pb_chunks. Qed.

(* BlockMeta.Stats equals the counts of what was written: series, chunks, samples, and samples
   by chunk encoding (histogram / float). *)
Theorem C07_stats : forall ch blocks mint maxt out st ch', inputs_ok blocks mint maxt ->
  populate_block ch true blocks mint maxt = (Some (out, st), ch') -> st = count_stats out.
Proof. exact pb_stats. Qed.

(* LeveledCompactor.Compact: the output range is the hull computed by CompactBlockMetas; when
   the block metas are honest ([metas_ok]: int64 bounds, every sample of a block inside
   [MinTime, MaxTime)) nothing is cut by the range: the written block holds, per label set,
   exactly the de-duplicated union of all undeleted input samples ([undeleted]: every sample of
   every input series of that label set outside that series' tombstones in its block). *)
Theorem C07_compact : forall ch blocks, compact_inputs_ok blocks ->
  exists out st ch', compact_blocks ch true blocks = (Some (out, st), ch') /\
    StronglySorted Z.lt (map fst out) /\
    (forall l, In l (map fst out) <-> undeleted blocks l <> []) /\
    (forall l chks, In (l, chks) out ->
       chks <> [] /\ Forall cb chks /\ cdisj chks /\
       map s_t (all_smps chks) = dedup_ts (undeleted blocks l) /\
       (forall x, In x (all_smps chks) -> In x (undeleted blocks l))) /\
    st = count_stats out.
Proof. exact compact_blocks_correct. Qed.

(* Non-vacuity: two overlapping blocks, a tombstone straddling a chunk boundary, a range that
   cuts the last sample, a series present in one block only; t=10 is deleted in block 1 but
   survives through block 2. *)
Example C07_nonvacuous :
  inputs_ok ex_blocks 0 26 /\
  fst (populate_block [] true ex_blocks 0 26) =
  Some ([(0, [mkC 0 0 [mkS 0 1 1]; mkC 5 10 [mkS 5 1 2; mkS 10 1 2]; mkC 25 25 [mkS 25 1 2]]);
         (3, [mkC 7 7 [mkS 7 2 9]])], mkSt 2 4 5 1 4) /\
  survivors 0 25 ex_blocks 0 = [mkS 0 1 1; mkS 5 1 2; mkS 10 1 2; mkS 25 1 2].
Proof. split; [exact ex_blocks_ok|exact ex_blocks_run]. Qed.

(* The concatenating merger (storage.NewConcatenatingChunkSeriesMerger) is NOT generally
   applicable in a compaction, even for blocks that are disjoint in time and given in time
   order: the order in which the series of one label set are concatenated is the pop order of
   equal keys from the heap of sets, so under one tie-breaking the chunks come out of time
   order and index.Writer.AddSeries rejects them (the compaction returns an error, nothing is
   written), under another they are in order. Replayed on the real code: corpus case
   "concatenating-disjoint-blocks" returns "chunk minT 20 is not higher than previous chunk
   maxT 50". The compacting merger (the default) handles the same input under every
   tie-breaking (C07_total). *)
Theorem C07_concatenating_refuted :
  inputs_ok cc_blocks 0 51 /\
  fst (populate_block [] false cc_blocks 0 51) = None /\
  (exists out st, fst (populate_block [2%nat; 1%nat] false cc_blocks 0 51) = Some (out, st)) /\
  (exists out st, fst (populate_block [] true cc_blocks 0 51) = Some (out, st)).
Proof. exact concat_order_dependent. Qed.

(* props/C03.v — property C03: acknowledged writes survive a process crash at any point.

   Model: model/Durable.v.  A history is a list of operations (Commit / Delete / CutHead /
   TruncWAL / CutOOO / Merge); [fs_trace] is the sequence of persistence steps (WAL page flush,
   segment creation, tmp-dir rename, remove, ...) the implementation performs for it, [durable]
   folds a prefix of that trace into the state of the directory, [recover] is what tsdb.Open +
   a querier over everything return for such a directory.  A crash is ANY prefix of the trace
   (process kill: completed syscalls are durable; power-loss reordering is out of scope).

   [spec] is the flat specification: the samples of the acknowledged commits minus those covered
   by an acknowledged deletion issued later.  [step_lo] / [step_hi] bound what an operation in
   flight may do: a commit in flight may add any of ITS accepted samples (the triples series /
   timestamp / value themselves, so never an altered value), a deletion in flight may remove
   samples it selects, every other operation (head / out-of-order / block compaction, WAL
   truncation and checkpointing, parent deletion) changes nothing at any of its steps.

   wf_hist (the hypotheses, each checked by the harness' generator or excluded as a finding):
   an accepted in-order sample is not below minValidTime and no accepted sample lies under an
   existing head tombstone (C01 finding F3); a deletion does not select an out-of-order sample
   still in the head (C01 findings F1/F2); WAL truncation is called with a time not above the
   in-order block horizon (DB.Compact passes the MaxTime of the block it just made durable);
   a merge either has only out-of-order parents or does not raise the in-order horizon
   (violated by the code as it is: C03_refuted_mixed_merge, finding
   mixed-merge-advances-minvalidtime); deleting the parents of a compaction with an empty
   result does not lower the in-order horizon (otherwise the WAL replays deleted samples:
   C01 finding restart-replays-compacted-samples). *)
From Coq Require Import List ZArith Bool.
From Verif Require Import lib.Int64 model.Durable proof.DurableProofs.
Import ListNotations.
Open Scope Z_scope.

(* Crash after ANY number k of persistence steps of ANY well-formed history: the reopened
   database shows, for some i = number of operations that completed (were acknowledged),
   at least what the first i operations left (minus what a deletion in flight selects) and at
   most that plus the accepted samples of a commit in flight — with unaltered values, nothing
   rejected, rolled back or never appended. *)
Theorem C03_crash_anywhere :
  forall c ops k, 0 < c_range c -> wf_hist c ops -> (k <= length (fs_trace c ops))%nat ->
  exists i, (i <= length ops)%nat /\
    let R := recover (durable (fs0 c) (firstn k (fs_trace c ops))) in
    match nth_error ops i with
    | Some o => subset (step_lo (spec (firstn i ops)) o) R /\ subset R (step_hi (spec (firstn i ops)) o)
    | None => same_set R (spec ops)
    end.
Proof. exact crash_anywhere. Qed.

(* the same, addressed by (operations completed, steps of the next one done) *)
Theorem C03_crash_state_bounds :
  forall c ops i j, 0 < c_range c -> wf_hist c ops ->
  let R := recover (crash_state c ops i j) in
  match nth_error ops i with
  | Some o => subset (step_lo (spec (firstn i ops)) o) R /\ subset R (step_hi (spec (firstn i ops)) o)
  | None => same_set R (spec (firstn i ops))
  end.
Proof. exact crash_state_bounds. Qed.

(* every acknowledged, undeleted sample survives a crash inside any later operation *)
Theorem C03_acked_survive :
  forall c ops i j o x, 0 < c_range c -> wf_hist c ops -> nth_error ops i = Some o ->
  In x (spec (firstn i ops)) ->
  (forall mint maxt sel ord, o = Delete mint maxt sel ord -> matches mint maxt sel x = false) ->
  In x (recover (crash_state c ops i j)).
Proof. exact acked_survive. Qed.

(* nothing appears that was not acknowledged or part of the commit in flight (all-or-part of
   it, values unaltered) *)
Theorem C03_inflight_subset :
  forall c ops i j o x, 0 < c_range c -> wf_hist c ops -> nth_error ops i = Some o ->
  In x (recover (crash_state c ops i j)) ->
  In x (spec (firstn i ops)) \/ exists acc, o = Commit acc /\ In x (map fst acc).
Proof. exact nothing_invented. Qed.

(* acknowledged deletions stay applied: a sample they selected is in the specification set
   only if a later commit stored it again *)
Theorem C03_deletions_stick :
  forall ops1 mint maxt sel ord ops2 x,
  In x (spec (ops1 ++ Delete mint maxt sel ord :: ops2)) -> matches mint maxt sel x = true ->
  exists acc, In (Commit acc) ops2 /\ In x (map fst acc).
Proof. exact spec_after_delete. Qed.

(* without a crash: a reopen after any complete well-formed history shows exactly [spec] *)
Theorem C03_clean_restart :
  forall c ops, 0 < c_range c -> wf_hist c ops ->
  Inv (m_fs (run c ops)) /\ same_set (recover (m_fs (run c ops))) (spec ops).
Proof. exact run_good. Qed.

(* per mechanism *)
(* block write = tmp dir + rename: nothing is visible before the rename *)
Theorem C03_tmp_dir_invisible :
  forall s b, recover (apply s (TmpFill b)) = recover s.
Proof. exact tmpfill_invisible. Qed.
(* checkpoint = tmp dir + rename; removing a directory renamed for deletion *)
Theorem C03_checkpoint_tmp_invisible :
  forall s rs, recover (apply s (CpTmpWrite rs)) = recover s.
Proof. exact cptmp_invisible. Qed.
Theorem C03_deletion_dir_invisible :
  forall s id, recover (apply s (DelRemove id)) = recover s.
Proof. exact delremove_invisible. Qed.
(* every single operation: invariant re-established, visible set = specification step, and the
   bounds at each of its persistence steps (checkpoint-then-truncate, parents deleted only after
   the child is durable, tombstone files replaced by rename are instances) *)
Theorem C03_every_operation :
  forall c m o, 0 < c_range c -> Inv (m_fs m) -> wf_op (m_fs m) o -> op_good c m o.
Proof. exact op_good_all. Qed.

(* The hypothesis on Merge cannot be dropped: the code as it is merges an out-of-order block
   with older in-order blocks into a block without the out-of-order hint, the in-order horizon
   (minValidTime after a restart) jumps over samples that exist only in the WAL, and an
   acknowledged sample is lost by a mere restart. *)
Theorem C03_refuted_mixed_merge :
  exists c ops x, 0 < c_range c /\ In x (spec ops) /\ ~ In x (recover (m_fs (run c ops))).
Proof. exact refuted_mixed_merge. Qed.

(* non-vacuity: a well-formed history with every operation, 20 persistence steps *)
Example C03_ex_wf : wf_hist ex_cfg ex_ops.
Proof. exact ex_wf. Qed.
Example C03_ex_steps : length (fs_trace ex_cfg ex_ops) = 20%nat.
Proof. exact ex_trace_length. Qed.
Example C03_ex_final : recover (m_fs (run ex_cfg ex_ops)) = [(1, 1200, 3); (1, 1800, 6); (1, 2900, 7)].
Proof. exact ex_final. Qed.

(* props/C17.v — property theorems for C17: the optimised label regex matcher
   (labels.FastRegexMatcher) reports a match exactly when the fully anchored expression, with
   '.' matching newlines, matches; and an exposed finite set of values is exact.
   Statements only; proofs are in lib/RegexProofs.v and proof/FastRegexProofs.v.

   Meaning of a syntax tree: Matches F r s := CM F true true (lower r) s  (lib/Regex.v), the
   anchored match ^(?s:r)$, with F the Unicode simple-folding relation. *)
From Coq Require Import List ZArith Bool.
From Verif Require Import lib.Regex lib.RegexProofs model.FastRegex proof.FastRegexProofs proof.FastRegexProofs2 proof.FastRegexProofs3.
Import ListNotations.
Open Scope Z_scope.

(* The executable reference matcher (Brzozowski derivatives) used by the checker and as the
   model of m.re.MatchString decides the anchored meaning — for every tree, every string and
   every folding relation. *)
Theorem C17_reference_matcher_correct : forall F r s, re_match F r s = true <-> Matches F r s.
Proof. exact re_match_correct. Qed.

(* findSetMatches: whenever it returns a non-empty case-sensitive set (the only sets
   SetMatches() exposes), a string matches the expression exactly when it is in the set
   (shown for every base string the recursion carries; base = "" at the top). *)
Theorem C17_set_matches_exact : forall F r ms,
  fsm r [] = (ms, true) -> ms <> [] -> forall s, Matches F r s <-> In s ms.
Proof. exact fsm_top_exact. Qed.

(* stringMatcherFromRegexpInternal, case-sensitive fragment (no FoldCase flag in the tree):
   whenever it returns a matcher, the matcher accepts exactly the strings the expression
   matches — wherever the expression stands (b, e = at begin / at end of the text). *)
Theorem C17_string_matcher_internal_cs_partial : forall F NL r m,
  wf_csb r = true -> smi r = Some m ->
  forall s, smm F NL m s = true <-> Matches F r s.
Proof. intros F NL r m Hwf Hm s. exact (smi_correct F NL NL r Hwf m Hm true true s). Qed.

(* MAIN THEOREM (case-sensitive fragment). For every pattern text that does not take the
   alternating-literals fast path and every parsed tree without FoldCase flags (wf_csb; parsing
   itself is trusted), NewFastRegexMatcher's compiled MatchString — set matches, the
   equality/prefix/suffix/contains/map matchers, the trueMatcher shortcut with its prevLiteral
   guard, the prefix/suffix/containsInOrder pre-filters, or the regexp fallback — answers
   exactly the fully anchored expression with '.' matching newlines. Holds for every folding
   relation F and all oracles NL, TL (they are not consulted in this fragment). *)
Theorem C17_fast_equals_regex_cs_partial : forall F NL TL pat ast s,
  wf_csb ast = true ->
  optimize_alternating_literals NL pat = None ->
  match_string F NL (new_frm NL TL pat ast) s = true <-> Matches F ast s.
Proof. exact new_frm_correct_full. Qed.

(* SetMatches, full strength (no fragment restriction): whenever the compiled matcher exposes a
   non-empty set, a string matches the expression exactly when it is in the set. *)
Theorem C17_set_matches : forall F NL TL pat ast,
  optimize_alternating_literals NL pat = None ->
  set_matches (new_frm NL TL pat ast) <> [] ->
  forall s, Matches F ast s <-> In s (set_matches (new_frm NL TL pat ast)).
Proof. exact new_frm_set_exact. Qed.

(* The fast path on the pattern text (never parsed): the matcher and the exposed set are exactly
   the '|'-separated alternatives of the text (that Go's parser gives such a metacharacter-free
   text the same meaning is part of the trusted parsing; the harness compares with Go regexp). *)
Theorem C17_alternating_literals : forall F NL pat m set,
  optimize_alternating_literals NL pat = Some (m, set) ->
  (forall s, smm F NL m s = true <-> In s (split_bar pat [])) /\
  (set <> [] -> forall s, In s set <-> In s (split_bar pat [])).
Proof. intros F NL. exact (altlit_correct F NL NL). Qed.

(* stringMatcherFromRegexp = clearBeginEndText + the above + the map optimisation
   optimizeEqualOrPrefixStringMatchers (>= 16 equality/prefix alternatives become one
   equalMultiStringMapMatcher with byte-sliced prefix keys): same exactness, against the fully
   anchored meaning. Case-sensitive fragment; the oracles NL, TL are irrelevant there. *)
Theorem C17_matcher_sound_complete_cs_partial : forall F NL TL r m,
  wf_csb r = true -> string_matcher_from_regexp NL TL r = Some m ->
  forall s, smm F NL m s = true <-> Matches F r s.
Proof. exact smfr_correct. Qed.

(* FULL STATEMENT (C17_fast_equals_regex_cs_partial without wf_csb, with F = Unicode simple
   folding and NL, TL = Go's toNormalisedLower / strings.ToLower):
     forall pat ast s, optimize_alternating_literals NL pat = None ->
       match_string F NL (new_frm NL TL pat ast) s = true <-> Matches F ast s.
   Missing: the case-insensitive paths (EqualFold, prefixCaseInsensitiveMatchLen, ci set
   matches). For the case-insensitive MAP matcher the statement is false of the faithful
   model and of the real code ((2), (3) below; known findings). (1) is the defect found while
   proving the trueMatcher case; it is fixed in /repo and the model follows the fix. *)

(* (1) [FIXED in /repo by d2b0409570; new_frm_old is the model of the code before the fix]
   trueMatcher + containsInOrder when clearCapture leaves two ADJACENT literal nodes in a
   .*-delimited top-level concatenation: ".*a(b).*" matched "axb". Case-sensitive, ASCII. *)
Theorem C17_simple_concat_old_refuted :
  wf_csb adj_ast = true /\ optimize_alternating_literals (fun b => b) adj_pat = None /\
  match_string (fun _ _ => false) (fun b => b) (new_frm_old (fun b => b) (fun b => b) adj_pat adj_ast)
    [97; 120; 98] = true /\
  re_match (fun _ _ => false) adj_ast [97; 120; 98] = false.
Proof. exact adjacent_literals_old_refuted. Qed.

(* (2) case-insensitive equalMultiStringMapMatcher compares values after NFKD + ToLower:
   "(?i:fi|v0|...|v15)" matches the ligature U+FB01. *)
Theorem C17_ci_map_values_refuted :
  optimize_alternating_literals (tabf ci_nl) ci_pat = None /\
  match_string (fold_of ci_orbits) (tabf ci_nl) (new_frm (tabf ci_nl) (tabf []) ci_pat ci_ast) [64257] = true /\
  re_match (fold_of ci_orbits) ci_ast [64257] = false.
Proof. exact ci_map_values_refuted. Qed.

(* (3) its prefix map is keyed by byte-sliced, differently normalised strings:
   "(?i:k.*|v0|...|v15)" does not match "\u212Ax" (Kelvin sign). *)
Theorem C17_ci_map_prefix_refuted :
  optimize_alternating_literals (tabf ci_nl) cik_pat = None /\
  match_string (fold_of ci_orbits) (tabf ci_nl) (new_frm (tabf ci_nl) (tabf []) cik_pat cik_ast) [8490; 120] = false /\
  re_match (fold_of ci_orbits) cik_ast [8490; 120] = true.
Proof. exact ci_map_prefix_refuted. Qed.

(* non-vacuity: a tree in the fragment going through the map + prefix-key optimisation *)
Example C17_nonvacuous_main :
  let ast := RConcat [RStar RAny; RLit false [102; 111; 111]; RPlus RAnyNotNL] in
  wf_csb ast = true /\
  optimize_alternating_literals (fun b => b) [46; 42; 102; 111; 111; 46; 43] = None /\
  match_string (fun _ _ => false) (fun b => b)
    (new_frm (fun b => b) (fun b => b) [46; 42; 102; 111; 111; 46; 43] ast) [120; 102; 111; 111; 121] = true /\
  match_string (fun _ _ => false) (fun b => b)
    (new_frm (fun b => b) (fun b => b) [46; 42; 102; 111; 111; 46; 43] ast) [120; 102; 111; 111] = false.
Proof. vm_compute. auto. Qed.

Example C17_nonvacuous_set :
  fsm (RConcat [RLit false [102; 111; 111]; RAlt [RLit false [49]; RClass false [(97, 98)]]]) []
  = ([[102; 111; 111; 49]; [102; 111; 111; 97]; [102; 111; 111; 98]], true).
Proof. reflexivity. Qed.

Example C17_nonvacuous_sm :
  smi (RConcat [RStar RAny; RLit false [102; 111; 111]; RPlus RAnyNotNL])
  = Some (SContains (Some STrue) [[102; 111; 111]] (Some (SAnyNonEmpty false))).
Proof. reflexivity. Qed.

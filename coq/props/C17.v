(* props/C17.v — property theorems for C17 (placeholder while the pipeline is being built) *)
From Coq Require Import List ZArith.
From Verif Require Import lib.Regex model.FastRegex.

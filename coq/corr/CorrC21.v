(* corr/CorrC21.v — correspondence (agree) and specification (holds) checkers for C21 cases.
   A case is one history on a real tsdb.CircularExemplarStorage: the constructor arguments,
   the operations (add / validate / resize / set window / select / iterate / dump of the
   internal ring) and what the implementation returned for each of them. *)
From Coq Require Import List ZArith Bool.
From Verif Require Import lib.Int64 model.Exemplar.
Import ListNotations.
Open Scope Z_scope.

Record case := mkCase { c_id : Z; c_len : Z; c_win : Z; c_ops : list hop; c_obs : list obs }.

Definition optz_eqb (a b : option Z) : bool :=
  match a, b with Some x, Some y => x =? y | None, None => true | _, _ => false end.
Definition slot_eqb (a b : slot) : bool :=
  ex_same (s_ex a) (s_ex b) && (s_next a =? s_next b) && (s_prev a =? s_prev b) && optz_eqb (s_ref a) (s_ref b).
Definition ixe_eqb (a b : Z * (Z * Z)) : bool :=
  (fst a =? fst b) && (fst (snd a) =? fst (snd b)) && (snd (snd a) =? snd (snd b)).

Definition obs_eqb (a b : obs) : bool :=
  match a, b with
  | BErr x, BErr y => verr_eqb x y
  | BInt x, BInt y => x =? y
  | BUnit, BUnit => true
  | BSel x, BSel y => list_eqb (fun p q => (fst p =? fst q) && list_eqb ex_same (snd p) (snd q)) x y
  | BIter x, BIter y => list_eqb (fun p q => (fst p =? fst q) && ex_same (snd p) (snd q)) x y
  | BDump n s i, BDump n' s' i' => (n =? n') && list_eqb slot_eqb s s' && list_eqb ixe_eqb i i'
  | BErrs x, BErrs y => list_eqb verr_eqb x y
  | BPanic, BPanic => true
  | BHang, BHang => true
  | _, _ => false
  end.

(* the pointer-level model, run on the same history, returns what the implementation returned
   (including the dumps of the internal ring, prev/next pointers and index entries) and the
   ring-level model agrees on everything it can observe *)
Definition obs_eqb_nodump (a b : obs) : bool :=
  match a, b with
  | BUnit, BDump _ _ _ => true
  | _, _ => obs_eqb a b
  end.

Definition agree (c : case) : bool :=
  list_eqb obs_eqb (hrun (new_state (c_len c) (c_win c)) (c_ops c)) (c_obs c)
  && list_eqb obs_eqb_nodump (r_hrun (r_new (c_len c) (c_win c)) (c_ops c)) (c_obs c)
  (* and, state by state, the pointer-level model is well-formed and abstracts to the ring-level
     model (the simulation that props/C21.v leaves unproved) *)
  && sim_hrun (new_state (c_len c) (c_win c)) (r_new (c_len c) (c_win c)) (c_ops c).

(* --- the property itself, evaluated on the implementation's own output --- *)
Fixpoint sorted_ts (l : list exemplar) : bool :=
  match l with
  | a :: ((b :: _) as t) => (e_ts a <=? e_ts b) && sorted_ts t
  | _ => true
  end.
Fixpoint strictly_increasing (l : list Z) : bool :=
  match l with
  | a :: ((b :: _) as t) => (a <? b) && strictly_increasing t
  | _ => true
  end.

(* direct reading of the statement on one observation, given the reference state before it *)
Definition direct_ok (s : spec) (o : op) (b : obs) : bool :=
  match o, b with
  | OSelect lo hi m, BSel r =>
      strictly_increasing (map fst r) &&
      forallb (fun p => existsb (Z.eqb (fst p)) m && sorted_ts (snd p) && forallb (in_range lo hi) (snd p)
                        && negb (Nat.eqb (length (snd p)) 0)) r
  | OIter, BIter r => (zlen r <=? sp_cap s)
  | _, _ => true
  end.

Fixpoint holds_run (s : spec) (ops : list hop) (obs_ : list obs) : bool :=
  match ops, obs_ with
  | [], [] => true
  | o :: t, b :: bt =>
      let '(s', want) := sp_hstep WIdeal s o in
      obs_eqb_nodump want b && (match o with HPlain o' => direct_ok s o' b | HHead _ _ _ => true end) && holds_run s' t bt
  | _, _ => false           (* the implementation panicked / hung: history cut short *)
  end.

(* the implementation's outputs are those of the reference ring of accepted exemplars:
   each add/validate is accepted or rejected by the rules, Iterate returns exactly the most
   recently accepted exemplars up to capacity in acceptance order, Select returns per matching
   series the retained exemplars in range by non-decreasing timestamp, Resize keeps the newest *)
Definition holds (c : case) : bool := holds_run (sp_new (c_len c) (c_win c)) (c_ops c) (c_obs c).

Definition mismatches (cs : list case) : list Z := map c_id (filter (fun c => negb (agree c)) cs).
Definition failing_holds (cs : list case) : list Z := map c_id (filter (fun c => negb (holds c)) cs).

(* corr/CorrC46.v — correspondence (agree) and specification (holds) checkers for C46 cases.

   Two kinds of cases:
   * SCase: a deterministic single-goroutine script driven through the export shim on a real
     notifier.sendLoop (add / sendOneBatch / stop, with the script continuing inside opts.Do while
     a request is in flight).  The flat sequence of atomic steps it performed is replayed on the
     model and every observation (queue contents, the three counters, number of requests seen by
     the fake Alertmanager) taken along the way must be equal, as must the final queue and the
     fake Alertmanager's request log.
   * CCase: one Alertmanager of a concurrent run of the real notifier.Manager against httptest
     servers.  The schedule is the Go runtime's, so only the proved predicates are evaluated on
     the projected observables (requests received, counters). *)
From Coq Require Import List ZArith Bool.
From Verif Require Import model.SendLoop.
Import ListNotations.
Open Scope Z_scope.

Record snap := mkSnap { sn_queue : list Z; sn_sent : Z; sn_dropped : Z; sn_errors : Z; sn_loglen : Z }.

Record ccase := mkCC {
  cc_cfg : cfg;
  cc_senders : list (list Z);          (* per sending goroutine: the alerts that survive relabelling, in Send order *)
  cc_arrivals : list (list Z * bool);  (* requests received by this Alertmanager, in order; true = answered 2xx *)
  cc_sent : Z; cc_errors : Z; cc_dropped : Z;   (* counters, summed over all children ever created for the URL *)
  cc_connfailed : Z;                   (* alerts in requests that failed before reaching the Alertmanager *)
  cc_total : Z;                        (* number of surviving alerts handed to this loop, or -1 when unknown
                                          (Alertmanager added/removed during the run, or Stop racing with Send) *)
  cc_pre : option (Z * Z * Z);         (* before Stop, once settled: sent, dropped, queue length *)
  cc_stopped : bool;
  cc_queue_at_return : Z               (* alerts still in this loop's queue when Manager.Run returned *)
}.

Inductive case :=
| SCase (id : Z) (c : cfg) (ops : list op) (obs : list (option snap))
        (final_queue : list Z) (amlog : list (list Z * bool))
| CCase (id : Z) (cc : ccase).

Definition case_id (c : case) : Z := match c with SCase id _ _ _ _ _ => id | CCase id _ => id end.

Fixpoint listZ_eqb (a b : list Z) : bool :=
  match a, b with
  | [], [] => true
  | x :: a', y :: b' => (x =? y) && listZ_eqb a' b'
  | _, _ => false
  end.

Fixpoint log_eqb (a b : list (list Z * bool)) : bool :=
  match a, b with
  | [], [] => true
  | (x, ox) :: a', (y, oy) :: b' => listZ_eqb x y && Bool.eqb ox oy && log_eqb a' b'
  | _, _ => false
  end.

Definition snap_agrees (s : st) (o : option snap) : bool :=
  match o with
  | None => true
  | Some n => listZ_eqb (queue s) (sn_queue n) && (sent s =? sn_sent n) && (dropped s =? sn_dropped n)
              && (errors s =? sn_errors n) && (len (log s) =? sn_loglen n)
  end.

Fixpoint snaps_agree (ss : list st) (os : list (option snap)) : bool :=
  match ss, os with
  | [], [] => true
  | s :: ss', o :: os' => snap_agrees s o && snaps_agree ss' os'
  | _, _ => false
  end.

Definition has_stop (ops : list op) : bool := existsb (fun o => match o with Stop => true | _ => false end) ops.

(* every step the script performed was enabled in the model: a step the model ignores while the
   real code acted (or vice versa) shows as a difference *)
Definition agree (c : case) : bool :=
  match c with
  | SCase _ cf ops obs fq amlog =>
      let s := run cf ops in
      snaps_agree (scan cf init ops) obs && listZ_eqb (queue s) fq && log_eqb (log s) amlog
      (* the script ends with no request in flight and, if it called stop(), after stop() returned *)
      && match flights s with [] => true | _ => false end
      && match dp s with DIdle => negb (has_stop ops) | DDone => has_stop ops | _ => false end
  | CCase _ _ => true
  end.

(* ---- the property evaluated on the implementation's own output ---- *)

Definition memZ (x : Z) (l : list Z) : bool := existsb (Z.eqb x) l.

Fixpoint nodupb (l : list Z) : bool :=
  match l with [] => true | x :: r => negb (memZ x r) && nodupb r end.

(* alerts handed to add() before the first Stop of the script *)
Fixpoint accepted_of (ops : list op) : Z :=
  match ops with
  | [] => 0
  | Stop :: _ => 0
  | Add al :: r => len al + accepted_of r
  | _ :: r => accepted_of r
  end.

Fixpoint last_snap (os : list (option snap)) (acc : option snap) : option snap :=
  match os with [] => acc | Some n :: r => last_snap r (Some n) | None :: r => last_snap r acc end.

(* oldest first, on the implementation's own observations: across an Add that is observed before
   and after (and before any Stop), the queue becomes the last min(cap, ..) elements of
   old queue ++ new alerts; after Stop an Add changes nothing *)
Definition is_suffixb (a b : list Z) : bool :=
  Nat.leb (length a) (length b) && listZ_eqb a (skipn (length b - length a) b).

Fixpoint adds_oldest_first (cf : cfg) (stoppedb : bool) (prev : option snap)
                           (ops : list op) (obs : list (option snap)) : bool :=
  match ops, obs with
  | o :: ops', cur :: obs' =>
      (match o, prev, cur with
       | Add al, Some p, Some n =>
           if stoppedb then listZ_eqb (sn_queue n) (sn_queue p)
           else is_suffixb (sn_queue n) (sn_queue p ++ al)
                && Nat.eqb (length (sn_queue n)) (Nat.min (cap cf) (length (sn_queue p) + length al))
                && (sn_dropped n - sn_dropped p =? len (sn_queue p) + len al - len (sn_queue n))
       | _, _, _ => true
       end)
      && adds_oldest_first cf (stoppedb || match o with Stop => true | _ => false end) cur ops' obs'
  | _, _ => true
  end.

(* number of Take steps minus Respond steps of an actor = requests of it still in flight is not
   observable here; scripts always end with no request in flight. *)
Definition holds_script (cf : cfg) (ops : list op) (obs : list (option snap))
                        (fq : list Z) (amlog : list (list Z * bool)) : bool :=
  let arrived := log_alerts amlog in
  subseqb arrived (added ops)                 (* same order, nothing invented *)
  && nodupb arrived                           (* nothing delivered twice (ids are unique) *)
  && batches_ok cf amlog                      (* 0 < batch <= MaxBatchSize *)
  && adds_oldest_first cf false (Some (mkSnap [] 0 0 0 0)) ops obs
  && match last_snap obs None with
     | None => true
     | Some n =>
         let acc := accepted_of ops in
         (sn_sent n =? log_count true amlog)
         && (log_count false amlog <=? sn_errors n) && (sn_errors n <=? sn_dropped n)
         && (if has_stop ops then
               if drain cf then (acc =? sn_sent n + sn_dropped n) && (match fq with [] => true | _ => false end)
               else acc <=? sn_sent n + sn_dropped n          (* every loss is counted *)
             else acc =? sn_sent n + sn_dropped n + len fq)
     end.

Definition holds_conc (c : ccase) : bool :=
  let arrived := log_alerts (cc_arrivals c) in
  batches_ok (cc_cfg c) (cc_arrivals c)
  && nodupb arrived
  && forallb (fun x => existsb (memZ x) (cc_senders c)) arrived
  && forallb (fun sd => subseqb (filter (fun x => memZ x sd) arrived) sd) (cc_senders c)
  && (cc_sent c =? log_count true (cc_arrivals c))
  && (cc_errors c =? log_count false (cc_arrivals c) + cc_connfailed c)
  && (cc_errors c <=? cc_dropped c)
  && (if cc_total c <? 0 then true else
        match cc_pre c with
        | Some (s, d, q) => cc_total c =? s + d + q
        | None => true
        end
        && (if cc_stopped c then
              if drain (cc_cfg c) then
                (cc_total c =? cc_sent c + cc_dropped c)
                && (cc_queue_at_return c =? 0)
              else cc_total c <=? cc_sent c + cc_dropped c
            else true)).

Definition holds (c : case) : bool :=
  match c with
  | SCase _ cf ops obs fq amlog => holds_script cf ops obs fq amlog
  | CCase _ cc => holds_conc cc
  end.

Definition mismatches (cs : list case) : list Z := map case_id (filter (fun c => negb (agree c)) cs).
Definition failing_holds (cs : list case) : list Z := map case_id (filter (fun c => negb (holds c)) cs).

(* corr/CorrC15.v — correspondence (agree) and specification (holds) checkers for C15.

   A case is one history driven against a real tsdb.Head with a real WAL: the events carry the
   records the implementation wrote (decoded with record.Decoder), the oracle values of the
   head's garbage collection (which series it deleted, actualInOrderMint) and, after every
   Head.Truncate and every restart, an observation of the implementation:
     OTrunc   : the WAL directory after truncation (checkpoint index + decoded checkpoint records,
                first/last segment, number of remaining segment records), series refs in the head,
                walExpiries;
     ORestart : after Close + NewHead + Init(mv): series (ref, label set), walExpiries, per label set
                the samples with their visibility through the tombstones, metadata, exemplars.
   agree : the model (model/Checkpoint.v: run) predicts every observation.
   holds : the property evaluated on the implementation's own output only (decoded logs before /
           after each truncation and the retained copy of everything ever logged). *)
From Coq Require Import List ZArith Bool Uint63.
From Verif Require Import lib.Int64 model.Checkpoint.
Import ListNotations.
Open Scope Z_scope.

(* ---- literals: numbers are emitted as primitive ints (cheap to parse) ---- *)
Definition off : Z := 1099511627776. (* 2^40 *)
Definition z (u : int) : Z :=
  let v := Uint63.to_Z u in
  if v =? 0 then minInt64 else if v =? 1 then maxInt64 else v - off.
Definition p (a b : int) : Z * Z := (z a, z b).
Definition t3 (a b c : int) : Z * Z * Z := ((z a, z b), z c).
Definition stn (r : int) (ivs : list (Z * Z)) : Z * list (Z * Z) := (z r, ivs).
Definition sr (seg : int) (r : record) : Z * record := (z seg, r).
Definition smp (t v : int) (vis : bool) : Z * Z * bool := ((z t, z v), vis).
Definition lz (l : list int) : list Z := map z l.

Inductive obs :=
| OTrunc (cpidx : Z) (cp : list record) (first cur nsegs : Z) (series : list Z) (exp : list (Z * Z))
| ORestart (first cur : Z) (series : list (Z * Z)) (exp : list (Z * Z)) (racy : list Z)
           (content : list (Z * list (Z * Z * bool))) (meta : list (Z * Z)) (exemplars : list (Z * list (Z * Z))).

(* agent DB: the WAL directory, db.series refs and db.deleted after DB.truncate *)
Inductive aobs :=
| OATrunc (cpidx : Z) (cp : list record) (first cur nsegs : Z) (series : list Z) (deleted : list (Z * Z)).

(* a case is a head history (c_events / c_obs) or an agent history (c_aevents / c_aobs) *)
Record case := mkCase { c_id : Z; c_events : list event; c_obs : list obs;
                        c_aevents : list aevent; c_aobs : list aobs }.

(* ---- canonical forms ---- *)
Fixpoint ins {A} (k : Z) (v : A) (l : list (Z * A)) : list (Z * A) :=
  match l with
  | [] => [(k, v)]
  | (k', v') :: t => if k <=? k' then (k, v) :: l else (k', v') :: ins k v t
  end.
Definition sortk {A} (l : list (Z * A)) : list (Z * A) := fold_right (fun e acc => ins (fst e) (snd e) acc) [] l.
Definition sortz (l : list Z) : list Z := map fst (sortk (map (fun x => (x, tt)) l)).

Definition canon_rec (r : record) : record :=
  match r with RMetadata l => RMetadata (sortk l) | _ => r end.

Fixpoint list_eqb {A} (eqb : A -> A -> bool) (a b : list A) : bool :=
  match a, b with
  | [], [] => true
  | x :: a', y :: b' => eqb x y && list_eqb eqb a' b'
  | _, _ => false
  end.
Definition pair_eqb (a b : Z * Z) := (fst a =? fst b) && (snd a =? snd b).
Definition t3_eqb (a b : Z * Z * Z) := pair_eqb (fst a) (fst b) && (snd a =? snd b).
Definition stone_eqb (a b : Z * list (Z * Z)) := (fst a =? fst b) && list_eqb pair_eqb (snd a) (snd b).
Definition rec_eqb (a b : record) : bool :=
  match a, b with
  | RSeries x, RSeries y => list_eqb pair_eqb x y
  | RSamples k x, RSamples k' y => (k =? k') && list_eqb t3_eqb x y
  | RExemplars x, RExemplars y => list_eqb t3_eqb x y
  | RTombstones x, RTombstones y => list_eqb stone_eqb x y
  | RMetadata x, RMetadata y => list_eqb pair_eqb x y
  | RUnknown, RUnknown => true
  | _, _ => false
  end.

(* ---- model observations ---- *)
Definition in_order (its : list item) : list item :=
  (* its oldest first; drop samples not newer than the newest accepted sample of their label set *)
  rev (fst (fold_left (fun (acc : list item * list (Z * Z)) x =>
          let '(out, mx) := acc in
          if i_kind x =? 0 then
            match lookup (i_lab x) mx with
            | Some m => if i_a x <=? m then (out, mx) else (x :: out, upsert (i_lab x) (i_a x) mx)
            | None => (x :: out, upsert (i_lab x) (i_a x) mx)
            end
          else (x :: out, mx)) its ([], []))).

Definition covered (its : list item) (L t : Z) : bool :=
  existsb (fun x => (i_kind x =? 2) && (i_lab x =? L) && (i_a x <=? t) && (t <=? i_b x)) its.

Definition content_of (its : list item) (L : Z) : list (Z * Z * bool) :=
  map (fun x => ((i_a x, i_v x), negb (covered its L (i_a x))))
      (filter (fun x => (i_kind x =? 0) && (i_lab x =? L)) its).

Definition exemplars_of (its : list item) (L : Z) : list (Z * Z) :=
  map (fun x => (i_a x, i_v x)) (filter (fun x => (i_kind x =? 1) && (i_lab x =? L)) its).

Definition dedupz (l : list Z) : list Z :=
  fold_right (fun x acc => if memz x acc then acc else x :: acc) [] l.

Definition model_obs (before : head) (e : event) (h : head) (racy : list Z) : option obs :=
  match e with
  | ETruncate _ _ _ _ =>
      let w := h_wal h in
      Some (OTrunc (w_cpidx w) (map canon_rec (w_cp w)) (w_first w) (w_cur w)
                   (Z.of_nat (length (filter (fun s => w_cpidx w <? fst s) (w_segs w))))
                   (sortz (map fst (h_series h))) (sortk (h_exp h)))
  | ERestart mv _ =>
      let w := h_wal h in
      let d := replay_data mv (wal_records (h_wal before)) in
      let its := in_order (rev (d_items d)) in
      let labs := sortz (map snd (h_series h)) in
      let elabs := sortz (dedupz (map i_lab (filter (fun x => (i_kind x =? 1) && negb (memz (i_lab x) racy)) its))) in
      Some (ORestart (w_first w) (w_cur w) (sortk (h_series h)) (sortk (h_exp h)) racy
                     (map (fun L => (L, content_of its L)) labs)
                     (sortk (filter (fun m => memz (fst m) labs) (d_meta d)))
                     (map (fun L => (L, exemplars_of its L)) elabs))
  | _ => None
  end.

Definition smp_eqb (a b : Z * Z * bool) := pair_eqb (fst a) (fst b) && Bool.eqb (snd a) (snd b).
Definition obs_eqb (a b : obs) : bool :=
  match a, b with
  | OTrunc i cp f c n s e, OTrunc i' cp' f' c' n' s' e' =>
      (i =? i') && list_eqb rec_eqb cp (map canon_rec cp') && (f =? f') && (c =? c') && (n =? n') &&
      list_eqb Z.eqb s s' && list_eqb pair_eqb e e'
  | ORestart f c s e _ ct m ex, ORestart f' c' s' e' _ ct' m' ex' =>
      (f =? f') && (c =? c') && list_eqb pair_eqb s s' && list_eqb pair_eqb e e' &&
      list_eqb (fun x y => (fst x =? fst y) && list_eqb smp_eqb (snd x) (snd y)) ct ct' &&
      list_eqb pair_eqb m m' &&
      list_eqb (fun x y => (fst x =? fst y) && list_eqb pair_eqb (snd x) (snd y)) ex ex'
  | _, _ => false
  end.

Definition obs_racy (o : obs) : list Z := match o with ORestart _ _ _ _ r _ _ _ => r | _ => [] end.

(* The order of the entries of the checkpoint's metadata record is Go map order.  Once the observed
   checkpoint has been compared (up to that order), the model continues from the observed one. *)
Definition sync_cp (h : head) (o : obs) : head :=
  match o with
  | OTrunc _ cp _ _ _ _ _ =>
      let w := h_wal h in
      mkHead (h_series h) (h_exp h) (h_last_trunc h) (mkWal (w_cpidx w) cp (w_segs w) (w_first w) (w_cur w))
  | _ => h
  end.

Fixpoint agree_from (h : head) (es : list event) (os : list obs) : bool :=
  match es with
  | [] => match os with [] => true | _ => false end
  | e :: es' =>
      let h' := step h e in
      match e with
      | ETruncate _ _ _ _ | ERestart _ _ =>
          match os with
          | o :: os' =>
              match model_obs h e h' (obs_racy o) with
              | Some m => obs_eqb m o && agree_from (sync_cp h' o) es' os'
              | None => false
              end
          | [] => false
          end
      | _ => agree_from h' es' os
      end
  end.

Fixpoint aagree_from (a : agent) (es : list aevent) (os : list aobs) : bool :=
  match es with
  | [] => match os with [] => true | _ => false end
  | e :: es' =>
      let a' := astep a e in
      match e with
      | ATruncate _ _ =>
          match os with
          | OATrunc i cp f c n s d :: os' =>
              let w := a_wal a' in
              (w_cpidx w =? i) && list_eqb rec_eqb (map canon_rec (w_cp w)) (map canon_rec cp) &&
              (w_first w =? f) && (w_cur w =? c) &&
              (Z.of_nat (length (filter (fun s => w_cpidx w <? fst s) (w_segs w))) =? n) &&
              list_eqb Z.eqb (sortz (a_series a')) s && list_eqb pair_eqb (sortk (a_deleted a')) d &&
              aagree_from a' es' os'
          | [] => false
          end
      | ARestart ser del =>
          (* the model's replay of the agent WAL predicts db.series and db.deleted after the reopen *)
          list_eqb Z.eqb (sortz (a_series a')) (sortz ser) && list_eqb pair_eqb (sortk (a_deleted a')) (sortk del) &&
          aagree_from a' es' os
      | _ => aagree_from a' es' os
      end
  end.

Definition agree (c : case) : bool :=
  agree_from head_empty (c_events c) (c_obs c) && aagree_from agent_empty (c_aevents c) (c_aobs c).

(* ---- holds: the property on the implementation's output ---- *)
Record hstate := mkHS {
  hs_cpidx : Z; hs_cp : list record;        (* the checkpoint as last observed *)
  hs_segs : list (Z * record);              (* every record ever logged, with its segment *)
  hs_g : Z;                                 (* highest effective truncation time so far *)
  hs_rs : bool                              (* a restart happened (the head was rebuilt from a truncated log) *)
}.

Definition hs_log (s : hstate) : list record :=
  hs_cp s ++ map snd (filter (fun x => hs_cpidx s <? fst x) (hs_segs s)).
Definition hs_full (s : hstate) : list record := map snd (hs_segs s).

Definition vis_labs (g : Z) (its : list item) : list Z :=
  dedupz (map i_lab (filter (fun x => (i_kind x =? 0) && (g <=? i_a x)) its)).

(* label sets one of whose series records (in log a) is missing from log b *)
Definition series_pairs (recs : list record) : list (Z * Z) := flat_map series_of_rec recs.
Definition churned_labs (a b : list record) : list Z :=
  let rb := map fst (series_pairs b) in
  map snd (filter (fun s => negb (memz (fst s) rb)) (series_pairs a)).

(* same samples / exemplars / tombstones at or after g; same metadata for the label sets that have samples
   there and did not lose a series record (see C15_metadata_refuted for the others) *)
Definition same_view (g : Z) (skip : list Z) (a b : dstate) : bool :=
  list_eqb item_eqb (view_items g (d_items a)) (view_items g (d_items b)) &&
  forallb (fun L => memz L skip ||
                    match lookup L (d_meta a), lookup L (d_meta b) with
                    | Some x, Some y => x =? y
                    | None, None => true
                    | _, _ => false
                    end) (vis_labs g (d_items a)).

(* label sets that have entries under more than one ref in a metadata record of the checkpoint: replay
   applies them in file order, the checkpoint writes them in map order (finding
   cp-metadata-order-duplicate-refs, reported by the harness) *)
Definition meta_dup_labs (log : list record) (cp : list record) : list Z :=
  let sp := series_pairs log in
  flat_map (fun r => match r with
     | RMetadata l =>
         let labs := flat_map (fun m => match lookup (fst m) sp with Some L => [L] | None => [] end) l in
         filter (fun L => 1 <? Z.of_nat (length (filter (Z.eqb L) labs))) labs
     | _ => [] end) cp.

Fixpoint nodupb (l : list Z) : bool :=
  match l with [] => true | x :: t => negb (memz x t) && nodupb t end.

Definition holds_trunc (s : hstate) (mint : Z) (cpidx : Z) (cp : list record) : bool * hstate :=
  let s' := mkHS cpidx cp (hs_segs s) (Z.max (hs_g s) mint) (hs_rs s) in
  let g := hs_g s' in
  let pre := hs_log s in
  let post := hs_log s' in
  let full := hs_full s in
  let ok :=
    let md := meta_dup_labs post cp in
    same_view g (md ++ churned_labs pre post) (replay_data minInt64 post) (replay_data minInt64 pre) &&
    same_view g (md ++ churned_labs pre post) (replay_data g post) (replay_data g pre) &&
    (* against everything ever logged, as long as the head has not been rebuilt from a truncated log: after
       a restart the refs that are alive (and reissued) depend on what was dropped, and the concatenation
       of everything ever logged is no longer a log the implementation could have produced *)
    (hs_rs s || negb (nodupb (map fst (series_pairs full))) ||
     same_view g (md ++ churned_labs full post) (replay_data minInt64 post) (replay_data minInt64 full)) &&
    preceded g post &&
    meta_preceded_from [] cp &&
    nodupb (flat_map (fun r => map fst (series_of_rec r)) post) in
  (ok, s').

Fixpoint holds_from (s : hstate) (es : list event) (os : list obs) : bool :=
  match es with
  | [] => true
  | e :: es' =>
      match e with
      | ELog l => holds_from (mkHS (hs_cpidx s) (hs_cp s) (hs_segs s ++ l) (hs_g s) (hs_rs s)) es' os
      | ETruncate init mint _ _ =>
          match os with
          | OTrunc cpidx cp _ _ _ _ _ :: os' =>
              (* an uninitialised head, or a checkpoint index that did not move: nothing was truncated *)
              if negb init || (cpidx =? hs_cpidx s) then
                list_eqb rec_eqb cp (hs_cp s) && holds_from s es' os'
              else
                let '(ok, s') := holds_trunc s mint cpidx cp in ok && holds_from s' es' os'
          | _ => false
          end
      | EEvict _ _ | ERoll | ECreate _ => holds_from s es' os
      | ERestart _ _ => holds_from (mkHS (hs_cpidx s) (hs_cp s) (hs_segs s) (hs_g s) true) es' (tl os)
      end
  end.

(* agent: the series records are kept by segment number, so EVERY sample / exemplar left in the log must be
   preceded by its series record (literal form), and the samples / exemplars at or after the truncation
   time are those of the untruncated log *)
Fixpoint aholds_from (s : hstate) (es : list aevent) (os : list aobs) : bool :=
  match es with
  | [] => true
  | e :: es' =>
      match e with
      | ALog l => aholds_from (mkHS (hs_cpidx s) (hs_cp s) (hs_segs s ++ l) (hs_g s) (hs_rs s)) es' os
      | ATruncate mint _ =>
          match os with
          | OATrunc cpidx cp _ _ _ _ _ :: os' =>
              if cpidx =? hs_cpidx s then list_eqb rec_eqb cp (hs_cp s) && aholds_from s es' os'
              else
                let s' := mkHS cpidx cp (hs_segs s) (Z.max (hs_g s) mint) (hs_rs s) in
                let g := hs_g s' in
                same_view g [] (replay_data minInt64 (hs_log s')) (replay_data minInt64 (hs_log s)) &&
                (hs_rs s || negb (nodupb (map fst (series_pairs (hs_full s)))) ||
                 same_view g [] (replay_data minInt64 (hs_log s')) (replay_data minInt64 (hs_full s))) &&
                preceded minInt64 (hs_log s') &&
                nodupb (flat_map (fun r => map fst (series_of_rec r)) (hs_log s')) &&
                aholds_from s' es' os'
          | [] => false
          end
      | ARestart _ _ => aholds_from (mkHS (hs_cpidx s) (hs_cp s) (hs_segs s) (hs_g s) true) es' os
      | ARoll => aholds_from s es' os
      end
  end.

Definition holds (c : case) : bool :=
  holds_from (mkHS (-1) [] [] minInt64 false) (c_events c) (c_obs c) &&
  aholds_from (mkHS (-1) [] [] minInt64 false) (c_aevents c) (c_aobs c).

Definition mismatches (cs : list case) : list Z := map c_id (filter (fun c => negb (agree c)) cs).
Definition failing_holds (cs : list case) : list Z := map c_id (filter (fun c => negb (holds c)) cs).

(* corr/CorrC28.v — correspondence (agree) and specification (holds) checkers for C28 cases.
   A case: the query time / lookback / default subquery step, the stored series, the query, the
   select hints [Start, End] the real engine passed to the storage (which served exactly the
   samples inside them), and the observed results of the real instant query run twice: on a
   storage serving exactly the hinted range, and on one ignoring the hints (serving everything). *)
From Coq Require Import List ZArith Bool.
From Verif Require Import lib.Int64 model.PromqlSelect.
Import ListNotations.
Open Scope Z_scope.

Record case := mkCase {
  c_id : Z; c_cfg : cfg; c_series : list sample; c_query : query;
  c_hints : Z * Z;
  c_obs : result;          (* storage returned exactly the samples inside the hints *)
  c_obs_all : result }.    (* storage ignored the hints and returned every sample *)

Definition point_eqb (a b : point) : bool :=
  (p_t a =? p_t b) && kind_eqb (p_k a) (p_k b) && (p_v a =? p_v b).

Fixpoint points_eqb (a b : list point) : bool :=
  match a, b with
  | [], [] => true
  | x :: a', y :: b' => point_eqb x y && points_eqb a' b'
  | _, _ => false
  end.

(* the engine keeps floats and histograms of a series in two slices: compare those *)
Definition result_eqb (a b : result) : bool :=
  match a, b with
  | RVec None, RVec None => true
  | RVec (Some x), RVec (Some y) => point_eqb x y
  | RMat x, RMat y => points_eqb (floats_of x) (floats_of y) && points_eqb (hists_of x) (hists_of y)
  | _, _ => false
  end.

(* model of the engine (as it is) vs the engine: same hints, same result on the served samples *)
Definition agree (c : case) : bool :=
  let h := hints (c_cfg c) (c_query c) in
  (fst h =? fst (c_hints c)) && (snd h =? snd (c_hints c)) &&
  if modelled (c_query c) then
    result_eqb (engine_eval (c_cfg c) (c_query c) (restrict (c_hints c) (c_series c))) (c_obs c) &&
    result_eqb (engine_eval (c_cfg c) (c_query c) (c_series c)) (c_obs_all c)
  else
    (* nested subqueries: the evaluation algorithm is not modelled; the select hints are, and the
       run on the hinted samples must give what the run on all samples gives *)
    result_eqb (c_obs c) (c_obs_all c).

(* the property on the implementation's own output: it equals the documented selection computed
   directly (filter / latest-in-window / multiples of the step) on the FULL stored series *)
Definition holds (c : case) : bool :=
  if sortedb (c_series c) && wf_query (c_cfg c) (c_query c) then
    result_eqb (spec_eval (c_cfg c) (c_query c) (c_series c)) (c_obs c) &&
    result_eqb (spec_eval (c_cfg c) (c_query c) (c_series c)) (c_obs_all c)
  else true.

Definition mismatches (cs : list case) : list Z := map c_id (filter (fun c => negb (agree c)) cs).
Definition failing_holds (cs : list case) : list Z := map c_id (filter (fun c => negb (holds c)) cs).

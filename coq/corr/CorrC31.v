(* corr/CorrC31.v — correspondence (agree) and specification (holds) checkers for C31 cases.
   One case = one call of a real histogram method with its inputs and what was observed.
   `agree` compares with the model (model/HistArith.v) on the canonical observable: scalar
   fields exactly, bucket layouts as absolute bucket lists (index, count) including explicit
   empty buckets.  `holds` evaluates the property itself on the implementation's output with
   declarative bucket-map arithmetic (filters and totals), not with the model's algorithms. *)
From Coq Require Import List ZArith Bool.
From Verif Require Import model.HistArith.
Import ListNotations.
Open Scope Z_scope.

Inductive obs_h := OErr (e : err) | OHist (r : rawfh) (coll recon : bool).
Inductive obs_i := OIErr (e : err) | OIHist (r : rawih).

Inductive body :=
| BArith (sgn : Z) (kahan : bool) (a b : rawfh) (o : obs_h) (czero : bool)
| BCompact (k : Z) (a o : rawfh)
| BReduce (t : Z) (a : rawfh) (o : obs_h)
| BDetect (cur prev : rawfh) (o : bool)
| BToFloat (a : rawih) (o : rawfh)
| BICompact (k : Z) (a o : rawih)
| BIReduce (t : Z) (a : rawih) (o : obs_i).

Record case := mkCase { c_id : Z; c_body : body }.

(* ---------- equality of observables ---------- *)

Fixpoint bl_eqb (a b : list bkt) : bool :=
  match a, b with
  | [], [] => true
  | x :: a', y :: b' => (fst x =? fst y) && (snd x =? snd y) && bl_eqb a' b'
  | _, _ => false
  end.
Fixpoint sp_eqb (a b : list span) : bool :=
  match a, b with
  | [], [] => true
  | x :: a', y :: b' => (s_off x =? s_off y) && (s_len x =? s_len y) && sp_eqb a' b'
  | _, _ => false
  end.

Definition fh_eqb (x y : fh) : bool :=
  (hint x =? hint y) && (schema x =? schema y) && thr_eqb (zt x) (zt y) && (zc x =? zc y) &&
  (cnt x =? cnt y) && (sum x =? sum y) && bl_eqb (pos x) (pos y) && bl_eqb (neg x) (neg y) &&
  list_eqb (cv x) (cv y).

Definition rawfh_eqb (x y : rawfh) : bool :=
  (r_hint x =? r_hint y) && (r_schema x =? r_schema y) && thr_eqb (r_zt x) (r_zt y) &&
  (r_zc x =? r_zc y) && (r_cnt x =? r_cnt y) && (r_sum x =? r_sum y) &&
  sp_eqb (r_ps x) (r_ps y) && list_eqb (r_pb x) (r_pb y) &&
  sp_eqb (r_ns x) (r_ns y) && list_eqb (r_nb x) (r_nb y) && list_eqb (r_cv x) (r_cv y).

(* ---------- agree ---------- *)

(* The model's domain for Add/Sub/KahanAdd excludes receivers with zero-length spans: the real
   addBuckets mis-attributes buckets there (finding `arith-receiver-zero-length-span`), which a
   model on expanded bucket lists cannot mirror.  `holds` still judges those cases. *)
Definition has_empty_span (r : rawfh) : bool := existsb (fun s => s_len s =? 0) (r_ps r ++ r_ns r).

Definition agree_body (b : body) : bool :=
  match b with
  | BArith sgn kahan a b o czero =>
      if has_empty_span a then true else
      match abs_of_raw a, abs_of_raw b with
      | Ok ha, Ok hb =>
          match arith sgn ha hb, o with
          | Err e, OErr e' => err_eqb e e'
          | Ok m, OHist r coll recon =>
              match abs_of_raw r with
              | Ok hr => fh_eqb (ao_h m) hr && Bool.eqb (ao_collision m) coll &&
                         Bool.eqb (ao_reconciled m) recon && (czero || negb kahan)
              | Err _ => false
              end
          | _, _ => false
          end
      | _, _ => false
      end
  | BCompact k a o =>
      match abs_of_raw a, abs_of_raw o with
      | Ok ha, Ok ho => fh_eqb (compact_h k ha) ho
      | _, _ => false
      end
  | BReduce t a o =>
      match reduce_h t a, o with
      | Err e, OErr e' => err_eqb e e'
      | Ok m, OHist r _ _ => match abs_of_raw r with Ok hr => fh_eqb m hr | Err _ => false end
      | _, _ => false
      end
  | BDetect cur prev o =>
      match abs_of_raw cur, abs_of_raw prev with
      | Ok hc, Ok hp => match detect_reset hc hp with Ok r => Bool.eqb r o | Err _ => false end
      | _, _ => false
      end
  | BToFloat a o => rawfh_eqb (to_float a) o
  | BICompact k a o =>
      match abs_of_raw (float_view a), abs_of_raw (float_view o) with
      | Ok ha, Ok ho => fh_eqb (compact_h k ha) ho
      | _, _ => false
      end
  | BIReduce t a o =>
      match reduce_h t (float_view a), o with
      | Err e, OIErr e' => err_eqb e e'
      | Ok m, OIHist r => match abs_of_raw (float_view r) with Ok hr => fh_eqb m hr | Err _ => false end
      | _, _ => false
      end
  end.
Definition agree (c : case) : bool := agree_body (c_body c).

(* ---------- declarative vocabulary for holds ---------- *)

Definition thr_max (a b : thr) : thr := if thr_ltb a b then b else a.
Definition idxs (l : list bkt) : list Z := map fst l.

(* same bucket map on every index that occurs anywhere *)
Definition same_map (cand : list Z) (f g : Z -> Z) : bool := forallb (fun t => f t =? g t) cand.

Fixpoint strictly_inc (l : list bkt) : bool :=
  match l with
  | [] => true
  | b :: l' => match l' with [] => true | b' :: _ => (fst b <? fst b') && strictly_inc l' end
  end.

(* no populated bucket lies wholly inside the histogram's own zero bucket *)
Definition wf_side (s : Z) (T : thr) (l : list bkt) : bool :=
  forallb (fun b => if thr_leb (upper (fst b) s) T then snd b =? 0 else true) l.
Definition wf (h : fh) : bool :=
  if is_custom (schema h) then true
  else is_exp (schema h) && wf_side (schema h) (zt h) (pos h) && wf_side (schema h) (zt h) (neg h) &&
       strictly_inc (pos h) && strictly_inc (neg h).

(* the part of a histogram that stays in regular buckets when its zero bucket is widened to T
   (T = its own threshold: nothing changes) and the count that moves into the zero bucket *)
Definition outside (s : Z) (T : thr) (b : bkt) : bool := thr_leb T (lower (fst b) s).
Definition kept (h : fh) (T : thr) (l : list bkt) : list bkt :=
  if thr_eqb T (zt h) then l else filter (outside (schema h) T) l.
Definition absorbed (h : fh) (T : thr) : Z :=
  if thr_eqb T (zt h) then 0
  else sumc (filter (fun b => negb (outside (schema h) T b)) (pos h)) +
       sumc (filter (fun b => negb (outside (schema h) T b)) (neg h)).
(* T cuts through a populated bucket of h (only meaningful when h's zero bucket is widened) *)
Definition cuts (h : fh) (T : thr) : bool :=
  negb (thr_eqb T (zt h)) &&
  existsb (fun b => nonzero b && thr_ltb (lower (fst b) (schema h)) T && thr_ltb T (upper (fst b) (schema h)))
          (pos h ++ neg h).

Definition hint_spec (h o : Z) : Z * bool :=
  if h =? o then (h, false)
  else if (h =? 3) || (o =? 3) then (3, false)
  else if (h =? 0) || (o =? 0) then (0, false)
  else (0, true).

(* custom buckets: upper bound of bucket i, None = +Inf; target bucket t of the layout `inter`
   receives source bucket with upper bound u iff inter[t-1] < u <= inter[t] *)
Definition maps_to (inter : list Z) (u : option Z) (t : Z) : bool :=
  obound_leb u (cbound inter t) &&
  (if t <=? 0 then true else negb (obound_leb u (cbound inter (t - 1)))).
Definition mapped_total (inter bounds : list Z) (l : list bkt) (t : Z) : Z :=
  sumc (filter (fun b => maps_to inter (cbound bounds (fst b)) t) l).
Fixpoint mem (x : Z) (l : list Z) : bool := match l with [] => false | y :: r => (x =? y) || mem x r end.
Fixpoint inc_list (l : list Z) : bool :=
  match l with [] => true | x :: r => match r with [] => true | y :: _ => (x <? y) && inc_list r end end.
Definition is_intersection (i a b : list Z) : bool :=
  inc_list i && forallb (fun x => mem x a && mem x b) i && forallb (fun x => negb (mem x b) || mem x i) a.
Definition custom_ok (h : fh) : bool :=
  inc_list (cv h) && strictly_inc (pos h) &&
  forallb (fun b => (0 <=? fst b) && (fst b <=? Z.of_nat (length (cv h)))) (pos h).

(* ---------- holds: Add / Sub / KahanAdd ---------- *)

Definition holds_arith (sgn : Z) (a b : fh) (o : obs_h) : bool :=
  if xorb (is_custom (schema a)) (is_custom (schema b)) then
    match o with OErr EIncompatible => true | _ => false end
  else match o with
  | OErr _ => false
  | OHist r coll recon =>
      match abs_of_raw r with
      | Err _ => false
      | Ok out =>
          let '(hs, cs) := hint_spec (hint a) (hint b) in
          (hint out =? hs) && Bool.eqb coll cs &&
          (cnt out =? cnt a + sgn * cnt b) && (sum out =? sum a + sgn * sum b) &&
          (if is_custom (schema a) then
            if negb (custom_ok a && custom_ok b) then true else
            (schema out =? customSchema) && Bool.eqb recon (negb (list_eqb (cv a) (cv b))) &&
            is_intersection (cv out) (cv a) (cv b) &&
            same_map (zrange 0 (S (S (length (cv out))))) (total (pos out))
                     (fun t => mapped_total (cv out) (cv a) (pos a) t + sgn * mapped_total (cv out) (cv b) (pos b) t) &&
            forallb (fun i => (0 <=? i) && (i <=? Z.of_nat (length (cv out)))) (idxs (pos out)) &&
            strictly_inc (pos out)
          else
            if negb (wf a && wf b) then true else
            let T := zt out in
            let s' := Z.min (schema a) (schema b) in
            let M := thr_max (zt a) (zt b) in
            let side (sel : fh -> list bkt) :=
                let ka := retarget (schema a - s') (kept a T (sel a)) in
                let kb := retarget (schema b - s') (kept b T (sel b)) in
                same_map (idxs (sel out) ++ idxs ka ++ idxs kb) (total (sel out))
                         (fun t => total ka t + sgn * total kb t) &&
                strictly_inc (sel out) in
            negb recon && (schema out =? s') &&
            thr_leb M T && negb (cuts a T) && negb (cuts b T) &&
            (if negb (cuts a M) && negb (cuts b M) then thr_eqb T M else true) &&
            (zc out =? zc a + absorbed a T + sgn * (zc b + absorbed b T)) &&
            side pos && side neg)
      end
  end.

(* ---------- holds: Compact ---------- *)

Fixpoint zero_runs_ok (k : Z) (run : Z) (l : list bkt) : bool :=
  match l with
  | [] => run =? 0                                   (* no trailing empty bucket *)
  | b :: l' => if snd b =? 0 then (run + 1 <=? k) && zero_runs_ok k (run + 1) l'
               else zero_runs_ok k 0 l'
  end.
Fixpoint gaps_ok (k : Z) (l : list bkt) : bool :=
  match l with
  | [] => true
  | b :: l' => match l' with
               | [] => true
               | b' :: _ => let g := fst b' - fst b - 1 in ((g =? 0) || (k <? g)) && gaps_ok k l'
               end
  end.
Definition compact_canon (k : Z) (l : list bkt) : bool :=
  match l with [] => true | b :: _ => nonzero b end && zero_runs_ok k 0 l && gaps_ok k l.
Definition spans_canon (k : Z) (sp : list span) : bool :=
  forallb (fun s => 0 <? s_len s) sp &&
  match sp with [] => true | _ :: r => forallb (fun s => Z.max k 0 <? s_off s) r end.

Definition holds_compact (k : Z) (a : fh) (o : fh) (osp onsp : list span) : bool :=
  if negb (strictly_inc (pos a) && strictly_inc (neg a)) then true else
  (hint o =? hint a) && (schema o =? schema a) && thr_eqb (zt o) (zt a) && (zc o =? zc a) &&
  (cnt o =? cnt a) && (sum o =? sum a) && list_eqb (cv o) (cv a) &&
  same_map (idxs (pos a) ++ idxs (pos o)) (total (pos o)) (total (pos a)) &&
  same_map (idxs (neg a) ++ idxs (neg o)) (total (neg o)) (total (neg a)) &&
  strictly_inc (pos o) && strictly_inc (neg o) &&
  compact_canon k (pos o) && compact_canon k (neg o) && spans_canon k osp && spans_canon k onsp.

(* ---------- holds: ReduceResolution ---------- *)

Definition spans_ok (sp : list span) (n : Z) : bool :=
  match sp with [] => true | _ :: r => forallb (fun s => 0 <=? s_off s) r end &&
  (fold_right (fun s acc => s_len s + acc) 0 sp =? n).

Definition holds_reduce (t : Z) (a : rawfh) (o : option fh) : bool :=
  let args_ok := negb (is_custom (r_schema a)) && negb (is_custom t) && (t <? r_schema a) in
  let valid := spans_ok (r_ps a) (Z.of_nat (length (r_pb a))) && spans_ok (r_ns a) (Z.of_nat (length (r_nb a))) in
  match o with
  | None => negb (args_ok && valid)
  | Some out =>
      args_ok && valid &&
      match abs_of_raw a with
      | Err _ => false
      | Ok ha =>
          let k := r_schema a - t in
          (schema out =? t) && (hint out =? hint ha) && thr_eqb (zt out) (zt ha) && (zc out =? zc ha) &&
          (cnt out =? cnt ha) && (sum out =? sum ha) &&
          same_map (idxs (pos out) ++ idxs (retarget k (pos ha))) (total (pos out)) (total (retarget k (pos ha))) &&
          same_map (idxs (neg out) ++ idxs (retarget k (neg ha))) (total (neg out)) (total (retarget k (neg ha))) &&
          strictly_inc (pos out) && strictly_inc (neg out)
      end
  end.

(* ---------- holds: DetectReset ---------- *)

Definition decreased (cand : list Z) (cur prev : list bkt) : bool :=
  existsb (fun t => total cur t <? total prev t) cand.

Definition reset_spec (c p : fh) : bool :=
  if hint c =? 1 then true else if hint c =? 2 then false else
  (cnt c <? cnt p) ||
  xorb (is_custom (schema c)) (is_custom (schema p)) ||
  (if is_custom (schema c) then
    let inter := intersect (cv c) (cv p) in
    existsb (fun t => mapped_total inter (cv c) (pos c) t <? mapped_total inter (cv p) (pos p) t)
            (zrange 0 (S (length inter)))
  else
    (schema p <? schema c) || thr_ltb (zt c) (zt p) || cuts p (zt c) ||
    (zc c <? zc p + absorbed p (zt c)) ||
    (let k := schema p - schema c in
     let pp := retarget k (kept p (zt c) (pos p)) in
     let pn := retarget k (kept p (zt c) (neg p)) in
     decreased (idxs pp) (pos c) pp || decreased (idxs pn) (neg c) pn)).

Definition holds_detect (c p : fh) (o : bool) : bool :=
  if is_custom (schema c) && is_custom (schema p) && negb (custom_ok c && custom_ok p) then true
  else if negb (wf c && wf p) then true
  else Bool.eqb o (reset_spec c p).

(* ---------- holds: ToFloat ---------- *)

(* decoding the float buckets back to deltas gives the integer histogram's deltas *)
Fixpoint deltas_from (prev : Z) (l : list Z) : list Z :=
  match l with [] => [] | x :: r => (x - prev) :: deltas_from x r end.

Definition holds_to_float (a : rawih) (o : rawfh) : bool :=
  (r_hint o =? i_hint a) && (r_schema o =? i_schema a) && (r_cnt o =? i_cnt a) && (r_sum o =? i_sum a) &&
  sp_eqb (r_ps o) (i_ps a) && list_eqb (deltas_from 0 (r_pb o)) (i_pd a) &&
  (if is_custom (i_schema a) then
    list_eqb (r_cv o) (i_cv a) && thr_eqb (r_zt o) T0 && (r_zc o =? 0) &&
    match r_ns o, r_nb o with [], [] => true | _, _ => false end
  else
    thr_eqb (r_zt o) (i_zt a) && (r_zc o =? i_zc a) &&
    sp_eqb (r_ns o) (i_ns a) && list_eqb (deltas_from 0 (r_nb o)) (i_nd a)).

(* ---------- holds ---------- *)

Definition holds_body (b : body) : bool :=
  match b with
  | BArith sgn kahan a b o czero =>
      match abs_of_raw a, abs_of_raw b with
      | Ok ha, Ok hb => holds_arith sgn ha hb o && (czero || negb kahan)
      | _, _ => true
      end
  | BCompact k a o =>
      match abs_of_raw a, abs_of_raw o with
      | Ok ha, Ok ho => holds_compact k ha ho (r_ps o) (r_ns o)
      | Ok _, Err _ => false
      | _, _ => true
      end
  | BReduce t a o =>
      match o with
      | OErr _ => holds_reduce t a None
      | OHist r _ _ => match abs_of_raw r with Ok hr => holds_reduce t a (Some hr) | Err _ => false end
      end
  | BDetect cur prev o =>
      match abs_of_raw cur, abs_of_raw prev with
      | Ok hc, Ok hp => holds_detect hc hp o
      | _, _ => true
      end
  | BToFloat a o => holds_to_float a o
  | BICompact k a o =>
      match abs_of_raw (float_view a), abs_of_raw (float_view o) with
      | Ok ha, Ok ho => holds_compact k ha ho (i_ps o) (i_ns o)
      | Ok _, Err _ => false
      | _, _ => true
      end
  | BIReduce t a o =>
      match o with
      | OIErr _ => holds_reduce t (float_view a) None
      | OIHist r => match abs_of_raw (float_view r) with
                    | Ok hr => holds_reduce t (float_view a) (Some hr)
                    | Err _ => false
                    end
      end
  end.
Definition holds (c : case) : bool := holds_body (c_body c).

Definition mismatches (cs : list case) : list Z := map c_id (filter (fun c => negb (agree c)) cs).
Definition failing_holds (cs : list case) : list Z := map c_id (filter (fun c => negb (holds c)) cs).

(* corr/CorrC41.v — correspondence (agree) and specification (holds) checkers for C41 cases.
   Four kinds of cases. The first two are produced by POSTing generated remote-write requests
   (protocol 1.0 and 2.0, snappy + protobuf) to the real remote.NewWriteHandler:
   * RCRec: the handler is backed by a recording appendable whose i-th append call returns a
     scripted outcome; observed = status, written-count headers, the acknowledged append calls
     (label set, timestamp, value), the number of calls, commit / rollback.
   * RCHead: the handler is backed by a real tsdb.Head (exemplar storage on or off); a case is a
     sequence of requests; observed after each = status, headers, everything a querier and an
     exemplar querier return.
   * RCSym: label sets through the real writev2.SymbolsTable (table and references observed).
   * RCHist: a native histogram, a sample value and an exemplar value through the real
     From*Histogram -> proto.Marshal -> proto.Unmarshal -> To{Int,Float}Histogram of either protocol.
   All numbers in case files are primitive 63-bit integers (cheap to parse); strings are
   indices into the case's string table. *)
From Coq Require Import List ZArith Bool Uint63.
From Verif Require Import model.WriteReq.
Import ListNotations.
Open Scope Z_scope.

Definition z (i : int) : Z := Uint63.to_Z i.
(* indices and symbol references: anything >= 65536 (e.g. MaxUint32) is clamped to 65536, which is
   beyond every table of a case file just the same (keeps unary nat small under vm_compute) *)
Definition n (i : int) : nat := Z.to_nat (Z.min (Uint63.to_Z i) 65536).

(* ---------- raw case data ---------- *)
Definition rlabels := list (int * int).
Inductive rts :=
| RT1 (l : rlabels) (ss hs : list (int * int)) (es : list (rlabels * int * int))
| RT2 (refs : list int) (help unit : int) (ss hs : list (int * int)) (es : list (list int * int * int)).
Inductive rreq := RR1 (l : list rts) | RR2 (syms : list int) (l : list rts) | RRBad (v2 : bool).
Inductive revent :=
| REF (l : rlabels) (t v : int)
| REH (l : rlabels) (t code : int)
| REE (l : rlabels) (el : rlabels) (t v : int).
Record robs := mkRObs { ro_status : int; ro_stats : list int; ro_acked : list revent;
                        ro_calls : int; ro_fin : int }.   (* fin: 0 none, 1 commit ok, 2 commit failed, 3 rollback *)
(* one stored series: labels, samples (t, kind 0 float / 1 histogram, value or histogram code)
   in time order, exemplars (labels, t, v) oldest first *)
Definition rseries := (rlabels * list (int * int * int) * list (rlabels * int * int))%type.
Record hobs := mkHObs { ho_status : int; ho_stats : list int; ho_series : list rseries }.
(* a native histogram as printed by the harness: every 64-bit quantity as (high, low) 32-bit halves *)
Definition w64 := (int * int)%type.
Record rgh := mkRG { rg_float : bool; rg_hint : int; rg_schema : w64; rg_zt : w64; rg_zc : w64;
                     rg_count : w64; rg_sum : w64; rg_ps : list (w64 * int); rg_pb : list w64;
                     rg_ns : list (w64 * int); rg_nb : list w64; rg_cv : list w64 }.
Inductive case :=
| RCRec (id : int) (strs : list (list int)) (maxT : int) (script : list int) (commit_ok : bool)
        (r : rreq) (o : robs)
| RCHead (id : int) (strs : list (list int)) (maxT : int) (exon : bool) (cr : int)
         (steps : list (rreq * hobs))
| RCSym (id : int) (strs : list (list int)) (lss : list rlabels) (tbl : list int) (refs : list (list int))
| RCHist (id : int) (v2 : bool) (ts st : int * int) (h : option rgh) (isf : bool)
         (oi ofl : option rgh) (ts' st' : int * int)
         (vals : list ((int * int) * (int * int))).   (* sample / exemplar values sent and received (bits) *)
Definition c_id (c : case) : Z :=
  match c with RCRec id _ _ _ _ _ _ => z id | RCHead id _ _ _ _ _ => z id | RCSym id _ _ _ _ => z id
  | RCHist id _ _ _ _ _ _ _ _ _ _ => z id end.

Definition u64 (p : w64) : Z := z (fst p) * 4294967296 + z (snd p).
Definition s64 (p : w64) : Z := let u := u64 p in if 9223372036854775808 <=? u then u - 18446744073709551616 else u.
Definition gspans (l : list (w64 * int)) : list (Z * Z) := map (fun x => (s64 (fst x), z (snd x))) l.
Definition ggh (r : rgh) : ghist :=
  let b := if rg_float r then u64 else s64 in
  mkGH (rg_float r) (z (rg_hint r)) (s64 (rg_schema r)) (u64 (rg_zt r)) (u64 (rg_zc r)) (u64 (rg_count r))
       (u64 (rg_sum r)) (gspans (rg_ps r)) (map b (rg_pb r)) (gspans (rg_ns r)) (map b (rg_nb r))
       (map u64 (rg_cv r)).

(* ---------- decoding into model terms ---------- *)
Definition gstr (T : list str) (i : int) : str := nth (n i) T [].
Definition glabels (T : list str) (l : rlabels) : labels := map (fun p => (gstr T (fst p), gstr T (snd p))) l.
(* histogram code: ((id * 256 + (schema + 100)) * 2 + redok) * 4 + float * 2 + valid; the harness'
   id already encodes the schema the histogram was sent with *)
Definition ghistc (c : Z) : hist :=
  mkH (Z.odd (c / 2)) (c / 2048) (Z.odd c) ((c / 8) mod 256 - 100) (Z.odd (c / 4)).
Definition gsample (p : int * int) : Z * Z := (z (fst p), z (snd p)).
Definition ghs (p : int * int) : Z * hist := (z (fst p), ghistc (z (snd p))).
Definition gts1 (T : list str) (t : rts) : ts1 :=
  match t with
  | RT1 l ss hs es => mkTS1 (glabels T l) (map gsample ss) (map ghs hs)
                            (map (fun e => mkE1 (glabels T (fst (fst e))) (z (snd (fst e))) (z (snd e))) es)
  | RT2 _ _ _ _ _ _ => mkTS1 [] [] [] []
  end.
Definition gts2 (t : rts) : ts2 :=
  match t with
  | RT2 refs help unit ss hs es => mkTS2 (map n refs) (n help) (n unit) (map gsample ss) (map ghs hs)
                            (map (fun e => mkE2 (map n (fst (fst e))) (z (snd (fst e))) (z (snd e))) es)
  | RT1 _ _ _ _ => mkTS2 [] 0 0 [] [] []
  end.
Definition greq (T : list str) (r : rreq) : req :=
  match r with
  | RR1 l => R1 (map (gts1 T) l)
  | RR2 syms l => R2 (mkR2 (map (gstr T) syms) (map gts2 l))
  | RRBad v => RBad v
  end.
Definition gevent (T : list str) (e : revent) : event :=
  match e with
  | REF l t v => EvF (glabels T l) (z t) (z v)
  | REH l t c => EvH (glabels T l) (z t) (ghistc (z c))
  | REE l el t v => EvE (glabels T l) (mkEx (glabels T el) (z t) (z v))
  end.
Definition goutcome (i : int) : outcome :=
  match z i with 0 => OOk | 1 => OSoft | 2 => OHistInvalid | 3 => OExOOO | _ => OOther end.
Definition gstats (l : list int) : option (Z * Z * Z) :=
  match l with [a; b; c] => Some (z a, z b, z c) | _ => None end.
Definition gpayload (k x : int) : payload := if (z k =? 0) then PF (z x) else PH (ghistc (z x)).
Definition gseries (T : list str) (s : rseries) : mseries :=
  mkMS (glabels T (fst (fst s)))
       (map (fun p => (z (fst (fst p)), gpayload (snd (fst p)) (snd p))) (snd (fst s)))
       (map (fun e => mkEx (glabels T (fst (fst e))) (z (snd (fst e))) (z (snd e))) (snd s)).
(* observed snapshot as model series, samples and exemplars OLDEST first *)
Definition gsnap (T : list str) (o : hobs) : list mseries := map (gseries T) (ho_series o).

(* ---------- equality helpers ---------- *)
Fixpoint list_eqb {A} (f : A -> A -> bool) (a b : list A) : bool :=
  match a, b with
  | [], [] => true
  | x :: a', y :: b' => f x y && list_eqb f a' b'
  | _, _ => false
  end.
Definition hist_eqb3 (a b : hist) : bool := hist_eqb a b && Bool.eqb (h_valid a) (h_valid b).
Definition event_eqb (a b : event) : bool :=
  match a, b with
  | EvF l t v, EvF l' t' v' => labels_eqb l l' && (t =? t') && (v =? v')
  | EvH l t h, EvH l' t' h' => labels_eqb l l' && (t =? t') && hist_eqb3 h h'
  | EvE l e, EvE l' e' => labels_eqb l l' && ex_eqb e e'
  | _, _ => false
  end.
Definition stats_eqb (a b : option (Z * Z * Z)) : bool :=
  match a, b with
  | None, None => true
  | Some (x, y, w), Some (x', y', w') => (x =? x') && (y =? y') && (w =? w')
  | _, _ => false
  end.
Definition fin_code (f : fin) : Z :=
  match f with FNone => 0 | FCommitted => 1 | FCommitFailed => 2 | FRolledBack => 3 end.
Definition sample_eqb (a b : Z * payload) : bool := (fst a =? fst b) && payload_eqb (snd a) (snd b).
Definition mseries_eqb (a b : mseries) : bool :=
  labels_eqb (ms_labels a) (ms_labels b) && list_eqb sample_eqb (ms_samples a) (ms_samples b)
  && list_eqb ex_eqb (ms_exs a) (ms_exs b).

Definition zz_eqb (a b : Z * Z) : bool := (fst a =? fst b) && (snd a =? snd b).
Definition ghist_eqb (a b : ghist) : bool :=
  Bool.eqb (g_float a) (g_float b) && (g_hint a =? g_hint b) && (g_schema a =? g_schema b)
  && (g_zt a =? g_zt b) && (g_zc a =? g_zc b) && (g_count a =? g_count b) && (g_sum a =? g_sum b)
  && list_eqb zz_eqb (g_pspans a) (g_pspans b) && list_eqb Z.eqb (g_pb a) (g_pb b)
  && list_eqb zz_eqb (g_nspans a) (g_nspans b) && list_eqb Z.eqb (g_nb a) (g_nb b)
  && list_eqb Z.eqb (g_custom a) (g_custom b).
Definition oghist_eqb (a b : option ghist) : bool :=
  match a, b with Some x, Some y => ghist_eqb x y | None, None => true | _, _ => false end.

(* the model head as a snapshot comparable with the observed one: series that have data,
   samples and exemplars oldest first *)
Definition model_snap (h : head) : list mseries :=
  map (fun s => mkMS (ms_labels s) (rev (ms_samples s)) (rev (ms_exs s)))
      (filter (fun s => match ms_samples s, ms_exs s with [], [] => false | _, _ => true end) (hd_series h)).
(* same series sets (the observed list is sorted by the harness, the model's is in creation order) *)
Definition snap_agree (m o : list mseries) : bool :=
  (length m =? length o)%nat &&
  forallb (fun s => existsb (mseries_eqb s) m) o.

(* ---------- agree ---------- *)
Fixpoint agree_steps (T : list str) (maxT : Z) (h : head) (steps : list (rreq * hobs)) : bool :=
  match steps with
  | [] => true
  | (r, o) :: rest =>
    let res := head_request maxT h (greq T r) in
    let h' := ha_head (r_state res) in
    (r_status res =? z (ho_status o)) && stats_eqb (r_stats res) (gstats (ho_stats o))
    && snap_agree (model_snap h') (gsnap T o)
    && agree_steps T maxT h' rest
  end.

Definition agree (c : case) : bool :=
  match c with
  | RCRec _ strs maxT script ok r o =>
    let T := map (map z) strs in
    let res := handle (scripted (map goutcome script) ok) (z maxT) 0%nat (greq T r) in
    (r_status res =? z (ro_status o)) && stats_eqb (r_stats res) (gstats (ro_stats o))
    && list_eqb event_eqb (r_trace res)
         (match r_fin res with FCommitted => map (gevent T) (ro_acked o) | _ => [] end)
    && (Z.of_nat (r_state res) =? z (ro_calls o)) && (fin_code (r_fin res) =? z (ro_fin o))
  | RCHead _ strs maxT exon cr steps =>
    agree_steps (map (map z) strs) (z maxT) (head_new exon (z cr)) steps
  | RCSym _ strs lss tbl refs =>
    let T := map (map z) strs in
    let '(t, rs) := symbolize_all new_table (map (glabels T) lss) in
    list_eqb str_eqb t (map (gstr T) tbl) && list_eqb (list_eqb Nat.eqb) rs (map (map n) refs)
  | RCHist _ v2 ts st h isf oi ofl ts' st' vals =>
    forallb (fun x => wire_f (u64 (fst x)) =? u64 (snd x)) vals &&
    match h with
    | None => false
    | Some r =>
      let g := ggh r in
      let p := transmit (if g_float g then from_float (s64 st) (s64 ts) g else from_int (s64 st) (s64 ts) g) in
      Bool.eqb (is_float_hist p) isf && oghist_eqb (to_int p) (option_map ggh oi)
      && oghist_eqb (Some (to_float p)) (option_map ggh ofl)
      && (p_ts p =? s64 ts') && (p_st p =? s64 st')
    end
  end.

(* ---------- holds: the property on the implementation's own output ---------- *)
(* what a request asks to be stored, per decoded VALID series: label set as stored (without
   empty-valued labels), float samples, histograms, exemplars *)
(* histograms in the form the storage receives them (resolution reduced to schema 8 above it) *)
Record want := mkW { w_l : labels; w_f : list (Z * Z); w_h : list (Z * hist); w_e : list exemplar }.
Definition strip_ex (e : exemplar) : exemplar := mkEx (without_empty (ex_labels e)) (ex_t e) (ex_v e).
Definition want1 (ts : ts1) : option want :=
  let ls := sort_labels (t1_labels ts) in
  if valid_series ls then
    Some (mkW (without_empty ls) (t1_samples ts) (map (fun x => (fst x, reduced (snd x))) (t1_hists ts))
              (map (fun e => strip_ex (mkEx (sort_labels (e1_labels e)) (e1_t e) (e1_v e))) (t1_exs ts)))
  else None.
Definition want2 (syms : list str) (ts : ts2) : option want :=
  match desymbolize (t2_refs ts) syms with
  | None => None
  | Some ls =>
    if meta_ok ts syms && valid_series ls
       && negb (match t2_samples ts, t2_hists ts with [], [] => true | _, _ => false end) then
      Some (mkW (without_empty ls) (t2_samples ts) (map (fun x => (fst x, reduced (snd x))) (t2_hists ts))
             (flat_map (fun e => match desymbolize (e2_refs e) syms with
                                 | Some el => [strip_ex (mkEx el (e2_t e) (e2_v e))]
                                 | None => [] end) (t2_exs ts)))
    else None
  end.
Definition wants (r : req) : list (option want) :=
  match r with
  | R1 l => map want1 l
  | R2 r2 => map (want2 (r2_syms r2)) (r2_series r2)
  | RBad _ => []
  end.
Definition some_list {A} (l : list (option A)) : list A :=
  flat_map (fun o => match o with Some x => [x] | None => [] end) l.
Definition all_some {A} (l : list (option A)) : bool :=
  forallb (fun o => match o with Some _ => true | None => false end) l.
(* a 2.0 request with an undecodable exemplar is also a bad request *)
Definition exs_decodable (r : req) : bool :=
  match r with
  | R2 r2 => forallb (fun ts => forallb (fun e => match desymbolize (e2_refs e) (r2_syms r2) with
                                                   | Some _ => true | None => false end) (t2_exs ts))
                     (r2_series r2)
  | _ => true
  end.

Definition has_sample (S : list mseries) (l : labels) (t : Z) (p : payload) : bool :=
  existsb (fun s => labels_eqb (ms_labels s) l && existsb (sample_eqb (t, p)) (ms_samples s)) S.
Definition has_ex (S : list mseries) (l : labels) (e : exemplar) : bool :=
  existsb (fun s => labels_eqb (ms_labels s) l && existsb (ex_eqb e) (ms_exs s)) S.
Definition zlen {A} (l : list A) : Z := Z.of_nat (length l).
Definition cnt {A} (f : A -> bool) (l : list A) : Z := zlen (filter f l).

Definition snap_floats (S : list mseries) : Z := fold_left (fun a s => a + cnt is_pf (ms_samples s)) S 0.
Definition snap_hists (S : list mseries) : Z := fold_left (fun a s => a + cnt (fun x => negb (is_pf x)) (ms_samples s)) S 0.
Definition snap_exs (S : list mseries) : Z := fold_left (fun a s => a + zlen (ms_exs s)) S 0.

Definition tot_f (W : list want) : Z := fold_left (fun a w => a + zlen (w_f w)) W 0.
Definition tot_h (W : list want) : Z := fold_left (fun a w => a + zlen (w_h w)) W 0.
Definition tot_e (W : list want) : Z := fold_left (fun a w => a + zlen (w_e w)) W 0.
(* request items that are in the storage afterwards (with multiplicity) *)
Definition pres_f (S : list mseries) (W : list want) : Z :=
  fold_left (fun a w => a + cnt (fun x => has_sample S (w_l w) (fst x) (PF (snd x))) (w_f w)) W 0.
Definition pres_h (S : list mseries) (W : list want) : Z :=
  fold_left (fun a w => a + cnt (fun x => has_sample S (w_l w) (fst x) (PH (snd x))) (w_h w)) W 0.
Definition pres_e (S : list mseries) (W : list want) : Z :=
  fold_left (fun a w => a + cnt (fun e => has_ex S (w_l w) e) (w_e w)) W 0.

(* everything stored afterwards was stored before or is asked for by a valid series of the request *)
Definition nothing_else (B A : list mseries) (W : list want) : bool :=
  forallb (fun s =>
    forallb (fun x => has_sample B (ms_labels s) (fst x) (snd x) ||
                      existsb (fun w => labels_eqb (w_l w) (ms_labels s) &&
                         match snd x with
                         | PF v => existsb (fun y => (fst y =? fst x) && (snd y =? v)) (w_f w)
                         | PH h => existsb (fun y => (fst y =? fst x) && hist_eqb (snd y) h) (w_h w)
                         end) W) (ms_samples s)
    && forallb (fun e => has_ex B (ms_labels s) e ||
                         existsb (fun w => labels_eqb (w_l w) (ms_labels s) && existsb (ex_eqb e) (w_e w)) W)
               (ms_exs s)) A.
(* nothing stored before is lost *)
Definition nothing_lost (B A : list mseries) : bool :=
  forallb (fun s => forallb (fun x => has_sample A (ms_labels s) (fst x) (snd x)) (ms_samples s)
                    && forallb (fun e => has_ex A (ms_labels s) e) (ms_exs s)) B.

(* the property for one answered request: B = storage before, A = storage after *)
Definition holds_step (B A : list mseries) (r : req) (status : Z) (stats : option (Z * Z * Z)) : bool :=
  let W := some_list (wants r) in
  let clean := all_some (wants r) && exs_decodable r in
  nothing_lost B A && nothing_else B A W &&
  match status with
  | 204 =>
    (* success: every series was valid, everything asked for is stored *)
    clean && (pres_f A W =? tot_f W) && (pres_h A W =? tot_h W)
    && match stats with
       | Some (s, h, e) => (s =? tot_f W) && (h =? tot_h W)
           (* exemplars the storage refuses for other reasons than being out of order are dropped
              without an error by design; the count must still be truthful *)
           && (snap_exs A - snap_exs B <=? e) && (e <=? pres_e A W)
       | None => match r with R2 _ => false | _ => true end
       end
  | 400 =>
    match r, stats with
    | R2 _, Some (s, h, e) =>
      (* partial write: the reported counts are bounded by what is newly stored (below) and by
         the request items found in the storage (above) *)
      (snap_floats A - snap_floats B <=? s) && (s <=? pres_f A W)
      && (snap_hists A - snap_hists B <=? h) && (h <=? pres_h A W)
      && (snap_exs A - snap_exs B <=? e) && (e <=? pres_e A W)
    | R1 _, None => snap_agree B A            (* 1.0: no partial write *)
    | RBad true, Some (0, 0, 0) | RBad false, None => snap_agree B A
    | _, _ => false
    end
  | 500 =>
    (* these steps run against a healthy real head: nothing in the generated domain is a storage
       failure, so a retryable 5xx (and the rollback of the whole request) is itself a failure *)
    false
  | _ => false
  end.

Fixpoint holds_steps (T : list str) (B : list mseries) (steps : list (rreq * hobs)) : bool :=
  match steps with
  | [] => true
  | (r, o) :: rest =>
    let A := gsnap T o in
    holds_step B A (greq T r) (z (ho_status o)) (gstats (ho_stats o)) && holds_steps T A rest
  end.

Definition ev_labels (e : event) : labels :=
  match e with EvF l _ _ => l | EvH l _ _ => l | EvE l _ => l end.

Definition holds (c : case) : bool :=
  match c with
  | RCRec _ strs maxT script ok r o =>
    let T := map (map z) strs in
    let tr := map (gevent T) (ro_acked o) in
    let st := z (ro_status o) in
    let rq := greq T r in
    (* nothing is appended under an invalid label set *)
    forallb (fun e => valid_series (ev_labels e)) tr
    && match z (ro_fin o) with
       | 1 => (* committed: reported counts = acknowledged appends; 204 iff nothing was rejected *)
         match rq, gstats (ro_stats o) with
         | R2 _, Some (s, h, e) => (s =? count_f tr) && (h =? count_h tr) && (e =? count_e tr)
             && ((st =? 204) || (st =? 400))
             && (negb (st =? 204) || (all_some (wants rq) && exs_decodable rq
                    && (s =? tot_f (some_list (wants rq))) && (h =? tot_h (some_list (wants rq)))))
         | R1 _, None => st =? 204
         | _, _ => false
         end
       | 0 => (st =? 400) && match tr with [] => true | _ => false end   (* undecodable *)
       | _ => (* commit failed or rolled back: an error status, zero counts *)
         ((st =? 500) || ((st =? 400) && match rq with R1 _ => true | _ => false end))
         && match gstats (ro_stats o) with Some (0, 0, 0) | None => true | _ => false end
       end
  | RCHead _ strs _ _ _ steps => holds_steps (map (map z) strs) [] steps
  | RCSym _ strs lss tbl refs =>
    (* decoding the real table's references gives every label set back *)
    let T := map (map z) strs in
    (length lss =? length refs)%nat &&
    forallb (fun p => match desymbolize (map n (snd p)) (map (gstr T) tbl) with
                      | Some ls => labels_eqb ls (glabels T (fst p))
                      | None => false end) (combine lss refs)
  | RCHist _ v2 ts st h isf oi ofl ts' st' vals =>
    forallb (fun x => u64 (fst x) =? u64 (snd x)) vals &&
    (* every field of the histogram, its kind and its timestamps survive encode + decode; the
       float view of an integer histogram keeps everything but the counts' representation *)
    match h with
    | None => false
    | Some r =>
      let g := ggh r in
      (s64 ts =? s64 ts') && (s64 st =? s64 st') && Bool.eqb isf (g_float g)
      && (if g_float g then oghist_eqb (option_map ggh ofl) (Some g) && oghist_eqb (option_map ggh oi) None
          else oghist_eqb (option_map ggh oi) (Some g)
               && match option_map ggh ofl with
                  | Some f => g_float f && (g_hint f =? g_hint g) && (g_schema f =? g_schema g)
                      && (g_zt f =? g_zt g) && (g_sum f =? g_sum g)
                      && list_eqb zz_eqb (g_pspans f) (g_pspans g) && list_eqb zz_eqb (g_nspans f) (g_nspans g)
                      && list_eqb Z.eqb (g_custom f) (g_custom g)
                      && (length (g_pb f) =? length (g_pb g))%nat && (length (g_nb f) =? length (g_nb g))%nat
                  | None => false
                  end)
    end
  end.

Definition mismatches (cs : list case) : list Z := map c_id (filter (fun c => negb (agree c)) cs).
Definition failing_holds (cs : list case) : list Z := map c_id (filter (fun c => negb (holds c)) cs).

(* corr/CorrC11.v — correspondence (agree) and specification (holds) checkers for C11 cases.

   Three kinds of cases, all produced by running the real code in /repo:
   mode 0  a sequence of histograms appended through the real chunk appenders
           (HistogramAppender / HistogramSTAppender / FloatHistogramAppender /
           FloatHistogramSTAppender .AppendHistogram / .AppendFloatHistogram) with cuts chosen
           by the harness; observed: per append what came back (same / new chunk / recoded) and
           the caller's histogram after the call; at the end every chunk decoded by its iterator.
   mode 1  the same kind of sequence appended to one series of a real tsdb Head (which cuts
           chunks by its own policy); observed: the series read back through several paths
           (head querier, after WAL replay + m-mapped chunks, from the compacted block) and the
           caller's histograms after Commit.  No model prediction here (the cut policy is not
           modelled): such cases are judged by [holds] only.
   mode 2  component cases: expandSpansBothWays / adjustForInserts / insert /
           expandIntSpansAndBuckets / bucketIterator called directly through the export shim.
   mode 3  transaction cases: several samples of mixed flavours (float, integer / float
           histogram, integer / float custom-bucket histogram) appended to fresh series of a real
           DB through ONE appender (Appender or AppenderV2) and ONE Commit; observed: every series
           read back.  The model (model/HistBatch.v) predicts which samples are stored in which
           order (batches, commit order, in-order acceptance). *)
From Coq Require Import List ZArith Bool Uint63.
From Verif Require Import model.HistChunk model.HistBatch.
Import ListNotations.
Open Scope Z_scope.

(* wire format: 64-bit patterns are two 32-bit halves as primitive integers (cheap to parse) *)
Definition fb (h l : int) : Z := Uint63.to_Z h * 4294967296 + Uint63.to_Z l.
Arguments fb (h l)%uint63_scope.

Record obs_step := mkOS {
  os_flag : Z;                 (* 0 = appended to the same chunk, 1 = new chunk, 2 = recoded *)
  os_after : option hist       (* the caller's histogram after the call; None = deep-equal to before *)
}.

(* component observations *)
Inductive comp :=
| CIdxs (sp : list span) (out : list Z)
| CBoth (a b : list span) (f bk : list ins) (m : list span)
| CAdjust (sp : list span) (l : list ins) (out : list span)
| CInsert (deltas : bool) (inp : list Z) (l : list ins) (n : Z) (out : option (list Z)) (* None = panic *)
| CExpand (k : kind) (a b : list span) (ab bb : list Z) (out : option (list ins * list ins)).

(* mode 3: a sample value of any flavour *)
Inductive tval := VF (bits : Z) | VH (k : kind) (h : hist).
Record txin := mkTxIn { ti_ser : Z; ti_t : Z; ti_v : tval }.

Record case := mkCase {
  c_id : Z;
  c_mode : Z;
  c_kind : kind;
  c_ops : list op;                              (* what was appended (deep copies taken before) *)
  c_steps : list obs_step;                      (* mode 0 *)
  c_chunks : list (list (Z * hist));            (* mode 0: every chunk decoded, in order *)
  c_reenc : list Z;                             (* mode 0: per chunk, re-encoding it the way compaction does
                                                   (iterate, AppendHistogram(..., appendOnly=true)):
                                                   0 = error, 1 = ok and decodes to the same samples, 2 = ok but different *)
  c_reads : list (list (Z * hist));             (* mode 1: the series as read through each path *)
  c_after : list (option hist);                 (* mode 1: the caller's histograms after Commit *)
  c_comps : list comp;                          (* mode 2 *)
  c_tx : list txin;                             (* mode 3: the transaction, in append order *)
  c_txread : list (Z * list (Z * tval))         (* mode 3: per series id, what the querier returned *)
}.

(* ---------- equality helpers ---------- *)
Fixpoint list_eqb {A} (eqb : A -> A -> bool) (l1 l2 : list A) : bool :=
  match l1, l2 with
  | [], [] => true
  | x :: r1, y :: r2 => eqb x y && list_eqb eqb r1 r2
  | _, _ => false
  end.
Definition span_eqb (a b : span) := (s_off a =? s_off b) && (s_len a =? s_len b).
Definition ins_eqb (bidx : bool) (a b : ins) :=
  (i_pos a =? i_pos b) && (i_num a =? i_num b) && (negb bidx || (i_bidx a =? i_bidx b)).
Definition hint_eqb (a b : hint) : bool :=
  match a, b with
  | HUnknown, HUnknown | HReset, HReset | HNotReset, HNotReset | HGauge, HGauge => true
  | _, _ => false
  end.
(* everything except the counter reset hint, exactly *)
Definition hist_eqb (a b : hist) : bool :=
  (h_schema a =? h_schema b) && (h_zt a =? h_zt b) && list_eqb Z.eqb (h_custom a) (h_custom b) &&
  (h_count a =? h_count b) && (h_zcount a =? h_zcount b) && (h_sum a =? h_sum b) &&
  list_eqb span_eqb (h_ps a) (h_ps b) && list_eqb span_eqb (h_ns a) (h_ns b) &&
  list_eqb Z.eqb (h_pb a) (h_pb b) && list_eqb Z.eqb (h_nb a) (h_nb b).
Definition th_eqb (a b : Z * hist) : bool := (fst a =? fst b) && hist_eqb (snd a) (snd b).

(* ---------- agree ---------- *)
Definition flag_of (o : outcome) : Z := match o with Same _ => 0 | NewChunk _ => 1 | Recoded _ => 2 end.
Definition chunk_of (o : outcome) : chunk := match o with Same c | NewChunk c | Recoded c => c end.

(* replay the ops on the model, checking each step's observation; returns the chunks *)
Fixpoint replay (k : kind) (done : list chunk) (cur : chunk) (ops : list op) (obs : list obs_step)
  : option (list chunk) :=
  match ops, obs with
  | [], [] => Some (done ++ [cur])
  | o :: ops', s :: obs' =>
      let '(done1, cur1) := if o_cut o then (done ++ [cur], empty_chunk false) else (done, cur) in
      match append k cur1 (o_t o) (o_h o) with
      | Ok (h', out) =>
          let after := match os_after s with Some h => h | None => o_h o end in
          if (flag_of out =? os_flag s) && hist_eqb h' after && hint_eqb (h_hint h') (h_hint after) then
            match out with
            | Same c | Recoded c => replay k done1 c ops' obs'
            | NewChunk c => replay k (done1 ++ [cur1]) c ops' obs'
            end
          else None
      | _ => None
      end
  | _, _ => None
  end.

(* the model's prediction for re-encoding one chunk *)
Definition reenc_code (k : kind) (ch : chunk) : Z :=
  match reencode k ch with
  | Ok (Some c') => if list_eqb th_eqb (read_chunk c') (read_chunk ch) then 1 else 2
  | Ok None => 0
  | _ => 3
  end.

Definition agree_comp (c : comp) : bool :=
  match c with
  | CIdxs sp out => list_eqb Z.eqb (idxs sp) out
  | CBoth a b f bk m =>
      match expand_both a b with
      | Ok (F, B, M) => list_eqb (ins_eqb false) F f && list_eqb (ins_eqb false) B bk && list_eqb span_eqb M m
      | _ => false
      end
  | CAdjust sp l out =>
      match adjust_for_inserts sp l with Ok r => list_eqb span_eqb r out | _ => false end
  | CInsert d inp l n out =>
      match insert_go d inp l n, out with
      | Ok r, Some o => list_eqb Z.eqb r o
      | Panic, None => true
      | _, _ => false
      end
  | CExpand k a b ab bb out =>
      match expand_counts k a b ab bb, out with
      | Ok (Some (F, B)), Some (f, bk) => list_eqb (ins_eqb true) F f && list_eqb (ins_eqb true) B bk
      | Ok None, None => true
      | _, _ => false
      end
  end.

(* ---------- mode 3 ---------- *)
Definition kind_eqb (a b : kind) : bool :=
  match a, b with KInt, KInt | KFloat, KFloat => true | _, _ => false end.

Definition stype_of (v : tval) : stype :=
  match v with
  | VF _ => StFloat
  | VH KInt h => if h_schema h =? custom_schema then StCBHist else StHist
  | VH KFloat h => if h_schema h =? custom_schema then StCBFHist else StFHist
  end.

Fixpoint number_tx (i : Z) (l : list txin) : list txs :=
  match l with
  | [] => []
  | x :: r => mkTx (ti_ser x) (stype_of (ti_v x)) (ti_t x) i :: number_tx (i + 1) r
  end.

(* a read-back value against the appended one: same flavour, floats bit-exact, histograms
   semantically equal (see sem_eq below; defined here to be usable by agree) *)
Definition canon_eqb (k : kind) (s1 : list span) (b1 : list Z) (s2 : list span) (b2 : list Z) : bool :=
  list_eqb (fun a b => (fst a =? fst b) && (snd a =? snd b)) (canon k s1 b1) (canon k s2 b2).
Definition hist_sem (k : kind) (rd ap : hist) : bool :=
  if is_stale (h_sum ap) then is_stale (h_sum rd)
  else
    negb (is_stale (h_sum rd)) &&
    (h_schema rd =? h_schema ap) &&
    ((h_zt rd =? h_zt ap) || feq (h_zt rd) (h_zt ap)) &&
    (list_eqb Z.eqb (h_custom rd) (h_custom ap) || bounds_match (h_custom rd) (h_custom ap)) &&
    (h_count rd =? h_count ap) && (h_zcount rd =? h_zcount ap) && (h_sum rd =? h_sum ap) &&
    canon_eqb k (h_ps rd) (h_pb rd) (h_ps ap) (h_pb ap) &&
    canon_eqb k (h_ns rd) (h_nb rd) (h_ns ap) (h_nb ap).
Definition val_match (rd ap : tval) : bool :=
  match rd, ap with
  | VF a, VF b => a =? b
  | VH k h, VH k' h' => kind_eqb k k' && hist_sem k h h'
  | _, _ => false
  end.

Fixpoint match_reads (rd : list (Z * tval)) (ap : list (Z * tval)) : bool :=
  match rd, ap with
  | [], [] => true
  | (t, v) :: rd', (t', v') :: ap' => (t =? t') && val_match v v' && match_reads rd' ap'
  | _, _ => false
  end.

Definition nth_tx (l : list txin) (i : Z) : option txin := nth_error l (Z.to_nat i).

(* the model's prediction for series s: the stored samples, with the appended values *)
Definition predicted (c_txl : list txin) (s : Z) : list (Z * tval) :=
  flat_map (fun x => match nth_tx c_txl (x_id x) with Some i => [(ti_t i, ti_v i)] | None => [] end)
           (of_series s (tx_run (number_tx 0 c_txl))).

Definition agree_tx (c : case) : bool :=
  forallb (fun x => existsb (fun r => fst r =? ti_ser x) (c_txread c)) (c_tx c) &&
  forallb (fun r => match_reads (snd r) (predicted (c_tx c) (fst r))) (c_txread c).

Definition agree (c : case) : bool :=
  if c_mode c =? 0 then
    match c_ops c with
    | [] => true
    | _ =>
      (* the first op always starts a chunk *)
      match replay (c_kind c) [] (empty_chunk false) (c_ops c) (c_steps c) with
      | Some cs =>
          (* a leading cut leaves an empty chunk in front: drop empty chunks *)
          let cs' := filter (fun ch => nonempty (c_samples ch)) cs in
          list_eqb (list_eqb th_eqb) (map read_chunk cs') (c_chunks c) &&
          list_eqb Z.eqb (map (reenc_code (c_kind c)) cs') (c_reenc c)
      | None => false
      end
    end
  else if c_mode c =? 2 then forallb agree_comp (c_comps c)
  else if c_mode c =? 3 then agree_tx c
  else true.

(* ---------- holds: the property on the implementation's own output ---------- *)
Definition wf_spans (l : list span) : bool :=
  forallb (fun s => 0 <=? s_len s) l &&
  match l with [] => true | _ :: r => forallb (fun s => 0 <=? s_off s) r end.
Definition wf_hist (h : hist) : bool :=
  is_stale (h_sum h) ||
  (wf_spans (h_ps h) && wf_spans (h_ns h) &&
   (count_spans (h_ps h) =? Z.of_nat (length (h_pb h))) &&
   (count_spans (h_ns h) =? Z.of_nat (length (h_nb h)))).

Definition pair_eqb (a b : Z * Z) := (fst a =? fst b) && (snd a =? snd b).
(* semantic equality of a read-back histogram and the appended one *)
Definition sem_eq (k : kind) (rd ap : hist) : bool :=
  if is_stale (h_sum ap) then is_stale (h_sum rd)
  else
    negb (is_stale (h_sum rd)) &&
    (h_schema rd =? h_schema ap) &&
    ((h_zt rd =? h_zt ap) || feq (h_zt rd) (h_zt ap)) &&
    (list_eqb Z.eqb (h_custom rd) (h_custom ap) || bounds_match (h_custom rd) (h_custom ap)) &&
    (h_count rd =? h_count ap) && (h_zcount rd =? h_zcount ap) && (h_sum rd =? h_sum ap) &&
    list_eqb pair_eqb (canon k (h_ps rd) (h_pb rd)) (canon k (h_ps ap) (h_pb ap)) &&
    list_eqb pair_eqb (canon k (h_ns rd) (h_nb rd)) (canon k (h_ns ap) (h_nb ap)).

Fixpoint read_matches (k : kind) (rd : list (Z * hist)) (ops : list op) : bool :=
  match rd, ops with
  | [], [] => true
  | (t, h) :: rd', o :: ops' => (t =? o_t o) && sem_eq k h (o_h o) && read_matches k rd' ops'
  | _, _ => false
  end.

(* the caller's histogram after the call: semantically the same histogram, other fields exact *)
Definition unchanged (k : kind) (before : hist) (after : option hist) : bool :=
  match after with
  | None => true
  | Some a =>
      hint_eqb (h_hint a) (h_hint before) &&
      (h_schema a =? h_schema before) && (h_zt a =? h_zt before) &&
      list_eqb Z.eqb (h_custom a) (h_custom before) &&
      (h_count a =? h_count before) && (h_zcount a =? h_zcount before) && (h_sum a =? h_sum before) &&
      (is_stale (h_sum before) ||
       (wf_hist a &&
        list_eqb pair_eqb (canon k (h_ps a) (h_pb a)) (canon k (h_ps before) (h_pb before)) &&
        list_eqb pair_eqb (canon k (h_ns a) (h_nb a)) (canon k (h_ns before) (h_nb before))))
  end.

Fixpoint all2 {A B} (f : A -> B -> bool) (l1 : list A) (l2 : list B) : bool :=
  match l1, l2 with
  | [], [] => true
  | x :: r1, y :: r2 => f x y && all2 f r1 r2
  | _, _ => false
  end.

(* mode 3: per series, timestamps strictly increase in append order *)
Fixpoint increasing (last : option Z) (l : list (Z * tval)) : bool :=
  match l with
  | [] => true
  | (t, _) :: r => match last with None => true | Some m => m <? t end && increasing (Some t) r
  end.
Definition inputs_of (c : case) (s : Z) : list (Z * tval) :=
  map (fun x => (ti_t x, ti_v x)) (filter (fun x => ti_ser x =? s) (c_tx c)).
Definition holds_tx (c : case) : bool :=
  if negb (forallb (fun x => match ti_v x with VH _ h => wf_hist h | VF _ => true end) (c_tx c)) then true
  else if negb (forallb (fun x => increasing None (inputs_of c (ti_ser x))) (c_tx c)) then true
  else
    forallb (fun x => existsb (fun r => fst r =? ti_ser x) (c_txread c)) (c_tx c) &&
    forallb (fun r => match_reads (snd r) (inputs_of c (fst r))) (c_txread c).

Definition holds (c : case) : bool :=
  if c_mode c =? 2 then true
  else if c_mode c =? 3 then holds_tx c
  else if negb (forallb (fun o => wf_hist (o_h o)) (c_ops c)) then true
  else
    let k := c_kind c in
    if c_mode c =? 0 then
      read_matches k (concat (c_chunks c)) (c_ops c) &&
      forallb (fun r => r =? 1) (c_reenc c) &&      (* "however the storage ... re-encoded chunks" *)
      all2 (fun o s => unchanged k (o_h o) (os_after s)) (c_ops c) (c_steps c)
    else
      forallb (fun rd => read_matches k rd (c_ops c)) (c_reads c) &&
      all2 (fun o a => unchanged k (o_h o) a) (c_ops c) (c_after c).

Definition mismatches (cs : list case) : list Z := map c_id (filter (fun c => negb (agree c)) cs).
Definition failing_holds (cs : list case) : list Z := map c_id (filter (fun c => negb (holds c)) cs).

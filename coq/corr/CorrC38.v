(* corr/CorrC38.v — correspondence (agree) and specification (holds) checkers for C38 cases.
   A case = a base label set, a chain of rule applications run one by one through the real
   relabel.ProcessBuilder on one labels.Builder, each with (a) the oracle tables (Go regexp /
   md5 / ToLower / ToUpper / IsValidLabelName results on the arguments of that application)
   and (b) what was observed afterwards (keep/drop/panic and Builder.Range in its exact order),
   plus the final Builder.Labels(). *)
From Coq Require Import List ZArith NArith Bool.
From Verif Require Import model.Relabel.
Import ListNotations.
Open Scope Z_scope.

Record tables := mkT {
  t_match : list (str * bool);
  t_find : list (str * option (list Z));
  t_expand : list ((str * str * list Z) * str);      (* (template, src, idx) -> result *)
  t_replace_all : list ((str * str) * str);          (* (src, repl) -> result *)
  t_md5 : list (str * Z);
  t_lower : list (str * str);
  t_upper : list (str * str);
  t_valid : list (str * bool)
}.

Fixpoint assoc {A B} (eqb : A -> A -> bool) (k : A) (l : list (A * B)) : option B :=
  match l with
  | [] => None
  | (k', v) :: t => if eqb k k' then Some v else assoc eqb k t
  end.

Fixpoint zs_eqb (a b : list Z) : bool :=
  match a, b with
  | [], [] => true
  | x :: a', y :: b' => Z.eqb x y && zs_eqb a' b'
  | _, _ => false
  end.

Definition key3_eqb (a b : str * str * list Z) : bool :=
  let '(t1, s1, i1) := a in let '(t2, s2, i2) := b in str_eqb t1 t2 && str_eqb s1 s2 && zs_eqb i1 i2.
Definition key2_eqb (a b : str * str) : bool := str_eqb (fst a) (fst b) && str_eqb (snd a) (snd b).

(* the oracle of one rule application: table lookup; an argument missing from the table gets a
   default (db, ds).  Every check below is evaluated under two opposite defaults, so a result
   that depended on a missing entry shows up as a mismatch. *)
Definition oracle_of (db : bool) (ds : str) (t : tables) : oracle :=
  mkO (fun _ s => match assoc str_eqb s (t_match t) with Some b => b | None => db end)
      (fun _ s => match assoc str_eqb s (t_find t) with Some r => r | None => if db then Some [0; 0] else None end)
      (fun _ tpl s idx => match assoc key3_eqb (tpl, s, idx) (t_expand t) with Some r => r | None => ds end)
      (fun _ s rp => match assoc key2_eqb (s, rp) (t_replace_all t) with Some r => r | None => ds end)
      (fun s => match assoc str_eqb s (t_md5 t) with Some z => z | None => if db then 7 else 0 end)
      (fun s => match assoc str_eqb s (t_lower t) with Some r => r | None => ds end)
      (fun s => match assoc str_eqb s (t_upper t) with Some r => r | None => ds end)
      (fun _ s => match assoc str_eqb s (t_valid t) with Some b => b | None => db end).

Inductive obs := ObsKeep (rng : list label) | ObsDrop (rng : list label) | ObsPanic.
Record step := mkStep { s_rule : rule; s_tab : tables; s_obs : obs }.
Record case := mkCase { c_id : Z; c_base : list label; c_steps : list step; c_final : list label }.

(* ---- agree: the model, run on the same builder history, reproduces every observation,
   including the exact Range order (base-then-add) and the final Labels() *)
Fixpoint agree_steps (db : bool) (ds : str) (ss : list step) (b : builder) (final : list label) : bool :=
  match ss with
  | [] => labels_eqb (blabels b) final
  | s :: ss' =>
      match relabel (oracle_of db ds (s_tab s)) (s_rule s) b, s_obs s with
      | OKeep b', ObsKeep rng => labels_eqb (brange b') rng && agree_steps db ds ss' b' final
      | ODrop b', ObsDrop rng =>
          labels_eqb (brange b') rng && match ss' with [] => labels_eqb (blabels b') final | _ => false end
      | OPanic, ObsPanic => match ss' with [] => labels_eqb (blabels b) final | _ => false end
      | _, _ => false
      end
  end.

Definition poison : str := [999%N].

Definition agree (c : case) : bool :=
  agree_steps false [] (c_steps c) (new_builder (c_base c)) (c_final c)
  && agree_steps true poison (c_steps c) (new_builder (c_base c)) (c_final c).

(* ---- holds: the property itself on the implementation's observations, without the builder
   model: each rule application maps the (canonical form of the) observed label set before it
   to the observed label set after it exactly as the documented semantics [doc_rule] says, and
   the final Labels() is canonical and is the last observed label set. *)
Definition canon (rng : list label) : list label :=
  sort_labels (filter (fun l => negb (is_empty (lvalue l))) rng).

(* rules the property talks about (Config.Validate): hashmod has a non-zero modulus; a
   $-free target of replace is a valid label name *)
Definition rule_okb (O : oracle) (r : rule) : bool :=
  match r_action r with
  | HashMod => negb (Z.eqb (r_modulus r) 0)
  | Replace => has_dollar (r_target r) || o_valid O (r_utf8 r) (r_target r)
  | _ => true
  end.

(* labelmap with the visiting order left unspecified (the documentation does not say which of
   several labels copied to one target name wins): every name keeps its old value unless some
   matching label is copied onto it, in which case it carries the value of one of those. *)
Definition lm_any_order_ok (O : oracle) (r : rule) (pre post : list label) : bool :=
  let re := r_regex r in
  let targets := map (fun l => (o_replace_all O re (lname l) (r_repl r), lvalue l))
                     (filter (fun l => o_match O re (lname l)) pre) in
  forallb (fun n =>
             match map snd (filter (fun t => str_eqb (fst t) n) targets) with
             | [] => str_eqb (lget post n) (lget pre n)
             | cands => existsb (str_eqb (lget post n)) cands
             end)
          (map lname pre ++ map lname post ++ map fst targets).

(* [strict] = labelmap must visit the labels in name order (doc_rule, a deterministic function of
   the label set); otherwise any order is accepted (doc_rule_rel of C38_refines_doc). *)
Fixpoint holds_steps (strict : bool) (db : bool) (ds : str) (ss : list step) (pre : list label) (final : list label) : bool :=
  match ss with
  | [] => canonical final && labels_eqb final pre
  | s :: ss' =>
      let O := oracle_of db ds (s_tab s) in
      if rule_okb O (s_rule s) then
        match doc_rule O (s_rule s) pre, s_obs s with
        | DKeep L', ObsKeep rng =>
            (match r_action (s_rule s), strict with
             | LabelMap, false => canonical (canon rng) && lm_any_order_ok O (s_rule s) pre (canon rng)
             | _, _ => labels_eqb L' (canon rng)
             end) && holds_steps strict db ds ss' (canon rng) final
        | DDrop, ObsDrop rng => match ss' with [] => true | _ => false end
        | _, _ => false
        end
      else true   (* outside the property's domain from here on *)
  end.

Definition holds_with (strict : bool) (c : case) : bool :=
  if ssorted (c_base c) then
    holds_steps strict false [] (c_steps c) (canon (c_base c)) (c_final c)
    && holds_steps strict true poison (c_steps c) (canon (c_base c)) (c_final c)
  else true.

(* The documentation does not say which of several labels that labelmap copies onto one target
   name wins, so the check accepts any of them ([holds_with false], the statement of theorem
   C38_refines_doc).  [holds_strict] additionally demands name order, i.e. that the outcome is a
   function of (label set, rules); it fails exactly on the cases the harness tags with shape
   "labelmap-collision-order" (theorem C38_labelmap_set_function_refuted) — an observation
   recorded in notes/C38.md, not a finding. *)
Definition holds (c : case) : bool := holds_with false c.
Definition holds_strict (c : case) : bool := holds_with true c.

Definition mismatches (cs : list case) : list Z := map c_id (filter (fun c => negb (agree c)) cs).
Definition failing_holds (cs : list case) : list Z := map c_id (filter (fun c => negb (holds c)) cs).

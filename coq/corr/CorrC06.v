(* corr/CorrC06.v — correspondence (agree) and specification (holds) checkers for C06 cases.
   One case = one maintenance run of a real tsdb.DB stopped at every protocol step, with queriers
   created (in pieces), iterated and closed in between: the start state as dumped from the
   database, the acknowledged samples, the emitted event sequence with observed payloads, what
   every iteration returned, and which loaded blocks overlapped each querier when it began.

   Wire format: all numbers are primitive 63-bit integer literals; timestamps carry the offset
   2^20 (values beyond +-2^19, i.e. the MaxInt64 / MinInt64 "unset" sentinels, are clamped by the
   harness; generated timestamps stay within +-10^4); samples are referred to by their index in the case's sample table. *)
From Coq Require Import List ZArith Bool Uint63.
From Verif Require Import model.CompactRace.
Import ListNotations.
Open Scope Z_scope.

Definition zi (n : int) : Z := Uint63.to_Z n.
Definition zt (n : int) : Z := Uint63.to_Z n - 1048576.

Record case := mkCase {
  c_id : Z;
  c_acked : list sample;                 (* samples whose Commit was acknowledged *)
  c_s0 : state;                          (* start state, from the dump of the real database *)
  c_trace : list (option ev);            (* None: an event the harness could not encode *)
  c_outs : list (Z * list sample);       (* per EQIter, in order: querier and what it returned *)
  c_held : list (Z * list Z);            (* per querier: loaded blocks overlapping its range at creation *)
  c_completed : bool;                    (* the maintenance call returned without error *)
  c_problems : Z                         (* errors seen on the Go side (querier / iterator / run errors, stalls) *)
}.

Definition dflt : sample := mkS (-1) 0 0.
Definition look (tb : list sample) (i : nat) : sample := nth i tb dflt.

(* sample lists travel run-length encoded: [start1; len1; start2; len2; ...] stands for the table
   indices start1, start1+1, ..., start1+len1-1, start2, ... (the table is sorted by series and
   time, so what a querier returns is mostly a few runs) *)
Fixpoint unruns (l : list int) : list nat :=
  match l with
  | s :: n :: r => seq (Z.to_nat (zi s)) (Z.to_nat (zi n)) ++ unruns r
  | _ => []
  end.

(* raw wire records (monomorphic constructors, including the integer lists: elaborating a
   polymorphic list literal costs milliseconds per bracket) *)
Inductive il := N_ | C_ (x : int) (r : il).
Fixpoint il_list (l : il) : list int := match l with N_ => [] | C_ x r => x :: il_list r end.
Inductive rsample := RS (s t v : int).
Inductive rblock := RB (id lo hi : int) (l : il).
Inductive rchunk := RC (ref : int) (l : il).
Inductive revent := RE (tag : int) (a t : il).
Inductive rout := RO (q : int) (l : il).

Definition looks (tb : list sample) (l : il) : list sample := map (look tb) (unruns (il_list l)).

Definition dec_ev (e : revent) : option ev :=
  let '(RE tag a t) := e in
  match zi tag, map zi (il_list a), map zt (il_list t) with
  | 0, [has; id], [mint; maxt] => Some (EHWritten (if has =? 1 then Some id else None) mint maxt)
  | 1, [], [] => Some ESwapped
  | 2, [id], [] => Some (EBlockClosing id)
  | 3, [id], [] => Some (EBlockClosed id)
  | 4, [], [] => Some ETimePub
  | 5, [], [] => Some EFlagSet
  | 6, [], [] => Some EAwaited
  | 7, [], [] => Some EMinSet
  | 8, [], [nm; no] => Some (EGcDone nm no)
  | 9, [], [] => Some EHeadDone
  | 10, [L], [] => Some (EOStart L)
  | 11, ids, ts =>
      match (fix go (ids ts : list Z) : option (list (Z * Z * Z)) :=
         match ids, ts with
         | [], [] => Some []
         | i :: ir, lo :: hi :: tr => match go ir tr with Some l => Some ((i, lo, hi) :: l) | None => None end
         | _, _ => None
         end) ids ts with
      | Some l => Some (EOWritten l)
      | None => None
      end
  | 12, [], [] => Some EGcPub
  | 13, [], [] => Some EOAwaited
  | 14, [], [] => Some EODone
  | 15, id :: ps, [mint; maxt] => Some (EBWritten id ps mint maxt)
  | 16, [q], [mint; maxt] => Some (EQBegin q mint maxt)
  | 17, [q], [] => Some (EQOpenHead q)
  | 18, [q], [] => Some (EQFinish q)
  | 19, [q], [] => Some (EQIter q)
  | 20, [q], [] => Some (EQClose q)
  | 21, id :: sids, [mint; maxt] => Some (EVWritten id mint maxt sids)
  | 22, [], [T] => Some (EVAwaited T)
  | 23, ev, [] => Some (EVEvicted ev)
  | _, _, _ => None
  end.

Definition wCase (id : int) (nacked : int) (table : list rsample)
    (headino : il) (headmint : int) (ooo : list rchunk) (ooomint ooomaxt : int)
    (blocks : list rblock) (gcref : int)
    (trace : list revent) (outs : list rout) (held : list rout)
    (completed problems : int) : case :=
  let tb := map (fun x => let '(RS s t v) := x in mkS (zi s) (zt t) (zi v)) table in
  let s0 := mkSt (looks tb headino) (zt headmint)
                 (map (fun c => let '(RC r l) := c in
                                mkOC (if zi r =? 0 then None else Some (zi r)) (looks tb l)) ooo)
                 (zt ooomint) (zt ooomaxt)
                 (map (fun b => let '(RB i lo hi l) := b in mkB (zi i) (zt lo) (zt hi) (looks tb l)) blocks)
                 [] [] [] 0 false (zi gcref) Idle [] [] [] [] false in
  mkCase (zi id) (firstn (Z.to_nat (zi nacked)) tb) s0 (map dec_ev trace)
         (map (fun o => let '(RO q l) := o in (zi q, looks tb l)) outs)
         (map (fun h => let '(RO q l) := h in (zi q, map zi (il_list l))) held)
         (zi completed =? 1) (zi problems).

Fixpoint sequence {A} (l : list (option A)) : option (list A) :=
  match l with
  | [] => Some []
  | Some x :: r => match sequence r with Some l' => Some (x :: l') | None => None end
  | None :: _ => None
  end.

Definition subset (a b : list sample) : bool := forallb (fun x => mem_sample x b) a.
Definition set_eq (a b : list sample) : bool := subset a b && subset b a.

Fixpoint outs_match (m : list (Z * Z * Z * list sample)) (o : list (Z * list sample)) : bool :=
  match m, o with
  | [], [] => true
  | (q, _, _, r) :: mr, (q', r') :: or => (q =? q') && set_eq r r' && outs_match mr or
  | _, _ => false
  end.

(* ---- agree: the emitted sequence is a trace of the model and the model returns what the
        implementation returned ------------------------------------------------------------- *)
Definition agree (c : case) : bool :=
  wf_init (c_s0 c) && set_eq (committed (c_s0 c)) (c_acked c) &&
  match sequence (c_trace c) with
  | Some tr =>
      match run (c_s0 c) tr with
      | Some (sf, outs) =>
          negb (failed sf) && match pc sf with Idle => true | _ => false end
          && match queriers sf with [] => true | _ => false end
          && outs_match outs (c_outs c)
      | None => false
      end
  | None => false
  end.

(* ---- holds: the property on the implementation's own output ------------------------------ *)

Fixpoint keys_distinct (l : list sample) : bool :=
  match l with
  | [] => true
  | x :: r => negb (existsb (fun y => (s_sid x =? s_sid y) && (s_t x =? s_t y)) r) && keys_distinct r
  end.

(* the range querier q was created with, from the trace *)
Fixpoint range_of (tr : list ev) (q : Z) : option (Z * Z) :=
  match tr with
  | [] => None
  | EQBegin q' lo hi :: r => if q' =? q then Some (lo, hi) else range_of r q
  | _ :: r => range_of r q
  end.

(* every iteration returned exactly the acknowledged samples of the querier's range, once each *)
Definition results_exact (c : case) (tr : list ev) : bool :=
  forallb (fun o =>
    match range_of tr (fst o) with
    | Some (lo, hi) =>
        keys_distinct (snd o) && set_eq (snd o) (filter (in_range lo hi) (c_acked c))
    | None => false
    end) (c_outs c).

(* no block is released (its pending-reader wait returns) while an open querier overlaps it *)
Fixpoint no_release_while_held (held : list (Z * list Z)) (tr : list ev) (open : list (Z * list Z)) : bool :=
  match tr with
  | [] => true
  | EQBegin q _ _ :: r =>
      let hs := match find (fun h => fst h =? q) held with Some h => snd h | None => [] end in
      no_release_while_held held r ((q, hs) :: open)
  | EQClose q :: r => no_release_while_held held r (filter (fun h => negb (fst h =? q)) open)
  | EBlockClosed id :: r =>
      negb (existsb (fun h => memZ id (snd h)) open) && no_release_while_held held r open
  | _ :: r => no_release_while_held held r open
  end.

Definition holds (c : case) : bool :=
  match sequence (c_trace c) with
  | Some tr =>
      c_completed c && (c_problems c =? 0)
      && keys_distinct (c_acked c)
      && results_exact c tr
      && no_release_while_held (c_held c) tr []
  | None => false
  end.

Definition mismatches (cs : list case) : list Z := map c_id (filter (fun c => negb (agree c)) cs).
Definition failing_holds (cs : list case) : list Z := map c_id (filter (fun c => negb (holds c)) cs).

(* corr/CorrC26.v — correspondence (agree) and specification (holds) checkers for C26.
   One case = one expression accepted by the real parser under one option set:
     c_in    the AST (projection of the real parser.Expr; positions dropped, matchers sorted, NaN canonical)
     c_oc    the float oracles' values on the numbers occurring in this case (see model/PromqlPrint.v)
     c_toks  the real lexer's items for the real Expr.String()
     c_ptoks the real lexer's items for the real Prettify()            (None: the same text)
     c_re    the real ParseExpr(String()) projected
     c_pre   the real ParseExpr(Prettify()) projected                 (ignored when c_ptoks = None)
     c_toks2 the real lexer's items for String() of the re-parsed expression (None: the same text)
     c_wf    the harness built c_in inside the modelled, well-formed fragment on purpose *)
From Coq Require Import List ZArith Bool.
From Verif Require Import model.PromqlPrint model.PromqlParse.
Import ListNotations.
Open Scope Z_scope.

(* result of a real ParseExpr: the projected AST is c_in again / rejected / another AST *)
Inductive reparse := RSame | RErr | ROther (e : expr).

Record case := mkCase {
  c_id : Z; c_opts : opts; c_oc : orc; c_wf : bool; c_in : expr;
  c_toks : list tok; c_ptoks : option (list tok); c_re : reparse; c_pre : reparse; c_toks2 : option (list tok) }.

Definition toks_eqb := list_eqb tok_eqb.

Definition res_eqb (c : case) (m : res expr) (r : reparse) : bool :=
  match m, r with
  | Ok a, RSame => expr_eqb a (c_in c)
  | Ok a, ROther b => expr_eqb a b
  | Err (ESyntax | EType), RErr => true
  | _, _ => false
  end.

(* model vs implementation: the model's printer produces the lexer's items of the real text, the
   model's parser reads both token streams exactly as the real parser reads the texts, and the
   model's wf predicate accepts what the harness built as well-formed *)
Definition agree (ft : ftab) (c : case) : bool :=
  toks_eqb (print (c_oc c) (c_in c)) (c_toks c)
  && res_eqb c (parse (c_oc c) (c_opts c) ft (c_toks c)) (c_re c)
  && (match c_ptoks c with
      | None => true
      | Some pt => res_eqb c (parse (c_oc c) (c_opts c) ft pt) (c_pre c)
      end)
  && implb (c_wf c) (wfb (c_oc c) (c_opts c) ft (c_in c)).

(* the property on the implementation's own outputs: the printed text parses back to the same
   expression, which prints identically; the prettified text has the same items (only white
   space differs) and parses back to the same expression *)
Definition same (c : case) (r : reparse) : bool :=
  match r with RSame => true | ROther e => expr_eqb e (c_in c) | RErr => false end.

Definition holds (c : case) : bool :=
  same c (c_re c)
  && (match c_toks2 c with None => true | Some t2 => toks_eqb t2 (c_toks c) end)
  && (match c_ptoks c with None => true | Some pt => toks_eqb pt (c_toks c) && same c (c_pre c) end).

Definition mismatches (ft : ftab) (cs : list case) : list Z := map c_id (filter (fun c => negb (agree ft c)) cs).
Definition failing_holds (cs : list case) : list Z := map c_id (filter (fun c => negb (holds c)) cs).

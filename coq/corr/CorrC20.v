(* corr/CorrC20.v — correspondence (agree) and specification (holds) checkers for C20 cases.
   A case carries the input of one real tombstones.Intervals.Add call and what the
   implementation returned (or that it panicked). *)
From Coq Require Import List ZArith Bool.
From Verif Require Import lib.Int64 model.Intervals.
Import ListNotations.
Open Scope Z_scope.

Inductive obs := ObsOk (r : list interval) | ObsPanic.

Record case := mkCase { c_id : Z; c_in : list interval; c_new : interval; c_obs : obs }.

Definition agree (c : case) : bool :=
  match add (c_in c) (c_new c), c_obs c with
  | Ok r, ObsOk r' => ivs_eqb r r'
  | Panic, ObsPanic => true
  | _, _ => false
  end.

(* critical points: every endpoint, and its neighbours, of every interval involved *)
Definition points (l : list interval) : list Z :=
  flat_map (fun i => [imin i - 1; imin i; imin i + 1; imax i - 1; imax i; imax i + 1]) l.

(* the property on the implementation's own output: for a canonical input and a well-formed
   new interval the call returns (no panic), the result is canonical and covers exactly
   input ∪ new — checked on all critical points *)
Definition holds (c : case) : bool :=
  if canonicalb (c_in c) && wf_ivb (c_new c) then
    match c_obs c with
    | ObsPanic => false
    | ObsOk r =>
        canonicalb r &&
        forallb (fun t => Bool.eqb (coveredb r t) (coveredb (c_in c) t || coveredb [c_new c] t))
                (points (c_new c :: c_in c ++ r))
    end
  else true.

Definition mismatches (cs : list case) : list Z := map c_id (filter (fun c => negb (agree c)) cs).
Definition failing_holds (cs : list case) : list Z := map c_id (filter (fun c => negb (holds c)) cs).

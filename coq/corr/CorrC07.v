(* corr/CorrC07.v — correspondence (agree) and specification (holds) checkers for C07 cases.
   One case = one real compaction: the input blocks as read back from disk (index order, decoded
   chunks, tombstone intervals per series), the output range, and what the written block holds
   (index order, decoded chunks, BlockMeta.Stats), or that an error was returned.
     mode 0: LeveledCompactor.Compact(dest, dirs, nil)      (range = CompactBlockMetas hull)
     mode 1: LeveledCompactor.Write / write with an explicit range (trimming)
     mode 2: LeveledCompactor.Write over a RangeHead of a real Head (the input "block" is the
             appended samples, one chunk per run of equal value type, with the head's tombstones;
             the head's own chunk layout is not modelled, so chunk boundaries are not compared)
   agree: refinement against model/CompactMerge.v run with the all-zero choice stream (labels,
   timestamps, chunk boundaries, stats exact; a value only has to be a surviving input sample
   of that series at that timestamp — the heap's tie-breaking is left open, see CorrC19).
   holds: the statement of C07 evaluated on the observed output against the list-level
   specification (survivors / dedup_ts / live_labels / count_stats), never calling the model.
   Numbers arrive as primitive ints (zig-zag: 2*|x| + sign) because Z literals parse slowly. *)
From Coq Require Import List ZArith Bool Uint63.
From Verif Require Import lib.Int64 model.Intervals model.Merge model.CompactMerge.
Import ListNotations.
Open Scope Z_scope.

(* ---------------------------------------------------------------- literals *)
Definition unz (i : int) : Z :=
  let z := Uint63.to_Z i in if Z.odd z then - (z / 2) else z / 2.
Definition sF (t v : int) : sample := mkS (unz t) 1 (unz v).
Definition sH (t v : int) : sample := mkS (unz t) 2 (unz v).
Definition sG (t v : int) : sample := mkS (unz t) 3 (unz v).
Definition rC (mn mx : int) (l : list sample) : chunk := mkC (unz mn) (unz mx) l.
Definition rI (a b : int) : interval := mkI (unz a) (unz b).
Definition rS (l : int) (cs : list chunk) (tb : list interval) : bseries := mkBS (unz l) cs tb.
Definition rB (mn mx : int) (ss : list bseries) : block := mkB (unz mn) (unz mx) ss.
Definition rO (l : int) (cs : list chunk) : cseries := (unz l, cs).
Definition rSt (a b c d e : int) : stats := mkSt (unz a) (unz b) (unz c) (unz d) (unz e).

Record case := mkCase {
  c_id : Z;
  c_mode : Z;                 (* 0 Compact (hull range), 1 explicit range, 2 head range *)
  c_compacting : bool;        (* compacting (default) or concatenating chunk series merger *)
  c_blocks : list block;
  c_mint : Z; c_maxt : Z;     (* meta.MinTime / meta.MaxTime of the output (half-open) *)
  c_err : bool;               (* the compaction returned an error *)
  c_out : list cseries;       (* output block, index order; [] when no block was written *)
  c_stats : stats;            (* BlockMeta.Stats of the output (zeros when no block) *)
  c_query_eq : bool;          (* block querier result == decoded chunks, per series (Go side) *)
  c_cuts : bool               (* "rich" histograms present (counter resets, layout / schema changes,
                                 stale markers): the histogram appenders cut and recode chunks on
                                 their own, which the model does not predict *)
}.
Definition rCase (id mode : int) (cp : bool) (bs : list block) (mint maxt : int) (err : bool)
           (out : list cseries) (st : stats) (q cuts : bool) : case :=
  mkCase (unz id) (unz mode) cp bs (unz mint) (unz maxt) err out st q cuts.

(* ---------------------------------------------------------------- helpers *)
Definition mem_sample (s : sample) (l : list sample) : bool := existsb (sample_eqb s) l.
Fixpoint all2 {A B} (f : A -> B -> bool) (a : list A) (b : list B) : bool :=
  match a, b with
  | [], [] => true
  | x :: a', y :: b' => f x y && all2 f a' b'
  | _, _ => false
  end.
Definition lenZ {A} (l : list A) : Z := Z.of_nat (length l).

(* the closed range the block set is built with *)
Definition cmax (c : case) : Z := c_maxt c - 1.

(* no two surviving samples of label l share a timestamp with different value types: then
   the cut points of re-encoded chunks do not depend on the heap's tie-breaking *)
Definition kinds_unambiguous (l : list sample) : bool :=
  forallb (fun a => forallb (fun b => negb (s_t a =? s_t b) || (s_k a =? s_k b)) l) l.

Definition shape_eqb (ms os : list chunk) : bool :=
  list_eqb Z.eqb (map c_min ms) (map c_min os) && list_eqb Z.eqb (map c_max ms) (map c_max os)
  && list_eqb Z.eqb (map nsamples ms) (map nsamples os).

(* ---------------------------------------------------------------- agree *)
Definition agree_compacting (c : case) (mint maxt : Z) : bool :=
  match fst (populate_block [] true (c_blocks c) mint maxt) with
  | None => c_err c
  | Some (out, st) =>
      negb (c_err c) &&
      let lenient := (c_mode c =? 2) || c_cuts c in
      let surv := survivors (c_mint c) (cmax c) (c_blocks c) in
      let unamb := forallb (fun o => kinds_unambiguous (surv (fst o))) out in
      all2 (fun m o =>
              (fst m =? fst o) &&
              list_eqb Z.eqb (map s_t (all_smps (snd m))) (map s_t (all_smps (snd o))) &&
              forallb (fun s => mem_sample s (surv (fst o))) (all_smps (snd o)) &&
              (if kinds_unambiguous (surv (fst o)) && negb lenient then shape_eqb (snd m) (snd o) else true))
           out (c_out c) &&
      (if lenient then
         (* head range / appender-induced cuts: the chunk layout is not modelled; everything but
            NumChunks (and the by-type counts only when no tie decides a sample's type) *)
         (st_series st =? st_series (c_stats c)) && (st_samples st =? st_samples (c_stats c)) &&
         (if unamb then (st_hist st =? st_hist (c_stats c)) && (st_float st =? st_float (c_stats c)) else true)
       else if unamb then stats_eqb st (c_stats c)
       else (st_series st =? st_series (c_stats c)) && (st_samples st =? st_samples (c_stats c)))
  end.

(* Concatenating merger: the order in which the series of one label set are concatenated is the
   pop order of equal keys from the heap of sets, which the model leaves open. So only
   order-independent facts are compared: per label the same chunks (as a bag), the same stats;
   and an error (index.Writer rejecting out-of-order chunks) is only possible when the merger
   really concatenated two or more series of one label set. *)
Definition concat_groups (c : case) (mint maxt : Z) : option (list cseries * bool) :=
  match block_sets mint (wrap64 (maxt - 1)) (c_blocks c) with
  | None => None
  | Some sets =>
      match fst (merge_sets [] 0 (tag_sets 0 sets)) with
      | None => None
      | Some groups =>
          fold_right (fun g acc =>
                        match g, resolve_all sets g, acc with
                        | x :: _, Some css, Some (a, multi) =>
                            let multi' := multi || (2 <=? lenZ (filter (fun l => negb (lenZ l =? 0)) css)) in
                            match concat css with
                            | [] => Some (a, multi')
                            | cs => Some ((ser_l x, cs) :: a, multi')
                            end
                        | _, _, _ => None
                        end) (Some ([], false)) groups
      end
  end.

Definition bag_eqb (a b : list chunk) : bool :=
  (lenZ a =? lenZ b) && forallb (fun x => existsb (chunk_eqb x) b) a && forallb (fun x => existsb (chunk_eqb x) a) b.

Definition agree_concat (c : case) (mint maxt : Z) : bool :=
  match c_blocks c with [] => c_err c | _ =>
  match concat_groups c mint maxt with
  | None => c_err c
  | Some (out, multi) =>
      if c_err c then multi
      else all2 (fun m o => (fst m =? fst o) && bag_eqb (snd m) (snd o)) out (c_out c) &&
           stats_eqb (count_stats out) (c_stats c)
  end end.

Definition agree (c : case) : bool :=
  let (mint, maxt) := if c_mode c =? 0 then compact_range (c_blocks c) else (c_mint c, c_maxt c) in
  (mint =? c_mint c) && (maxt =? c_maxt c) &&
  (if c_compacting c then agree_compacting c mint maxt else agree_concat c mint maxt).

(* ---------------------------------------------------------------- holds *)
(* a well-formed chunk: non-empty, strictly time-sorted samples of one value type, and
   MinTime/MaxTime are the first/last timestamp *)
Definition chunk_wf (c : chunk) : bool :=
  match c_smp c with
  | [] => false
  | s :: _ => (c_min c =? s_t s) && (c_max c =? s_t (last (c_smp c) s)) &&
              ssortedb (map s_t (c_smp c)) && forallb (fun x => s_k x =? s_k s) (c_smp c)
  end.
Fixpoint chunks_disjoint (cs : list chunk) : bool :=      (* time ordered and non-overlapping *)
  match cs with
  | a :: ((b :: _) as r) => (c_max a <? c_min b) && chunks_disjoint r
  | _ => true
  end.

(* the inputs are well-formed blocks: series strictly label-sorted, chunks well-formed and
   disjoint, tombstones canonical *)
Definition block_wf (b : block) : bool :=
  ssortedb (map bs_l (b_series b)) &&
  forallb (fun s => forallb chunk_wf (bs_chunks s) && chunks_disjoint (bs_chunks s)
                    && canonicalb (bs_tombs s)) (b_series b).

(* per series of the same label, the blocks' data do not interleave in time and come in block
   order: the precondition under which the concatenating merger is applicable *)
Definition concat_applicable (c : case) : bool :=
  forallb (fun l =>
     let per_block := map (fun b => flat_map (fun s => if bs_l s =? l
                              then filter (alive (c_mint c) (cmax c) s) (all_smps (bs_chunks s)) else [])
                              (b_series b)) (c_blocks c) in
     ssortedb (map s_t (concat per_block)))
   (all_labels (c_blocks c)).

Definition count_kind (p : Z -> bool) (out : list cseries) : Z :=
  lenZ (filter (fun s => p (s_k s)) (flat_map (fun o => all_smps (snd o)) out)).

Definition holds (c : case) : bool :=
  if forallb block_wf (c_blocks c) && negb (match c_blocks c with [] => true | _ => false end)
     && (c_compacting c || concat_applicable c) then
    let surv := survivors (c_mint c) (cmax c) (c_blocks c) in
    if c_err c then negb (c_compacting c) else
    (* no series lost or invented: exactly the label sets with a surviving sample, sorted *)
    list_eqb Z.eqb (map fst (c_out c)) (live_labels (c_mint c) (cmax c) (c_blocks c)) &&
    forallb (fun o =>
       let cs := snd o in
       (* chunks well-formed, time-ordered, non-overlapping *)
       forallb chunk_wf cs && chunks_disjoint cs &&
       (* samples = de-duplicated union of the inputs within the range minus deleted intervals *)
       list_eqb Z.eqb (map s_t (all_smps cs)) (dedup_ts (surv (fst o))) &&
       (* each value is the value of an input sample that survives *)
       forallb (fun s => mem_sample s (surv (fst o))) (all_smps cs))
     (c_out c) &&
    (* queryable samples are the chunk contents *)
    c_query_eq c &&
    (* statistics match the contents (by chunk encoding and, chunks being uniform, by sample type) *)
    stats_eqb (c_stats c) (count_stats (c_out c)) &&
    (st_hist (c_stats c) =? count_kind (fun k => (k =? 2) || (k =? 3)) (c_out c)) &&
    (st_float (c_stats c) =? count_kind (fun k => k =? 1) (c_out c))
  else true.

Definition mismatches (cs : list case) : list Z := map c_id (filter (fun c => negb (agree c)) cs).
Definition failing_holds (cs : list case) : list Z := map c_id (filter (fun c => negb (holds c)) cs).

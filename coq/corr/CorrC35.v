(* corr/CorrC35.v — correspondence (agree) and specification (holds) checkers for C35 cases.

   A case is one set of generated metric families encoded by the real expfmt encoder of one
   format and parsed by the real textparse parser under one option combination (c_valid), or a
   mutated text/OpenMetrics payload (not c_valid):
     c_fams     the generated families (valid cases),
     c_payload  the bytes handed to the parser (text / OpenMetrics; empty for protobuf),
     c_ftab/c_itab/c_ttab  the strconv / float-conversion oracles tabulated by the harness with
                the real functions for every number of the families and every candidate token
                of the payload,
     c_obs/c_ok the entry stream the real parser produced and whether it ended with io.EOF.
   agree: (valid, text/OM) the model printer yields exactly the payload; (text/OM, valid or not)
          the model lexer+parser run on the payload yields the observed stream (start timestamps
          are not modelled and projected away); (protobuf) the message-level model yields it.
   holds: (valid) the observed stream is exactly the SPEC stream of the families — the encoded
          samples, labels, timestamps, exemplars, metadata, start timestamps — and ends with EOF. *)
From Coq Require Import List NArith ZArith Bool Uint63.
From Verif Require Import model.Expo.
Import ListNotations.

(* ---------------------------------------------------------------- transport encoding *)
Definition i2z (i : int) : Z := Uint63.to_Z i.
Definition i2n (i : int) : N := Z.to_N (Uint63.to_Z i).
Fixpoint be_bytes (k : nat) (w : N) : bstr :=
  match k with
  | O => []
  | S k' => N.land (N.shiftr w (8 * N.of_nat k')) 255 :: be_bytes k' w
  end.
Fixpoint unpack (n : nat) (l : list int) : bstr :=
  match l with
  | [] => []
  | w :: r => be_bytes (Nat.min n 7) (i2n w) ++ unpack (n - 7) r
  end.
Definition B (n : int) (l : list int) : bstr := unpack (Z.to_nat (i2z n)) l.
Definition E : bstr := [].
Definition W (i : int) : Z := i2z i.
Definition U (hi lo : int) : Z := (i2z hi * 4294967296 + i2z lo)%Z.
Definition S (hi lo : int) : Z :=
  let u := U hi lo in if (u >=? 9223372036854775808)%Z then (u - 18446744073709551616)%Z else u.
Definition ib (i : int) : bool := negb (Uint63.eqb i 0%uint63).

Definition mt_of (i : int) : mtype :=
  match i2n i with
  | 0%N => MCounter | 1%N => MGauge | 2%N => MSummary | 3%N => MUntyped | 4%N => MHist | _ => MGHist
  end.
Definition fam (name : bstr) (help unit : option bstr) (t : int) (ms : list metric) : family :=
  mkFam name help unit (mt_of t) ms.
Definition opt (a b c d e : int) : opts := mkOpts (ib a) (ib b) (ib c) (ib d) (ib e).
Definition OTi (name : bstr) (t : int) : entry := OT name (i2n t).

Record ftrow := FT { ft_bits : Z; ft_text : bstr; ft_om : bstr }.
Record itrow := IT { it_z : Z; it_dec : bstr; it_u2f : Z; it_ts2f : Z; it_cr2f : Z }.
Record tkrow := TK { tk_tok : bstr; tk_pf : option Z; tk_nf : bstr; tk_ts : option Z; tk_pi : option Z }.

Record case := mkCase {
  c_id : Z; c_fmt : N; c_opts : opts; c_valid : bool; c_fams : list family; c_payload : bstr;
  c_ftab : list ftrow; c_itab : list itrow; c_ttab : list tkrow;
  c_obs : list entry; c_ok : bool }.
Definition mk (id fmt : int) (o : opts) (valid : int) (fams : list family) (payload : bstr)
           (ft : list ftrow) (it : list itrow) (tt : list tkrow) (obs : list entry) (ok : int) : case :=
  mkCase (i2z id) (i2n fmt) o (ib valid) fams payload ft it tt obs (ib ok).

(* ---------------------------------------------------------------- oracles from the tables *)
Definition q : bstr := [63%N].   (* rendering of a number missing from the table: shows up as a mismatch *)
Definition frow (c : case) (z : Z) : option ftrow := find (fun r => (ft_bits r =? z)%Z) (c_ftab c).
Definition irow (c : case) (z : Z) : option itrow := find (fun r => (it_z r =? z)%Z) (c_itab c).
Definition trow (c : case) (s : bstr) : option tkrow := find (fun r => bstr_eqb (tk_tok r) s) (c_ttab c).

Definition oracles_of (c : case) : oracles :=
  mkOr (fun z => match frow c z with Some r => ft_text r | None => q end)
       (fun z => match frow c z with Some r => ft_om r | None => q end)
       (fun z => match irow c z with Some r => it_dec r | None => q end)
       (fun z => match irow c z with Some r => it_u2f r | None => (-1)%Z end)
       (fun z => match irow c z with Some r => it_ts2f r | None => (-1)%Z end)
       (fun z => match irow c z with Some r => it_cr2f r | None => (-1)%Z end)
       (fun s => match trow c s with Some r => tk_pf r | None => None end)
       (fun s => match trow c s with Some r => match tk_pf r with Some _ => Some (tk_nf r) | None => None end | None => None end)
       (fun s => match trow c s with Some r => tk_ts r | None => None end)
       (fun s => match trow c s with Some r => tk_pi r | None => None end).

(* ---------------------------------------------------------------- equality of entry streams *)
Definition lp_eqb (a b : lp) : bool := bstr_eqb (fst a) (fst b) && bstr_eqb (snd a) (snd b).
Fixpoint list_eqb {A} (eq : A -> A -> bool) (a b : list A) : bool :=
  match a, b with
  | [], [] => true
  | x :: a', y :: b' => eq x y && list_eqb eq a' b'
  | _, _ => false
  end.
Definition optz_eqb (a b : option Z) : bool :=
  match a, b with Some x, Some y => (x =? y)%Z | None, None => true | _, _ => false end.
Definition ex_eqb (a b : exm) : bool :=
  list_eqb lp_eqb (ex_labels a) (ex_labels b) && (ex_val a =? ex_val b)%Z && optz_eqb (ex_ts a) (ex_ts b).
Definition zz_eqb (a b : Z * Z) : bool := ((fst a =? fst b) && (snd a =? snd b))%Z.
Definition oh_eqb (a b : ohist) : bool :=
  ((oh_schema a =? oh_schema b) && (oh_zth a =? oh_zth b) && (oh_zcnt a =? oh_zcnt b) &&
   (oh_count a =? oh_count b) && (oh_sum a =? oh_sum b) && (oh_hint a =? oh_hint b))%Z &&
  list_eqb zz_eqb (oh_ps a) (oh_ps b) && list_eqb Z.eqb (oh_pd a) (oh_pd b) &&
  list_eqb zz_eqb (oh_ns a) (oh_ns b) && list_eqb Z.eqb (oh_nd a) (oh_nd b).
Definition entry_eqb (a b : entry) : bool :=
  match a, b with
  | OH n h, OH n' h' => bstr_eqb n n' && bstr_eqb h h'
  | OT n t, OT n' t' => bstr_eqb n n' && (t =? t')%N
  | OU n u, OU n' u' => bstr_eqb n n' && bstr_eqb u u'
  | OC, OC => true
  | OS l v ts ex st, OS l' v' ts' ex' st' =>
      list_eqb lp_eqb l l' && (v =? v')%Z && optz_eqb ts ts' && list_eqb ex_eqb ex ex' && (st =? st')%Z
  | OX l h ts ex st, OX l' h' ts' ex' st' =>
      list_eqb lp_eqb l l' && oh_eqb h h' && optz_eqb ts ts' && list_eqb ex_eqb ex ex' && (st =? st')%Z
  | _, _ => false
  end.

(* projection used by agree: no start timestamp; labels in a canonical order also among equal
   names (the implementation's sort is not stable) *)
Fixpoint insert_lp2 (x : lp) (l : list lp) : list lp :=
  match l with
  | [] => [x]
  | y :: r => if bstr_ltb (fst x) (fst y) || (bstr_eqb (fst x) (fst y) && bstr_ltb (snd x) (snd y))
              then x :: l else y :: insert_lp2 x r
  end.
Definition canon_lps (l : list lp) : list lp := fold_right insert_lp2 [] l.
Definition canon_ex (e : exm) : exm := mkEx (canon_lps (ex_labels e)) (ex_val e) (ex_ts e).
Definition proj (e : entry) : entry :=
  match e with
  | OS l v ts ex _ => OS (canon_lps l) v ts (map canon_ex ex) 0%Z
  | OX l h ts ex _ => OX (canon_lps l) h ts (map canon_ex ex) 0%Z
  | _ => e
  end.

Definition stream_eqb (a : list entry * bool) (b : list entry * bool) : bool :=
  list_eqb entry_eqb (fst a) (fst b) && Bool.eqb (snd a) (snd b).

(* ---------------------------------------------------------------- agree / holds *)
Definition model_stream (c : case) : list entry * bool :=
  let O := oracles_of c in
  match c_fmt c with
  | 0%N => parse_text O (o_typeunit (c_opts c)) (c_payload c)
  | 1%N => parse_om O (c_opts c) (c_payload c)
  | _ => (model_proto O (c_opts c) (c_fams c), true)
  end.

Definition model_print (c : case) : bstr :=
  let O := oracles_of c in
  match c_fmt c with
  | 0%N => print_text O (c_fams c)
  | 1%N => print_om O (c_opts c) (c_fams c)
  | _ => []
  end.

Definition agree (c : case) : bool :=
  (negb (c_valid c) || bstr_eqb (model_print c) (c_payload c)) &&
  (let ms := model_stream c in stream_eqb (map proj (fst ms), snd ms) (map proj (c_obs c), c_ok c)).

Definition spec_stream (c : case) : list entry :=
  let O := oracles_of c in
  match c_fmt c with
  | 0%N => entries_text O (o_typeunit (c_opts c)) (c_fams c)
  | 1%N => entries_om O (c_opts c) (c_fams c)
  | _ => entries_proto O (c_opts c) (c_fams c)
  end.

Definition holds (c : case) : bool :=
  if c_valid c then c_ok c && list_eqb entry_eqb (c_obs c) (spec_stream c) else true.

Definition mismatches (cs : list case) : list Z := map c_id (filter (fun c => negb (agree c)) cs).
Definition failing_holds (cs : list case) : list Z := map c_id (filter (fun c => negb (holds c)) cs).

(* corr/CorrC36.v — correspondence (agree) and specification (holds) checkers for C36 cases.

   One case = one payload parsed twice by the real code:
     c_base / c_eof   the entry stream of the parser WITHOUT conversion (text/plain, OpenMetrics,
                      or a scripted in-memory Parser), every entry with labels, timestamp, value,
                      exemplars and start timestamp as the Parser interface reports them;
     c_out / c_oeof   the entry stream of the same payload through NHCBParser
                      (textparse.New with ConvertClassicHistogramsToNHCB, or NewNHCBParser around
                      the scripted parser), converted histograms expanded to absolute bucket counts.
   agree: model/Nhcb.v's [run] on c_base reproduces c_out exactly.
   holds: the property read off c_base and c_out alone (no use of the state machine). *)
From Coq Require Import List ZArith Bool String Uint63.
From Verif Require Import model.Nhcb.
Import ListNotations.
Open Scope Z_scope.

(* ---- wire format: numbers are primitive integer literals (cheap to parse) ---------------- *)
Definition zp (i : int) : Z := Uint63.to_Z i.
Definition zn (i : int) : Z := - Uint63.to_Z i.
Definition F (z : Z) : num := Fin z.
Definition ts (z : Z) : option Z := Some z.
Definition nots : option Z := None.
Definition ex (i : Z) (t : option Z) : exem := (i, t).

Record case := mkCase {
  c_id : Z;
  c_keep : bool;                       (* KeepClassicOnClassicAndNativeHistograms *)
  c_pst : bool;                        (* parseST (OpenMetricsSkipSTSeries) *)
  c_partial : bool;                    (* wrapped parser is OpenMetricsParser (Exemplar() leaves
                                          HasTs/Ts untouched for an exemplar without timestamp) *)
  c_proto : bool;                      (* protobuf payload: ProtobufParser's own conversion, no NHCBParser *)
  c_letab : list (string * num);       (* strconv.ParseFloat of every le value that parses *)
  c_base : list bentry; c_eof : bool;
  c_out : list oentry; c_oeof : bool
}.

Definition parse_of (tab : list (string * num)) (s : string) : option num :=
  match find (fun kv => String.eqb (fst kv) s) tab with Some kv => Some (snd kv) | None => None end.

(* ---- equality of observations -------------------------------------------------------------- *)
Fixpoint list_eqb {A} (eqb : A -> A -> bool) (l1 l2 : list A) : bool :=
  match l1, l2 with
  | [], [] => true
  | x :: r1, y :: r2 => eqb x y && list_eqb eqb r1 r2
  | _, _ => false
  end.
Definition opt_eqb {A} (eqb : A -> A -> bool) (a b : option A) : bool :=
  match a, b with None, None => true | Some x, Some y => eqb x y | _, _ => false end.

Definition exem_eqb (a b : exem) : bool := (fst a =? fst b) && opt_eqb Z.eqb (snd a) (snd b).
Definition sample_eqb (a b : sample) : bool :=
  labels_eqb (s_lset a) (s_lset b) && opt_eqb Z.eqb (s_ts a) (s_ts b) &&
  (s_st a =? s_st b) && list_eqb exem_eqb (s_ex a) (s_ex b).
Definition nhcb_eqb (a b : nhcb) : bool :=
  Bool.eqb (nh_float a) (nh_float b) && (nh_count a =? nh_count b) && num_eqb (nh_sum a) (nh_sum b) &&
  list_eqb num_eqb (nh_bounds a) (nh_bounds b) && list_eqb Z.eqb (nh_cnts a) (nh_cnts b).
Definition oentry_eqb (a b : oentry) : bool :=
  match a, b with
  | OSeries s v, OSeries s' v' => sample_eqb s s' && num_eqb v v'
  | OHist s h, OHist s' h' => sample_eqb s s' && (h =? h')
  | ONhcb s n, ONhcb s' n' => sample_eqb s s' && nhcb_eqb n n'
  | OType n t, OType n' t' => String.eqb n n' && (t =? t')
  | OOther k a1 b1, OOther k' a2 b2 => (k =? k') && String.eqb a1 a2 && String.eqb b1 b2
  | _, _ => false
  end.

(* Which of the repairs of notes/C36_fix.md the code under test contains (see model/Nhcb.v, [cfg]).
   Both are committed in /repo (e91d1efff6, 1485e993ee). *)
Definition code_ts_fixed : bool := true.
Definition code_keepex_fixed : bool := true.
Definition code_exzero_fixed : bool := true.      (* notes/C36_fix3.diff *)
Definition code_exreset_fixed : bool := true.     (* notes/C36_fix4.diff *)
Definition code_validate_fixed : bool := true.    (* notes/C36_fix5.diff *)

(* ---- agree ----------------------------------------------------------------------------------- *)
Definition agree_proto (c : case) : bool :=
  let '(out, ok) := proto_run (parse_of (c_letab c)) (c_keep c) (c_base c) in
  c_eof c && Bool.eqb ok (c_oeof c) && list_eqb oentry_eqb out (c_out c).

Definition agree (c : case) : bool :=
  if c_proto c then agree_proto c else
  let '(out, oom) := run (parse_of (c_letab c)) (mkCfg (c_keep c) (c_pst c) (c_partial c) code_ts_fixed code_keepex_fixed
              code_exzero_fixed code_exreset_fixed code_validate_fixed) (c_base c) (c_eof c) in
  negb oom && Bool.eqb (c_eof c) (c_oeof c) && list_eqb oentry_eqb out (c_out c).

(* ---- holds: the property on the two observed streams --------------------------------------- *)

(* A classic histogram series, in the sense of the property: a float series under a
   `TYPE <n> histogram` line named n_bucket (with a parseable, non-NaN le), n_count or n_sum. *)
Inductive role := RBucket (le : num) | RCount | RSum.
Definition role_of (gh : bool) (tab : list (string * num)) (typ : Z) (bname : string) (l : labels) : option (string * role) :=
  (* [gh]: protobuf payload, where GAUGE_HISTOGRAM families are converted as well *)
  if negb ((typ =? T_HISTOGRAM) || (gh && (typ =? T_GAUGE_HISTOGRAM))) then None
  else let '(suf, name) := base_name (lget l NAME) in
       if negb (String.eqb name bname) then None
       else match suf with
            | SufBucket => if lhas l LE then
                             match parse_of tab (lget l LE) with
                             | Some le => if num_eqb le NaN then None else Some (name, RBucket le)
                             | None => None
                             end
                           else None
            | SufCount => Some (name, RCount)
            | SufSum => Some (name, RSum)
            | SufNone => None
            end.

(* one classic series tagged with its histogram: (index of the TYPE line, label set minus le
   and name) identifies the histogram *)
Record member := mkM { m_fam : Z; m_key : labels; m_name : string; m_role : role; m_s : sample; m_v : num }.

(* annotate the base stream: for every entry, Some member if it is a classic histogram series *)
Fixpoint annotate (gh : bool) (tab : list (string * num)) (fam typ : Z) (bname : string) (es : list bentry)
  : list (bentry * option member) :=
  match es with
  | [] => []
  | BType n t :: r => (BType n t, None) :: annotate gh tab (fam + 1) t n r
  | BSeries s v :: r =>
      (BSeries s v,
       match role_of gh tab typ bname (s_lset s) with
       | Some (name, ro) => Some (mkM fam (without (s_lset s) [LE]) name ro s v)
       | None => None
       end) :: annotate gh tab fam typ bname r
  | e :: r => (e, None) :: annotate gh tab fam typ bname r
  end.

Definition same_hist (a b : member) : bool := (m_fam a =? m_fam b) && labels_eqb (m_key a) (m_key b).

(* native histograms seen, with the family they are in *)
Fixpoint natives (fam : Z) (es : list bentry) : list (Z * string * labels) :=
  match es with
  | [] => []
  | BType _ _ :: r => natives (fam + 1) r
  | BHist s _ :: r => (fam, lget (s_lset s) NAME, without (s_lset s) []) :: natives fam r
  | _ :: r => natives fam r
  end.
Definition has_native (nats : list (Z * string * labels)) (m : member) : bool :=
  existsb (fun x => let '(f, n, l) := x in (f =? m_fam m) && String.eqb n (m_name m) && labels_eqb l (m_key m)) nats.

(* the distinct histograms in order of first appearance, each with its series in stream order *)
Fixpoint groups (ms : list member) (fuel : nat) : list (list member) :=
  match fuel, ms with
  | S k, m :: r => (m :: filter (same_hist m) r) :: groups (filter (fun x => negb (same_hist m x)) r) k
  | _, _ => []
  end.

Fixpoint insert_b (b : num * Z) (l : list (num * Z)) : list (num * Z) :=
  match l with
  | [] => [b]
  | x :: r => if num_feq (fst x) (fst b) then l            (* duplicate le: the first one counts *)
              else if num_lt (fst b) (fst x) then b :: l else x :: insert_b b r
  end.
Fixpoint sorted_cum (l : list (num * Z)) : bool :=
  match l with
  | (_, c) :: (((_, c') :: _) as r) => (c <=? c') && sorted_cum r
  | _ => true
  end.
Definition fin_of (v : num) : option Z := match v with Fin z => Some z | _ => None end.

Record expect := mkE {
  e_lset : labels; e_ts : option (option Z);      (* None: the series disagree on the timestamp *)
  e_st : Z; e_ex : list exem; e_h : nhcb }.

(* the custom-bucket histogram a classic histogram stands for; None if it is not a valid
   cumulative histogram (the parser then emits nothing for it, cf. TestNHCBParserErrorHandling) *)
Definition spec_convert (pst : bool) (g : list member) : option expect :=
  match g with
  | [] => None
  | m0 :: _ =>
      let bvals := flat_map (fun m => match m_role m, fin_of (m_v m) with
                                      | RBucket le, Some z => [(le, z)] | _, _ => [] end) g in
      let allfin := forallb (fun m => match m_role m, m_v m with
                                      | RSum, _ => true | _, Fin _ => true | _, _ => false end) g in
      let bs := fold_left (fun acc b => insert_b b acc) bvals [] in
      let counts := flat_map (fun m => match m_role m, fin_of (m_v m) with RCount, Some z => [z] | _, _ => [] end) g in
      let sums := flat_map (fun m => match m_role m with RSum => [m_v m] | _ => [] end) g in
      let top := last (map snd bs) 0 in
      let count := last counts top in
      let sum := last sums (Fin 0) in
      let hasinf := existsb (fun b => num_feq (fst b) PInf) bs in
      let full := if hasinf then bs else bs ++ [(PInf, count)] in
      let ok := allfin && forallb (fun b => 0 <=? snd b) bvals && forallb (fun z => 0 <=? z) counts &&
                sorted_cum full && (count =? last (map snd full) 0) in
      if ok then
        let tss := map (fun m => s_ts (m_s m)) g in
        let t0 := s_ts (m_s m0) in
        Some (mkE (metric_base (s_lset (m_s m0)) (m_name m0))
                  (if forallb (opt_eqb Z.eqb t0) tss then Some t0 else None)
                  (if pst then s_st (m_s m0) else 0)
                  (flat_map (fun m => s_ex (m_s m)) g)
                  (mkNH (negb (forallb (fun b => is_int8 (snd b)) full && is_int8 count)) count sum
                        (map fst (filter (fun b => negb (num_feq (fst b) PInf)) full))
                        (decumulate 0 full)))
      else None
  end.

Definition matches (e : expect) (o : oentry) : bool :=
  match o with
  | ONhcb s n =>
      labels_eqb (e_lset e) (s_lset s) && nhcb_eqb (e_h e) n && list_eqb exem_eqb (e_ex e) (s_ex s) &&
      (e_st e =? s_st s) && match e_ts e with Some t => opt_eqb Z.eqb t (s_ts s) | None => true end
  | _ => false
  end.

(* every expected histogram is matched by a distinct emitted one and none is left over *)
Fixpoint remove_first {A} (f : A -> bool) (l : list A) : option (list A) :=
  match l with
  | [] => None
  | x :: r => if f x then Some r else match remove_first f r with Some r' => Some (x :: r') | None => None end
  end.
Fixpoint match_all (es : list expect) (os : list oentry) : bool :=
  match es with
  | [] => match os with [] => true | _ => false end
  | e :: r => match remove_first (matches e) os with Some os' => match_all r os' | None => false end
  end.


Definition holds (c : case) : bool :=
  let ann := annotate (c_proto c) (c_letab c) 0 (-1) EmptyString (c_base c) in
  let ms := flat_map (fun x => match snd x with Some m => [m] | None => [] end) ann in
  let nats := natives 0 (c_base c) in
  (* one custom-bucket histogram per classic histogram without a native one, with its content *)
  let gs := filter (fun g => match g with m :: _ => negb (has_native nats m) | [] => false end)
                   (groups ms (List.length ms)) in
  let exp := flat_map (fun g => match spec_convert (c_pst c) g with Some e => [e] | None => [] end) gs in
  (* (a parse that ends in an error flushes nothing: only the pass-through part is judged) *)
  let h1 := if c_eof c then match_all exp (filter is_nhcb (c_out c)) else true in
  (* everything else passes through unchanged and in order; the classic series too with
     keep-classic, and exactly as without conversion *)
  let kept := flat_map (fun x => match snd x with
                                 | Some m => if c_keep c || has_native nats m then [to_o (fst x)] else []
                                 | None => [to_o (fst x)]
                                 end) ann in
  let h2 := list_eqb oentry_eqb kept (filter (fun o => negb (is_nhcb o)) (c_out c)) in
  (* the wrapper ends the way the wrapped parser does *)
  h1 && h2 && Bool.eqb (c_eof c) (c_oeof c).

Definition mismatches (cs : list case) : list Z := map c_id (filter (fun c => negb (agree c)) cs).
Definition failing_holds (cs : list case) : list Z := map c_id (filter (fun c => negb (holds c)) cs).

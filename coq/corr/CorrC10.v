(* corr/CorrC10.v — correspondence (agree) and specification (holds) checkers for C10 cases.
   One case = one chunk history run on the real tsdb/chunkenc code: segments of appends with
   the appender re-obtained in between (from the same object or from the chunk's bytes), the
   final chunk bytes, what iterating those bytes returned, and a Next/Seek script. *)
From Coq Require Import List ZArith Bool Uint63.
From Verif Require Import lib.Int64 lib.Bits model.Xor.
Import ListNotations.
Open Scope Z_scope.

Record case := mkCase {
  c_id : Z;
  c_enc : Z;                               (* 1 = XOR (EncXOR), 2 = XOR2 (EncXOR2) *)
  c_segs : list (reopen * list sample);    (* the history *)
  c_fail : Z;                              (* 0 = history completed; 1 = an Append panicked
                                              ("chunk capacity exceeded"); 2 = Appender() returned an error *)
  c_bytes : list Z;                        (* Chunk.Bytes() at the end *)
  c_dec : list sample;                     (* (AtST, At) of every Next() over those bytes *)
  c_derr : bool;                           (* Iterator.Err() != nil afterwards *)
  c_acts : list act;                       (* Next/Seek script run on a second iterator *)
  c_obs : list obs1                        (* per action: None = ValNone, Some (AtST, At) *)
}.

(* wire format: the harness writes every number as primitive 63-bit integer literals (Coq parses
   those natively; Z literals cost milliseconds each).  A 64-bit quantity is a (high, low)
   pair of 32-bit halves; timestamps are re-interpreted as int64. *)
Definition zz (h l : int) : Z := Uint63.to_Z h * 4294967296 + Uint63.to_Z l.
Definition wS (sh sl th tl vh vl : int) : sample := mkS (W64 (zz sh sl)) (W64 (zz th tl)) (zz vh vl).
Definition wSeek (h l : int) : act := ASeek (W64 (zz h l)).
Definition wCase (id enc : int) (segs : list (reopen * list sample)) (fail : int) (bytes : list int)
    (dec : list sample) (derr : bool) (acts : list act) (obs : list obs1) : case :=
  mkCase (Uint63.to_Z id) (Uint63.to_Z enc) segs (Uint63.to_Z fail) (map Uint63.to_Z bytes) dec derr acts obs.

Definition sample_eqb (a b : sample) : bool :=
  (s_st a =? s_st b) && (s_t a =? s_t b) && (s_v a =? s_v b).

Fixpoint list_eqb {A} (eqb : A -> A -> bool) (l1 l2 : list A) : bool :=
  match l1, l2 with
  | [], [] => true
  | x :: r1, y :: r2 => eqb x y && list_eqb eqb r1 r2
  | _, _ => false
  end.

Definition obs_eqb (a b : obs1) : bool :=
  match a, b with
  | None, None => true
  | Some x, Some y => sample_eqb x y
  | _, _ => false
  end.

(* ---- agree: the model reproduces the implementation, byte for byte ----------------------- *)

Definition agree_enc (c : case) : bool :=
  match (if c_enc c =? 1 then xor_encode (c_segs c) else xor2_encode (c_segs c)) with
  | EOk num hdr bs =>
      (c_fail c =? 0) && list_eqb Z.eqb (chunk_bytes num hdr bs) (c_bytes c)
  | EPanic => c_fail c =? 1
  | EAppErr => c_fail c =? 2
  end.

Definition agree_dec (c : case) : bool :=
  match (if c_enc c =? 1 then xor_decode (c_bytes c) else xor2_decode (c_bytes c)) with
  | DOk l e => list_eqb sample_eqb l (c_dec c) && Bool.eqb e (c_derr c)
  | DPanic => false
  end.

Definition agree_script (c : case) : bool :=
  match (if c_enc c =? 1 then xor_run_script (c_bytes c) (c_acts c)
         else xor2_run_script (c_bytes c) (c_acts c)) with
  | Some l => list_eqb obs_eqb l (c_obs c)
  | None => false
  end.

Definition agree (c : case) : bool :=
  if negb (c_fail c =? 0) then agree_enc c else agree_enc c && agree_dec c && agree_script c.

(* ---- holds: the property itself, on the implementation's observations -------------------- *)

(* what was appended; the classic XOR chunk has no start timestamps: AtST() = 0 *)
Definition appended (c : case) : list sample :=
  let all := flat_map snd (c_segs c) in
  if c_enc c =? 1 then map (fun s => mkS 0 (s_t s) (s_v s)) all else all.

(* the abstract cursor semantics of Next/Seek (seek_rest, spec_script) is defined in model/Xor.v *)

Definition holds (c : case) : bool :=
  let exp := appended c in
  if (65535 <? Z.of_nat (length exp)) then true      (* beyond the chunk's sample capacity *)
  else
    (c_fail c =? 0) && negb (c_derr c) &&
    list_eqb sample_eqb (c_dec c) exp &&
    list_eqb obs_eqb (c_obs c) (spec_script None exp (c_acts c)).

Definition mismatches (cs : list case) : list Z := map c_id (filter (fun c => negb (agree c)) cs).
Definition failing_holds (cs : list case) : list Z := map c_id (filter (fun c => negb (holds c)) cs).

(* corr/CorrC08.v — correspondence (agree) and specification (holds) checkers for C08 cases.
   One case = one block-meta set under one compactor configuration, with what the real code
   returned: LeveledCompactor.plan (via VerifPlan), CompactBlockMetas on a list of those
   blocks, and the number of plan/compact iterations until the plan was empty. *)
From Coq Require Import List ZArith Bool.
From Verif Require Import lib.Int64 model.Plan.
Import ListNotations.
Open Scope Z_scope.

Inductive obs_plan := ObsPlan (dirs : list Z) | ObsPlanPanic.

(* CompactBlockMetas(uid, bs...) observed: the merged meta and its Parents *)
Inductive obs_cbm :=
| CbmNone                                                   (* not called in this case *)
| CbmOk (uid : Z) (bs : list Z) (r : meta) (parents : list (Z * Z * Z))
| CbmPanic (bs : list Z).

(* the plan/compact loop driven by the harness on the real plan and CompactBlockMetas *)
Inductive obs_loop := LoopNone | LoopSteps (n : Z) | LoopPanic | LoopCap.

Record case := mkCase {
  c_id : Z; c_cfg : cfg; c_metas : list meta;
  c_plan : obs_plan; c_cbm : obs_cbm; c_next : Z; c_loop : obs_loop
}.

Definition loop_fuel : nat := 64.

Fixpoint list_eqb {A} (eqb : A -> A -> bool) (a b : list A) : bool :=
  match a, b with
  | [], [] => true
  | x :: a', y :: b' => eqb x y && list_eqb eqb a' b'
  | _, _ => false
  end.

Definition meta_eqb (a b : meta) : bool :=
  (m_id a =? m_id b) && (m_min a =? m_min b) && (m_max a =? m_max b)
  && Bool.eqb (m_failed a) (m_failed b) && (m_tomb a =? m_tomb b) && (m_series a =? m_series b)
  && Bool.eqb (m_stale a) (m_stale b) && Bool.eqb (m_sel a) (m_sel b) && Bool.eqb (m_ooo a) (m_ooo b)
  && (m_level a =? m_level b) && list_eqb Z.eqb (m_sources a) (m_sources b).

Definition triple_eqb (a b : Z * Z * Z) : bool :=
  let '(a1, a2, a3) := a in let '(b1, b2, b3) := b in (a1 =? b1) && (a2 =? b2) && (a3 =? b3).

(* the blocks with the given ids, in the order of the ids *)
Definition pick (ms : list meta) (is : list Z) : list meta := flat_map (lookup ms) is.

Definition agree_plan (c : case) : bool :=
  match plan (c_cfg c) (c_metas c), c_plan c with
  | Ok p, ObsPlan p' => list_eqb Z.eqb p p'
  | Panic, ObsPlanPanic => true
  | _, _ => false
  end.

Definition agree_cbm (c : case) : bool :=
  match c_cbm c with
  | CbmNone => true
  | CbmOk uid bs r ps =>
      match compact_block_metas uid (pick (c_metas c) bs) with
      | Ok r' => meta_eqb r r' && list_eqb triple_eqb ps (parents_of (pick (c_metas c) bs))
      | Panic => false
      end
  | CbmPanic bs =>
      match compact_block_metas 0 (pick (c_metas c) bs) with Panic => true | _ => false end
  end.

Definition agree_loop (c : case) : bool :=
  match c_loop c with
  | LoopNone => true
  | LoopSteps n =>
      match compact_loop loop_fuel (c_cfg c) (c_next c) (c_metas c) with
      | Ok (Some n') => n =? n' | _ => false end
  | LoopPanic =>
      match compact_loop loop_fuel (c_cfg c) (c_next c) (c_metas c) with Panic => true | _ => false end
  | LoopCap =>
      match compact_loop loop_fuel (c_cfg c) (c_next c) (c_metas c) with Ok None => true | _ => false end
  end.

Definition agree (c : case) : bool := agree_plan c && agree_cbm c && agree_loop c.

(* ---- the property, evaluated on the implementation's own output (no model function of
   planning is used: plan_shape / hints_ok / mu are the specification predicates) *)
Definition holds_plan (c : case) : bool :=
  if wf_input (c_cfg c) (c_metas c) then
    match c_plan c with
    | ObsPlanPanic => false
    | ObsPlan p =>
        (* every returned dir names exactly one input block *)
        forallb (fun i => Nat.eqb (length (lookup (c_metas c) i)) 1) p
        && plan_shape (c_cfg c) (c_metas c) (pick (c_metas c) p)
    end
  else true.

Definition holds_cbm (c : case) : bool :=
  match c_cbm c with
  | CbmNone => true
  | CbmPanic bs => match bs with [] => true | _ => false end
  | CbmOk uid bs r ps =>
      let inp := pick (c_metas c) bs in
      hints_ok inp r
      && match inp with
         | [] => false
         | _ => forallb (fun b => (m_min r <=? m_min b) && (m_max b <=? m_max r)) inp
                && existsb (fun b => m_min r =? m_min b) inp && existsb (fun b => m_max r =? m_max b) inp
                && list_eqb triple_eqb ps (map (fun b => (m_id b, m_min b, m_max b)) inp)
         end
  end.

Definition holds_loop (c : case) : bool :=
  if wf_input (c_cfg c) (c_metas c) then
    match c_loop c with
    | LoopNone => true
    | LoopSteps n => (0 <=? n) && (n <=? mu (c_metas c))
    | LoopPanic | LoopCap => false
    end
  else true.

Definition holds (c : case) : bool := holds_plan c && holds_cbm c && holds_loop c.

Definition mismatches (cs : list case) : list Z := map c_id (filter (fun c => negb (agree c)) cs).
Definition failing_holds (cs : list case) : list Z := map c_id (filter (fun c => negb (holds c)) cs).

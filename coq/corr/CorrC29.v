(* corr/CorrC29.v — correspondence (agree) and specification (holds) checkers for C29 cases.
   A case is two input instant vectors (label sets + float64 values as NaN / +-Inf / exact
   rational), one aggregation or binary-operator expression, the strconv.FormatFloat table
   for count_values, and what the real PromQL engine returned for the instant query: an
   error (mapped to a small enum) or the result vector in the engine's output order. *)
From Coq Require Import List ZArith NArith QArith Qabs Bool.
From Verif Require Import model.PromqlAgg.
Import ListNotations.
Open Scope Z_scope.

(* float64 overflow: the exact result rounds to +-Inf iff |q| >= 2^1024 - 2^970 *)
Definition ovf_bound : Z := Eval vm_compute in (2 ^ 1024 - 2 ^ 970).
Definition ovf64 (q : Q) : bool := Qle_bool (inject_Z ovf_bound) (Qabs q).

(* compact printing of finite values by the harness *)
Definition fq (n : Z) (d : positive) : fval := FFin (Qmake n d).

(* monomorphic list builders: the case files elaborate several times faster than with the
   polymorphic list / pair notations *)
Definition ln : labels := [].
Definition lc (n v : str) (r : labels) : labels := (n, v) :: r.
Definition vn : list sample := [].
Definition vc (l : labels) (v : fval) (r : list sample) : list sample := (l, v) :: r.
Definition sn : list str := [].
Definition sc (s : str) (r : list str) : list str := s :: r.
Definition tn : list (fval * str) := [].
Definition tc (v : fval) (s : str) (r : list (fval * str)) : list (fval * str) := (v, s) :: r.

Definition fsame (a b : fval) : bool :=
  match a, b with
  | FNaN, FNaN => true
  | FInf s, FInf t => Bool.eqb s t
  | FFin x, FFin y => Qeq_bool x y
  | _, _ => false
  end.

Definition fmt_of (tbl : list (fval * str)) (v : fval) : str :=
  match find (fun p => fsame (fst p) v) tbl with Some p => snd p | None => [] end.

Record case := mkCase {
  c_id : Z;
  c_lhs : list sample;
  c_rhs : list sample;
  c_expr : expr;
  c_fmt : list (fval * str);
  c_obs : result
}.

(* |o - m| <= tol * |m| (exact when m = 0); NaN ~ NaN, Inf ~ the same Inf *)
Definition close_tol (tol : Q) (o m : fval) : bool :=
  match o, m with
  | FNaN, FNaN => true
  | FInf s, FInf t => Bool.eqb s t
  | FFin a, FFin b => Qle_bool (Qabs (a - b)) (tol * Qabs b)
  | _, _ => false
  end.
Definition fclose := close_tol (1 # 1000000000).
(* for squared observations (stddev): twice the relative error *)
Definition fclose2 := close_tol (3 # 1000000000).

Definition fsq (v : fval) : fval := fmul ovf64 v v.
Definition nonneg (v : fval) : bool :=
  match v with FNaN => true | FInf s => negb s | FFin q => Qle_bool 0 q end.

Definition model (c : case) : result := eval ovf64 (fmt_of (c_fmt c)) (c_expr c) (c_lhs c) (c_rhs c).

(* pointwise comparison of two vectors in order *)
Fixpoint seq_match (vm : fval -> fval -> bool) (o m : list sample) : bool :=
  match o, m with
  | [], [] => true
  | (lo, vo) :: o', (lm, vm') :: m' => labels_eqb lo lm && vm vo vm' && seq_match vm o' m'
  | _, _ => false
  end.
(* comparison as sets (both without duplicate label sets) *)
Definition set_match (vm : fval -> fval -> bool) (o m : list sample) : bool :=
  (length o =? length m)%nat &&
  forallb (fun x : sample => existsb (fun y : sample => labels_eqb (fst x) (fst y) && vm (snd x) (snd y)) m) o &&
  forallb (fun y : sample => existsb (fun x : sample => labels_eqb (fst x) (fst y) && vm (snd x) (snd y)) o) m &&
  negb (has_dup_labels (map fst o)).

Definition in_vec (s : sample) (v : list sample) : bool :=
  existsb (fun t : sample => labels_eqb (fst s) (fst t) && fsame (snd s) (snd t)) v.

(* topk / bottomk: the value sequence and the group of every position are determined; which
   of several equal-valued series is chosen is not (refinement) *)
Fixpoint k_match (key : labels -> labels) (o m : list sample) : bool :=
  match o, m with
  | [], [] => true
  | (lo, vo) :: o', (lm, vm) :: m' => labels_eqb (key lo) (key lm) && fsame vo vm && k_match key o' m'
  | _, _ => false
  end.

Definition agree (c : case) : bool :=
  match c_obs c, model c with
  | RErr a, RErr b => err_eqb a b
  | RVec o, RVec m =>
      match c_expr c with
      | EAgg AStddev _ _ _ _ =>
          seq_match (fun vo vm => nonneg vo && fclose2 (fsq vo) vm) o m
      | EAgg ATopk wo g _ _ | EAgg ABottomk wo g _ _ =>
          k_match (group_key wo g) o m && forallb (fun s => in_vec s (c_lhs c)) o &&
          negb (has_dup_labels (map fst o))
      | EAgg ALimitk _ _ _ _ | EAgg ACountValues _ _ _ _ => set_match fclose o m
      | _ => seq_match fclose o m
      end
  | _, _ => false
  end.

(* ================================================================== holds: the documented
   semantics evaluated on the implementation's own output (the model's result is not used) *)

(* the i-th smallest (0-based) under vectorByValueHeap order, found by counting, not sorting *)
Definition lt_nanfirst (a b : fval) : bool := (is_nan a && negb (is_nan b)) || flt a b.
Definition le_nanfirst (a b : fval) : bool := is_nan a || fle a b.
Definition kth (l : list fval) (i : Z) : fval :=
  match find (fun x => (Z.of_nat (length (filter (fun y => lt_nanfirst y x) l)) <=? i) &&
                       (i <? Z.of_nat (length (filter (fun y => le_nanfirst y x) l)))) l with
  | Some x => x | None => FNaN end.

(* documented quantile: phi < 0 -> -Inf, phi > 1 -> +Inf, NaN -> NaN, else linear
   interpolation between the two neighbours of rank phi*(n-1) *)
Definition spec_quantile (q : fval) (l : list fval) : fval :=
  match q with
  | FNaN => FNaN
  | FInf s => FInf s
  | FFin qq =>
      if Qltb qq 0 then FInf true else if Qltb 1 qq then FInf false
      else let n := Z.of_nat (length l) in
           let rank := (qq * inject_Z (n - 1))%Q in
           let lo := qfloor rank in
           let hi := Z.min (n - 1) (lo + 1) in
           let w := (rank - inject_Z lo)%Q in
           (* a rank that is a whole number designates that value itself *)
           if Qeq_bool w 0 then kth l lo
           else fadd ovf64 (fmul ovf64 (kth l lo) (FFin (1 - w))) (fmul ovf64 (kth l hi) (FFin w))
  end.

Definition post_rnd (v : fval) : fval := match v with FFin q => rnd ovf64 q | _ => v end.

Definition spec_agg_value (op : aggop) (param : fval) (l : list fval) : fval :=
  match op with
  | ASum => post_rnd (spec_sum_like qsum l)
  | AAvg => post_rnd (spec_sum_like qmean l)
  | AMin => spec_extreme flt l
  | AMax => spec_extreme fgt l
  | ACount => fz (Z.of_nat (length l))
  | AGroup => f1
  | AStdvar | AStddev => spec_stdvar l
  | AQuantile => spec_quantile param l
  | _ => FNaN
  end.

Definition members (key : labels -> labels) (k : labels) (v : list sample) : list sample :=
  filter (fun s : sample => labels_eqb (key (fst s)) k) v.

(* simple aggregations: one output per distinct projected label set, labelled with it *)
Definition holds_simple (op : aggop) (wo : bool) (g : list str) (param : fval) (v o : list sample) : bool :=
  let key := group_key wo g in
  let ks := uniq_keys (map (fun s : sample => key (fst s)) v) in
  let expect := map (fun k => (k, spec_agg_value op param (map snd (members key k v)))) ks in
  match op with
  | AStddev => set_match (fun vo vm => nonneg vo && fclose2 (fsq vo) vm) o expect
  | _ => set_match fclose o expect
  end.

Fixpoint sorted_by (ge : fval -> fval -> bool) (l : list sample) : bool :=
  match l with
  | a :: ((b :: _) as r) => ge (snd a) (snd b) && sorted_by ge r
  | _ => true
  end.

(* the documented k of topk/bottomk/limitk as the engine reads the scalar: None = error *)
Definition spec_k (param : fval) (n : nat) : option Z :=
  match param with
  | FNaN => None
  | FInf true => Some 0
  | FInf false => None
  | FFin p => if Qle_bool max_int64_q p then None else Some (Z.max 0 (Z.min (qtrunc p) (Z.of_nat n)))
  end.

Definition holds_k (op : aggop) (wo : bool) (g : list str) (param : fval) (v : list sample) (obs : result) : bool :=
  let key := group_key wo g in
  match spec_k param (length v), obs with
  | None, RErr ErrParamNaN => is_nan param
  | None, RErr ErrParamOverflow => negb (is_nan param)
  | Some k, RVec o =>
      let ks := uniq_keys (map (fun s : sample => key (fst s)) v) in
      let ge := match op with ATopk => topk_ge | _ => botk_ge end in
      forallb (fun s => in_vec s v) o && negb (has_dup_labels (map fst o)) &&
      forallb (fun kk =>
        let grp := members key kk v in
        let sel := members key kk o in
        (Z.of_nat (length sel) =? Z.min k (Z.of_nat (length grp))) &&
        match op with
        | ALimitk => true
        | _ =>
            sorted_by ge sel &&
            forallb (fun u : sample =>
                       mem_labels (fst u) (map fst sel) ||
                       forallb (fun s : sample => ge (snd s) (snd u)) sel) grp
        end) ks &&
      (* the output is grouped: samples of one group are adjacent, in sorted order *)
      match op with ALimitk => true | _ => k_match key o (flat_map (fun kk => members key kk o)
                                                 (uniq_keys (map (fun s : sample => key (fst s)) o))) end
  | _, _ => false
  end.

Definition holds_count_values (wo : bool) (g : list str) (vl : str) (tbl : list (fval * str)) (v o : list sample) : bool :=
  let g' := if wo then g else vl :: g in
  let keyof (s : sample) := group_key wo g' (lset vl (fmt_of tbl (snd s)) (fst s)) in
  negb (has_dup_labels (map fst o)) &&
  forallb (fun s => mem_labels (keyof s) (map fst o)) v &&
  forallb (fun x : sample =>
     fsame (snd x) (fz (Z.of_nat (length (filter (fun s => labels_eqb (keyof s) (fst x)) v)))) &&
     negb (fsame (snd x) f0)) o.

(* ---- binary operators: matched pairs as documented (fill_left fills a missing LEFT operand,
   fill_right a missing RIGHT operand, whatever the grouping modifier) *)
Fixpoint has_dup_by {A} (eqb : A -> A -> bool) (l : list A) : bool :=
  match l with [] => false | x :: r => existsb (eqb x) r || has_dup_by eqb r end.

Definition holds_bin (op : bop) (rb : bool) (m : matching) (lhs rhs : list sample) (obs : result) : bool :=
  let sigf := signature (m_on m) (m_labels m) in
  let outs := map (spec_pair_out ovf64 op rb m) (spec_pairs m lhs rhs) in
  let one_side := match m_card m with OneToMany => lhs | _ => rhs end in
  let dup_one := has_dup_labels (map (fun s : sample => sigf (fst s)) one_side) in
  let many_to_one := has_dup_labels (map (fun x => fst (fst (fst x))) outs) in
  let not_unique := has_dup_by (fun x y : labels * labels * fval * bool =>
                       labels_eqb (fst (fst (fst x))) (fst (fst (fst y))) &&
                       labels_eqb (snd (fst (fst x))) (snd (fst (fst y)))) outs in
  let expect := flat_map (fun x : labels * labels * fval * bool =>
                   if snd x then [(snd (fst (fst x)), snd (fst x))] else []) outs in
  let same := has_dup_labels (map fst expect) in
  let is11 := match m_card m with OneToOne => true | _ => false end in
  match obs with
  | RErr ErrDupRight => dup_one && negb (match m_card m with OneToMany => true | _ => false end)
  | RErr ErrDupLeft => dup_one && (match m_card m with OneToMany => true | _ => false end)
  | RErr ErrManyToOne => is11 && many_to_one
  | RErr ErrGroupUnique => negb is11 && not_unique
  | RErr ErrSameLabelset => same
  | RErr _ => false
  | RVec o =>
      set_match fclose o expect &&
      (negb dup_one || match lhs, rhs with [], _ | _, [] => true | _, _ => false end) &&
      negb (if is11 then many_to_one else not_unique)
  end.

Definition holds_vec (expect : list sample) (obs : result) : bool :=
  match obs with
  | RErr ErrSameLabelset => has_dup_labels (map fst expect)
  | RErr _ => false
  | RVec o => seq_match fclose o expect && negb (has_dup_labels (map fst expect))
  end.

Definition holds (c : case) : bool :=
  match c_expr c with
  | EAgg op wo g param vl =>
      match op with
      | ATopk | ABottomk | ALimitk => holds_k op wo g param (c_lhs c) (c_obs c)
      | ACountValues =>
          match c_obs c with
          | RVec o => holds_count_values wo g vl (c_fmt c) (c_lhs c) o
          | RErr _ => false
          end
      | _ => match c_obs c with
             | RVec o => holds_simple op wo g param (c_lhs c) o
             | RErr _ => false
             end
      end
  | EBin op rb m => holds_bin op rb m (c_lhs c) (c_rhs c) (c_obs c)
  | ESet op on names => holds_vec (spec_set op on names (c_lhs c) (c_rhs c)) (c_obs c)
  | EVS op rb swap sc => holds_vec (spec_vs ovf64 op rb swap sc (c_lhs c)) (c_obs c)
  end.

Definition mismatches (cs : list case) : list Z := map c_id (filter (fun c => negb (agree c)) cs).
Definition failing_holds (cs : list case) : list Z := map c_id (filter (fun c => negb (holds c)) cs).

(* corr/CorrC33.v — correspondence (agree) and specification (holds) checkers for C33 cases.
   A query case carries the AST of one generated query as the real grammar parser produced it
   (before checkAST), the verdict of the real checkAST, the projection of the real
   promql.PreprocessExpr output, and the classified outcome of evaluating the query with the real
   promql.Engine as an instant and as a range query (serially and concurrently with all other
   queries). Case kind 1 carries the real function tables. *)
From Coq Require Import List ZArith Bool String.
From Verif Require Import model.PromqlTyping.
Import ListNotations.
Open Scope Z_scope.

(* r_class: 0 value of type r_vt | 1 user-facing error | 2 internal error ("unexpected error",
   the evaluator's explicit panics, a panic escaping the engine) | 3 rejected when the query was created *)
Record run := mkRun { r_class : Z; r_vt : vtype }.

Record case := mkCase {
  c_id : Z; c_kind : Z; c_e : expr; c_tab : ftab_t;
  c_ok : bool;            (* real checkAST reported no error *)
  c_ty : vtype;           (* real Expr.Type() of the root (when accepted) *)
  c_pre : option expr;    (* real PreprocessExpr result (when accepted) *)
  c_nsteps : nat;         (* steps of the range query *)
  c_inst : run; c_rng : run;
  c_selrej : bool;        (* storage was reached although the query was rejected *)
  c_conc : bool           (* concurrent evaluation gave the serial results *)
}.

(* ---- structural equality *)
Definition vsel_eqb (a b : vsel) : bool :=
  Bool.eqb (vs_named a) (vs_named b) && Bool.eqb (vs_dup a) (vs_dup b) &&
  Bool.eqb (vs_nonempty a) (vs_nonempty b) && Bool.eqb (vs_at a) (vs_at b).
Definition vm_eqb (a b : vmatch) : bool :=
  Bool.eqb (vm_labels a) (vm_labels b) && Bool.eqb (vm_clash a) (vm_clash b) &&
  Bool.eqb (vm_group a) (vm_group b) && Bool.eqb (vm_fill a) (vm_fill b).
Definition bop_eqb (a b : bop) : bool :=
  match a, b with OArith, OArith | OCmp, OCmp | OSet, OSet => true | _, _ => false end.
Definition aop_eqb (a b : aop) : bool :=
  match a, b with APlain, APlain | AParam, AParam | ACountValues, ACountValues => true | _, _ => false end.

Fixpoint expr_eqb (a b : expr) {struct a} : bool :=
  match a, b with
  | ENum, ENum | EStr, EStr => true
  | EVec i v, EVec j u | EMat i v, EMat j u => (i =? j) && vsel_eqb v u
  | ESub i x e1, ESub j y e2 => (i =? j) && Bool.eqb x y && expr_eqb e1 e2
  | EParen e1, EParen e2 | EStepInv e1, EStepInv e2 => expr_eqb e1 e2
  | EUn i e1, EUn j e2 => (i =? j) && expr_eqb e1 e2
  | EBin i o rb vm l r, EBin j o' rb' vm' l' r' =>
      (i =? j) && bop_eqb o o' && Bool.eqb rb rb' && expr_eqb l l' && expr_eqb r r'
      (* VectorMatching is rewritten by checkAST (set to nil, Card) and not compared *)
  | EAgg i o p e1, EAgg j o' p' e2 =>
      (i =? j) && aop_eqb o o' && expr_eqb e1 e2 &&
      match p, p' with Some q, Some q' => expr_eqb q q' | None, None => true | _, _ => false end
  | ECall i f args, ECall j g args' =>
      (i =? j) && String.eqb f g &&
      (fix go (l l' : list expr) : bool :=
         match l, l' with
         | [], [] => true
         | x :: t, y :: t' => expr_eqb x y && go t t'
         | _, _ => false
         end) args args'
  | _, _ => false
  end.

Fixpoint vtypes_eqb (a b : list vtype) : bool :=
  match a, b with
  | [], [] => true
  | x :: t, y :: t' => vtype_eqb x y && vtypes_eqb t t'
  | _, _ => false
  end.
Definition fsig_eqb (a b : fsig) : bool :=
  vtypes_eqb (fs_args a) (fs_args b) && (fs_var a =? fs_var b) && vtype_eqb (fs_ret a) (fs_ret b) &&
  Bool.eqb (fs_impl a) (fs_impl b).
Fixpoint ftab_eqb (a b : ftab_t) : bool :=
  match a, b with
  | [], [] => true
  | (f, s) :: t, (g, u) :: t' => String.eqb f g && fsig_eqb s u && ftab_eqb t t'
  | _, _ => false
  end.

(* ---- agree: the model against the implementation *)
(* the model's outcome under the canonical world against the observed class: a user-facing error
   may pre-empt anything data dependent. A fault predicted by the model must show in the engine
   (internal error, or a user error pre-empting it). An internal error of the engine where the
   model predicts a value comes from code outside the model (function bodies, label handling,
   pools): that is no disagreement about what is modelled, and it is what [holds] rejects. *)
Definition class_consistent (q : qres) (r : run) : bool :=
  match q with
  | QRejected => r_class r =? 3
  | QInternal _ => (r_class r =? 2) || (r_class r =? 1)
  | QValue t => ((r_class r =? 0) && vtype_eqb (r_vt r) t) || (r_class r =? 1) || (r_class r =? 2)
  | QUser => true
  end.

Definition agree (c : case) : bool :=
  if c_kind c =? 1 then ftab_eqb (c_tab c) ftab
  else
    let e := c_e c in
    Bool.eqb (check e) (c_ok c) &&
    (if c_ok c then
       vtype_eqb (type_of e) (c_ty c) &&
       match preprocess e, c_pre c with
       | Some a, Some b => expr_eqb a b
       | None, None => true
       | _, _ => false
       end
     else true) &&
    class_consistent (run_query canon_world QInstant e) (c_inst c) &&
    class_consistent (run_query canon_world (QRange (c_nsteps c)) e) (c_rng c).

(* ---- holds: the property on the implementation's own outputs *)
Definition run_ok (accepted_type : vtype) (r : run) : bool :=
  (r_class r =? 1) || ((r_class r =? 0) && vtype_eqb (r_vt r) accepted_type).

Definition holds (c : case) : bool :=
  if c_kind c =? 1 then ftab_wf (c_tab c)
  else
    negb (r_class (c_inst c) =? 2) && negb (r_class (c_rng c) =? 2) &&   (* never an internal error *)
    c_conc c &&                                                          (* independent of concurrent queries *)
    (if c_ok c then
       (* accepted with type t: a value of that type (range queries: a matrix; matrix- and
          string-typed expressions are refused as range queries), or a user-facing error *)
       run_ok (c_ty c) (c_inst c) &&
       (if is_sv (c_ty c) then run_ok TMatrix (c_rng c) else r_class (c_rng c) =? 3)
     else
       (* ill-typed: rejected before evaluation, storage never touched *)
       (r_class (c_inst c) =? 3) && (r_class (c_rng c) =? 3) && negb (c_selrej c)).

Definition mismatches (cs : list case) : list Z := map c_id (filter (fun c => negb (agree c)) cs).
Definition failing_holds (cs : list case) : list Z := map c_id (filter (fun c => negb (holds c)) cs).

(* corr/CorrC19.v — correspondence (agree) and specification (holds) checkers for C19 cases.
   Three kinds of case, all produced by running the real storage package:
     KChain  : ChainedSeriesMerge(series...).Iterator, driven by a Next/Seek script
     KSets   : NewMergeSeriesSet(sets, limit, ChainedSeriesMerge), every output series driven by the script
     KChunks : NewCompactingChunkSeriesMerger(ChainedSeriesMerge) / NewConcatenatingChunkSeriesMerger
   agree is a refinement check: the Go heap breaks ties among equal keys in a way the model leaves
   open, so timestamps / labels / chunk boundaries / None / panic are compared exactly with the
   model run under the all-zero choice stream (the theorems show they do not depend on the stream),
   while a value only has to be one of the candidates (an input sample with that timestamp, in
   the group the model merged).
   holds evaluates the statement of C19 on the observed output alone, against the list-level
   specification (sorted de-duplicated union, drop-while Seek), never calling the model. *)
From Coq Require Import List ZArith Bool.
From Verif Require Import lib.Int64 model.Merge.
Import ListNotations.
Open Scope Z_scope.

Inductive ob := ObNone | ObS (s : sample) | ObPanic.

Inductive kind :=
| KChain (inputs : list (list sample)) (script : list op) (obs : list ob)
| KSets (sets : list (list series)) (limit : Z) (script : list op) (obs : list (Z * list ob))
| KChunks (compacting : bool) (cuts_modelled : bool) (its : list (list chunk)) (obs : option (list chunk)).
(* cuts_modelled = false: counter float histograms whose appender starts a new chunk at a counter
   reset — the model's re-encoding does not know these cuts, so only the merged timestamp
   sequence is compared with it; [holds] judges the chunk metas in full. *)

Record case := mkCase { c_id : Z; c_kind : kind }.

(* ---------------------------------------------------------------- helpers *)
Definition mem_sample (s : sample) (l : list sample) : bool := existsb (sample_eqb s) l.

(* model result vs observation: kinds of outcome and timestamps exact, value among candidates *)
Definition res_ok (cands : list sample) (r : res) (o : ob) : bool :=
  match r, o with
  | RNone, ObNone => true
  | RPanic, ObPanic => true
  | RSample s, ObS s' => (s_t s =? s_t s') && mem_sample s' cands
  | _, _ => false
  end.

Fixpoint all2 {A B} (f : A -> B -> bool) (a : list A) (b : list B) : bool :=
  match a, b with
  | [], [] => true
  | x :: a', y :: b' => f x y && all2 f a' b'
  | _, _ => false
  end.

(* an observation meets the specification: the timestamp the spec iterator yields, and a sample
   that some input really holds *)
Definition ob_spec_ok (all : list sample) (e : option Z) (o : ob) : bool :=
  match e, o with
  | None, ObNone => true
  | Some t, ObS s => (t =? s_t s) && mem_sample s all
  | _, _ => false
  end.

Definition inputs_sorted (inputs : list (list sample)) : bool :=
  forallb (fun l => sortedb (map s_t l)) inputs.

Definition holds_chain (inputs : list (list sample)) (script : list op) (obs : list ob) : bool :=
  all2 (ob_spec_ok (concat inputs)) (spec_obs (merged_ts inputs) script) obs.

(* ---------------------------------------------------------------- KChain *)
Definition ob_of_res (r : res) : ob :=
  match r with RSample s => ObS s | RNone => ObNone | _ => ObPanic end.

Definition agree_chain (inputs : list (list sample)) (script : list op) (obs : list ob) : bool :=
  all2 (res_ok (concat inputs)) (fst (chain_run [] (chain_of inputs) script)) obs.

(* ---------------------------------------------------------------- KSets *)
Definition agree_sets (sets : list (list series)) (limit : Z) (script : list op)
           (obs : list (Z * list ob)) : bool :=
  match fst (merge_sets [] limit sets) with
  | None => false
  | Some groups =>
      all2 (fun g o =>
              match g with
              | [] => false
              | x :: _ => (ser_l x =? fst o) &&
                          all2 (res_ok (concat (map ser_s g))) (group_run [] g script) (snd o)
              end) groups obs
  end.

Definition set_sorted (s : list series) : bool :=
  ssortedb (map ser_l s) && forallb (fun x => ssortedb (map s_t (ser_s x))) s.

Definition with_label (l : Z) (sets : list (list series)) : list (list sample) :=
  map ser_s (filter (fun x => ser_l x =? l) (concat sets)).

(* each distinct label set once, in sorted order; each series = the merged sequence of all input
   series with that label, Seek included. (limit is not part of C19: only limit = 0 is judged) *)
Definition holds_sets (sets : list (list series)) (limit : Z) (script : list op)
           (obs : list (Z * list ob)) : bool :=
  if forallb set_sorted sets && (limit =? 0) then
    list_eqb Z.eqb (map fst obs) (fold_right ins [] (map ser_l (concat sets))) &&
    forallb (fun o => holds_chain (with_label (fst o) sets) script (snd o)) obs
  else true.

(* ---------------------------------------------------------------- KChunks *)
(* boundaries and timestamps exact; values among the candidates. The value type of a sample can
   depend on the tie (float vs histogram at one timestamp), and with it the cut points of the
   re-encoded chunks: when the model's chunks and the observed ones differ in shape, fall back to
   comparing the concatenated timestamp sequences and the outer boundaries. *)
Definition all_samples (its : list (list chunk)) : list sample := concat (map c_smp (concat its)).
Definition chunks_ts (cs : list chunk) : list Z := map s_t (concat (map c_smp cs)).

Definition kinds_unambiguous (its : list (list chunk)) : bool :=
  let all := all_samples its in
  forallb (fun a => forallb (fun b => negb (s_t a =? s_t b) || (s_k a =? s_k b)) all) all.

Definition agree_chunks (compacting cuts : bool) (its : list (list chunk)) (obs : option (list chunk)) : bool :=
  if compacting then
    match fst (compact_chunks [] its), obs with
    | None, None => true
    | Some ms, Some os =>
        forallb (fun s => mem_sample s (all_samples its)) (concat (map c_smp os)) &&
        list_eqb Z.eqb (chunks_ts ms) (chunks_ts os) &&
        (if cuts && kinds_unambiguous its
         then list_eqb Z.eqb (map c_min ms) (map c_min os) && list_eqb Z.eqb (map c_max ms) (map c_max os)
              && list_eqb Z.eqb (map (fun c => Z.of_nat (length (c_smp c))) ms)
                                (map (fun c => Z.of_nat (length (c_smp c))) os)
         else true)
    | _, _ => false
    end
  else
    match obs with
    | Some os => list_eqb chunk_eqb (concat_chunks its) os
    | None => false
    end.

(* a well-formed chunk: non-empty, strictly time-sorted samples of one value type, and
   MinTime/MaxTime are the first/last timestamp *)
Definition chunk_wf (c : chunk) : bool :=
  match c_smp c with
  | [] => false
  | s :: _ => (c_min c =? s_t s) && (c_max c =? s_t (last (c_smp c) s)) &&
              ssortedb (map s_t (c_smp c)) && forallb (fun x => s_k x =? s_k s) (c_smp c)
  end.
Fixpoint chunks_disjoint (cs : list chunk) : bool :=      (* time ordered and non-overlapping *)
  match cs with
  | a :: ((b :: _) as r) => (c_max a <? c_min b) && chunks_disjoint r
  | _ => true
  end.
Definition iter_wf (cs : list chunk) : bool := forallb chunk_wf cs && chunks_disjoint cs.

Definition holds_chunks (compacting : bool) (its : list (list chunk)) (obs : option (list chunk)) : bool :=
  if compacting && forallb iter_wf its then
    match obs with
    | None => false
    | Some os =>
        (* time-ordered, non-overlapping, well-formed chunks *)
        forallb chunk_wf os && chunks_disjoint os &&
        (* whose samples equal the sample-level merge: sorted union, one sample per timestamp,
           taken from an input that has it *)
        list_eqb Z.eqb (chunks_ts os) (merged_ts (map c_smp (concat its))) &&
        forallb (fun s => mem_sample s (all_samples its)) (concat (map c_smp os)) &&
        (* identical duplicates collapse: replicas of one chunk list come out as that list *)
        match its with
        | a :: r => if forallb (list_eqb chunk_eqb a) r then list_eqb chunk_eqb a os else true
        | [] => match os with [] => true | _ => false end
        end
    end
  else true.

(* ---------------------------------------------------------------- per case *)
Definition agree (c : case) : bool :=
  match c_kind c with
  | KChain inputs script obs => agree_chain inputs script obs
  | KSets sets limit script obs => agree_sets sets limit script obs
  | KChunks cp cuts its obs => agree_chunks cp cuts its obs
  end.

Definition holds (c : case) : bool :=
  match c_kind c with
  | KChain inputs script obs =>
      if inputs_sorted inputs && negb (match inputs with [] => true | _ => false end)
      then holds_chain inputs script obs else true
  | KSets sets limit script obs => holds_sets sets limit script obs
  | KChunks cp _ its obs => holds_chunks cp its obs
  end.

Definition mismatches (cs : list case) : list Z := map c_id (filter (fun c => negb (agree c)) cs).
Definition failing_holds (cs : list case) : list Z := map c_id (filter (fun c => negb (holds c)) cs).

(* corr/CorrC22.v — correspondence (agree) and specification (holds) checkers for C22 cases.
   A case is one history driven against a real tsdb.DB (see harness/cmd/h_c22): operations
   (EOp, inputs of the model) interleaved with what the implementation showed:
     ERets    refs returned by the Append calls of the preceding transaction
     EHead    Head.lastSeriesID and the head's (ref, label set) map, sorted by ref
     EGhosts  after a restart: per head series, the label-set ids ("ghosts") found in its chunks
     EWal     just before a restart: the decoded checkpoint and WAL segments on disk
     EQuery   a query over everything: per returned series its label set and the ghosts of its samples

   agree : the model (model/SeriesRef.v), run on the same operations, returns the same refs, has
           the same lastSeriesID and ref->labels map after every operation, the same durable WAL
           (record by record, checkpoint and every segment) before every restart, writes the same
           series_state.json on a clean close, and after every restart attaches the same foreign
           samples to the same series.
   holds : the property itself, evaluated on the implementation's observations only:
           (1) every query returns samples only under the label set they were appended with;
           (2) a reference returned by Append for label set l is never one that the client's cache
               (this lifetime), a WAL/WBL record or a head-chunk file (as found on disk at the last
               restart) associates with a different label set;
           (3) after every transaction the head maps each returned ref to the labels given;
           (4) after every restart every head series holds only samples of its own label set. *)
From Coq Require Import List ZArith Bool.
From Verif Require Import model.SeriesRef.
Import ListNotations.
Open Scope Z_scope.

Inductive ev :=
| EOp (o : op)
| ERets (l : list Z)
| EHead (lst : Z) (series : list (Z * Z))
| EGhosts (g : list (Z * list Z))
| EWal (ck : list rec) (sg : list (list rec)) (fst_ : Z)
| EQuery (q : list (Z * list Z)).

Record case := mkCase { c_id : Z; c_evs : list ev }.

(* ---------------------------------------------------------------- equalities *)

Definition rec_eqb (a b : rec) : bool :=
  match a, b with
  | RSeries r l, RSeries r' l' => (r =? r') && (l =? l')
  | RSample r g t, RSample r' g' t' => (r =? r') && (g =? g') && (t =? t')
  | RTomb r, RTomb r' => r =? r'
  | RTombIv r, RTombIv r' => r =? r'
  | _, _ => false
  end.

Fixpoint list_eqb {A} (eqb : A -> A -> bool) (a b : list A) : bool :=
  match a, b with
  | [], [] => true
  | x :: a', y :: b' => eqb x y && list_eqb eqb a' b'
  | _, _ => false
  end.

Definition pair_eqb (a b : Z * Z) : bool := (fst a =? fst b) && (snd a =? snd b).

Fixpoint insert_by_ref (p : Z * Z) (l : list (Z * Z)) : list (Z * Z) :=
  match l with
  | [] => [p]
  | q :: l' => if fst p <=? fst q then p :: l else q :: insert_by_ref p l'
  end.
Definition sort_by_ref (l : list (Z * Z)) : list (Z * Z) := fold_right insert_by_ref [] l.

Definition subsetZ (a b : list Z) : bool := forallb (fun x => memZ x b) a.
Definition set_eqZ (a b : list Z) : bool := subsetZ a b && subsetZ b a.

(* ---------------------------------------------------------------- agree *)

Definition head_pairs (m : st) : list (Z * Z) := sort_by_ref (map (fun s => (s_ref s, s_l s)) (head m)).

Definition ghosts_agree (m : st) (g : list (Z * list Z)) : bool :=
  (Nat.eqb (length g) (length (head m))) &&
  forallb (fun p => match by_ref (head m) (fst p) with
                    | Some s => let foreign := filter (fun x => negb (x =? s_l s)) in
                                set_eqZ (foreign (snd p)) (foreign (s_orig s))
                    | None => false
                    end) g.

Definition sf_eqb (a b : Z * Z * bool) : bool :=
  let '(a1, a2, a3) := a in let '(b1, b2, b3) := b in (a1 =? b1) && (a2 =? b2) && Bool.eqb a3 b3.

Definition op_pre_agree (m : st) (o : op) : bool :=
  match o with
  | ORestart true true _ sf _ _ _ _ _ =>
      match sf with Some x => sf_eqb x (clean_state_file m) | None => false end
  | _ => true
  end.

Definition agree_step (acc : st * bool) (e : ev) : st * bool :=
  let '(m, ok) := acc in
  match e with
  | EOp o => (step m o, ok && op_pre_agree m o)
  | ERets l => (m, ok && list_eqb Z.eqb (rets m) l)
  | EHead lst ser => (m, ok && (last m =? lst) && list_eqb pair_eqb (head_pairs m) ser)
  | EGhosts g => (m, ok && ghosts_agree m g)
  | EWal ck sg f => (m, ok && list_eqb rec_eqb (ckpt m) ck && list_eqb (list_eqb rec_eqb) (segs m) sg && (first m =? f))
  | EQuery _ => acc
  end.

Definition agree (c : case) : bool := snd (fold_left agree_step (c_evs c) (init, true)).

(* ---------------------------------------------------------------- holds *)

(* bindings: (ref, label set) pairs that some cached reference, WAL/WBL record or head-chunk
   file associates *)
Definition binds_of_recs (rs : list rec) : list (Z * Z) :=
  flat_map (fun x => match x with
                     | RSeries r l => [(r, l)]
                     | RSample r g _ => [(r, g)]
                     | _ => []
                     end) rs.

Definition binds_of_chunks (cs : list chunk) : list (Z * Z) :=
  flat_map (fun c => map (fun g => (ck_ref c, g)) (ck_ghosts c)) cs.

Definition compatible (k : list (Z * Z)) (r l : Z) : bool :=
  forallb (fun p => negb (fst p =? r) || (snd p =? l)) k.

Record hst := mkH {
  h_k : list (Z * Z);          (* bindings *)
  h_wal : list rec;            (* the durable WAL observed last *)
  h_apps : list app;           (* appends of the transaction whose ERets is next *)
  h_new : list (Z * Z);        (* (ret, label set) of the last transaction, to be found in the next EHead *)
  h_series : list (Z * Z);     (* last observed head map *)
  h_ok : bool
}.

Fixpoint check_rets (k : list (Z * Z)) (apps : list app) (rets : list Z) : list (Z * Z) * list (Z * Z) * bool :=
  match apps, rets with
  | a :: apps', r :: rets' =>
      if a_ok a then
        let c := compatible k r (a_l a) && (0 <? r) in
        let '(k', nw, ok) := check_rets ((r, a_l a) :: k) apps' rets' in
        (k', (r, a_l a) :: nw, c && ok)
      else check_rets k apps' rets'
  | [], [] => (k, [], true)
  | _, _ => (k, [], false)
  end.

Definition holds_step (h : hst) (e : ev) : hst :=
  match e with
  | EWal ck sg _ => mkH (h_k h) (ck ++ concat sg) (h_apps h) (h_new h) (h_series h) (h_ok h)
  | EOp (ORestart _ _ _ _ _ cs wbl _ _) =>
      (* the client's cache does not survive the process; what is on disk does *)
      mkH (binds_of_recs (h_wal h) ++ binds_of_chunks cs ++ binds_of_recs wbl) (h_wal h) [] [] [] (h_ok h)
  | EOp (OTx apps) => mkH (h_k h) (h_wal h) apps [] (h_series h) (h_ok h)
  | EOp _ => h
  | ERets l =>
      let '(k', nw, ok) := check_rets (h_k h) (h_apps h) l in
      mkH k' (h_wal h) [] nw (h_series h) (h_ok h && ok)
  | EHead _ ser =>
      mkH (h_k h) (h_wal h) (h_apps h) [] ser
          (h_ok h && forallb (fun p => existsb (pair_eqb p) ser) (h_new h))
  | EGhosts g =>
      mkH (h_k h) (h_wal h) (h_apps h) (h_new h) (h_series h)
          (h_ok h && forallb (fun p => match assoc (h_series h) (fst p) with
                                       | Some l => forallb (Z.eqb l) (snd p)
                                       | None => false
                                       end) g)
  | EQuery q =>
      mkH (h_k h) (h_wal h) (h_apps h) (h_new h) (h_series h)
          (h_ok h && forallb (fun p => forallb (Z.eqb (fst p)) (snd p)) q)
  end.

Definition holds (c : case) : bool := h_ok (fold_left holds_step (c_evs c) (mkH [] [] [] [] [] true)).

Definition mismatches (cs : list case) : list Z := map c_id (filter (fun c => negb (agree c)) cs).
Definition failing_holds (cs : list case) : list Z := map c_id (filter (fun c => negb (holds c)) cs).

(* corr/CorrC25.v — correspondence (agree) and specification (holds) checkers for C25.
   Two kinds of cases:
   CTrace   : a ChunkDiskMapper with the write queue enabled was opened on a directory whose files
              are [t_init] and driven through [t_tr]; every step carries what the implementation
              returned.  The queue worker was gated at its two pause points, so Pop/Proc/Done are
              the harness' own scheduling decisions.  [t_final] = the directory after Close.
   CRestart : a directory (possibly with the newest file truncated at byte [r_cut]) was opened
              with a new ChunkDiskMapper and recovered the way the head does
              (IterateAllChunks; on CorruptionErr DeleteCorrupted and IterateAllChunks again). *)
From Coq Require Import List NArith ZArith Bool Uint63.
From Verif Require Import lib.Int64 lib.Bytes lib.Varint model.HeadChunks.
Import ListNotations.
Open Scope N_scope.

(* ------------------------------------------------------------------ CRC-32C (Castagnoli), bitwise, reflected;
   computed on primitive 63-bit integers (the values stay below 2^32) *)
Fixpoint crc_bits (n : nat) (c : int) : int :=
  match n with
  | O => c
  | S k => crc_bits k (if Uint63.eqb (Uint63.land c 1%uint63) 1%uint63
                       then Uint63.lxor (Uint63.lsr c 1%uint63) 2197175160%uint63 (* 0x82F63B78 *)
                       else Uint63.lsr c 1%uint63)
  end.
Definition int_of_N (b : N) : int := Uint63.of_Z (Z.of_N b).
Definition N_of_int (x : int) : N := Z.to_N (Uint63.to_Z x).
Definition crc32c (bs : list N) : N :=
  N_of_int (Uint63.lxor (fold_left (fun c b => crc_bits 8 (Uint63.lxor c (int_of_N b))) bs 4294967295%uint63)
                        4294967295%uint63).

(* byte strings are written by the harness packed seven bytes to a primitive integer (big endian
   inside the word); [pk len ws] unpacks the first len bytes *)
Definition byte_at (x : int) (k : int) : N :=
  Z.to_N (Uint63.to_Z (Uint63.land (Uint63.lsr x k) 255%uint63)).
Definition unpack7 (x : int) : list N :=
  [byte_at x 48%uint63; byte_at x 40%uint63; byte_at x 32%uint63; byte_at x 24%uint63;
   byte_at x 16%uint63; byte_at x 8%uint63; byte_at x 0%uint63].
Definition pk (len : nat) (ws : list int) : list N := firstn len (flat_map unpack7 ws).

(* long chunk data is written compactly by the harness: the bytes of a linear congruential generator
   x' = (x * 1103515245 + 12345) mod 2^31, byte = (x' / 2^16) mod 256 *)
Fixpoint gen_data_aux (n : nat) (x : int) : list N :=
  match n with
  | O => []
  | S k => let x' := Uint63.land (Uint63.add (Uint63.mul x 1103515245%uint63) 12345%uint63) 2147483647%uint63 in
           N_of_int (Uint63.land (Uint63.lsr x' 16%uint63) 255%uint63) :: gen_data_aux k x'
  end.
Definition gen_data (seed len : N) : list N := gen_data_aux (N.to_nat len) (int_of_N seed).

(* ------------------------------------------------------------------ equality tests *)
Definition refs_eqb (a b : list N) : bool := bytes_eqb a b.
Definition rd_eqb (a b : rd_res) : bool :=
  match a, b with
  | RdOk e d, RdOk e' d' => (e =? e') && bytes_eqb d d'
  | RdErr k, RdErr k' => k =? k'
  | RdPanic, RdPanic => true
  | RdBeyond, RdBeyond => true
  | _, _ => false
  end.
Definition out_eqb (a b : out) : bool :=
  match a, b with
  | ORef r, ORef r' => ref_eqb r r'
  | ONone, ONone => true
  | OTrunc x y, OTrunc x' y' => refs_eqb x x' && refs_eqb y y'
  | OProc k s o f, OProc k' s' o' f' => Bool.eqb k k' && (s =? s') && (o =? o') && (f =? f')
  | ORead RdBeyond, ORead _ => true   (* model: a stale ref into never-written bytes of the live mapping; not modelled *)
  | ORead r, ORead r' => rd_eqb r r'
  | OBlocked, OBlocked => true
  | OPanic, OPanic => true
  | _, _ => false
  end.
Definition ci_eqb (a b : cinfo) : bool :=
  (ci_series a =? ci_series b) && (ci_mint a =? ci_mint b)%Z && (ci_maxt a =? ci_maxt b)%Z &&
  (ci_ns a =? ci_ns b) && (ci_enc a =? ci_enc b) && Bool.eqb (ci_ooo a) (ci_ooo b).
Fixpoint cis_eqb (a b : list (ref * cinfo)) : bool :=
  match a, b with
  | [], [] => true
  | (r, c) :: t, (r', c') :: t' => ref_eqb r r' && ci_eqb c c' && cis_eqb t t'
  | _, _ => false
  end.
Definition ist_eqb (a b : istatus) : bool :=
  match a, b with
  | IOk, IOk => true
  | ICorrupt f _, ICorrupt f' _ => f =? f'        (* the reason is not part of the Go error value *)
  | IPanic, IPanic => true
  | IFuel, IFuel => true
  | _, _ => false
  end.

(* ------------------------------------------------------------------ cases *)
Definition robs := ((list (ref * cinfo) * istatus) * list N * list (ref * cinfo))%type.

Inductive clist := CPre (m : nat) | CFull (l : list (ref * cinfo)).
Definition tobs := ((clist * istatus) * list N * clist)%type.
Definition expand (base : list (ref * cinfo)) (c : clist) : list (ref * cinfo) :=
  match c with CPre m => firstn m base | CFull l => l end.
Definition expand_obs (base : list (ref * cinfo)) (o : option tobs) : option robs :=
  match o with
  | None => None
  | Some ((c1, st), fs, c2) => Some ((expand base c1, st), fs, expand base c2)
  end.

Inductive case :=
| CTrace (id : Z) (bufsize : N) (qmax : nat) (init : list (N * list N))
         (tr : list (step * out)) (final : list (N * list N))
| CRestart (id : Z) (dir : list (N * list N))
           (expect : list (ref * cinfo * N))     (* every chunk the writer completed in the retained files, in
                                                    write order, with the offset just after its CRC; ci_ns is
                                                    only meaningful when the chunk has >= 2 data bytes *)
           (newest : N) (cutk : option N)        (* the newest file was truncated to cutk bytes *)
           (obs : option robs)                   (* None: NewChunkDiskMapper failed *)
| CTorn (id : Z) (dir : list (N * list N)) (expect : list (ref * cinfo * N)) (newest : N)
        (base : list (ref * cinfo))              (* what the undamaged directory iterates to (observed) *)
        (cuts : list (N * option tobs))
| CPos (id : Z) (seq off : N) (cutf : bool)     (* a chunkPos at this position ... *)
       (steps : list (bool * N))                 (* ... allocates for these (CutNewFile requested?, data length) *)
       (obs : list (bool * ref))                 (* getNextChunkRef's cut decisions and refs *)
       (fin : N * N * bool).                     (* the position afterwards *)         (* one recovery per truncation point of the newest file; the
                                                    observed chunk lists are written as "the first m of base"
                                                    when they are equal to that *)

(* monomorphic constructors for the case files (terms without implicit arguments elaborate much faster) *)
Definition fl (q : N) (bs : list N) : N * list N := (q, bs).
Definition rf (a b : N) : ref := (a, b).
Definition so (s : step) (o : out) : step * out := (s, o).
Definition ex (a b : N) (c : cinfo) (e : N) : ref * cinfo * N := ((a, b), c, e).
Definition rc (a b : N) (c : cinfo) : ref * cinfo := ((a, b), c).
Definition ob (cis : list (ref * cinfo)) (st : istatus) (fs : list N) (fin : list (ref * cinfo)) : robs := ((cis, st), fs, fin).
Definition tb (c1 : clist) (st : istatus) (fs : list N) (c2 : clist) : tobs := ((c1, st), fs, c2).
Definition ct (k : N) (o : option tobs) : N * option tobs := (k, o).
Definition wc (x : int) (l : list int) : list int := x :: l.
Definition wn : list int := nil.
Definition ps (c : bool) (dl : N) : bool * N := (c, dl).
Definition po (c : bool) (a b : N) : bool * ref := (c, (a, b)).
Definition pf (q o : N) (c : bool) : N * N * bool := (q, o, c).

Definition c_id (c : case) : Z :=
  match c with CTrace i _ _ _ _ _ => i | CRestart i _ _ _ _ _ => i | CTorn i _ _ _ _ _ => i | CPos i _ _ _ _ _ _ => i end.

Definition truncate_newest (dir : list (N * list N)) (newest k : N) : list (N * list N) :=
  map (fun e => if fst e =? newest then (fst e, firstn (N.to_nat k) (snd e)) else e) dir.

(* ------------------------------------------------------------------ agree *)
Fixpoint run_cmp (bufsize : N) (qmax : nat) (s : st) (tr : list (step * out)) : option st :=
  match tr with
  | [] => Some s
  | (x, o) :: t =>
      let (s1, o1) := do_step crc32c bufsize qmax s x in
      if out_eqb o1 o then run_cmp bufsize qmax s1 t else None
  end.

(* the directory after Close: same files; the bytes the model wrote, then only zeros
   (preallocation) *)
Fixpoint prefix_then_zeros (m d : list N) : bool :=
  match m, d with
  | [], _ => all_zero d
  | a :: m', b :: d' => (a =? b) && prefix_then_zeros m' d'
  | _ :: _, [] => false
  end.
Fixpoint files_match (m d : list (N * list N)) : bool :=
  match m, d with
  | [], [] => true
  | (q, mb) :: m', (q', db) :: d' => (q =? q') && prefix_then_zeros mb db && files_match m' d'
  | _, _ => false
  end.

Definition recov_eqb (m : option recovered) (o : option robs) : bool :=
  match m, o with
  | None, None => true
  | Some r, Some (p1, fs, fin) =>
      cis_eqb (fst (rc_pass1 r)) (fst p1) && ist_eqb (snd (rc_pass1 r)) (snd p1) &&
      refs_eqb (rc_files r) fs && cis_eqb (rc_final r) fin
  | _, _ => false
  end.

Fixpoint pos_obs_eqb (a b : list (bool * ref)) : bool :=
  match a, b with
  | [], [] => true
  | (c, r) :: t, (c', r') :: t' => Bool.eqb c c' && ref_eqb r r' && pos_obs_eqb t t'
  | _, _ => false
  end.

(* the allocation property on the implementation's own refs: every chunk inside its file, each
   starting where the previous one ended or at offset 8 of the next file, cut reported exactly then *)
Fixpoint holds_pos (q o : N) (steps : list (bool * N)) (obs : list (bool * ref)) : bool :=
  match steps, obs with
  | [], [] => true
  | (_, dl) :: t, (cut, rf) :: t' =>
      let b := size_of_len dl in
      (if cut then ref_eqb rf (q + 1, 8) else ref_eqb rf (q, o)) &&
      (8 <=? snd rf) && (snd rf + b <=? max_file_size) &&
      holds_pos (fst rf) (snd rf + b) t t'
  | _, _ => false
  end.

Definition agree (c : case) : bool :=
  match c with
  | CTrace _ bufsize qmax init tr final =>
      match run_cmp bufsize qmax (init_state init) tr with
      | Some s => files_match (closed_files s) final
      | None => false
      end
  | CRestart _ dir _ _ _ obs => recov_eqb (recover crc32c dir) obs
  | CTorn _ dir _ newest base cuts =>
      forallb (fun c => recov_eqb (recover crc32c (truncate_newest dir newest (fst c))) (expand_obs base (snd c))) cuts
  | CPos _ seq off cutf steps obs fin =>
      let (l, e) := alloc_run seq off cutf (map (fun st => (fst st, size_of_len (snd st))) steps) in
      pos_obs_eqb (map (fun x => (fst (fst x), snd (fst x))) l) obs &&
      (let '(q, o, c) := e in let '(q', o', c') := fin in (q =? q') && (o =? o') && Bool.eqb c c')
  end.

(* ------------------------------------------------------------------ holds: the property on the implementation's outputs *)
Definition mem (x : N) (l : list N) : bool := existsb (N.eqb x) l.

(* read-your-write and truncate-only-older over a trace.
   [written] : ref -> what was handed to WriteChunk (latest first);
   [dead]    : numbers of files that a Truncate removed. *)
Fixpoint holds_trace (written : list (ref * rec)) (dead : list N) (tr : list (step * out)) : bool :=
  match tr with
  | [] => true
  | (SWrite r, ORef rf) :: t =>
      (* a ref in a file number that was deleted earlier names a new file *)
      holds_trace ((rf, r) :: written) (if snd rf =? 8 then filter (fun q => negb (q =? fst rf)) dead else dead) t
  | (STrunc n, OTrunc before after) :: t =>
      forallb (fun q => mem q before) after &&
      forallb (fun q => mem q after || (q <? n)) before &&
      holds_trace written (filter (fun q => negb (mem q after)) before ++ dead) t
  | (SRead rf, ORead res) :: t =>
      match lookup_ref rf written with
      | Some r => if mem (fst rf) dead then true else rd_eqb res (RdOk (r_enc r) (r_data r))
      | None => true
      end && holds_trace written dead t
  | (SProc, OPanic) :: _ => false
  | _ :: t => holds_trace written dead t
  end.

Definition ci_eqb_loose (dlen_ge2 : bool) (a b : cinfo) : bool :=
  (ci_series a =? ci_series b) && (ci_mint a =? ci_mint b)%Z && (ci_maxt a =? ci_maxt b)%Z &&
  (if dlen_ge2 then ci_ns a =? ci_ns b else true) && (ci_enc a =? ci_enc b) && Bool.eqb (ci_ooo a) (ci_ooo b).

(* data length of an expected chunk, from its start and end offsets: end - start - 29 - uvarint size;
   >= 2 data bytes iff the record is longer than 31 bytes (uvarint of 0/1 has one byte) *)
Fixpoint exp_eqb (e : list (ref * cinfo * N)) (o : list (ref * cinfo)) : bool :=
  match e, o with
  | [], [] => true
  | (r, c, en) :: t, (r', c') :: t' =>
      ref_eqb r r' && ci_eqb_loose (32 <=? en - snd r) c c' && exp_eqb t t'
  | _, _ => false
  end.

Definition holds_restart (dir : list (N * list N)) (expect : list (ref * cinfo * N)) (newest : N)
                         (cutk : option N) (obs : option robs) : bool :=
  (* chunks shorter than 4 bytes (no real encoding produces them) make records shorter than
     MaxHeadChunkMetaSize, which IterateAllChunks cannot tell from a torn tail: only agree *)
  if negb (forallb (fun e => 34 <=? snd e - snd (fst (fst e))) expect) then true else
  let older := filter (fun e => fst (fst (fst e)) <? newest) expect in
  match cutk with
  | None =>
      (* undamaged directory: every completed chunk, in write order, nothing else *)
      match obs with
      | Some ((cis, IOk), fs, fin) => exp_eqb expect cis && exp_eqb expect fin && refs_eqb fs (map fst dir)
      | _ => false
      end
  | Some k =>
      (* complete = the record ends at or before the truncation point *)
      let complete := filter (fun e => (fst (fst (fst e)) <? newest) || (snd e <=? k)) expect in
      match obs with
      | None => (4 <=? k) && (k <? 8)                   (* a torn header: refused, nothing returned *)
      | Some ((cis, IOk), fs, fin) => exp_eqb complete cis && exp_eqb complete fin
      | Some ((cis, ICorrupt f _), fs, fin) =>
          (f =? newest) && exp_eqb complete cis && exp_eqb older fin &&
          forallb (fun q => q <? newest) fs
      | _ => false
      end
  end.

Definition holds (c : case) : bool :=
  match c with
  | CTrace _ _ _ _ tr _ => holds_trace [] [] tr
  | CRestart _ dir expect newest cutk obs => holds_restart dir expect newest cutk obs
  | CTorn _ dir expect newest base cuts =>
      forallb (fun c => holds_restart dir expect newest (Some (fst c)) (expand_obs base (snd c))) cuts
  | CPos _ seq off _ steps obs _ =>
      if ((off =? 0) || (8 <=? off)) && forallb (fun st => 8 + size_of_len (snd st) <=? max_file_size) steps
      then holds_pos seq off steps obs else true
  end.

Definition mismatches (cs : list case) : list Z := map c_id (filter (fun c => negb (agree c)) cs).
Definition failing_holds (cs : list case) : list Z := map c_id (filter (fun c => negb (holds c)) cs).

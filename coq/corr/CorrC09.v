(* corr/CorrC09.v — correspondence (agree) and specification (holds) checkers for C09 cases.
   Two kinds of case:
   CPure   one call of the real deletableBlocks / BeyondTimeRetention / BeyondSizeRetention on a
           slice of Block values; the order the code's sort left in the slice is read back.
   CReload one call of the real DB.reloadBlocks (or a tsdb.Open, which reloads) on a directory of
           real block directories; observed: error or not, DB.Blocks(), directory names, and
           (through Options.BlocksToDelete wrapping DefaultBlocksToDelete) the sorted slice.
           When the order could not be observed (Open) every valid tie order is tried. *)
From Coq Require Import List ZArith Bool.
From Verif Require Import lib.Int64 model.Retention.
Import ListNotations.
Open Scope Z_scope.

Inductive case :=
| CPure (id : Z) (c : cfg) (input : list block) (order : list Z) (obsD obsT obsS : list Z)
| CReload (id : Z) (c : cfg) (disk : list dentry) (prev : list Z) (order : option (list Z))
          (err : bool) (obs_blocks obs_dirs : list Z)
          (head_same : bool)     (* head fingerprint and WAL/WBL/chunks_head listing unchanged by the reload *)
          (headsum_ok : bool)    (* Head().Size() = bytes in wal/ + wbl/ + chunks_head/ measured by the harness *).

Definition c_id (c : case) : Z :=
  match c with CPure id _ _ _ _ _ _ => id | CReload id _ _ _ _ _ _ _ _ _ => id end.

(* the observed order is transmitted as the list of block ids; an id that is not in the input
   makes the order shorter than the input, hence invalid *)
Definition resolve (bs : list block) (ids : list Z) : list block :=
  flat_map (fun i => match find (fun b => b_id b =? i) bs with Some b => [b] | None => [] end) ids.

Definition subsetZ (a b : list Z) : bool := forallb (fun x => memZ x b) a.
Definition set_eqb (a b : list Z) : bool := subsetZ a b && subsetZ b a.

(* ---------- agree: the model against the implementation ---------- *)
Definition rres_agree (r : rres) (all_dirs prev : list Z) (err : bool) (obs_blocks obs_dirs : list Z) : bool :=
  match r with
  | RErr _ => err && set_eqb obs_blocks prev && set_eqb obs_dirs all_dirs
  | ROk l dirs => negb err && set_eqb obs_blocks (map b_id l) && set_eqb obs_dirs dirs &&
                  (Z.of_nat (length obs_blocks) =? Z.of_nat (length l)) &&
                  (Z.of_nat (length obs_dirs) =? Z.of_nat (length dirs))
  end.

Definition agree (cs : case) : bool :=
  match cs with
  | CPure _ c input oi obsD obsT obsS =>
      let o := resolve input oi in
      (Z.of_nat (length oi) =? Z.of_nat (length input)) && valid_order o input &&
      set_eqb obsT (beyond_time c o) && set_eqb obsS (beyond_size c o) &&
      set_eqb obsD (deletable_ids c o)
  | CReload _ c disk prev order err ob od _ _ =>
      let orders := match order with Some o => [resolve (loadable disk) o] | None => all_orders (loadable disk) end in
      existsb (fun o => valid_order o (loadable disk) &&
                        rres_agree (reload c disk o) (map d_id disk) prev err ob od) orders
  end.

(* ---------- holds: the property statement on the implementation's own output ---------- *)

(* the statement is about sane configurations: retention duration >= 0, MaxTime span and total
   size within int64, sizes non-negative (Block.Size() and Head.Size() are sums of file sizes) *)
Definition sane (c : cfg) (bs : list block) : bool :=
  (0 <=? c_dur c) && int64b (newest bs - oldest bs) &&
  forallb (fun b => 0 <=? b_size b) bs && (0 <=? c_head c) && (c_head c + sum_sizes bs <=? maxInt64).

(* time: exactly the blocks whose MaxTime is at least the retention duration older than the
   newest MaxTime (0 = disabled) *)
Definition spec_time (c : cfg) (bs : list block) : list Z :=
  if 0 <? c_dur c then map b_id (filter (fun b => c_dur c <=? newest bs - b_maxt b) bs) else [].

(* size: keep the longest newest-first run (in the order the code used) whose cumulative size
   plus the head size stays within the limit *)
Definition kept_count (maxb head : Z) (o : list block) : nat :=
  length (filter (fun j => head + sum_sizes (firstn j o) <=? maxb) (seq 1 (length o))).
Definition spec_size (c : cfg) (o : list block) : list Z :=
  let m := eff_max_bytes c in
  if m <=? 0 then [] else map b_id (skipn (kept_count m (c_head c) o) o).

(* retention never deletes a block strictly newer than one it retains *)
Definition suffix_closed (o : list block) (gone : list Z) : bool :=
  forallb (fun b => forallb (fun b' =>
     negb (memZ (b_id b) gone && negb (memZ (b_id b') gone) && (b_maxt b' <? b_maxt b))) o) o.

Fixpoint sorted_mint (mints : list Z) : bool :=
  match mints with
  | [] => true
  | x :: r => match r with [] => true | y :: _ => (x <=? y) && sorted_mint r end
  end.

Definition lookup_mint (bs : list block) (i : Z) : Z :=
  match find (fun b => b_id b =? i) bs with Some b => b_mint b | None => 0 end.

Definition holds_reload_with (c : cfg) (disk : list dentry) (prev : list Z) (err : bool)
           (ob od : list Z) (head_same : bool) (o : list block) : bool :=
  let ld := loadable disk in
  let ret := spec_time c o ++ spec_size c o in
  let sup := map b_id (filter b_del ld) ++ parents_of ld in
  let gone := ret ++ sup in
  let bad := filter (fun i => negb (memZ i (parents_of ld))) (corrupted disk) in
  valid_order o ld && head_same &&
  match bad with
  | _ :: _ => err && set_eqb ob prev && set_eqb od (map d_id disk)
  | [] =>
      negb err &&
      (* exactly the loadable blocks that are neither expired nor superseded stay loaded ... *)
      set_eqb ob (filter (fun i => negb (memZ i gone)) (map b_id ld)) && nodupZ ob &&
      sorted_mint (map (lookup_mint ld) ob) &&
      (* ... exactly their directories (and unreadable ones nobody superseded) stay on disk *)
      set_eqb od (filter (fun i => negb (memZ i gone)) (map d_id disk)) && nodupZ od &&
      (* superseded blocks are gone whatever state the crash left them in *)
      forallb (fun p => negb (memZ p od) && negb (memZ p ob)) (parents_of ld) &&
      suffix_closed o ret
  end.

Definition holds (cs : case) : bool :=
  match cs with
  | CPure _ c input oi obsD obsT obsS =>
      let o := resolve input oi in
      if sane c input then
        (Z.of_nat (length oi) =? Z.of_nat (length input)) && valid_order o input &&
        set_eqb obsT (spec_time c input) && set_eqb obsS (spec_size c o) &&
        set_eqb obsD (map b_id (filter b_del input) ++ obsT ++ obsS) &&
        suffix_closed o (obsT ++ obsS)
      else true
  | CReload _ c disk prev order err ob od head_same headsum_ok =>
      if sane c (loadable disk) then
        headsum_ok &&
        let orders := match order with Some o => [resolve (loadable disk) o] | None => all_orders (loadable disk) end in
        existsb (holds_reload_with c disk prev err ob od head_same) orders
      else true
  end.

Definition mismatches (cs : list case) : list Z := map c_id (filter (fun c => negb (agree c)) cs).
Definition failing_holds (cs : list case) : list Z := map c_id (filter (fun c => negb (holds c)) cs).

(* corr/CorrC02.v — correspondence (agree) and specification (holds) checkers for C02 cases.
   A case is a sequence of operations on a fresh tsdb.DB head (create appender v1/v2, SetOptions,
   append, commit, rollback, store minValidTime) together with what the implementation did for
   each: error class of every append, the appender's window snapshot, Commit/Rollback result and
   the full query result after every Commit/Rollback. *)
From Coq Require Import List ZArith Bool.
From Verif Require Import lib.Int64 model.Appendable.
Import ListNotations.
Open Scope Z_scope.

Inductive op :=
| ONew (a : Z) (v2 : bool)
| OSetOpt (a : Z) (discard : bool)
| OApp (a : Z) (flag : bool) (sid t : Z) (v : value)
| OCommit (a : Z)
| ORollback (a : Z)
| OMinValid (t : Z).

Definition qres := list (Z * list sample).   (* series id (ascending) -> samples (ascending t) *)

Inductive ob :=
| BNone
| BSnap (s : option snap)                    (* after ONew *)
| BApp (err : Z) (s : option snap)           (* after OApp: 0 ok 1 OOB 2 OOO 3 too old 4 duplicate 5 other *)
| BEnd (err : Z) (q : qres)                  (* after OCommit / ORollback *)
| BEndSame (err : Z).                        (* same, the query result equals the previous one ([] if none) *)

(* BEndSame is only a compression of the case file *)
Fixpoint expand_obs (last : qres) (l : list ob) : list ob :=
  match l with
  | [] => []
  | BEnd e q :: r => BEnd e q :: expand_obs q r
  | BEndSame e :: r => BEnd e last :: expand_obs last r
  | b :: r => b :: expand_obs last r
  end.

Record case := mkCase { c_id : Z; c_cfg : cfg; c_sids : list Z; c_ops : list op; c_obs0 : list ob }.
Definition c_obs (c : case) : list ob := expand_obs [] (c_obs0 c).

(* ------------------------------------------------------------------ model run *)
Fixpoint lookup_app (m : list (Z * appender)) (k : Z) : option appender :=
  match m with [] => None | (k', a) :: r => if k' =? k then Some a else lookup_app r k end.
Fixpoint remove_app (m : list (Z * appender)) (k : Z) : list (Z * appender) :=
  match m with [] => [] | (k', a) :: r => if k' =? k then remove_app r k else (k', a) :: remove_app r k end.
Definition set_app (m : list (Z * appender)) (k : Z) (a : appender) := (k, a) :: remove_app m k.

(* model-side observation: per series the candidates per timestamp *)
Inductive mob :=
| MNone
| MSnap (s : option snap)
| MApp (err : Z) (s : option snap)
| MEnd (q : list (Z * list (Z * list value))).

Definition model_query (sids : list Z) (h : head) : list (Z * list (Z * list value)) :=
  filter (fun p => negb (match snd p with [] => true | _ => false end))
         (map (fun sid => (sid, series_view (h_series h sid))) sids).

Definition step (c : cfg) (sids : list Z) (st : head * list (Z * appender)) (o : op)
  : head * list (Z * appender) * mob :=
  let '(h, apps) := st in
  match o with
  | ONew a v2 => let ap := new_appender c h v2 in (h, set_app apps a ap, MSnap (a_snap ap))
  | OSetOpt a d =>
      match lookup_app apps a with
      | Some ap => (h, set_app apps a (set_options ap d), MNone)
      | None => (h, apps, MNone)
      end
  | OApp a flag sid t v =>
      match lookup_app apps a with
      | Some ap => let '(h', ap', e) := append c h ap flag sid t v in
                   (h', set_app apps a ap', MApp e (a_snap ap'))
      | None => (h, apps, MNone)
      end
  | OCommit a =>
      match lookup_app apps a with
      | Some ap => let h' := commit c h ap in (h', remove_app apps a, MEnd (model_query sids h'))
      | None => (h, apps, MNone)
      end
  | ORollback a =>
      match lookup_app apps a with
      | Some ap => let h' := rollback h ap in (h', remove_app apps a, MEnd (model_query sids h'))
      | None => (h, apps, MNone)
      end
  | OMinValid t => (mkHead (h_mint h) (h_maxt h) t (h_series h), apps, MNone)
  end.

Fixpoint run (c : cfg) (sids : list Z) (st : head * list (Z * appender)) (ops : list op) : list mob :=
  match ops with
  | [] => []
  | o :: r => let '(h, apps, m) := step c sids st o in m :: run c sids (h, apps) r
  end.

(* ------------------------------------------------------------------ agree *)
Definition snap_eqb (a b : snap) : bool :=
  (sn_minValid a =? sn_minValid b) && (sn_headMaxt a =? sn_headMaxt b) && (sn_oooWin a =? sn_oooWin b).
Definition osnap_eqb (a b : option snap) : bool :=
  match a, b with Some x, Some y => snap_eqb x y | None, None => true | _, _ => false end.

Fixpoint all2 {A B} (f : A -> B -> bool) (l : list A) (m : list B) : bool :=
  match l, m with
  | [], [] => true
  | x :: l', y :: m' => f x y && all2 f l' m'
  | _, _ => false
  end.

(* observed samples of one series against the model's candidates *)
Definition samples_match (cand : list (Z * list value)) (obs : list sample) : bool :=
  all2 (fun c o => (fst c =? fst o) && existsb (fun v => value_eqb v (snd o)) (snd c)) cand obs.

Definition query_match (mq : list (Z * list (Z * list value))) (q : qres) : bool :=
  all2 (fun m o => (fst m =? fst o) && samples_match (snd m) (snd o)) mq q.

Definition ob_match (m : mob) (o : ob) : bool :=
  match m, o with
  | MNone, BNone => true
  | MSnap s, BSnap s' => osnap_eqb s s'
  | MApp e s, BApp e' s' => (e =? e') && osnap_eqb s s'
  | MEnd q, BEnd e q' => (e =? 0) && query_match q q'
  | _, _ => false
  end.

Definition agree (c : case) : bool :=
  all2 ob_match (run (c_cfg c) (c_sids c) (head0, []) (c_ops c)) (c_obs c).

(* ------------------------------------------------------------------ holds
   The property evaluated on the implementation's own observations, with a specification that
   only talks about what is visible: the samples a query returns, the appender's window, and
   the documented decision table.  Nothing below uses the model's run. *)

(* specification state: per series the visible samples (ascending), each flagged with whether it
   was stored in order (the flag is the specification's own bookkeeping; the observed query is
   compared without it) *)
Definition fsample := (Z * list value * bool)%type.
   (* timestamp, stored values at that timestamp (see vis_insert), stored in order *)
Definition fq := list (Z * list fsample).
Fixpoint q_lookup (q : fq) (sid : Z) : list fsample :=
  match q with [] => [] | (k, l) :: r => if k =? sid then l else q_lookup r sid end.
Fixpoint q_set (q : fq) (sid : Z) (l : list fsample) : fq :=
  match q with
  | [] => [(sid, l)]
  | (k, l') :: r => if sid <? k then (sid, l) :: q
                    else if k =? sid then (k, l) :: r else (k, l') :: q_set r sid l
  end.
(* the series' newest in-order sample *)
Definition newest (l : list fsample) : option sample :=
  fold_left (fun (m : option sample) (p : fsample) =>
               if snd p then match snd (fst p) with v :: _ => Some (fst (fst p), v) | [] => m end else m) l None.

(* documented decision: accept in order / accept as exact duplicate (no-op) / accept out of
   order / reject *)
Inductive dec := DIn | DNoop | DOOO | DRej (e : aerr).

Definition spec_decision (nw : option sample) (t : Z) (v : value) (sn : snap) : dec :=
  let below :=
    if 0 <? sn_oooWin sn then
      (if sub64 (sn_headMaxt sn) (sn_oooWin sn) <=? t then DOOO else DRej ETooOld)
    else if t <? sn_minValid sn then DRej EOOB else DRej EOOO in
  if t <? sn_minValid sn then below
  else match nw with
       | None => DIn
       | Some (mx, lv) =>
           if mx <? t then DIn
           else if mx =? t then (if value_eqb lv v then DNoop else DRej EDup)
           else below
       end.

Definition dec_code (v2 discard flag : bool) (v : value) (d : dec) : Z :=
  match d with
  | DIn | DNoop => 0
  | DOOO => if v2 then (if flag then 2 else 0)
            else match v with VF _ => if discard then 2 else 0 | _ => 0 end
  | DRej e => if v2 && flag && match e with ETooOld => true | _ => false end then 2 else err_code e
  end.

(* storing a sample whose timestamp is already stored for the series (possible only out of
   order: OOOChunk.Insert detects duplicates in the current OOO head chunk only, and never
   against the in-order chunks): which of the stored values a query returns is not part of this
   property, so all of them are kept as candidates; the in-order one first *)
Fixpoint vis_insert (l : list fsample) (t : Z) (v : value) (io : bool) : list fsample :=
  match l with
  | [] => [(t, [v], io)]
  | (t', vs, f') :: r => if t <? t' then (t, [v], io) :: l
                         else if t =? t' then (if io then (t', v :: vs, true) else (t', vs ++ [v], f')) :: r
                         else (t', vs, f') :: vis_insert r t v io
  end.

(* committing one accepted sample "as if appended separately" under the appender's window:
   a float staleness marker takes the type of the newest in-order sample of the series.
   Returns the series and the timestamp if it was stored in order. *)
Definition spec_commit_one (sn : snap) (l : list fsample) (t : Z) (v : value) : list fsample * option Z :=
  let v' := if is_stale_float v then
              match newest l with Some (_, VH _) => VH 0 | Some (_, VFH _) => VFH 0 | _ => v end
            else v in
  match spec_decision (newest l) t v' sn with
  | DIn => (vis_insert l t v' true, Some t)
  | DNoop => (l, None)
  | DOOO => (vis_insert l t v' false, None)
  | DRej _ => (l, None)
  end.

(* ha_types: which histogram type the appender last used for a series in its current batch
   (typesInBatch) — the only appender-internal state the rules refer to: a float staleness marker
   appended after histograms of the same series through the same appender is typed like them.
   It is tracked with the model's add_entry (batching rule of getCurrentBatch). *)
Record happ := mkH { ha_v2 : bool; ha_discard : bool; ha_snap : option snap; ha_acc : list entry;
                     ha_types : appender }.
Definition app0 := mkApp false false None [] [].
Fixpoint lookup_h (m : list (Z * happ)) (k : Z) : option happ :=
  match m with [] => None | (k', a) :: r => if k' =? k then Some a else lookup_h r k end.
Fixpoint remove_h (m : list (Z * happ)) (k : Z) : list (Z * happ) :=
  match m with [] => [] | (k', a) :: r => if k' =? k then remove_h r k else (k', a) :: remove_h r k end.

Definition fq_matches (a : fq) (b : qres) : bool :=
  all2 (fun x y => (fst x =? fst y) &&
                   all2 (fun (s : fsample) (s' : sample) =>
                           (fst (fst s) =? fst s') && existsb (fun v => value_eqb v (snd s')) (snd (fst s)))
                        (snd x) (snd y))
       (filter (fun p => match snd p with [] => false | _ => true end) a) b.

(* the window "as it was when the appender was created": from the head's newest in-order
   timestamp, the chunk range and the stored minValidTime *)
Definition spec_window (c : cfg) (hmax minv : Z) (sn : snap) : bool :=
  snap_eqb sn (mkSnap (Z.max (sub64 hmax (godiv (c_chunkRange c) 2)) minv) hmax (c_oooWin c)).

(* state: specification view of the stored samples, stored minValidTime, the head's max time
   (None until the first append initialises it), open appenders *)
Record hstate := mkHS { hs_q : fq; hs_minv : Z; hs_hmax : option Z; hs_apps : list (Z * happ) }.

Definition hold_step (c : cfg) (st : hstate) (o : op) (b : ob) : hstate * bool :=
  match o, b with
  | ONew a v2, BSnap s =>
      let ok := match s, hs_hmax st with
                | Some sn, Some hm => spec_window c hm (hs_minv st) sn
                | None, None => true
                | _, _ => false
                end in
      (mkHS (hs_q st) (hs_minv st) (hs_hmax st) ((a, mkH v2 false s [] app0) :: remove_h (hs_apps st) a), ok)
  | OSetOpt a d, BNone =>
      match lookup_h (hs_apps st) a with
      | Some ha =>
          let ha' := match ha_snap ha with Some _ => mkH (ha_v2 ha) d (ha_snap ha) (ha_acc ha) (ha_types ha) | None => ha end in
          (mkHS (hs_q st) (hs_minv st) (hs_hmax st) ((a, ha') :: remove_h (hs_apps st) a), true)
      | None => (st, true)
      end
  | OApp a flag sid t v, BApp e (Some sn) =>
      match lookup_h (hs_apps st) a with
      | Some ha =>
          (* an appender created on an empty head takes its window at its first append, after
             the head's times were initialised with that append's timestamp *)
          let hmax := match hs_hmax st with Some hm => hm | None => t end in
          let win := match ha_snap ha with
                     | Some sn0 => snap_eqb sn0 sn          (* the snapshot never changes *)
                     | None => spec_window c hmax (hs_minv st) sn
                     end in
          let v' := if is_stale_float v then
                      match lookup_type (a_types (ha_types ha)) sid with
                      | Some THist | Some TCHist => VH 0 | Some TFHist | Some TCFHist => VFH 0 | _ => v end
                    else v in
          (* decision table *)
          let table :=
            e =? dec_code (ha_v2 ha) (ha_discard ha) flag v'
                          (spec_decision (newest (q_lookup (hs_q st) sid)) t v' sn) in
          let ha' := if e =? 0
                     then mkH (ha_v2 ha) (ha_discard ha) (Some sn) (ha_acc ha ++ [(sid, t, v')])
                              (add_entry (ha_types ha) (sid, t, v'))
                     else mkH (ha_v2 ha) (ha_discard ha) (Some sn) (ha_acc ha) (ha_types ha) in
          (mkHS (hs_q st) (hs_minv st) (Some hmax) ((a, ha') :: remove_h (hs_apps st) a), win && table)
      | None => (st, false)
      end
  | OCommit a, BEnd e q =>
      match lookup_h (hs_apps st) a with
      | Some ha =>
          let sn := match ha_snap ha with Some sn => sn | None => default_snap end in
          let '(want, hm) :=
            fold_left (fun '(q0, hm) en =>
                         let '(l, r) := spec_commit_one sn (q_lookup q0 (e_sid en)) (e_t en) (e_val en) in
                         (q_set q0 (e_sid en) l,
                          match r, hm with
                          | Some t, Some m => Some (Z.max t m)
                          | Some t, None => Some t
                          | None, _ => hm end))
                      (ha_acc ha) (hs_q st, hs_hmax st) in
          (mkHS want (hs_minv st) hm (remove_h (hs_apps st) a), (e =? 0) && fq_matches want q)
      | None => (st, false)
      end
  | ORollback a, BEnd e q =>
      (mkHS (hs_q st) (hs_minv st) (hs_hmax st) (remove_h (hs_apps st) a), (e =? 0) && fq_matches (hs_q st) q)
  | OMinValid t, BNone => (mkHS (hs_q st) t (hs_hmax st) (hs_apps st), true)
  | _, _ => (st, false)
  end.

(* index of the first operation at which the specification fails, -1 if none *)
Fixpoint hold_run (c : cfg) (st : hstate) (ops : list op) (obs : list ob) (i : Z) : Z :=
  match ops, obs with
  | [], [] => -1
  | o :: r, b :: r' => let '(st', ok) := hold_step c st o b in if ok then hold_run c st' r r' (i + 1) else i
  | _, _ => i
  end.

Definition first_failure (c : case) : Z :=
  hold_run (c_cfg c) (mkHS [] minInt64 None []) (c_ops c) (c_obs c) 0.
Definition holds (c : case) : bool := first_failure c =? -1.

Definition mismatches (cs : list case) : list Z := map c_id (filter (fun c => negb (agree c)) cs).
Definition failing_holds (cs : list case) : list Z := map c_id (filter (fun c => negb (holds c)) cs).

(* corr/CorrC34.v — correspondence (agree) and specification (holds) checkers for C34.

   Three kinds of case, all produced by running the real code of /repo/promql:
   - CPair : one (ratio r, offset off) pair; the harness called the real
     HashRatioSampler.AddRatioSampleWithOffset with r, with the complement c = r - 1 (computed
     in Go, float64) and with a second ratio r2.
   - CHash : one real label set: its labels.Hash() and the real SampleOffset of it.
   - CQuery: a generated vector loaded into a real TSDB and queried through the real PromQL
     engine with limit_ratio(r, v), limit_ratio(c, v), limit_ratio(r2, v) and variants of the
     first query (other sample values, `by` grouping, sub-vector, range query steps).
   Floats travel as their IEEE-754 bit patterns (Z). *)
From Coq Require Import ZArith List Bool Floats.
From Verif Require Import model.LimitRatio.
Import ListNotations.
Open Scope Z_scope.

(* observation of one query: the ids (ascending) of the selected series, or an error *)
Inductive qobs := QSel (ids : list Z) | QErr.

(* a variant of the r-query restricted to the sub-vector `v_sub` (ids, ascending) *)
Record variant := mkVar { v_sub : list Z; v_obs : qobs }.

(* one series of the generated vector: id, labels.Hash(), observed SampleOffset bits *)
Record srow := mkRow { s_id : Z; s_hash : Z; s_off : Z }.

(* observation of a range query: per step the ids (ascending) of the series that got a point *)
Inductive robs := RSteps (steps : list (list Z)) | RErr.

Inductive case :=
| CPair (id : Z) (r off c r2 : Z) (sel_r sel_c sel_r2 : bool)
| CHash (id : Z) (h : Z) (off : Z)
| CQuery (id : Z) (r c r2 : Z) (tbl : list srow) (o_r o_c o_r2 : qobs) (vars : list variant)
(* range query with a step-varying ratio: rs = the ratio at each step, cs = Go's rs[k] - 1;
   every series of tbl has a sample at every step *)
| CRange (id : Z) (rs cs : list Z) (tbl : list srow) (o_r o_c : robs).

Definition c_id (c : case) : Z :=
  match c with CPair id _ _ _ _ _ _ _ => id | CHash id _ _ => id | CQuery id _ _ _ _ _ _ _ _ => id
  | CRange id _ _ _ _ _ => id end.

(* ---------- small helpers ---------- *)
Fixpoint zlist_eqb (a b : list Z) : bool :=
  match a, b with
  | [], [] => true
  | x :: a', y :: b' => (x =? y) && zlist_eqb a' b'
  | _, _ => false
  end.
Definition zmem (x : Z) (l : list Z) : bool := existsb (Z.eqb x) l.

Definition qobs_eqb (a b : qobs) : bool :=
  match a, b with
  | QSel x, QSel y => zlist_eqb x y
  | QErr, QErr => true
  | _, _ => false
  end.

(* the tabulated hash oracle: label-set id -> labels.Hash() *)
Fixpoint lookup_hash (tbl : list srow) (id : Z) : Z :=
  match tbl with
  | [] => 0
  | row :: t => if s_id row =? id then s_hash row else lookup_hash t id
  end.

(* the model's answer for the vector `ids` (label sets are named by their ids; the payload is unit) *)
Definition model_query (tbl : list srow) (f : float) (ids : list Z) : qobs :=
  match limit_ratio Z unit (lookup_hash tbl) f (map (fun i => (i, tt)) ids) with
  | Selected v => QSel (map fst v)
  | ErrNaN => QErr
  end.

Fixpoint zll_eqb (a b : list (list Z)) : bool :=
  match a, b with
  | [], [] => true
  | x :: a', y :: b' => zlist_eqb x y && zll_eqb a' b'
  | _, _ => false
  end.
Definition robs_eqb (a b : robs) : bool :=
  match a, b with
  | RSteps x, RSteps y => zll_eqb x y
  | RErr, RErr => true
  | _, _ => false
  end.

(* the model's answer for a range query: one ratio per step, the same vector at every step *)
Definition model_range (tbl : list srow) (fs : list float) (ids : list Z) : robs :=
  match limit_ratio_range Z unit (lookup_hash tbl) fs (map (fun _ => map (fun i => (i, tt)) ids) fs) with
  | RSelected st => RSteps (map (map fst) st)
  | RErrNaN => RErr
  end.

Definition in01 (f : float) : bool := PrimFloat.leb zero f && PrimFloat.leb f one.

(* ---------- agree: model vs implementation, bit for bit ---------- *)
Definition agree (c : case) : bool :=
  match c with
  | CPair _ r off cc r2 sr sc sr2 =>
      let fr := float_of_bits r in let fo := float_of_bits off in
      (bits_of_float (complement fr) =? bits_of_float (float_of_bits cc)) &&
      Bool.eqb (add_ratio_sample fr fo) sr &&
      Bool.eqb (add_ratio_sample (float_of_bits cc) fo) sc &&
      Bool.eqb (add_ratio_sample (float_of_bits r2) fo) sr2
  | CHash _ h off => bits_of_float (sample_offset h) =? off
  | CQuery _ r cc r2 tbl o_r o_c o_r2 vars =>
      let fr := float_of_bits r in
      let ids := map s_id tbl in
      (bits_of_float (complement fr) =? bits_of_float (float_of_bits cc)) &&
      forallb (fun row => bits_of_float (sample_offset (s_hash row)) =? s_off row) tbl &&
      qobs_eqb (model_query tbl fr ids) o_r &&
      qobs_eqb (model_query tbl (float_of_bits cc) ids) o_c &&
      qobs_eqb (model_query tbl (float_of_bits r2) ids) o_r2 &&
      forallb (fun v => qobs_eqb (model_query tbl fr (v_sub v)) (v_obs v)) vars
  | CRange _ rs cs tbl o_r o_c =>
      let frs := map float_of_bits rs in let fcs := map float_of_bits cs in
      let ids := map s_id tbl in
      zlist_eqb (map (fun f => bits_of_float (complement f)) frs) (map bits_of_float fcs) &&
      forallb (fun row => bits_of_float (sample_offset (s_hash row)) =? s_off row) tbl &&
      robs_eqb (model_range tbl frs ids) o_r &&
      robs_eqb (model_range tbl fcs ids) o_c
  end.

(* ---------- holds: the property statement on the implementation's own output ----------
   For a ratio r in [0,1]:
   (partition) limit_ratio(r, v) and limit_ratio(r - 1, v) are disjoint and their union is v —
               for a single offset: exactly one of r and r - 1 selects it;
   (monotone)  r <= r2 (both in [0,1]): everything selected by r is selected by r2;
   (labels)    whether a series is selected does not change when the sample values, the
               grouping or the rest of the vector change: every variant selects exactly
               (selection of the base query) ∩ (its sub-vector).
   Nothing here uses the model (only float comparisons to decide which clauses apply). *)
Definition subset (a b : list Z) : bool := forallb (fun x => zmem x b) a.

Definition holds (c : case) : bool :=
  match c with
  | CPair _ r off _ r2 sr sc sr2 =>
      let fr := float_of_bits r in let fo := float_of_bits off in let fr2 := float_of_bits r2 in
      if in01 fr && in01 fo then
        xorb sr sc &&
        (if in01 fr2 && PrimFloat.leb fr fr2 then implb sr sr2 else true)
      else true
  | CHash _ h off => let fo := float_of_bits off in in01 fo
  | CQuery _ r _ r2 tbl o_r o_c o_r2 vars =>
      let fr := float_of_bits r in let fr2 := float_of_bits r2 in
      let ids := map s_id tbl in
      if in01 fr then
        match o_r, o_c with
        | QSel a, QSel b =>
            forallb (fun i => xorb (zmem i a) (zmem i b)) ids &&
            subset a ids && subset b ids &&
            (if in01 fr2 && PrimFloat.leb fr fr2
             then match o_r2 with QSel a2 => subset a a2 | QErr => false end else true) &&
            forallb (fun v => match v_obs v with
                              | QSel s => zlist_eqb s (filter (fun i => zmem i a) (v_sub v))
                              | QErr => false end) vars
        | _, _ => false
        end
      else true
  | CRange _ rs _ tbl o_r o_c =>
      (* every step's ratio in [0,1]: at every step the two selections partition the vector *)
      let ids := map s_id tbl in
      if forallb (fun r => in01 (float_of_bits r)) rs then
        match o_r, o_c with
        | RSteps sa, RSteps sb =>
            (Z.of_nat (length sa) =? Z.of_nat (length rs)) && (Z.of_nat (length sb) =? Z.of_nat (length rs)) &&
            forallb (fun ab => let a := fst ab in let b := snd ab in
                       forallb (fun i => xorb (zmem i a) (zmem i b)) ids && subset a ids && subset b ids)
                    (combine sa sb)
        | _, _ => false
        end
      else true
  end.

Definition mismatches (cs : list case) : list Z := map c_id (filter (fun c => negb (agree c)) cs).
Definition failing_holds (cs : list case) : list Z := map c_id (filter (fun c => negb (holds c)) cs).

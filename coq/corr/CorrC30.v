(* corr/CorrC30.v — correspondence (agree) and specification (holds) checkers for C30 cases.
   A case is one float series (timestamp, value, start timestamp), an instant-query
   evaluation time, a range and an offset, and what the real PromQL engine returned for
   rate/increase/delta/irate/idelta/resets/changes over that range selector (absent, or the
   float64 result as an exact rational), plus whether rate() raised the start-time-overlap
   warning. *)
From Coq Require Import List ZArith QArith Qabs Bool Floats Uint63.
From Verif Require Import model.Rate.
Import ListNotations.
Open Scope Z_scope.

(* ---- the float64 oracle for the threshold comparison, evaluated with Coq's IEEE-754
        binary64 primitive floats (same format and rounding as Go's float64) ---- *)
Definition fz (z : Z) : float := PrimFloat.of_uint63 (Uint63.of_Z z).
Definition fge64 (d S n : Z) : bool :=
  let avg := if 0 <? n then (fz S / 1000 / fz n)%float else 0%float in
  PrimFloat.leb (avg * 0x1.199999999999ap0)%float (fz d / 1000)%float.

(* the assumed property of the oracle, checked on the arguments a case actually uses *)
Definition fge_ok_at (d S n : Z) : bool :=
  match Qcompare (ms d) (thr S n) with
  | Gt => fge64 d S n
  | Lt => negb (fge64 d S n)
  | Eq => true
  end.

Record case := mkCase {
  c_id : Z;
  c_samples : list sample;
  c_use_st : bool;
  c_ts : Z; c_range : Z; c_off : Z;
  c_rate : option Q; c_increase : option Q; c_delta : option Q;
  c_irate : option Q; c_idelta : option Q; c_resets : option Q; c_changes : option Q;
  c_overlap : bool;
  (* rate() as a range query ending at c_ts: (step timestamp, result) *)
  c_steps : list (Z * option Q)
}.

(* |o - m| <= 1e-9 * |m|  (exact when m = 0) *)
Definition close (o m : Q) : bool :=
  Qle_bool (Qabs (o - m)%Q) ((1 # 1000000000) * Qabs m)%Q.
Definition oclose (o m : option Q) : bool :=
  match o, m with
  | None, None => true
  | Some a, Some b => close a b
  | _, _ => false
  end.
Definition oexact (o m : option Q) : bool :=
  match o, m with
  | None, None => true
  | Some a, Some b => Qeq_bool a b
  | _, _ => false
  end.

Definition ev (c : case) (f : fn) : option Q :=
  eval fge64 f (c_use_st c) (c_samples c) (c_ts c) (c_range c) (c_off c).

Definition oracle_ok (c : case) : bool :=
  let re := c_ts c - c_off c in
  let rs := re - c_range c in
  match window (c_samples c) rs re with
  | [] => true
  | first :: rest =>
      let lst := last rest first in
      let S := sT lst - sT first in
      let n := Z.of_nat (length rest) in
      fge_ok_at (sT first - rs) S n && fge_ok_at (re - sT lst) S n
  end.

Definition agree (c : case) : bool :=
  oracle_ok c &&
  oclose (c_rate c) (ev c FRate) &&
  oclose (c_increase c) (ev c FIncrease) &&
  oclose (c_delta c) (ev c FDelta) &&
  oclose (c_irate c) (ev c FIrate) &&
  oclose (c_idelta c) (ev c FIdelta) &&
  oexact (c_resets c) (ev c FResets) &&
  oexact (c_changes c) (ev c FChanges) &&
  Bool.eqb (c_overlap c)
           (c_use_st c && eval_overlap_warning (c_use_st c) (c_samples c) (c_ts c) (c_range c) (c_off c)) &&
  (* every step of the range query is the instant query at that step *)
  forallb (fun st => oclose (snd st)
                       (eval fge64 FRate (c_use_st c) (c_samples c) (fst st) (c_range c) (c_off c)))
          (c_steps c).

(* ---- the property on the implementation's own output, independent of the model's result:
   (a) results equal the documented algorithm [doc_change]/[doc_rate] evaluated with exact
       threshold comparison wherever the comparison is not an exact tie (at a tie both
       documented outcomes are accepted);
   (b) non-negative samples => rate and increase are present together and non-negative;
   (c) increase = rate * range seconds up to rounding;
   (d) resets / changes are integers in [0, samples-1], resets <= changes when no start
       timestamps are used, idelta/irate present iff at least two samples (timestamps are
       strictly increasing in every case), absent results exactly when too few samples. *)
Definition nonneg_samples (w : list sample) : bool := forallb (fun s => Qle_bool 0 (sV s)) w.

Definition doc_options (is_counter : bool) (w : list sample) (rs re : Z) : list (option Q) :=
  (* all four outcomes of the two threshold comparisons that are consistent with exact
     arithmetic: away from a tie only the exact outcome, at a tie both *)
  match w with
  | [] => [None]
  | first :: rest =>
      let lst := last rest first in
      let S := sT lst - sT first in
      let n := Z.of_nat (length rest) in
      let outs (d : Z) := match Qcompare (ms d) (thr S n) with
                          | Gt => [true] | Lt => [false] | Eq => [true; false] end in
      let dl := sT first - rs in
      let dr := re - sT lst in
      flat_map (fun bl => map (fun br =>
          doc_change (fun d _ _ => if d =? dl then bl else br)
                     is_counter w rs re) (outs dr)) (outs dl)
  end.

(* documented irate / idelta: from the last two samples of the window; the per-second instant
   rate restarts from zero after a reset *)
Definition doc_instant (is_rate : bool) (w : list sample) : option Q :=
  match length w <? 2, w with
  | true, _ => None
  | false, _ =>
      let l := last w (mkS 0 0 0) in
      let p := last (removelast w) (mkS 0 0 0) in
      let d := if is_rate
               then (if is_reset p l then sV l else sV l - sV p)%Q
               else (sV l - sV p)%Q in
      Some (if is_rate then d / ms (sT l - sT p) else d)%Q
  end%nat.

Definition isint_between (q : Q) (lo hi : Z) : bool :=
  let z := (Qnum q / Z.pos (Qden q)) in
  Qeq_bool q (inject_Z z) && (lo <=? z) && (z <=? hi).

Definition holds (c : case) : bool :=
  let re := c_ts c - c_off c in
  let rs := re - c_range c in
  let w0 := window (c_samples c) rs re in
  let w := eff (c_use_st c) w0 in
  let len := Z.of_nat (length w0) in
  let rsec := ms (c_range c) in
  (* (a) documented algorithm *)
  (let docs := doc_options true w rs re in
   existsb (fun d => oclose (c_increase c) d) docs &&
   existsb (fun d => oclose (c_rate c) (option_map (fun x => x / rsec)%Q d)) docs) &&
  existsb (fun d => oclose (c_delta c) d) (doc_options false (eff false w0) rs re) &&
  (* (b) sign *)
  (if nonneg_samples w0 then
     match c_rate c, c_increase c with
     | Some r, Some i => Qle_bool 0 r && Qle_bool 0 i
     | None, None => true
     | _, _ => false
     end
   else true) &&
  (* (c) increase = rate * range *)
  match c_rate c, c_increase c with
  | Some r, Some i => close i (r * rsec)%Q
  | None, None => true
  | _, _ => false
  end &&
  (* (d) discrete facts *)
  match c_resets c, c_changes c with
  | None, None => len =? 0
  | Some r, Some ch =>
      (0 <? len) && isint_between r 0 (len - 1) && isint_between ch 0 (len - 1) &&
      (c_use_st c || Qle_bool r ch)
  | _, _ => false
  end &&
  oclose (c_irate c) (doc_instant true w) && oclose (c_idelta c) (doc_instant false w0) &&
  match c_irate c, c_idelta c with
  | None, None => len <? 2
  | Some ir, Some _ => (2 <=? len) && (if nonneg_samples w0 then Qle_bool 0 ir else true)
  | _, _ => false
  end &&
  (if len <? 2 then match c_delta c with None => true | Some _ => false end
   else match c_delta c with Some _ => true | None => false end) &&
  (* range-query steps: documented algorithm on the step's own window, and sign *)
  forallb (fun st =>
      let re' := fst st - c_off c in
      let rs' := re' - c_range c in
      let w' := window (c_samples c) rs' re' in
      existsb (fun d => oclose (snd st) (option_map (fun x => x / rsec)%Q d))
              (doc_options true (eff (c_use_st c) w') rs' re') &&
      (if nonneg_samples w' then match snd st with Some r => Qle_bool 0 r | None => true end else true))
    (c_steps c).

Definition mismatches (cs : list case) : list Z := map c_id (filter (fun c => negb (agree c)) cs).
Definition failing_holds (cs : list case) : list Z := map c_id (filter (fun c => negb (holds c)) cs).

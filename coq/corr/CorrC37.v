(* corr/CorrC37.v — correspondence (agree) and specification (holds) checkers for C37 cases.

   One case = one scrape history of one target, run through the real scrapeLoop
   (scrapeAndReport per scrape, endOfRunStaleness at the end) against a recording storage:
     c_cfg    the scrape configuration,
     c_mut    the relabeling oracle, tabulated for every metric text of the history
              (0 = dropped, 1 = scrape rejected, k+2 = kept with label set k),
     c_rep    the label sets of the report series (after reportSampleMutator),
     c_steps  the history (scrape time, series garbage collected by the storage before the
              scrape, outcome),
     c_obs    per step the appenders the loop opened, each with Commit/Rollback and every
              Append call that reached the storage (ref in, label set, t, value, ref out / 0).
   agree: model/Scrape.v run on the same history yields the same appends (order of each run of
          staleness markers canonicalised: Go map iteration).
   holds: the property evaluated on the implementation's output with a small reference
          semantics (the set of label sets tracked for staleness), independent of the model. *)
From Coq Require Import List ZArith Bool Uint63.
From Verif Require Import model.Scrape.
Import ListNotations.
Open Scope Z_scope.

Record case := mkCase {
  c_id : Z;
  c_cfg : cfg;
  c_mut : list (Z * Z);
  c_rep : list Z;
  c_steps : list step;
  c_obs : list (list batch)
}.

(* ---------------------------------------------------------------- wire format
   every number is a primitive 63-bit integer literal (Z literals cost milliseconds each) *)
Definition zi (i : int) : Z := Uint63.to_Z i.
Definition wval (i : int) : val :=
  let z := zi i in
  if z =? 0 then VStale else if z =? 1 then VDur else if z =? 2 then VOther else VI (z - 10).
Definition a (rin l t v rout : int) : app := mkApp (zi rin) (zi l) (zi t) (wval v) (zi rout).
Definition b (commit : bool) (l : list app) : batch := mkBatch commit l.
Definition e (m t v : int) : body_entry :=
  mkE (zi m) (if zi t =? 0 then None else Some (zi t - 1)) (zi v).
Definition sb (t : int) (gc : list int) (es : list body_entry) (bad : bool) (len : int) : step :=
  mkStep (zi t) (map zi gc) (OBody es bad (zi len)).
Definition sf (t : int) (gc : list int) (bs : bool) : step := mkStep (zi t) (map zi gc) (OFail bs).
Definition sg (t : int) (gc : list int) : step := mkStep (zi t) (map zi gc) OGone.
Definition cf (honor track : bool) (limit : int) (extra : bool) (timeout minv maxv : int) : cfg :=
  mkCfg honor track (zi limit) extra (zi timeout) (zi minv) (zi maxv).
Definition mt (m r : int) : Z * Z := (zi m, zi r).
Definition mk (id : int) (c : cfg) (m : list (Z * Z)) (r : list int) (s : list step)
    (o : list (list batch)) : case := mkCase (zi id) c m (map zi r) s o.

Definition mut_of (tbl : list (Z * Z)) (m : Z) : mres :=
  match aget m tbl with
  | Some code => if code =? 0 then MDrop else if code =? 1 then MErr else MKeep (code - 2)
  | None => MErr
  end.
Definition rep_of (l : list Z) (i : Z) : Z := nth (Z.to_nat i) l 0.

(* ---------------------------------------------------------------- canonical form *)
Definition val_eqb (x y : val) : bool :=
  match x, y with
  | VI p, VI q => p =? q
  | VStale, VStale => true
  | VDur, VDur => true
  | VOther, VOther => true
  | _, _ => false
  end.
Definition app_eqb (x y : app) : bool :=
  (a_rin x =? a_rin y) && (a_lset x =? a_lset y) && (a_t x =? a_t y) &&
  val_eqb (a_val x) (a_val y) && (a_rout x =? a_rout y).
Fixpoint list_eqb {A} (eqb : A -> A -> bool) (l1 l2 : list A) : bool :=
  match l1, l2 with
  | [], [] => true
  | x :: r1, y :: r2 => eqb x y && list_eqb eqb r1 r2
  | _, _ => false
  end.
Fixpoint list_eqb2 {A B} (eqb : A -> B -> bool) (l1 : list A) (l2 : list B) : bool :=
  match l1, l2 with
  | [], [] => true
  | x :: r1, y :: r2 => eqb x y && list_eqb2 eqb r1 r2
  | _, _ => false
  end.
Definition batch_eqb (x y : batch) : bool :=
  Bool.eqb (b_commit x) (b_commit y) && list_eqb app_eqb (b_apps x) (b_apps y).

Definition app_leb (x y : app) : bool :=
  if a_lset x <? a_lset y then true else if a_lset y <? a_lset x then false else
  if a_rin x <? a_rin y then true else if a_rin y <? a_rin x then false else
  a_rout x <=? a_rout y.
Fixpoint insert_app (x : app) (l : list app) : list app :=
  match l with
  | [] => [x]
  | y :: r => if app_leb x y then x :: l else y :: insert_app x r
  end.
(* sort every maximal run of staleness-marker appends *)
Fixpoint canon_apps (l run : list app) : list app :=
  match l with
  | [] => run
  | x :: r => if is_stale (a_val x) then canon_apps r (insert_app x run)
              else run ++ x :: canon_apps r []
  end.
Definition canon_batch (x : batch) : batch := mkBatch (b_commit x) (canon_apps (b_apps x) []).

Definition model_out (c : case) : list (list batch) :=
  run (c_cfg c) (mut_of (c_mut c)) (rep_of (c_rep c)) (c_steps c).

Definition agree (c : case) : bool :=
  list_eqb (list_eqb batch_eqb)
           (map (map canon_batch) (model_out c))
           (map (map canon_batch) (c_obs c)).

(* ---------------------------------------------------------------- holds: reference semantics *)
Definition memb (x : Z) (l : list Z) : bool := existsb (Z.eqb x) l.
Definition subset (l1 l2 : list Z) : bool := forallb (fun x => memb x l2) l1.
Definition set_eqb (l1 l2 : list Z) : bool := subset l1 l2 && subset l2 l1.

Record sres := mkS {
  sr_samples : list (Z * Z * Z);   (* (label set, t, value) to be stored, newest first *)
  sr_tracked : list Z;             (* label sets tracked for staleness by this scrape *)
  sr_count : Z;                    (* samples counted against sample_limit *)
  sr_added : Z;                    (* samples remaining after relabeling *)
  sr_err : bool;                   (* a series rejected by validation / label limits *)
  sr_corner : bool;                (* see [spec_entry] *)
  sr_ok : list Z; sr_rej : list Z  (* metric texts already seen in this body: stored / rejected *)
}.

(* One exposition line.  A line without explicit timestamp whose metric text already appeared
   in this body is a duplicate and is not stored.  Corner left open by the property text (and
   decided by cache history in the code): such a line when every earlier line of that text was
   rejected by the storage (out of bounds) — [sr_corner]; holds is not evaluated on histories
   containing it. *)
Definition spec_entry (c : cfg) (mut : Z -> mres) (defT : Z) (s : sres) (en : body_entry) : sres :=
  if sr_err s then s else
  let pts := if honor_ts c then en_ts en else None in
  let t := match pts with Some x => x | None => defT end in
  let nots := match pts with None => true | Some _ => false end in
  let trackable := nots || track_ts c in
  match mut (en_met en) with
  | MDrop => s
  | MErr => mkS (sr_samples s) (sr_tracked s) (sr_count s) (sr_added s) true (sr_corner s) (sr_ok s) (sr_rej s)
  | MKeep l =>
      if nots && memb (en_met en) (sr_ok s) then
        mkS (sr_samples s) (sr_tracked s) (sr_count s) (sr_added s + 1) false (sr_corner s) (sr_ok s) (sr_rej s)
      else if nots && memb (en_met en) (sr_rej s) then
        mkS (sr_samples s) (sr_tracked s) (sr_count s) (sr_added s + 1) false true (sr_ok s) (sr_rej s)
      else if (min_valid c <=? t) && (t <=? max_valid c) then
        mkS ((l, t, en_val en) :: sr_samples s)
            (if trackable then l :: sr_tracked s else sr_tracked s)
            (sr_count s + 1) (sr_added s + 1) false (sr_corner s) (en_met en :: sr_ok s) (sr_rej s)
      else
        mkS (sr_samples s) (sr_tracked s) (sr_count s + 1) (sr_added s + 1) false (sr_corner s)
            (sr_ok s) (en_met en :: sr_rej s)
  end.

Definition spec_body (c : cfg) (mut : Z -> mres) (defT : Z) (es : list body_entry) : sres :=
  fold_left (spec_entry c mut defT) es (mkS [] [] 0 0 false false [] []).

Definition body_failed (c : cfg) (s : sres) (bad : bool) : bool :=
  sr_err s || bad || ((0 <? sample_limit c) && (sample_limit c <? sr_count s)).

Definition history_has_corner (c : cfg) (mut : Z -> mres) (h : list step) : bool :=
  existsb (fun sp => match st_out sp with
                     | OBody es _ _ => sr_corner (spec_body c mut (st_time sp) es)
                     | _ => false end) h.

(* a staleness marker is effective unless the same appender already holds a sample of the same
   series (ref out) at the same timestamp: TSDB drops the later one at commit *)
Fixpoint effective_markers (seen : list (Z * Z)) (l : list app) : list app :=
  match l with
  | [] => []
  | x :: r =>
      let shadowed := existsb (fun p : Z * Z => (fst p =? a_rout x) && (snd p =? a_t x)) seen in
      let seen' := if a_rout x =? 0 then seen else (a_rout x, a_t x) :: seen in
      if is_stale (a_val x) && negb (a_rout x =? 0) && negb shadowed
      then x :: effective_markers seen' r else effective_markers seen' r
  end.

Definition nreports (c : cfg) : nat := if extra c then 8%nat else 5%nat.

Definition val_is (v : val) (z : Z) : bool := match v with VI x => x =? z | _ => false end.

(* report series: label sets in order, timestamp, values *)
Definition check_reports (c : cfg) (rep : Z -> Z) (t : Z) (l : list app)
    (up : Z) (scraped added : option Z) (bytes : option Z) (stale : bool) : bool :=
  (length l =? nreports c)%nat &&
  forallb (fun p : nat * app =>
             let '(i, x) := p in
             (a_lset x =? rep (Z.of_nat i)) && (a_t x =? t) && negb (a_rout x =? 0) &&
             (if stale then is_stale (a_val x) else
              match i with
              | 0%nat => val_is (a_val x) up
              | 1%nat => match a_val x with VDur => true | _ => false end
              | 2%nat => match scraped with Some z => val_is (a_val x) z | None => match a_val x with VI z => 0 <=? z | _ => false end end
              | 3%nat => match added with Some z => val_is (a_val x) z | None => match a_val x with VI z => 0 <=? z | _ => false end end
              | 4%nat => match a_val x with VI z => 0 <=? z | _ => false end
              | 5%nat => val_is (a_val x) (timeout_s c)
              | 6%nat => val_is (a_val x) (sample_limit c)
              | _ => match bytes with Some z => val_is (a_val x) z | None => true end
              end))
          (combine (seq 0 (length l)) l).

(* one step on the implementation's output; returns the label sets tracked afterwards *)
Definition holds_step (c : cfg) (mut : Z -> mres) (rep : Z -> Z) (tracked : list Z) (sp : step)
    (bs : list batch) : option (list Z) :=
  match rev bs with
  | [] => None
  | last :: earlier =>
      let t := st_time sp in
      let apps := b_apps last in
      let nbody := (length apps - nreports c)%nat in
      let body := firstn nbody apps in
      let reps := skipn nbody apps in
      let samples := filter (fun x => negb (is_stale (a_val x)) && negb (a_rout x =? 0)) body in
      (* every wanted marker was received at the scrape time; every EFFECTIVE marker was wanted
         (a received marker shadowed by a sample of the same series and timestamp is tolerated) *)
      let received := filter (fun x => is_stale (a_val x) && negb (a_rout x =? 0)) body in
      let markers_ok (want : list Z) :=
        forallb (fun x => a_t x =? t) received && subset want (map a_lset received)
        && subset (map a_lset (effective_markers [] body)) want in
      let shape_ok := b_commit last && forallb (fun x => negb (b_commit x)) earlier
                      && (nreports c <=? length apps)%nat in
      let failed_like (up : Z) (scraped added bytes : option Z) (stale : bool) :=
        (* nothing but markers for every tracked series, and the report *)
        if shape_ok && (length samples =? 0)%nat && markers_ok tracked
           && check_reports c rep t reps up scraped added bytes stale
        then Some [] else None in
      match st_out sp with
      | OFail bsz => failed_like 0 (Some 0) (Some 0) (Some (if bsz then -1 else 0)) false
      | OGone => failed_like 0 None None None true
      | OBody es bad len =>
          if len =? 0 then failed_like 1 (Some 0) (Some 0) (Some 0) false else
          let s := spec_body c mut t es in
          if body_failed c s bad then failed_like 0 None None (Some len) false
          else
            let now := sr_tracked s in
            if shape_ok
               && list_eqb2 (fun (x : app) (y : Z * Z * Z) =>
                              let '(l, t', v) := y in
                              (a_lset x =? l) && (a_t x =? t') && val_is (a_val x) v)
                           samples (rev (sr_samples s))
               && markers_ok (filter (fun l => negb (memb l now)) tracked)
               && check_reports c rep t reps 1 (Some (Z.of_nat (length es))) (Some (sr_added s)) (Some len) false
               && (match nth_error reps 4 with
                   | Some x => match a_val x with VI z => z <=? Z.of_nat (length samples) | _ => false end
                   | None => false end)
            then Some now else None
      end
  end.

Fixpoint holds_from (c : cfg) (mut : Z -> mres) (rep : Z -> Z) (tracked : list Z)
    (h : list step) (o : list (list batch)) : bool :=
  match h, o with
  | [], [] => true
  | sp :: h', bs :: o' =>
      match holds_step c mut rep tracked sp bs with
      | Some tr => holds_from c mut rep tr h' o'
      | None => false
      end
  | _, _ => false
  end.

Definition holds (c : case) : bool :=
  let mut := mut_of (c_mut c) in
  if history_has_corner (c_cfg c) mut (c_steps c) then true
  else holds_from (c_cfg c) mut (rep_of (c_rep c)) [] (c_steps c) (c_obs c).

Definition mismatches (cs : list case) : list Z := map c_id (filter (fun c => negb (agree c)) cs).
Definition failing_holds (cs : list case) : list Z := map c_id (filter (fun c => negb (holds c)) cs).

(* debugging aid: index of the first step at which holds_step fails (None = all steps hold) *)
Fixpoint first_bad_from (c : cfg) (mut : Z -> mres) (rep : Z -> Z) (tracked : list Z)
    (h : list step) (o : list (list batch)) (i : Z) : option Z :=
  match h, o with
  | [], [] => None
  | sp :: h', bs :: o' =>
      match holds_step c mut rep tracked sp bs with
      | Some tr => first_bad_from c mut rep tr h' o' (i + 1)
      | None => Some i
      end
  | _, _ => Some (-1)
  end.
Definition first_bad (c : case) : option Z :=
  first_bad_from (c_cfg c) (mut_of (c_mut c)) (rep_of (c_rep c)) [] (c_steps c) (c_obs c) 0.

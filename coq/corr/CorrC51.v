(* corr/CorrC51.v — correspondence (agree) and specification (holds) checkers for C51 cases.
   A case carries one query result (vector / matrix / scalar) given to the real API JSON codec
   (v1.JSONCodec.Encode of a Response), the bytes of its "result" member, the oracle tables
   (strconv.AppendFloat for every float in the document in both formats; getBoundExponential for
   every bucket index used), and what an independent decoder (encoding/json + strconv.ParseFloat,
   numbers kept as literals) read back from the bytes. *)
From Coq Require Import List ZArith NArith Bool Uint63.
From Verif Require Import lib.Int64 model.ApiJson.
Import ListNotations.
Open Scope Z_scope.

(* Byte strings in case files are packed 7 bytes per primitive 63-bit integer (big-endian inside a
   word, the last word holds the remaining len mod 7 bytes): far cheaper for Coq to parse and
   type-check than lists of numerals or string literals. *)
Fixpoint unpackZ (k : nat) (z : Z) (acc : bytes) : bytes :=
  match k with O => acc | S k' => unpackZ k' (z / 256) (Z.to_N (z mod 256) :: acc) end.
Fixpoint pk_go (ws : list int) (len : Z) : bytes :=
  match ws with
  | [] => []
  | w :: r => let k := Z.min 7 len in unpackZ (Z.to_nat k) (Uint63.to_Z w) [] ++ pk_go r (len - k)
  end.
Definition pk (ws : list int) (len : Z) : bytes := pk_go ws len.
(* integers as two 32-bit halves in primitive ints (number notations for Z are slow to interpret) *)
Definition zq (hi lo : int) : Z := Uint63.to_Z hi * 4294967296 + Uint63.to_Z lo.
Definition zn (hi lo : int) : Z := - zq hi lo.
Arguments zq (hi lo)%uint63.
Arguments zn (hi lo)%uint63.

Record dhist := mkDH { dh_count : Z; dh_sum : Z; dh_buckets : list (Z * Z * Z * Z) }.
Inductive dvalue := DVF (f : Z) | DVH (h : dhist).
Record dsample := mkDS { ds_labels : labels; ds_ts : bytes; ds_v : dvalue }.
Record dseries := mkDSer { dr_labels : labels; dr_floats : list (bytes * Z); dr_hists : list (bytes * dhist) }.
Inductive ddoc := DDVector (l : list dsample) | DDMatrix (l : list dseries) | DDScalar (ts : bytes) (v : Z).

Record case := mkCase {
  c_id : Z;
  c_doc : doc;
  c_fmt : list (Z * bytes * bytes);      (* bits |-> AppendFloat 'e', AppendFloat 'f' *)
  c_eb : list (Z * Z * Z);               (* schema, idx |-> getBoundExponential bits *)
  c_raw : option bytes;                  (* bytes of "result" as encoded; None = the encoder panicked *)
  c_dec : option ddoc                    (* independent decoding; None = not valid JSON / wrong shape *)
}.

Fixpoint lookup_fmt (t : list (Z * bytes * bytes)) (b : Z) (k : fmtk) : bytes :=
  match t with
  | [] => [0%N]                            (* not tabulated: can never equal real output *)
  | (b', e, f) :: t' => if b' =? b then (match k with FmtE => e | FmtF => f end) else lookup_fmt t' b k
  end.
Definition missing_bound : Z := 9221120237041090561.   (* a NaN: not tabulated *)
Fixpoint lookup_eb (t : list (Z * Z * Z)) (schema idx : Z) : Z :=
  match t with
  | [] => missing_bound
  | (s, i, b) :: t' => if (s =? schema) && (i =? idx) then b else lookup_eb t' schema idx
  end.

Definition bytes_eqb (a b : bytes) : bool :=
  (fix go a b := match a, b with
                 | [], [] => true
                 | x :: a', y :: b' => (x =? y)%N && go a' b'
                 | _, _ => false
                 end) a b.

Definition agree (c : case) : bool :=
  match marshal_doc (lookup_fmt (c_fmt c)) (lookup_eb (c_eb c)) (c_doc c), c_raw c with
  | Ok b, Some b' => bytes_eqb b b'
  | Panic, None => true
  | _, _ => false
  end.

(* ---------------------------------------------------------------- holds *)
Fixpoint forall2b {A B} (f : A -> B -> bool) (l : list A) (m : list B) : bool :=
  match l, m with
  | [], [] => true
  | a :: l', b :: m' => f a b && forall2b f l' m'
  | _, _ => false
  end.

(* timestamps written by MarshalTimestamp: the literal is exactly t/1000 *)
Definition ts_exact (t : Z) (lit : bytes) : bool :=
  if t =? minInt64 then true                              (* outside the API's time range *)
  else match parse_number lit with
       | Some (m, k) => m * 1000 =? t * 10 ^ k
       | None => false
       end.
(* scalar timestamps: millisecond precision = the nearest millisecond of the literal is t *)
Definition ts_nearest (t : Z) (lit : bytes) : bool :=
  match parse_number lit with
  | Some (m, k) => 2 * Z.abs (m * 1000 - t * 10 ^ k) <? 10 ^ k
  | None => false
  end.

Definition labels_eqb (a b : labels) : bool :=
  forall2b (fun x y => bytes_eqb (fst x) (fst y) && bytes_eqb (snd x) (snd y)) a b.

Definition bucket4_same (a b : Z * Z * Z * Z) : bool :=
  let '(c1, l1, u1, n1) := a in let '(c2, l2, u2, n2) := b in
  (c1 =? c2) && fsame l1 l2 && fsame u1 u2 && fsame n1 n2.

Definition hist_holds (eb : Z -> Z -> Z) (h : hist) (d : dhist) : bool :=
  if hist_valid h then
    fsame (h_count h) (dh_count d) && fsame (h_sum h) (dh_sum d) &&
    forall2b bucket4_same (spec_exposed eb h) (dh_buckets d)
  else true.

Definition holds (c : case) : bool :=
  let eb := lookup_eb (c_eb c) in
  match c_doc c, c_dec c with
  | DVector l, Some (DDVector dl) =>
      forall2b (fun s d =>
        labels_eqb (sm_labels s) (ds_labels d) && ts_exact (sm_t s) (ds_ts d) &&
        match sm_v s, ds_v d with
        | JFloat f, DVF f' => fsame f f'
        | JHist h, DVH dh => hist_holds eb h dh
        | _, _ => false
        end) l dl
  | DMatrix l, Some (DDMatrix dl) =>
      forall2b (fun s d =>
        labels_eqb (sr_labels s) (dr_labels d) &&
        forall2b (fun p q => ts_exact (fst p) (fst q) && fsame (snd p) (snd q)) (sr_floats s) (dr_floats d) &&
        forall2b (fun p q => ts_exact (fst p) (fst q) && hist_holds eb (snd p) (snd q)) (sr_hists s) (dr_hists d)) l dl
  | DScalar t v, Some (DDScalar lit v') => ts_nearest t lit && fsame v v'
  | d, None =>
      (* undecodable output is acceptable only for inputs outside the property's domain:
         a MinInt64 timestamp (outside the API's time range) or an invalid histogram *)
      match d with
      | DVector l => existsb (fun s => (sm_t s =? minInt64) ||
                                       match sm_v s with JHist h => negb (hist_valid h) | _ => false end) l
      | DMatrix l => existsb (fun s => existsb (fun p => fst p =? minInt64) (sr_floats s) ||
                                       existsb (fun p => (fst p =? minInt64) || negb (hist_valid (snd p))) (sr_hists s)) l
      | DScalar _ _ => false
      end
  | _, _ => false
  end.

Definition mismatches (cs : list case) : list Z := map c_id (filter (fun c => negb (agree c)) cs).
Definition failing_holds (cs : list case) : list Z := map c_id (filter (fun c => negb (holds c)) cs).

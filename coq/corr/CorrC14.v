(* corr/CorrC14.v — correspondence (agree) and specification (holds) checkers for C14 cases.
   A case is one record: which Encoder/Decoder pair was used, the value that was encoded by
   the real record.Encoder (None for raw/mutated byte strings), the bytes the Go encoder
   produced (or the raw bytes), what the real record.Decoder returned for those bytes, and —
   for the V1 histogram encoders — the custom-bucket leftovers the encoder handed back. *)
From Coq Require Import List NArith ZArith Bool.
From Verif Require Import lib.Int64 lib.Bytes lib.Varint model.Record.
Import ListNotations.
Open Scope N_scope.

Inductive value :=
| VSeries (l : list ref_series)
| VSamples (l : list ref_sample)
| VStones (l : list stone)
| VExemplars (l : list ref_exemplar)
| VMetadata (l : list ref_metadata)
| VMmap (l : list ref_mmap)
| VHist (l : list (rsample hist))
| VFHist (l : list (rsample fhist)).

(* which encoder produced the record; the decoder is the public Decoder method of the family *)
Inductive kind :=
| KSeries | KSamplesV1 | KSamplesV2 | KStones | KExemplars | KMetadata | KMmap
| KHistV1 | KHistV2 | KCBHistV1 | KCBHistV2        (* Encoder{EnableSTStorage}.HistogramSamples / CustomBucketsHistogramSamples *)
| KFHistV1 | KFHistV2 | KCBFHistV1 | KCBFHistV2.

Record case := mkCase {
  c_id : Z;
  c_kind : kind;
  c_val : option value;      (* the encoded value; None: c_bytes are raw/mutated bytes *)
  c_bytes : list N;          (* Go encoder output, or the raw bytes *)
  c_left : value;            (* leftovers returned by the Go encoder (empty list if none) *)
  c_obs : res value          (* Go decoder result on c_bytes *)
}.

(* ---- model side *)
Definition model_enc (k : kind) (v : value) : option (list N * value) :=
  match k, v with
  | KSeries, VSeries l => Some (enc_series l, VSeries [])
  | KSamplesV1, VSamples l => Some (enc_samples false l, VSamples [])
  | KSamplesV2, VSamples l => Some (enc_samples true l, VSamples [])
  | KStones, VStones l => Some (enc_tombstones l, VStones [])
  | KExemplars, VExemplars l => Some (enc_exemplars l, VExemplars [])
  | KMetadata, VMetadata l => Some (enc_metadata l, VMetadata [])
  | KMmap, VMmap l => Some (enc_mmap l, VMmap [])
  | KHistV1, VHist l => let r := enc_histogram_samples false l in Some (fst r, VHist (snd r))
  | KHistV2, VHist l => let r := enc_histogram_samples true l in Some (fst r, VHist (snd r))
  | KCBHistV1, VHist l => Some (enc_cb_histogram_samples false l, VHist [])
  | KCBHistV2, VHist l => Some (enc_cb_histogram_samples true l, VHist [])
  | KFHistV1, VFHist l => let r := enc_float_histogram_samples false l in Some (fst r, VFHist (snd r))
  | KFHistV2, VFHist l => let r := enc_float_histogram_samples true l in Some (fst r, VFHist (snd r))
  | KCBFHistV1, VFHist l => Some (enc_cb_float_histogram_samples false l, VFHist [])
  | KCBFHistV2, VFHist l => Some (enc_cb_float_histogram_samples true l, VFHist [])
  | _, _ => None
  end.

Definition rmap {A B} (f : A -> B) (r : res A) : res B :=
  match r with Ok a => Ok (f a) | Err e => Err e end.

Definition model_dec (k : kind) (bs : list N) : res value :=
  match k with
  | KSeries => rmap VSeries (dec_series bs)
  | KSamplesV1 | KSamplesV2 => rmap VSamples (dec_samples bs)
  | KStones => rmap VStones (dec_tombstones bs)
  | KExemplars => rmap VExemplars (dec_exemplars bs)
  | KMetadata => rmap VMetadata (dec_metadata bs)
  | KMmap => rmap VMmap (dec_mmap bs)
  | KHistV1 | KHistV2 | KCBHistV1 | KCBHistV2 => rmap VHist (dec_histogram_samples bs)
  | KFHistV1 | KFHistV2 | KCBFHistV1 | KCBFHistV2 => rmap VFHist (dec_float_histogram_samples bs)
  end.

Definition value_eqb (a b : value) : bool :=
  match a, b with
  | VSeries x, VSeries y => list_eqb series_eqb x y
  | VSamples x, VSamples y => list_eqb sample_eqb x y
  | VStones x, VStones y => list_eqb stone_eqb x y
  | VExemplars x, VExemplars y => list_eqb exemplar_eqb x y
  | VMetadata x, VMetadata y => list_eqb metadata_eqb x y
  | VMmap x, VMmap y => list_eqb mmap_eqb x y
  | VHist x, VHist y => list_eqb (rs_eqb hist_eqb) x y
  | VFHist x, VFHist y => list_eqb (rs_eqb fhist_eqb) x y
  | _, _ => false
  end.

Definition res_eqb (a b : res value) : bool :=
  match a, b with
  | Ok x, Ok y => value_eqb x y
  | Err e, Err f => err_eqb e f
  | _, _ => false
  end.

(* model and implementation agree: byte-identical encoding (and identical leftovers) of the
   value, identical decoding result (value or error class) of the bytes.  Byte-identical
   encodings make the cross round trips (Go-encode -> model-decode, model-encode -> Go-decode)
   both instances of this check. *)
Definition agree (c : case) : bool :=
  (match c_val c with
   | None => true
   | Some v => match model_enc (c_kind c) v with
               | Some (bs, lo) => bytes_eqb bs (c_bytes c) && value_eqb lo (c_left c)
               | None => false
               end
   end) &&
  res_eqb (model_dec (c_kind c) (c_bytes c)) (c_obs c).

(* ---- the property itself, on the implementation's own outputs, without the model's codecs:
   what must come back when [v] was encoded by encoder [k]. *)
Definition is_v2 (k : kind) : bool :=
  match k with KSamplesV2 | KHistV2 | KCBHistV2 | KFHistV2 | KCBFHistV2 => true | _ => false end.
Definition splits (k : kind) : bool := match k with KHistV1 | KFHistV1 => true | _ => false end.

Definition hist_custom (x : rsample hist) := is_custom (h_schema (r_h x)).
Definition fhist_custom (x : rsample fhist) := is_custom (fh_schema (r_h x)).

(* the part of the batch the record must contain *)
Definition in_record (k : kind) (v : value) : value :=
  match v with
  | VSamples l => VSamples (if is_v2 k then l else map drop_st l)
  | VStones l => VStones (canon_stones l)
  | VHist l => VHist (canon_rs canon_hist h_schema (is_v2 k)
                        (if splits k then filter (fun x => negb (hist_custom x)) l else l))
  | VFHist l => VFHist (canon_rs canon_fhist fh_schema (is_v2 k)
                        (if splits k then filter (fun x => negb (fhist_custom x)) l else l))
  | _ => v
  end.
(* the part the encoder must hand back for the separate custom-bucket record (unchanged, in order) *)
Definition leftover (k : kind) (v : value) : value :=
  match v with
  | VHist l => VHist (if splits k then filter hist_custom l else [])
  | VFHist l => VFHist (if splits k then filter fhist_custom l else [])
  | VSeries _ => VSeries [] | VSamples _ => VSamples [] | VStones _ => VStones []
  | VExemplars _ => VExemplars [] | VMetadata _ => VMetadata [] | VMmap _ => VMmap []
  end.
Definition vlen (v : value) : nat :=
  match v with
  | VSeries l => length l | VSamples l => length l | VStones l => length l | VExemplars l => length l
  | VMetadata l => length l | VMmap l => length l | VHist l => length l | VFHist l => length l
  end.
(* schemas whose decoding goes through ReduceResolution are outside the property (and the model) *)
Definition in_scope (v : value) : bool :=
  match v with
  | VHist l => forallb (fun x => negb (needs_reduce (h_schema (r_h x)))) l
  | VFHist l => forallb (fun x => negb (needs_reduce (fh_schema (r_h x)))) l
  | _ => true
  end.

Definition holds (c : case) : bool :=
  match c_val c with
  | None => true
  | Some v =>
      if negb (in_scope v) then true else
      (* leftovers: exactly the custom-bucket samples, in order; nothing lost, nothing duplicated *)
      value_eqb (c_left c) (leftover (c_kind c) v) &&
      (* the V1 histogram encoders return an EMPTY record when all samples were leftovers *)
      if splits (c_kind c) && negb (Nat.eqb (vlen v) 0) && Nat.eqb (vlen (leftover (c_kind c) v)) (vlen v)
      then match c_bytes c with [] => true | _ => false end
      else match c_obs c with
           | Ok o => value_eqb o (in_record (c_kind c) v)
           | Err _ => false
           end
  end.

Definition mismatches (cs : list case) : list Z := map c_id (filter (fun c => negb (agree c)) cs).
Definition failing_holds (cs : list case) : list Z := map c_id (filter (fun c => negb (holds c)) cs).

(* corr/CorrC45.v — correspondence (agree) and specification (holds) checkers for C45 cases.

   A case is one history over a real TSDB shared by up to three real rules.Group objects:
     c_tbl    the label sets occurring in the case (everything else refers to them by index),
     c_ops    the operations: scraped sample / marker, (re)load of a group (NewGroup +
              CopyState), Group.Eval(ts), removal of a group,
     c_events what the implementation did at the storage interface, in order: the result of
              every direct append, for every rule evaluation the Append calls of its appender
              with their error class (or that no appender was opened because rule.Eval
              failed), and the Append calls of every cleanupStaleSeries appender,
     c_store  the complete storage contents at the end (every series, every sample),
     c_batches for every (re)load, in order, what the real ruleDependencyController.AnalyseRules
              + concurrentRuleEvalController.SplitGroupIntoBatches make of the group's rules
              (rule indexes + 1, every batch terminated by 0).
   Transport: primitive 63-bit integers (Coq 8.16 parses decimal Z literals slowly); sample
   values are shifted by 2^23, 0 is the staleness marker.

   agree: the model (model/RuleGroup.v, with the instant-query evaluator [query] as query
          function) run on c_ops produces the same events (Append calls of one appender
          compared as multisets: map iteration order is random in Go) and the same store.
   holds: the property itself, replayed over the implementation's own events: see [hstep]. *)
From Coq Require Import List ZArith Bool Uint63.
From Verif Require Import model.RuleGroup.
Import ListNotations.
Open Scope Z_scope.

Record case := mkCase {
  c_id : int;
  c_tbl : list int;
  c_ops : list (list int);
  c_events : list (list int);
  c_store : list (list int);
  c_batches : list (list int)
}.

(* ---------------------------------------------------------------- decoding
   Packed transport (see the harness' printer): an Append call / sample is one integer
   t (28 bits) | value + 2^23 or 0 for the marker (24 bits) | error class (2 bits) | label set
   index; a label set is one integer with 9 bits (k*32 + v + 1) per label. *)
Definition zi (i : int) : Z := Uint63.to_Z i.
Definition voff : Z := 1048576.       (* shift of expression constants *)
Definition soff : Z := 8388608.       (* shift of sample values *)
Definition dec_val (z : Z) : val := if z =? 0 then VStale else VNum (z - soff).
(* field extraction on the primitive integer (native shifts), converted to Z afterwards *)
Definition bits (x : int) (lo n : Z) : Z :=
  zi (Uint63.land (Uint63.lsr x (Uint63.of_Z lo)) (Uint63.sub (Uint63.lsl 1%uint63 (Uint63.of_Z n)) 1%uint63)).
Definition shr (x : int) (lo : Z) : Z := zi (Uint63.lsr x (Uint63.of_Z lo)).

Fixpoint dec_lset (fuel : nat) (x : int) : lset :=
  match fuel with
  | O => []
  | S f => if zi x =? 0 then [] else
           let e := bits x 0 9 - 1 in (e / 32, e mod 32) :: dec_lset f (Uint63.lsr x 9%uint63)
  end.

Definition tbl_get (tbl : list lset) (i : Z) : option lset :=
  if i <? 0 then None else nth_error tbl (Z.to_nat i).

Definition by_list (mask : Z) : list Z := filter (fun i => Z.testbit mask i) [1; 2; 3; 4; 5; 6].

Fixpoint dec_rules (tbl : list lset) (xs : list int) : option (list rule) :=
  match xs with
  | [] => Some []
  | a :: b :: rest =>
      match tbl_get tbl (bits a 5 12), dec_rules tbl rest with
      | Some ls, Some rs =>
          let mk := bits a 22 3 in
          Some (mkRule (bits a 0 5) ls
                  (mkExpr (bits a 17 5) (if mk =? 0 then None else Some (mk, bits a 25 3))
                          (if bits a 28 1 =? 0 then None else Some (by_list (bits a 29 7)))
                          (bits b 0 21 - voff) (bits b 21 21 - voff)
                          (if bits a 36 1 =? 0 then None else Some (bits b 42 21 - voff))) :: rs)
      | _, _ => None
      end
  | _ => None
  end.

Definition dec_op (tbl : list lset) (xs : list int) : option op :=
  match xs with
  | [] => None
  | h :: rest =>
      let tag := bits h 0 2 in
      let gid := bits h 2 2 in
      if tag =? 0 then
        match rest with
        | [p] => option_map (fun l => OpRaw l (bits p 0 28) (dec_val (bits p 28 24))) (tbl_get tbl (shr p 54))
        | _ => None
        end
      else if tag =? 1 then
        option_map (fun rs => OpLoad gid rs (shr h 8) (bits h 4 4)) (dec_rules tbl rest)
      else match rest with
           | [] => Some (if tag =? 2 then OpEval gid (shr h 4) else OpRemove gid (shr h 4))
           | _ => None
           end
  end.

Fixpoint all_some {A} (l : list (option A)) : option (list A) :=
  match l with
  | [] => Some []
  | Some x :: r => option_map (cons x) (all_some r)
  | None :: _ => None
  end.

(* observed Append call: labels, timestamp, value, error class (0 ok, 1 out of order,
   2 duplicate sample for timestamp, 3 anything else) *)
Definition orec := (lset * Z * val * Z)%type.
Inductive oevent :=
| ORaw (code : Z)
| ORule (gid ri : Z) (apps : option (list orec))
| OCleanup (gid : Z) (apps : list orec).

Definition dec_recs (tbl : list lset) (xs : list int) : option (list orec) :=
  all_some (map (fun p => option_map (fun l => (l, bits p 0 28, dec_val (bits p 28 24), bits p 52 2))
                                     (tbl_get tbl (shr p 54))) xs).

Definition dec_event (tbl : list lset) (xs : list int) : option oevent :=
  match xs with
  | [] => None
  | h :: rest =>
      let tag := bits h 0 2 in
      let gid := bits h 2 2 in
      if tag =? 0 then match rest with [] => Some (ORaw (shr h 2)) | _ => None end
      else if tag =? 1 then
        if bits h 4 1 =? 0
        then match rest with [] => Some (ORule gid (shr h 5) None) | _ => None end
        else option_map (fun rs => ORule gid (shr h 5) (Some rs)) (dec_recs tbl rest)
      else if tag =? 2 then option_map (OCleanup gid) (dec_recs tbl rest)
      else None
  end.

Definition dec_series (tbl : list lset) (xs : list int) : option (lset * list sample) :=
  match xs with
  | li :: r => option_map (fun l => (l, map (fun p => (bits p 0 28, dec_val (bits p 28 24))) r)) (tbl_get tbl (zi li))
  | [] => None
  end.

Fixpoint dec_batches (xs : list int) (cur : list nat) : list (list nat) :=
  match xs with
  | [] => match cur with [] => [] | _ => [rev cur] end
  | x :: r => if zi x =? 0 then rev cur :: dec_batches r [] else dec_batches r (Z.to_nat (zi x - 1) :: cur)
  end.

Record dcase := mkD {
  d_ops : list op;
  d_events : list oevent;
  d_store : list (lset * list sample);    (* samples in ascending time order *)
  d_batches : list (list (list nat))
}.

Definition decode (c : case) : option dcase :=
  let tbl := map (dec_lset 8) (c_tbl c) in
  match all_some (map (dec_op tbl) (c_ops c)),
        all_some (map (dec_event tbl) (c_events c)),
        all_some (map (dec_series tbl) (c_store c)) with
  | Some ops, Some evs, Some st => Some (mkD ops evs st (map (fun xs => dec_batches xs []) (c_batches c)))
  | _, _, _ => None
  end.

(* ---------------------------------------------------------------- comparisons *)
Definition code_of (r : ares) : Z := match r with AOk => 0 | AOOO => 1 | ADup => 2 end.

Definition orec_eqb (a b : orec) : bool :=
  let '(l1, t1, v1, c1) := a in
  let '(l2, t2, v2, c2) := b in
  lset_eqb l1 l2 && (t1 =? t2) && val_eqb v1 v2 && (c1 =? c2).

(* multiset equality *)
Fixpoint remove1 {A} (eqb : A -> A -> bool) (x : A) (l : list A) : option (list A) :=
  match l with
  | [] => None
  | y :: r => if eqb x y then Some r else option_map (cons y) (remove1 eqb x r)
  end.

Fixpoint perm_eqb {A} (eqb : A -> A -> bool) (a b : list A) : bool :=
  match a with
  | [] => match b with [] => true | _ => false end
  | x :: r => match remove1 eqb x b with Some b' => perm_eqb eqb r b' | None => false end
  end.

Definition orec_of (a : arec) : orec := let '(l, t, v, r) := a in (l, t, v, code_of r).

Definition event_eqb (m : event) (o : oevent) : bool :=
  match m, o with
  | EvRaw r, ORaw c => code_of r =? c
  | EvRule g i None, ORule g' i' None => (g =? g') && (i =? i')
  | EvRule g i (Some a), ORule g' i' (Some b) => (g =? g') && (i =? i') && perm_eqb orec_eqb (map orec_of a) b
  | EvCleanup g a, OCleanup g' b => (g =? g') && perm_eqb orec_eqb (map orec_of a) b
  | _, _ => false
  end.

Fixpoint list_eqb2 {A B} (f : A -> B -> bool) (a : list A) (b : list B) : bool :=
  match a, b with
  | [], [] => true
  | x :: a', y :: b' => f x y && list_eqb2 f a' b'
  | _, _ => false
  end.

Definition sample_eqb (a b : sample) : bool := (fst a =? fst b) && val_eqb (snd a) (snd b).

Definition store_agrees (m : store) (o : list (lset * list sample)) : bool :=
  (length m =? length o)%nat && negb (has_dup (map fst o)) &&
  forallb (fun ls => list_eqb2 sample_eqb (samples m (fst ls)) (rev (snd ls))) o.

(* the batches of every loaded rule list, as the model of SplitGroupIntoBatches computes them *)
Definition model_batches (ops : list op) : list (list (list nat)) :=
  flat_map (fun o => match o with OpLoad _ rules _ _ => [split_batches rules] | _ => [] end) ops.
Definition batches_eqb (a b : list (list nat)) : bool := list_eqb2 (list_eqb2 Nat.eqb) a b.

Definition agree (c : case) : bool :=
  match decode c with
  | None => false
  | Some d =>
      let (s, evs) := run query (d_ops d) in
      list_eqb2 event_eqb evs (d_events d) && store_agrees (s_store s) (d_store d)
      && list_eqb2 batches_eqb (model_batches (d_ops d)) (d_batches d)
  end.

(* ---------------------------------------------------------------- the property, replayed

   The checker walks the operations and consumes the implementation's events.  It keeps its
   own picture of the storage (every Append the implementation reported as accepted) and, per
   group, for every rule the series written successfully by its previous successful
   evaluation, plus the series that must / may be marked stale because their rule was removed.
   For an evaluation of a group at ts (query time qt = ts - offset) it demands, rule by rule
   and in rule order:
     R1  a rule whose expression value — computed by the instant-query evaluator on the
         checker's storage as it is AT THAT MOMENT, i.e. including what the earlier rules of
         this very evaluation wrote — has colliding label sets after relabelling, or exceeds
         the limit, writes nothing (no appender);
     R2  otherwise the non-marker Append calls are exactly that vector, relabelled with the
         rule's name and labels (declarative [spec_relabel]), all at timestamp qt;
     R3  the marker Append calls are exactly (previous successful evaluation's written
         series) minus (this evaluation's written series), all at timestamp qt;
     R4  after the rules, the series of removed rules are marked stale at qt by one cleanup
         appender (all required ones, nothing that is not allowed), and then forgotten.
   A reload matches rules by (name, labels), i-th duplicate with i-th duplicate; series of
   old rules without a partner must be marked; series of old rules that share their key
   with such a rule may be marked (Go marks them too; the marker is rejected as a duplicate
   whenever the surviving rule wrote the series in that evaluation).  Removing a group marks
   every series of every rule at the removal time. *)
Definition key_in (k : Z) (l : lset) : bool := existsb (fun p => fst p =? k) l.

Fixpoint linsert (p : label) (l : lset) : lset :=
  match l with
  | [] => [p]
  | q :: r => if fst p <? fst q then p :: l else q :: linsert p r
  end.
Definition lsort (l : lset) : lset := fold_right linsert [] l.

(* the rule's name and labels win; every other label of the sample is kept *)
Definition spec_relabel (r : rule) (l : lset) : lset :=
  let own := (name_label, r_name r) :: r_labels r in
  lsort (own ++ filter (fun p => negb (key_in (fst p) own)) l).

Definition spec_rule_vec (st : store) (r : rule) (qt limit : Z) : option (list (lset * val)) :=
  let vec := map (fun lz => (spec_relabel r (fst lz), VNum (snd lz))) (query st (r_expr r) qt) in
  if has_dup (map fst vec) then None
  else if (0 <? limit) && (limit <? Z.of_nat (length vec)) then None
  else Some vec.

Definition lv_eqb (a b : lset * val) : bool := lset_eqb (fst a) (fst b) && val_eqb (snd a) (snd b).
Definition is_stale (v : val) : bool := match v with VStale => true | _ => false end.
Definition rec_l (a : orec) : lset := fst (fst (fst a)).
Definition rec_t (a : orec) : Z := snd (fst (fst a)).
Definition rec_v (a : orec) : val := snd (fst a).
Definition rec_c (a : orec) : Z := snd a.

Definition subset (a b : list lset) : bool := forallb (fun l => mem l b) a.
Definition set_eqb (a b : list lset) : bool := perm_eqb lset_eqb a b.

(* record every accepted Append in the checker's storage *)
Definition put_accepted (st : store) (recs : list orec) : store :=
  fold_left (fun s a => if rec_c a =? 0 then st_put s (rec_l a) (rec_t a) (rec_v a) else s) recs st.

Record hgroup := mkH {
  h_rules : list (rule * list lset);
  h_req : list lset;        (* must be marked stale at the next evaluation *)
  h_alw : list lset;        (* may be marked stale at the next evaluation (superset of h_req) *)
  h_off : Z;
  h_lim : Z
}.

Definition hstate := (store * list (Z * hgroup))%type.

Fixpoint hfind (gs : list (Z * hgroup)) (gid : Z) : option hgroup :=
  match gs with
  | [] => None
  | (i, g) :: r => if i =? gid then Some g else hfind r gid
  end.
Definition hset (gs : list (Z * hgroup)) (gid : Z) (g : hgroup) : list (Z * hgroup) :=
  (gid, g) :: filter (fun ig => negb (fst ig =? gid)) gs.

(* R1-R3 for one rule *)
Definition check_rule (st : store) (gid i : Z) (r : rule) (prev : list lset) (qt limit : Z) (ev : oevent)
  : option (store * list lset) :=
  match ev with
  | ORule g' i' apps =>
      if negb ((g' =? gid) && (i' =? i)) then None else
      match spec_rule_vec st r qt limit, apps with
      | None, None => Some (st, prev)
      | Some vec, Some recs =>
          let res := filter (fun a => negb (is_stale (rec_v a))) recs in
          let mk := filter (fun a => is_stale (rec_v a)) recs in
          let ok := map rec_l (filter (fun a => rec_c a =? 0) res) in
          if forallb (fun a => rec_t a =? qt) recs
             && perm_eqb lv_eqb (map (fun a => (rec_l a, rec_v a)) res) vec
             && set_eqb (map rec_l mk) (filter (fun l => negb (mem l ok)) prev)
          then Some (put_accepted st recs, ok) else None
      | _, _ => None
      end
  | _ => None
  end.

Fixpoint check_rules (st : store) (gid i : Z) (rules : list (rule * list lset)) (qt limit : Z) (evs : list oevent)
  : option (store * list (rule * list lset) * list oevent) :=
  match rules with
  | [] => Some (st, [], evs)
  | (r, prev) :: rs =>
      match evs with
      | [] => None
      | ev :: evs' =>
          match check_rule st gid i r prev qt limit ev with
          | None => None
          | Some (st1, prev1) =>
              match check_rules st1 gid (i + 1) rs qt limit evs' with
              | None => None
              | Some (st2, rs2, rest) => Some (st2, (r, prev1) :: rs2, rest)
              end
          end
      end
  end.

(* R4 *)
Definition check_cleanup (st : store) (gid qt : Z) (req alw : list lset) (evs : list oevent)
  : option (store * list oevent) :=
  match alw with
  | [] => match req with [] => Some (st, evs) | _ => None end     (* nothing to mark: no appender *)
  | _ =>
      match evs with
      | OCleanup g' recs :: rest =>
          if (g' =? gid) && forallb (fun a => (rec_t a =? qt) && is_stale (rec_v a)) recs
             && subset req (map rec_l recs) && subset (map rec_l recs) alw
          then Some (put_accepted st recs, rest) else None
      | _ => None
      end
  end.

Definition rule_key_eqb (a b : rule) : bool := rkey_eqb (rkey_of a) (rkey_of b).
Definition count_key {A} (k : rule) (f : A -> rule) (l : list A) : nat :=
  length (filter (fun x => rule_key_eqb k (f x)) l).

(* i-th duplicate with i-th duplicate *)
Fixpoint spec_match (old : list (rule * list lset)) (seen : list rule) (new : list rule) : list (rule * list lset) :=
  match new with
  | [] => []
  | r :: rs =>
      let j := count_key r (fun x => x) seen in
      (r, nth j (map snd (filter (fun rp => rule_key_eqb r (fst rp)) old)) []) :: spec_match old (seen ++ [r]) rs
  end.

Definition hload (old : option hgroup) (rules : list rule) (off lim : Z) : hgroup :=
  match old with
  | None => mkH (map (fun r => (r, [])) rules) [] [] off lim
  | Some g =>
      let olds := h_rules g in
      (* position of an old rule among the old rules of its key *)
      let fix unmatched (seen : list rule) (l : list (rule * list lset)) : list lset :=
        match l with
        | [] => []
        | (r, p) :: rest =>
            (if (count_key r (fun x => x) rules <=? count_key r (fun x => x) seen)%nat then p else [])
            ++ unmatched (seen ++ [r]) rest
        end in
      let shares := flat_map (fun rp => if (count_key (fst rp) (fun x => x) rules <? count_key (fst rp) fst olds)%nat
                                        then snd rp else []) olds in
      mkH (spec_match olds [] rules) (h_req g ++ unmatched [] olds) (h_alw g ++ shares) off lim
  end.

Definition hstep (s : hstate) (o : op) (evs : list oevent) : option (hstate * list oevent) :=
  let (st, gs) := s in
  match o with
  | OpRaw l t v =>
      match evs with
      | ORaw c :: rest => Some ((if c =? 0 then st_put st l t v else st, gs), rest)
      | _ => None
      end
  | OpLoad gid rules off lim => Some ((st, hset gs gid (hload (hfind gs gid) rules off lim)), evs)
  | OpEval gid ts =>
      match hfind gs gid with
      | None => Some (s, evs)
      | Some g =>
          let qt := ts - h_off g in
          match check_rules st gid 0 (h_rules g) qt (h_lim g) evs with
          | None => None
          | Some (st1, rs, rest) =>
              match check_cleanup st1 gid qt (h_req g) (h_alw g) rest with
              | None => None
              | Some (st2, rest') => Some ((st2, hset gs gid (mkH rs [] [] (h_off g) (h_lim g))), rest')
              end
          end
      end
  | OpRemove gid ts =>
      match hfind gs gid with
      | None => Some (s, evs)
      | Some g =>
          let all := flat_map snd (h_rules g) in
          match check_cleanup st gid (ts - h_off g) (h_req g ++ all) (h_alw g ++ all) evs with
          | None => None
          | Some (st', rest) => Some ((st', filter (fun ig => negb (fst ig =? gid)) gs), rest)
          end
      end
  end.

Fixpoint hrun (s : hstate) (ops : list op) (evs : list oevent) : option (hstate * list oevent) :=
  match ops with
  | [] => Some (s, evs)
  | o :: r => match hstep s o evs with
              | None => None
              | Some (s', evs') => hrun s' r evs'
              end
  end.

(* the whole history satisfies the property, every event is accounted for, and the final
   storage contents are exactly the accepted appends *)
(* position of the batch that contains rule i *)
Fixpoint batch_pos (bs : list (list nat)) (i : nat) (k : nat) : option nat :=
  match bs with
  | [] => None
  | b :: r => if existsb (Nat.eqb i) b then Some k else batch_pos r i (S k)
  end.

(* the implementation's batches evaluate a rule strictly after every earlier rule whose name
   its selector matches, and contain every rule *)
Definition batches_ok (rules : list rule) (bs : list (list nat)) : bool :=
  let n := length rules in
  forallb (fun j =>
    match nth_error rules j, batch_pos bs j 0 with
    | Some rj, Some pj =>
        forallb (fun i => match nth_error rules i, batch_pos bs i 0 with
                          | Some ri, Some pi => negb (dep_on rj ri) || (pi <? pj)%nat
                          | _, _ => false
                          end) (seq 0 j)
    | _, _ => false
    end) (seq 0 n).

Definition loaded_rules (ops : list op) : list (list rule) :=
  flat_map (fun o => match o with OpLoad _ rules _ _ => [rules] | _ => [] end) ops.

Definition holds (c : case) : bool :=
  match decode c with
  | None => false
  | Some d =>
      match hrun ([], []) (d_ops d) (d_events d) with
      | Some ((st, _), []) => store_agrees st (d_store d) && list_eqb2 batches_ok (loaded_rules (d_ops d)) (d_batches d)
      | _ => false
      end
  end.

Definition mismatches (cs : list case) : list Z := map (fun c => zi (c_id c)) (filter (fun c => negb (agree c)) cs).
Definition failing_holds (cs : list case) : list Z := map (fun c => zi (c_id c)) (filter (fun c => negb (holds c)) cs).

(* corr/CorrC48.v — correspondence (agree) and specification (holds) checkers for C48.

   A case is one history driven against a real agent.DB (agent.Open on a scratch directory, real WAL
   with small segments): the events are the calls the harness made (appends through both appender
   versions, exemplars, commits, rollbacks, DB.truncate, forced segment rollover, Close + Open, the
   three querier constructors, WAL snapshots), the observations are what the implementation
   returned / wrote:
     OAppend  returned ref, error class, exemplar error classes of a partial error
     OLog     the records the commit / rollback added to the WAL (decoded with record.Decoder),
              with their segment numbers
     OTrunc   the WAL directory after DB.truncate (checkpoint index + records, first/last segment,
              all segment records), db.series (ref, label set, lastTs) and db.deleted
     ORestart nextRef, db.series, db.deleted, first/last segment after Close + Open
     OSnap    the WAL directory (re-read from disk)
     OQuery   error class of Querier / ChunkQuerier / ExemplarQuerier
   agree : model/Agent.v (run_from) predicts every observation.
   holds : the property evaluated on the implementation's own output only (see below). *)
From Coq Require Import List ZArith Bool Uint63.
From Verif Require Import lib.Int64 model.Checkpoint model.Agent.
Import ListNotations.
Open Scope Z_scope.

(* ---- literals: numbers are emitted as primitive ints (cheap to parse) ---- *)
Definition off : Z := 1099511627776. (* 2^40 *)
Definition hi : Z := 4611686018427387904. (* 2^62: values counted down from MaxInt64 *)
Definition lo : Z := 2305843009213693952. (* 2^61: values counted up from MinInt64 *)
Definition z (u : int) : Z :=
  let v := Uint63.to_Z u in
  if v =? 0 then minInt64 else if v =? 1 then maxInt64
  else if hi <=? v then maxInt64 - (v - hi)
  else if lo <=? v then minInt64 + (v - lo)
  else v - off.
Definition p (a b : int) : Z * Z := (z a, z b).
Definition t3 (a b c : int) : Z * Z * Z := ((z a, z b), z c).
Definition sr (seg : int) (r : record) : Z * record := (z seg, r).
Definition lz (l : list int) : list Z := map z l.
Definition ms (r b l : int) : mser := mkS (z r) (z b) (z l).
Definition ksamples (k : int) (l : list (Z * Z * Z)) : record := RSamples (z k) l.

(* events *)
Definition ea (a ver r b st t v zv kind : int) (hbad stale : bool) (exs : list exemplar) : event :=
  EAppend (z a) (z ver) (z r) (z b) (z st) (z t) (z v) (z zv) (z kind) hbad stale exs.
Definition ee (a r id ts bad : int) : event := EExemplar (z a) (z r) (t3 id ts bad).
Definition ec (a : int) (rolls : list int) : event := ECommit (z a) (lz rolls).
Definition er (a : int) (rolls : list int) : event := ERollback (z a) (lz rolls).
Definition et (mint zv : int) : event := ETruncate (z mint) (z zv).
Definition eq_ (w a b : int) : event := EQuery (z w) (z a) (z b).
(* observations *)
Definition oa (r e : int) (pe : list int) : obs := OAppend (z r) (z e) (lz pe).
Definition ot (cpidx : int) (cp : list record) (first cur : int) (segs : list (Z * record))
  (ser : list mser) (del : list (Z * Z)) : obs := OTrunc (z cpidx) cp (z first) (z cur) segs ser del.
Definition ors (next : int) (ser : list mser) (del : list (Z * Z)) (first cur : int) : obs :=
  ORestart (z next) ser del (z first) (z cur).
Definition osn (cpidx : int) (cp : list record) (first cur : int) (segs : list (Z * record)) : obs :=
  OSnap (z cpidx) cp (z first) (z cur) segs.
Definition oq (e : int) : obs := OQuery (z e).
Definition mko (oow : int) (stz inmem : bool) : opts := mkO (z oow) stz inmem.

Record case := mkCase { c_id : Z; c_opts : opts; c_events : list event; c_obs : list obs }.

(* ---- canonical forms / equality ---- *)
Fixpoint ins {A} (k : Z) (v : A) (l : list (Z * A)) : list (Z * A) :=
  match l with
  | [] => [(k, v)]
  | (k', v') :: t => if k <=? k' then (k, v) :: l else (k', v') :: ins k v t
  end.
Definition sortk {A} (l : list (Z * A)) : list (Z * A) := fold_right (fun e acc => ins (fst e) (snd e) acc) [] l.

Fixpoint list_eqb {A} (eqb : A -> A -> bool) (a b : list A) : bool :=
  match a, b with
  | [], [] => true
  | x :: a', y :: b' => eqb x y && list_eqb eqb a' b'
  | _, _ => false
  end.

Definition pair_eqb (a b : Z * Z) : bool := (fst a =? fst b) && (snd a =? snd b).
Definition trip_eqb (a b : Z * Z * Z) : bool := pair_eqb (fst a) (fst b) && (snd a =? snd b).

Definition rec_eqb (a b : record) : bool :=
  match a, b with
  | RSeries l, RSeries l' => list_eqb pair_eqb l l'
  | RSamples k l, RSamples k' l' => (k =? k') && list_eqb trip_eqb l l'
  | RExemplars l, RExemplars l' => list_eqb trip_eqb l l'
  | _, _ => false
  end.
Definition srec_eqb (a b : Z * record) : bool := (fst a =? fst b) && rec_eqb (snd a) (snd b).

Definition ser_canon (l : list mser) : list (Z * (Z * Z)) := sortk (map (fun s => (s_ref s, (s_lab s, s_last s))) l).
Definition ser_eqb (a b : list mser) : bool :=
  list_eqb (fun x y => (fst x =? fst y) && pair_eqb (snd x) (snd y)) (ser_canon a) (ser_canon b).
Definition del_eqb (a b : list (Z * Z)) : bool := list_eqb pair_eqb (sortk a) (sortk b).
Definition lz_eqb (a b : list Z) : bool := list_eqb Z.eqb a b.

(* records of an in-memory checkpoint are written in Go map order: compared sorted by ref *)
Definition canon_rec (r : record) : record :=
  match r with
  | RSeries l => RSeries (sortk l)
  | RSamples k l => RSamples k (map (fun e => (fst e, fst (snd e), snd (snd e)))
                                    (sortk (map (fun x : Z * Z * Z => (fst (fst x), (snd (fst x), snd x))) l)))
  | _ => r
  end.
Definition cp_eqb (inmem : bool) (a b : list record) : bool :=
  if inmem then list_eqb rec_eqb (map canon_rec a) (map canon_rec b) else list_eqb rec_eqb a b.

Definition obs_eqb (inmem : bool) (a b : obs) : bool :=
  match a, b with
  | OAppend r e pe, OAppend r' e' pe' => (r =? r') && (e =? e') && lz_eqb pe pe'
  | OLog l, OLog l' => list_eqb srec_eqb l l'
  | OTrunc c cp f cu segs ser del, OTrunc c' cp' f' cu' segs' ser' del' =>
      (c =? c') && cp_eqb inmem cp cp' && (f =? f') && (cu =? cu') && list_eqb srec_eqb segs segs' &&
      ser_eqb ser ser' && del_eqb del del'
  | ORestart n ser del f cu, ORestart n' ser' del' f' cu' =>
      (n =? n') && ser_eqb ser ser' && del_eqb del del' && (f =? f') && (cu =? cu')
  | OSnap c cp f cu segs, OSnap c' cp' f' cu' segs' =>
      (c =? c') && cp_eqb inmem cp cp' && (f =? f') && (cu =? cu') && list_eqb srec_eqb segs segs'
  | OQuery e, OQuery e' => e =? e'
  | ONone, ONone => true
  | _, _ => false
  end.

(* the model predicts every observation of the history *)
Definition agree (c : case) : bool :=
  list_eqb (obs_eqb (o_inmem (c_opts c))) (snd (run_from (c_opts c) st_empty (c_events c))) (c_obs c).

(* ---- holds: the property on the implementation's output only ----
   State carried along the (event, observation) pairs:
     h_wal    the WAL in replay order as the implementation reported it: the last snapshot
              (OTrunc / OSnap) followed by what later commits / rollbacks wrote (OLog)
     h_acc    per open appender: the data items whose append returned without error ("accepted")
     h_com    accepted items of committed appenders
     h_g      the highest truncation time so far
     h_rl     ref -> label set, from the series records written so far
     h_lw     label set -> highest sample time written for its live series
     h_off    ref -> last exemplar offered without error (appender V2 drops a repetition silently)
     h_dup    refs that were duplicates (same label set as an earlier ref) in the WAL at a restart:
              the series record of such a ref is dropped by DB.truncate while its samples stay —
              finding agent-duplicate-ref-orphan of property C15, not judged again here *)
Record hst := mkH {
  h_wal : list record; h_acc : list (Z * list (Z * sample)); h_com : list (Z * sample); h_g : Z;
  h_rl : list (Z * Z); h_lw : list (Z * Z); h_off : list (Z * Z); h_dup : list Z; h_ok : bool }.

Definition item_time (x : Z * sample) : Z := snd (fst (snd x)).
Definition item_ref (x : Z * sample) : Z := fst (fst (snd x)).

(* item present in some record of its kind (series record not required) *)
Definition present (k : Z) (x : sample) (recs : list record) : bool :=
  existsb (fun r => match r with
                    | RSamples k' l => (k' =? k) && existsb (trip_eqb x) l
                    | RExemplars l => (k =? -1) && existsb (trip_eqb x) l
                    | _ => false end) recs.

Definition acc_of (h : hst) (a : Z) : list (Z * sample) :=
  match lookup a (h_acc h) with Some l => l | None => [] end.

Definition snap_records (cpidx : Z) (cp : list record) (segs : list (Z * record)) : list record :=
  cp ++ map snd (filter (fun s => cpidx <? fst s) segs).

(* refs whose label set already belongs to an earlier ref of the log *)
Fixpoint dup_refs (first : list (Z * Z)) (l : list (Z * Z)) : list Z :=
  match l with
  | [] => []
  | (r, b) :: t =>
      match lookup b first with
      | Some r0 => if r0 =? r then dup_refs first t else r :: dup_refs first t
      | None => dup_refs (upsert b r first) t
      end
  end.

Definition note_series (rl : list (Z * Z)) (recs : list record) : list (Z * Z) :=
  fold_left (fun m e => upsert (fst e) (snd e) m) (flat_map series_of_rec recs) rl.

Definition note_written (rl lw : list (Z * Z)) (recs : list record) : list (Z * Z) :=
  fold_left (fun m x => match lookup (fst (fst x)) rl with
                        | Some b => match lookup b m with
                                    | Some t0 => if t0 <? snd (fst x) then upsert b (snd (fst x)) m else m
                                    | None => upsert b (snd (fst x)) m
                                    end
                        | None => m end)
            (flat_map (fun r => match r with RSamples _ l => l | _ => [] end) recs) lw.

(* retention after a truncation / at a snapshot: every committed item at or after g is in the WAL,
   after a series record of its ref (presence only for the refs of h_dup) *)
Definition retained (h : hst) (recs : list record) : bool :=
  forallb (fun x => if item_time x <? h_g h then true
                    else if memz (item_ref x) (h_dup h) then present (fst x) (snd x) recs
                    else logged (fst x) (snd x) recs) (h_com h).

(* CheckpointFromInMemorySeries: the checkpoint is rebuilt from memory, so what DB.truncate must keep
   is, for every series that is still alive, a series record followed by a sample with the series' last
   timestamp (the literal retention statement is refuted for this option: C48_inmemory_refuted) *)
Fixpoint last_from (rl : list (Z * Z)) (seen : list Z) (b t : Z) (recs : list record) : bool :=
  match recs with
  | [] => false
  | R :: rest =>
      (match R with
       | RSamples _ l => existsb (fun y => memz (fst (fst y)) seen && (snd (fst y) =? t) &&
                                           match lookup (fst (fst y)) rl with Some b' => b' =? b | None => false end) l
       | _ => false end) || last_from rl (map fst (series_of_rec R) ++ seen) b t rest
  end.
(* every live series with a positive last timestamp: a sample with that timestamp, of a ref of the series'
   label set, after a series record of that ref *)
Definition retained_inmem (rl : list (Z * Z)) (ser : list mser) (recs : list record) : bool :=
  forallb (fun s => (s_last s <=? 0) || last_from rl [] (s_lab s) (s_last s) recs) ser.

Definition has_data (recs : list record) : bool :=
  existsb (fun r => match r with RSamples _ _ | RExemplars _ => true | _ => false end) recs.

Definition hstep (o : opts) (h : hst) (eo : event * obs) : hst :=
  let bad := mkH (h_wal h) (h_acc h) (h_com h) (h_g h) (h_rl h) (h_lw h) (h_off h) (h_dup h) false in
  match eo with
  | (EAppend a ver r b st t v zv kind hbad stale exs, OAppend rr err perr) =>
      let accepted := ((err =? E_OK) || (err =? E_PARTIAL)) && negb (rr =? 0) in
      if negb accepted then h else
      (* admission: an accepted sample is newer than the last written sample minus the window *)
      (* the series: by the series record of the returned ref; when that record is not written yet, by the
         label set of the call unless the series was resolved through the caller's ref *)
      let L := match lookup rr (h_rl h) with
               | Some L => Some L
               | None => if (r =? 0) || negb (r =? rr) then Some b else None end in
      let adm := match L with
                 | Some L => match lookup L (h_lw h) with
                             | Some m => if minInt64 <=? m - o_oow o then m - o_oow o <? t else true
                             | None => true end
                 | None => true end in
      let '(items, offm) :=
        if stale || (ver =? 1) then ([], h_off h) else
        fold_left (fun acc (e : exemplar) =>
                     let '((id, ts), bd) := e in
                     if negb (bd =? 0) then acc else
                     match lookup rr (snd acc) with
                     | Some id0 => if id0 =? id then acc else (fst acc ++ [(-1, (rr, ts, id))], upsert rr id (snd acc))
                     | None => (fst acc ++ [(-1, (rr, ts, id))], upsert rr id (snd acc))
                     end) exs ([], h_off h) in
      mkH (h_wal h) (upsert a (acc_of h a ++ (kind, (rr, t, v)) :: items) (h_acc h)) (h_com h) (h_g h)
          (h_rl h) (h_lw h) offm (h_dup h) (h_ok h && adm)
  | (EExemplar a r e, OAppend rr err perr) =>
      let '((id, ts), bd) := e in
      let offm := if (bd =? 0) && negb (err =? E_UNKNOWN_REF) then upsert r id (h_off h) else h_off h in
      if (err =? E_OK) && negb (rr =? 0) then
        mkH (h_wal h) (upsert a (acc_of h a ++ [(-1, (rr, ts, id))]) (h_acc h)) (h_com h) (h_g h)
            (h_rl h) (h_lw h) offm (h_dup h) (h_ok h)
      else mkH (h_wal h) (h_acc h) (h_com h) (h_g h) (h_rl h) (h_lw h) offm (h_dup h) (h_ok h)
  | (ECommit a _, OLog l) =>
      let recs := map snd l in
      let w := h_wal h ++ recs in
      let acc := acc_of h a in
      (* every accepted item of the committed appender is in the WAL after a series record of its ref *)
      let ok := forallb (fun x => logged (fst x) (snd x) w) acc in
      let rl := note_series (h_rl h) recs in
      mkH w (remove_key a (h_acc h)) (h_com h ++ acc) (h_g h) rl (note_written rl (h_lw h) recs)
          (h_off h) (h_dup h) (h_ok h && ok)
  | (ERollback a _, OLog l) =>
      let recs := map snd l in
      (* a rolled-back appender writes series records only *)
      mkH (h_wal h ++ recs) (remove_key a (h_acc h)) (h_com h) (h_g h) (note_series (h_rl h) recs) (h_lw h)
          (h_off h) (h_dup h) (h_ok h && negb (has_data recs))
  | (ETruncate mint _, OTrunc cpidx cp first cur segs ser del) =>
      let g := Z.max (h_g h) mint in
      let recs := snap_records cpidx cp segs in
      let com := filter (fun x => g <=? item_time x) (h_com h) in
      let h1 := mkH recs (h_acc h) com g (h_rl h)
                    (filter (fun e => existsb (fun s => s_lab s =? fst e) ser) (h_lw h))
                    (h_off h) (h_dup h) (h_ok h) in
      mkH recs (h_acc h) com g (h_rl h1) (h_lw h1) (h_off h) (h_dup h)
          (h_ok h && (if o_inmem o && (0 <=? cpidx) then retained_inmem (note_series (h_rl h) recs) ser recs else retained h1 recs))
  | (ERestart, ORestart _ _ _ _ _) =>
      (* the replayed lastTs comes from the samples whose ref still has a series record in the WAL: the
         written-timestamp bound is rebuilt from exactly those *)
      mkH (h_wal h) [] (h_com h) (h_g h) (h_rl h) (note_written (note_series [] (h_wal h)) [] (h_wal h)) []
          (dup_refs [] (flat_map series_of_rec (h_wal h)) ++ h_dup h) (h_ok h)
  | (ESnap, OSnap cpidx cp first cur segs) =>
      let recs := snap_records cpidx cp segs in
      mkH recs (h_acc h) (h_com h) (h_g h) (h_rl h) (h_lw h) (h_off h) (h_dup h)
          (h_ok h && ((o_inmem o && (0 <=? cpidx)) || retained h recs))
  | (EQuery _ _ _, OQuery e) =>
      mkH (h_wal h) (h_acc h) (h_com h) (h_g h) (h_rl h) (h_lw h) (h_off h) (h_dup h) (h_ok h && (e =? E_UNSUPPORTED))
  | (ERoll, ONone) => h
  | _ => bad
  end.

Definition holds (c : case) : bool :=
  (length (c_events c) =? length (c_obs c))%nat &&
  h_ok (fold_left (hstep (c_opts c)) (combine (c_events c) (c_obs c))
                  (mkH [] [] [] minInt64 [] [] [] [] true)).

Definition mismatches (cs : list case) : list Z := map c_id (filter (fun c => negb (agree c)) cs).
Definition failing_holds (cs : list case) : list Z := map c_id (filter (fun c => negb (holds c)) cs).

(* corr/CorrC03.v — correspondence (agree) and specification (holds) checkers for C03 cases.

   A case is one crash of a child process that ran a workload against a real tsdb.DB directory,
   followed by a reopen of that directory:
     c_ops    the model operations of the workload (built by the harness from the workload and
              the log of an uncrashed run: accepted samples with their in-order/out-of-order
              classification, the ranges of the head blocks cut, the parents of merged blocks)
     c_trace  fs_trace c_cfg c_ops, evaluated once per case file (the case file defines it as
              `Eval vm_compute in fs_trace ...`), so that the cases of one workload share it
     c_kinds  the kinds of the persistence steps (hook hits) the uncrashed run took, in order
     c_k      how many persistence steps the crashed run completed (None: killed at a random
              time, position unknown)
     c_over   for a crash inside DB.Delete: that operation with the step order this run took
     c_hist   the API-level history (accepted samples per transaction, deletions)
     c_acked  the number of operations acknowledged in the child's log before the crash;
     c_inflight  whether the next one had begun
     c_opened / c_obs   tsdb.Open succeeded / every sample a querier returned afterwards
   agree : the model's trace has exactly the observed step kinds, and the recovered samples are
           [recover] of the durable state after the first k steps of the model's trace;
   holds : the property itself, judged from the acknowledgement log and the recovered samples
           only (no model state): the database opened; every sample of an acknowledged
           transaction that no later (acknowledged or in-flight) deletion covers is present;
           every recovered sample was accepted in an acknowledged or the in-flight transaction
           with exactly that value and is covered by no later acknowledged deletion; the result
           is strictly ordered (no duplicates). *)
From Coq Require Import List ZArith Bool Uint63.
From Verif Require Import lib.Int64 model.Durable.
Import ListNotations.
Open Scope Z_scope.

Definition z (i : int) : Z := Uint63.to_Z i.
Definition sm (s t v : int) : sample := (z s, z t, z v).
Definition mk_cfg (w : int) (o : bool) : cfg := mkCfg (z w) o.
Definition tb (i : int) : target := TBlk (z i).
Definition th : target := THead.
Definition odelete (a b : int) (sel : list int) (ord : list target) : op := Delete (z a) (z b) (map z sel) ord.
Definition ocut (a b : int) : op := CutHead (z a) (z b).
Definition otrunc (a : int) : op := TruncWAL (z a).
Definition omerge (ps : list int) (ord : list target) : op := Merge (map z ps) ord.

Inductive hop :=
| HTx (acc : list sample)
| HDel (mint maxt : Z) (sel : list Z)
| HNop.
Definition hdel (a b : int) (sel : list int) : hop := HDel (z a) (z b) (map z sel).

Record case := mkCase {
  c_id : int; c_cfg : cfg; c_ops : list op; c_trace : list fsop; c_kinds : list int; c_hist : list hop;
  c_k : option int; c_over : option (int * op);
  c_acked : int; c_inflight : bool; c_opened : bool; c_obs : list sample }.

(* ---- canonical form of a sample set: sorted by (series, t, value), duplicates removed ---- *)
Definition sample_ltb (a b : sample) : bool :=
  (s_sid a <? s_sid b) || ((s_sid a =? s_sid b) && ((s_t a <? s_t b) || ((s_t a =? s_t b) && (s_v a <? s_v b)))).
Definition sample_eqb (a b : sample) : bool := (s_sid a =? s_sid b) && (s_t a =? s_t b) && (s_v a =? s_v b).
Fixpoint sins (x : sample) (l : list sample) : list sample :=
  match l with
  | [] => [x]
  | y :: r => if sample_ltb x y then x :: l else if sample_eqb x y then l else y :: sins x r
  end.
Definition canon (l : list sample) : list sample := fold_right sins [] l.
Fixpoint samples_eqb (a b : list sample) : bool :=
  match a, b with
  | [], [] => true
  | x :: a', y :: b' => sample_eqb x y && samples_eqb a' b'
  | _, _ => false
  end.
Definition mem_sample (x : sample) (l : list sample) : bool := existsb (sample_eqb x) l.

Fixpoint replace_nth {A} (n : nat) (x : A) (l : list A) : list A :=
  match l, n with
  | [], _ => []
  | _ :: r, O => x :: r
  | y :: r, S n' => y :: replace_nth n' x r
  end.

Fixpoint listZ_eqb (a b : list Z) : bool :=
  match a, b with
  | [], [] => true
  | x :: a', y :: b' => (x =? y) && listZ_eqb a' b'
  | _, _ => false
  end.

Fixpoint sublists {A} (l : list A) : list (list A) :=
  match l with
  | [] => [[]]
  | x :: r => let s := sublists r in s ++ map (cons x) s
  end.

(* A crash inside DB.Delete: the steps of the different targets run in concurrent goroutines,
   so besides the steps the log shows (in the order this run took them) any of the remaining
   ones may already have happened (its hook hit not yet logged); the steps commute. *)
Definition agree (c : case) : bool :=
  match c_k c with
  | None => true
  | Some k =>
      listZ_eqb (map kind (c_trace c)) (map z (c_kinds c))
      && c_opened c
      && match c_over c with
         | None =>
             samples_eqb (canon (recover (durable (fs0 (c_cfg c)) (firstn (Z.to_nat (z k)) (c_trace c)))))
                         (c_obs c)
         | Some (i, o) =>
             let before := firstn (Z.to_nat (z i)) (c_ops c) in
             let m := run (c_cfg c) before in
             let tr := op_trace (c_cfg c) m o in
             let j := (Z.to_nat (z k) - length (fs_trace (c_cfg c) before))%nat in
             existsb (fun r => samples_eqb (canon (recover (durable (m_fs m) (firstn j tr ++ r)))) (c_obs c))
                     (sublists (skipn j tr))
         end
  end.

(* ---- the property on the observed outcome ---- *)
Definition del_covers (h : hop) (x : sample) : bool :=
  match h with
  | HDel a b sel => memZ (s_sid x) sel && (a <=? s_t x) && (s_t x <=? b)
  | _ => false
  end.

(* positions i+1 .. hi-1 of the history hold a deletion covering x *)
Definition deleted_between (hist : list hop) (i hi : nat) (x : sample) : bool :=
  existsb (fun h => del_covers h x) (firstn (hi - (i + 1)) (skipn (i + 1) hist)).

Fixpoint strictly_sorted (l : list sample) : bool :=
  match l with
  | x :: ((y :: _) as r) =>
      ((s_sid x <? s_sid y) || ((s_sid x =? s_sid y) && (s_t x <? s_t y))) && strictly_sorted r
  | _ => true
  end.

Definition holds (c : case) : bool :=
  let hist := c_hist c in
  let na := Z.to_nat (z (c_acked c)) in
  (* operations that were attempted: the acknowledged ones and the one in flight *)
  let natt := if c_inflight c then S na else na in
  c_opened c
  && strictly_sorted (c_obs c)
  && forallb (fun i => match nth_error hist i with
                       | Some (HTx acc) =>
                           forallb (fun x => deleted_between hist i natt x || mem_sample x (c_obs c)) acc
                       | _ => true
                       end) (seq 0 na)
  && forallb (fun y => existsb (fun i => match nth_error hist i with
                                         | Some (HTx acc) => mem_sample y acc && negb (deleted_between hist i na y)
                                         | _ => false
                                         end) (seq 0 natt)) (c_obs c).

Definition mismatches (cs : list case) : list Z := map (fun c => z (c_id c)) (filter (fun c => negb (agree c)) cs).
Definition failing_holds (cs : list case) : list Z := map (fun c => z (c_id c)) (filter (fun c => negb (holds c)) cs).

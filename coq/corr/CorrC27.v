(* corr/CorrC27.v — correspondence (agree) and specification (holds) checkers for C27 cases.

   One case = one generated data set served to the REAL promql engine from an in-memory
   storage.Queryable, one (start, interval, steps) grid, and
   - probes: queries over the probe metric p (sample i of every series has the value 2^i, so
     sum_over_time is the exact membership mask of the window), each run once as a range query
     and once as an instant query per step.  `agree` compares the range results with the
     engine-algorithm model (eval_range: memoized iterator / buffered iterator with window
     reuse / child grid of the subquery / step-invariant wrapping) and the instant results
     with the direct semantics (eval_instant);
   - generic observations: for generated type-correct queries the range query's vector at each
     step and the instant query's vector at that step's time (kind 0), or the instant results
     of the query with `offset d` at t and of the query without it at t - d (kind 1).
     `holds` is the property itself judged on these outputs: same series, float values equal
     bitwise or both NaN, histograms equal; a failed range query must have a failing step. *)
From Coq Require Import List ZArith Bool Uint63.
From Verif Require Import model.PromqlRange.
Import ListNotations.
Open Scope Z_scope.

(* ---- wire format: primitive 63-bit integers ---------------------------------------------- *)
Definition BIAS : Z := 1099511627776.                      (* 2^40, for possibly negative values *)
Definition zi (x : int) : Z := Uint63.to_Z x.
Definition zb (x : int) : Z := Uint63.to_Z x - BIAS.

(* a probe-series sample: timestamp and value (2^index), value 0 = staleness marker *)
Definition wS (t v : int) : sample := mkS (zi t) (if (v =? 0)%uint63 then STALE else zi v).

Record probe := mkProbe {
  p_kind : Z;        (* 0: p offset o | 1: timestamp(p offset o) | 2: sum_over_time(p[r] offset o)
                        3: sum_over_time((p offset io)[r:s] offset o) | 4: p offset o @ at
                        5: sum_over_time(p[r] offset o @ at) *)
  p_range : Z; p_sstep : Z; p_off : Z; p_ioff : Z; p_at : Z;
  p_robs : list (list Z);    (* range query: per step, per series: 0 = absent, else the value *)
  p_iobs : list (list Z)     (* instant queries: the same *)
}.
Definition wProbe (kind range sstep off ioff at_ : int) (robs iobs : list (list int)) : probe :=
  mkProbe (zi kind) (zi range) (zi sstep) (zb off) (zb ioff) (zb at_)
          (map (map zi) robs) (map (map zi) iobs).

(* a generic observation *)
Record gobs := mkG {
  g_kind : Z;                 (* 0 = range vs instant, 1 = offset shift *)
  g_rerr : bool;              (* the range query failed *)
  g_ierr : list bool;         (* per step: the instant query failed *)
  g_r : list (list int);      (* per step, flat: key kind hi lo ... *)
  g_i : list (list int)
}.

Record case := mkCase {
  c_id : Z;
  c_lookback : Z;
  c_series : list (list sample);
  c_start : Z; c_interval : Z; c_n : nat;
  c_probes : list probe;
  c_gens : list gobs
}.
Definition wCase (id lookback : int) (series : list (list sample)) (start interval n : int)
    (probes : list probe) (gens : list gobs) : case :=
  mkCase (zi id) (zi lookback) series (zi start) (zi interval) (Z.to_nat (zi n)) probes gens.

(* ---- agree ---------------------------------------------------------------------------------- *)
(* the model instantiated for the probe metric: labels = series index, one selector matching
   every series, one window function = exact sum of the values *)
Definition sumv (w : list sample) : Z := fold_left (fun a p => a + sV p) w 0.
Definition wf_sum (_ : unit) (_ _ _ : Z) (w : list sample) : option Z := Some (sumv w).
Definition pf_none (_ : unit) (_ : Z) (_ : list (list (Z * Z))) : list (Z * Z) := [].

Definition pexpr := expr unit unit unit.
Definition p_eval_range (lb : Z) (u : list Z) :=
  eval_range unit unit unit Z (fun _ _ => true) Z.eqb u wf_sum pf_none lb.
Definition p_eval_instant (lb : Z) (u : list Z) :=
  eval_instant unit unit unit Z (fun _ _ => true) Z.eqb u wf_sum pf_none lb.
Definition p_preprocess := preprocess unit unit unit (fun _ => true) (fun _ => true).

Definition probe_expr (p : probe) : option pexpr :=
  match p_kind p with
  | 0 => Some (EVec _ _ _ tt (p_off p) None)
  | 2 => Some (ECall _ _ _ tt tt (p_range p) (p_off p) None)
  | 3 => Some (ESub _ _ _ tt (EVec _ _ _ tt (p_ioff p) None) (p_range p) (p_sstep p) (p_off p))
  | 4 => Some (EVec _ _ _ tt (p_off p) (Some (p_at p)))
  | 5 => Some (ECall _ _ _ tt tt (p_range p) (p_off p) (Some (p_at p)))
  | _ => None
  end.

Definition dense (u : list Z) (v : list (Z * Z)) : list Z :=
  map (fun l => match lookup Z Z.eqb l v with Some x => x | None => 0 end) u.

Fixpoint list_eqb {A} (eqb : A -> A -> bool) (l1 l2 : list A) : bool :=
  match l1, l2 with
  | [], [] => true
  | x :: r1, y :: r2 => eqb x y && list_eqb eqb r1 r2
  | _, _ => false
  end.

Definition times (c : case) : list Z :=
  map (fun k => c_start c + Z.of_nat k * c_interval c) (seq 0 (c_n c)).

Definition opt_t (o : option sample) : Z := match o with Some p => sT p | None => 0 end.

Definition agree_probe (c : case) (p : probe) : bool :=
  let u := map Z.of_nat (seq 0 (length (c_series c))) in
  let d := combine u (c_series c) in
  let lb := c_lookback c in
  match probe_expr p with
  | Some e =>
      let r := p_eval_range lb u d (p_preprocess e) (c_start c) (c_interval c) (c_n c) in
      let i := map (p_eval_instant lb u d e) (times c) in
      list_eqb (list_eqb Z.eqb) (map (dense u) r) (p_robs p) &&
      list_eqb (list_eqb Z.eqb) (map (dense u) i) (p_iobs p)
  | None =>
      if p_kind p =? 1 then
        (* timestamp(p offset o): rangeEvalTimestampFunctionOverVectorSelector keeps one
           memoized iterator (delta = lookback-1) per series across the steps *)
        let runs := map (fun s => sel_steps lb (lb - 1) s (p_off p) (c_interval c) (c_n c) (c_start c))
                        (c_series c) in
        let r := map (fun k => map (fun run => opt_t (nth k run None)) runs) (seq 0 (c_n c)) in
        let i := map (fun t => map (fun s => opt_t (select_spec lb s (t - p_off p))) (c_series c))
                     (times c) in
        list_eqb (list_eqb Z.eqb) r (p_robs p) && list_eqb (list_eqb Z.eqb) i (p_iobs p)
      else false
  end.

Definition agree (c : case) : bool := forallb (agree_probe c) (c_probes c).

(* ---- holds ---------------------------------------------------------------------------------- *)
Open Scope uint63_scope.
Definition is_nan (hi lo : int) : bool :=
  ((hi land 2146435072) =? 2146435072) && (negb ((hi land 1048575) =? 0) || negb (lo =? 0)).

(* flat vectors: key kind hi lo, kind 0 = float (bits), 1 = histogram (digest) *)
Fixpoint vec_eq (a b : list int) : bool :=
  match a, b with
  | [], [] => true
  | k1 :: d1 :: h1 :: l1 :: r1, k2 :: d2 :: h2 :: l2 :: r2 =>
      (k1 =? k2) && (d1 =? d2) &&
      (((h1 =? h2) && (l1 =? l2)) || ((d1 =? 0) && is_nan h1 l1 && is_nan h2 l2)) &&
      vec_eq r1 r2
  | _, _ => false
  end.
Close Scope uint63_scope.

Definition holds_g (n : nat) (g : gobs) : bool :=
  if g_rerr g then existsb (fun b => b) (g_ierr g)
  else negb (existsb (fun b => b) (g_ierr g)) &&
       (length (g_r g) =? length (g_i g))%nat && (length (g_r g) =? n)%nat &&
       list_eqb vec_eq (g_r g) (g_i g).

Definition holds (c : case) : bool := forallb (holds_g (c_n c)) (c_gens c).

Definition mismatches (cs : list case) : list Z := map c_id (filter (fun c => negb (agree c)) cs).
Definition failing_holds (cs : list case) : list Z := map c_id (filter (fun c => negb (holds c)) cs).

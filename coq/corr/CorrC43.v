(* corr/CorrC43.v — correspondence (agree) and specification (holds) checkers for C43 cases.
   A case is either one real convertBucketsLayout call (through the export shim) or one OTLP
   metric pushed through the real PrometheusConverter.FromMetrics into a recording appender. *)
From Coq Require Import List ZArith Bool.
From Verif Require Import lib.Int64 model.Otlp.
Import ListNotations.
Open Scope Z_scope.

(* Which variant of convertBucketsLayout the tree under test has.  false: the code before commit b3f28523c8 of /repo;
   true: the tree with that fix (notes/C43_fix.md), which is what /repo HEAD contains now. *)
Definition code_is_fixed : bool := true.

Definition from_metric := from_metric_gen code_is_fixed.
Definition cbl := convert_buckets_layout_gen code_is_fixed.

Inductive case :=
  | CLayout (id : Z) (counts : list Z) (off sd : Z) (adjust : bool) (obs : list span * list Z)
  | CMetric (id : Z) (s : settings) (m : metric) (obs : result).

Definition c_id (c : case) : Z := match c with CLayout i _ _ _ _ _ => i | CMetric i _ _ _ => i end.

(* ---------- equality on observables ---------- *)
Fixpoint list_eqb {A} (e : A -> A -> bool) (a b : list A) : bool :=
  match a, b with
  | [], [] => true
  | x :: a', y :: b' => e x y && list_eqb e a' b'
  | _, _ => false
  end.
Definition span_eqb (a b : span) : bool := (s_off a =? s_off b) && (s_len a =? s_len b).
Definition layout_eqb (a b : list span * list Z) : bool :=
  list_eqb span_eqb (fst a) (fst b) && list_eqb Z.eqb (snd a) (snd b).
Definition hist_eqb (a b : hist) : bool :=
  (hint a =? hint b) && (schema a =? schema b) && (zcount a =? zcount b) &&
  layout_eqb (pspans a, pdeltas a) (pspans b, pdeltas b) &&
  layout_eqb (nspans a, ndeltas a) (nspans b, ndeltas b) &&
  (hsum a =? hsum b) && (hcount a =? hcount b) && list_eqb Z.eqb (custom a) (custom b).
Definition series_eqb (a b : series) : bool :=
  match a, b with
  | SPlain, SPlain | SSum, SSum | SCount, SCount => true
  | SBucket x, SBucket y => x =? y
  | _, _ => false
  end.
Definition sample_eqb (a b : sample) : bool :=
  match a, b with
  | Float s st t v, Float s' st' t' v' => series_eqb s s' && (st =? st') && (t =? t') && (v =? v')
  | Hist st t h, Hist st' t' h' => (st =? st') && (t =? t') && hist_eqb h h'
  | _, _ => false
  end.
Definition result_eqb (a b : result) : bool :=
  list_eqb sample_eqb (r_samples a) (r_samples b) && Bool.eqb (r_err a) (r_err b) &&
  Bool.eqb (r_warn_empty a) (r_warn_empty b) && Bool.eqb (r_warn_zc a) (r_warn_zc b).

Definition agree (c : case) : bool :=
  match c with
  | CLayout _ cs off sd adj obs => layout_eqb (cbl cs off sd adj) obs
  | CMetric _ s m obs => result_eqb (from_metric s m) obs
  end.

(* ---------- the property, evaluated on the implementation's output ---------- *)

(* inputs for which re-bucketing is specified: counts are uint64 whose total fits int64 (the
   deltas are int64), bucket indexes stay inside int32, and the (offset, scale) combination is
   one the converter uses (index shift with any scale-down, or no shift and no scale-down) *)
Definition layout_pre (cs : list Z) (off sd : Z) (adj : bool) : bool :=
  forallb (fun c => 0 <=? c) cs && (sumZ cs <=? maxInt64) &&
  int32b off && (Z.of_nat (length cs) <=? maxInt32) && (off + Z.of_nat (length cs) <=? maxInt32) &&
  (0 <=? sd) && (adj || (sd =? 0)).

Fixpoint idxs (i : Z) (n : nat) : list Z := match n with O => [] | S k => i :: idxs (i + 1) k end.

(* every bucket of the output holds exactly the sum of the source buckets it covers, and every
   source bucket is covered (checked on all output indexes and all source targets) *)
Definition layout_holds (cs : list Z) (off sd : Z) (adj : bool) (obs : list span * list Z) : bool :=
  if layout_pre cs off sd adj then
    let bs := buckets_of obs in
    layout_wf obs &&
    forallb (fun p => bucket_at bs p =? ref_sum cs off sd adj p)
            (map fst bs ++ map (target_of off sd adj) (idxs 0 (length cs)))
  else true.

(* exact value of a finite float64 bit pattern is m * 2^e *)
Definition float_is (v bits : Z) : bool :=
  if v =? 0 then bits =? 0 else
  let neg := two63 <=? bits in
  let b := if neg then bits - two63 else bits in
  let ex := Z.shiftr b 52 in
  let m := b - Z.shiftl ex 52 + two52 in
  let d := ex - 1075 in
  Bool.eqb neg (v <? 0) && (0 <? ex) && (ex <? 2047) &&
  (if 0 <=? d then 2 * Z.abs (Z.shiftl m d - Z.abs v) <=? Z.shiftl 1 d
   else m =? Z.shiftl (Z.abs v) (- d)).

(* milliseconds of a nanosecond timestamp (specified for timestamps that fit int64) *)
Definition ms_ok (ns ms : Z) : bool := if ns <=? maxInt64 then ms =? ns / 1000000 else true.

Definition num_holds (p : numpt) (s : sample) : bool :=
  match s with
  | Float SPlain st t v =>
      ms_ok (n_st p) st && ms_ok (n_ts p) t &&
      (if n_norec p then v =? staleNaN else
       match n_val p with IntV i => float_is i v | DblV b => v =? b | EmptyV => v =? 0 end)
  | _ => false
  end.

Definition sum_count_holds (norec hassum : bool) (sum count : Z) (h : hist) : bool :=
  if norec then (hsum h =? staleNaN) && (hcount h =? staleNaN)
  else (hsum h =? (if hassum then sum else 0)) && (hcount h =? count).

Definition exp_holds (delta : bool) (p : exppt) (s : sample) : bool :=
  match s with
  | Hist st t h =>
      let k := Z.max 0 (e_scale p - 8) in
      ms_ok (e_st p) st && ms_ok (e_ts p) t &&
      (hint h =? (if delta then hintGauge else hintUnknown)) &&
      (schema h =? Z.min (e_scale p) 8) && (zcount h =? e_zero p) &&
      match custom h with [] => true | _ => false end &&
      layout_holds (b_counts (e_pos p)) (b_off (e_pos p)) k true (pspans h, pdeltas h) &&
      layout_holds (b_counts (e_neg p)) (b_off (e_neg p)) k true (nspans h, ndeltas h) &&
      sum_count_holds (e_norec p) (e_hassum p) (e_sum p) (e_count p) h
  | _ => false
  end.

Definition nhcb_holds (delta : bool) (p : histpt) (s : sample) : bool :=
  match s with
  | Hist st t h =>
      ms_ok (h_st p) st && ms_ok (h_ts p) t &&
      (hint h =? (if delta then hintGauge else hintUnknown)) &&
      (schema h =? customBucketsSchema) && (zcount h =? 0) &&
      list_eqb Z.eqb (custom h) (h_bounds p) &&
      match nspans h, ndeltas h with [], [] => true | _, _ => false end &&
      (* bucket j of the native histogram = explicit bucket j, for the whole (unstripped) array *)
      layout_holds (h_counts p) 0 0 false (pspans h, pdeltas h) &&
      sum_count_holds (h_norec p) (h_hassum p) (h_sum p) (h_count p) h
  | _ => false
  end.

(* classic histogram series of one data point, consumed from the front of the sample list *)
Fixpoint classic_bucket_holds (p : histpt) (cum : Z) (bounds counts : list Z) (ss : list sample)
  : option (list sample) :=
  match bounds, counts with
  | b :: bs, c :: cs =>
      match ss with
      | Float (SBucket le) st t v :: r =>
          let cum' := cum + c in
          if (le =? b) && ms_ok (h_st p) st && ms_ok (h_ts p) t &&
             (if h_norec p then v =? staleNaN
              else if cum' <? two64 then float_is cum' v else true)
          then classic_bucket_holds p cum' bs cs r else None
      | _ => None
      end
  | _, _ => Some ss
  end.

Definition float_sample_holds (p : histpt) (want : series) (val : Z -> bool) (s : sample) : bool :=
  match s with
  | Float sr st t v => series_eqb sr want && ms_ok (h_st p) st && ms_ok (h_ts p) t &&
                       (if h_norec p then v =? staleNaN else val v)
  | _ => false
  end.

Definition classic_holds (p : histpt) (ss : list sample) : option (list sample) :=
  let after_sum :=
    if h_hassum p then
      match ss with
      | s :: r => if float_sample_holds p SSum (fun v => v =? h_sum p) s then Some r else None
      | [] => None
      end
    else Some ss in
  match after_sum with
  | Some (s :: r) =>
      if float_sample_holds p SCount (float_is (h_count p)) s then
        match classic_bucket_holds p 0 (h_bounds p) (h_counts p) r with
        | Some (s' :: r') =>
            if float_sample_holds p (SBucket posInf) (float_is (h_count p)) s' then Some r' else None
        | _ => None
        end
      else None
  | _ => None
  end.

Fixpoint classic_all (pts : list histpt) (ss : list sample) : bool :=
  match pts with
  | [] => match ss with [] => true | _ => false end
  | p :: r => match classic_holds p ss with Some rest => classic_all r rest | None => false end
  end.

Fixpoint forall2b {A B} (f : A -> B -> bool) (a : list A) (b : list B) : bool :=
  match a, b with
  | [], [] => true
  | x :: a', y :: b' => f x y && forall2b f a' b'
  | _, _ => false
  end.

(* exponential histograms: data points are converted in order up to the first one whose scale
   is below the supported minimum, which is reported as an error *)
Fixpoint exp_all (delta : bool) (pts : list exppt) (ss : list sample) (err : bool) : bool :=
  match pts with
  | [] => match ss with [] => negb err | _ => false end
  | p :: r =>
      if e_scale p <? -4 then match ss with [] => err | _ => false end
      else match ss with s :: ss' => exp_holds delta p s && exp_all delta r ss' err | [] => false end
  end.

Definition dropped (obs : result) (err : bool) : bool :=
  match r_samples obs with [] => Bool.eqb (r_err obs) err | _ => false end.

Definition metric_holds (s : settings) (m : metric) (obs : result) : bool :=
  match m with
  | MGauge pts => forall2b num_holds pts (r_samples obs) && negb (r_err obs)
  | MSum t pts =>
      if temp_ok s t then forall2b num_holds pts (r_samples obs) && negb (r_err obs)
      else dropped obs true
  | MHist t pts =>
      if temp_ok s t then
        negb (r_err obs) &&
        (if to_nhcb s then forall2b (nhcb_holds (is_delta t)) pts (r_samples obs)
         else classic_all pts (r_samples obs))
      else dropped obs true
  | MExp t pts =>
      if temp_ok s t then exp_all (is_delta t) pts (r_samples obs) (r_err obs)
      else dropped obs true
  end.

Definition holds (c : case) : bool :=
  match c with
  | CLayout _ cs off sd adj obs => layout_holds cs off sd adj obs
  | CMetric _ s m obs => metric_holds s m obs
  end.

Definition mismatches (cs : list case) : list Z := map c_id (filter (fun c => negb (agree c)) cs).
Definition failing_holds (cs : list case) : list Z := map c_id (filter (fun c => negb (holds c)) cs).

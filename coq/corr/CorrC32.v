(* corr/CorrC32.v — correspondence (agree) and specification (holds) checkers for C32 cases.

   A native case carries one generated FloatHistogram as the bucket sequence its real
   AllBucketIterator yielded (exact rational bounds/counts), whether AllReverseBucketIterator
   yielded the reversed sequence, and what the real code returned: histogram_count/sum/avg
   through the PromQL engine, HistogramQuantile on an ascending grid of quantiles and
   HistogramFraction on a family of intervals (each also run through the engine and compared
   bitwise on the Go side).  A classic case carries a bucket set (upper bound, count; a NaN
   count is None) and BucketQuantile's result and forcedMonotonic flag on the same grid.

   float64 values are transported exactly: [qp m e] / [qn m e] = +-m * 2^(e-1100) with m, e
   primitive 63-bit integers (Coq 8.16 parses decimal Z literals slowly). *)
From Coq Require Import List ZArith QArith Qabs Bool Uint63.
From Verif Require Import model.Quantile.
Import ListNotations.
Open Scope Q_scope.

(* ---- transport ---- *)
Definition pow2Q (e : Z) : Q :=
  match e with
  | Z0 => 1
  | Zpos p => inject_Z (2 ^ Zpos p)
  | Zneg p => 1 # (2 ^ p)
  end.
Definition qp (m e : int) : Q := Qred (inject_Z (Uint63.to_Z m) * pow2Q (Uint63.to_Z e - 1100)).
Definition qn (m e : int) : Q := Qopp (qp m e).
Definition xp (m e : int) : ext := Fin (qp m e).
Definition xn (m e : int) : ext := Fin (qn m e).
Definition zi (i : int) : Z := Uint63.to_Z i.

Record ncase := mkN {
  n_id : Z;
  n_h : hist;
  n_rev_ok : bool;                       (* reverse iterator = reversed forward sequence *)
  n_cnt : res; n_sum : res; n_avg : res; (* histogram_count/sum/avg via the engine *)
  n_qs : list (Q * res);                 (* ascending quantiles, HistogramQuantile *)
  n_fs : list (ext * ext * res)          (* lower, upper, HistogramFraction *)
}.
Record ccase := mkC {
  k_id : Z;
  k_bs : list (ext * option Q);          (* upper bound, count (None = NaN) *)
  k_qs : list (Q * res * bool)           (* ascending quantiles, BucketQuantile, forcedMonotonic *)
}.
(* a range query of histogram_count / histogram_sum / histogram_avg over a plain selector of one
   histogram series: the stored samples (timestamp, count, sum) and, per step, what the engine
   returned (None = no sample at that step) *)
Record rcase := mkR {
  r_id : Z;
  r_lookback : Z;
  r_samples : list (Z * Q * res);
  r_steps : list (Z * option res * option res * option res)
}.
Inductive case := CN (c : ncase) | CC (c : ccase) | CR (c : rcase).
Definition c_id (c : case) : Z :=
  match c with CN n => n_id n | CC k => k_id k | CR r => r_id r end.

(* ---- tolerant comparisons ---- *)
Definition rel9 : Q := 1 # 1000000000.
Definition rel12 : Q := 1 # 1000000000000.
Definition abs13 : Q := 1 # 10000000000000.
Definition Qmax (a b : Q) : Q := if Qle_bool a b then b else a.
(* a <= b up to rounding *)
Definition qle_tol (rel : Q) (a b : Q) : bool :=
  Qle_bool a (b + rel * Qmax (Qabs a) (Qabs b) + abs13).
Definition qclose (a b : Q) : bool := qle_tol rel9 a b && qle_tol rel9 b a.
Definition ext_le_tol (rel : Q) (a b : ext) : bool :=
  match a, b with
  | Fin x, Fin y => qle_tol rel x y
  | _, _ => ext_leb a b
  end.
Definition res_close (o m : res) : bool :=
  match o, m with
  | RNaN, RNaN => true
  | R a, R b => ext_le_tol rel9 a b && ext_le_tol rel9 b a
  | _, _ => false
  end.
Definition res_exact (o m : res) : bool :=
  match o, m with
  | RNaN, RNaN => true
  | R a, R b => ext_eqb a b
  | _, _ => false
  end.
(* lo <= o <= hi up to rounding; NaN only if both ends are NaN *)
Definition res_between (lo o hi : res) : bool :=
  match lo, o, hi with
  | RNaN, RNaN, RNaN => true
  | R a, R x, R b => ext_le_tol rel9 a x && ext_le_tol rel9 x b
  | _, _, _ => false
  end.

(* ---- the two extreme monotone interpolations between the same endpoints: every
        interpolation satisfying the Section hypotheses of the proofs lies between them ---- *)
Definition ilo (a b f : Q) : Q := if Qle_bool 1 f then b else a.
Definition ihi (a b f : Q) : Q := if Qle_bool f 0 then a else b.
Definition flo (a b x : Q) : Q := 0.
Definition fhi (a b x : Q) : Q := 1.

(* ================================================================ native: agree *)
Definition agree_q (h : hist) (qr : Q * res) : bool :=
  let '(q, r) := qr in
  let lo := hquantile ilo q h in
  let hi := hquantile ihi q h in
  res_between lo r hi &&
  (* where the code interpolates linearly the two coincide with the linear model *)
  (if res_exact lo hi then res_close r (hquantile ilin q h) else true).

Definition agree_f (h : hist) (lur : ext * ext * res) : bool :=
  let '(l, u, r) := lur in
  (* the fraction is (upperRank - lowerRank)/count, both ranks increasing in the
     interpolation: bracket with the mixed extremes; where no exponential interpolation is
     involved the extremes coincide and the linear model must match closely *)
  let '(l0, u0) := hfranks flo l u h in
  let '(l1, u1) := hfranks fhi l u h in
  if Qeq_bool l0 l1 && Qeq_bool u0 u1 then res_close r (hfraction flin l u h)
  else
    match hfraction flin l u h, r with
    | R (Fin _), R (Fin x) =>
        qle_tol rel9 ((u0 - l1) / h_count h) x && qle_tol rel9 x ((u1 - l0) / h_count h)
    | _, _ => false
    end.

Definition agree_n (c : ncase) : bool :=
  let h := n_h c in
  n_rev_ok c &&
  res_exact (n_cnt c) (hist_count h) &&
  res_exact (n_sum c) (hist_sum h) &&
  res_close (n_avg c) (hist_avg h) &&
  forallb (agree_q h) (n_qs c) &&
  forallb (agree_f h) (n_fs c).

(* ================================================================ native: holds *)
Definition in01 (q : Q) : bool := Qle_bool 0 q && Qle_bool q 1.

(* non-NaN results never decrease along the (ascending) grid *)
Fixpoint mono_from (prev : option ext) (l : list res) : bool :=
  match l with
  | [] => true
  | RNaN :: r => mono_from prev r
  | R e :: r =>
      match prev with
      | None => mono_from (Some e) r
      | Some p => ext_le_tol rel12 p e && mono_from (Some e) r
      end
  end.
Fixpoint ascending (l : list Q) : bool :=
  match l with
  | a :: ((b :: _) as r) => Qle_bool a b && ascending r
  | _ => true
  end.

(* a well-formed histogram in the sense of the theorems *)
Fixpoint sorted_bk (bs : list bucket) : bool :=
  match bs with
  | a :: ((b :: _) as r) => ext_leb (bu a) (bl b) && sorted_bk r
  | _ => true
  end.
Definition wf_hist (h : hist) : bool :=
  Qlt_bool 0 (h_count h) && negb (sum_nan h) &&
  Qeq_bool (h_count h) (sumc (h_buckets h)) &&
  forallb (fun b => Qle_bool 0 (bc b) && ext_ltb (bl b) (bu b)) (h_buckets h) &&
  sorted_bk (h_buckets h) &&
  negb (existsb (fun b => is_ninf (bl b) && is_pinf (bu b)) (h_buckets h)).

(* some populated bucket holds the rank q*count and contains r *)
Fixpoint rank_bucket (rank : Q) (r : ext) (cum : Q) (bs : list bucket) : bool :=
  match bs with
  | [] => false
  | b :: rest =>
      (Qlt_bool 0 (bc b) && Qle_bool cum rank && Qle_bool rank (cum + bc b) &&
       ext_le_tol rel9 (bl b) r && ext_le_tol rel9 r (bu b))
      || rank_bucket rank r (cum + bc b) rest
  end.

(* a histogram with NaN observations: as wf_hist but sum NaN and count >= sum of the buckets > 0 *)
Definition wfn_hist (h : hist) : bool :=
  Qlt_bool 0 (h_count h) && sum_nan h &&
  Qle_bool (sumc (h_buckets h)) (h_count h) && Qlt_bool 0 (sumc (h_buckets h)) &&
  forallb (fun b => Qle_bool 0 (bc b) && ext_ltb (bl b) (bu b)) (h_buckets h) &&
  sorted_bk (h_buckets h) &&
  negb (existsb (fun b => is_ninf (bl b) && is_pinf (bu b)) (h_buckets h)).

Definition holds_q (h : hist) (wf wfn : bool) (qr : Q * res) : bool :=
  let '(q, r) := qr in
  if in01 q && wf then
    match r with
    | RNaN => false
    | R e => rank_bucket (q * h_count h) e 0 (h_buckets h)
    end
  else if in01 q && wfn then
    (* NaN observations: a rank within the buckets gives a number inside the bucket holding it *)
    if Qle_bool (q * h_count h) (sumc (h_buckets h)) then
      match r with
      | RNaN => false
      | R e => rank_bucket (q * h_count h) e 0 (h_buckets h)
      end
    else true
  else true.

Definition contains (lo1 up1 lo2 up2 : ext) : bool := ext_leb lo2 lo1 && ext_leb up1 up2.

Definition holds_f (h : hist) (all : list (ext * ext * res)) (lur : ext * ext * res) : bool :=
  let '(l, u, r) := lur in
  if Qeq_bool (h_count h) 0 then true
  else
    match r with
    | R (Fin x) =>
        Qle_bool 0 x && Qle_bool x 1 &&
        (* = 1 over (-Inf, +Inf) *)
        (if is_ninf l && is_pinf u && negb (sum_nan h) && negb (Nat.eqb (length (h_buckets h)) 0)
         then Qeq_bool x 1 else true) &&
        (* every interval containing this one has at least this fraction *)
        forallb (fun lur2 =>
                   let '(l2, u2, r2) := lur2 in
                   if contains l u l2 u2 then
                     match r2 with R (Fin y) => qle_tol rel12 x y | _ => false end
                   else true) all
    | _ => false
    end.

Definition holds_n (c : ncase) : bool :=
  let h := n_h c in
  (* histogram_count / sum / avg return the histogram's count, sum and their ratio *)
  res_exact (n_cnt c) (R (Fin (h_count h))) &&
  res_exact (n_sum c) (h_sum h) &&
  res_close (n_avg c) (fdiv (h_sum h) (h_count h)) &&
  ascending (map fst (n_qs c)) &&
  (* monotone in q: for consistent histograms, and for histograms with NaN observations *)
  (if Qeq_bool (h_count h) (sumc (h_buckets h)) || sum_nan h
   then mono_from None (map snd (n_qs c)) else true) &&
  (let wf := wf_hist h in let wfn := wfn_hist h in forallb (holds_q h wf wfn) (n_qs c)) &&
  forallb (holds_f h (n_fs c)) (n_fs c).

(* ================================================================ classic *)
Definition finite_counts (bs : list (ext * option Q)) : bool :=
  forallb (fun b => match snd b with Some c => Qle_bool 0 c | None => false end) bs.
Definition to_cb (bs : list (ext * option Q)) : list cbucket :=
  map (fun b => mkCB (fst b) (match snd b with Some c => c | None => 0 end)) bs.

Definition agree_c (c : ccase) : bool :=
  if finite_counts (k_bs c) then
    forallb (fun qrf =>
               let '(q, r, f) := qrf in
               match bucket_quantile q (to_cb (k_bs c)) with
               | QOk m mf => res_close r m && Bool.eqb f mf
               | _ => false
               end) (k_qs c)
  else true.   (* NaN counts are outside the model; see holds *)

Definition fin_ubs (bs : list (ext * option Q)) : list Q :=
  flat_map (fun b => match fst b with Fin x => [x] | _ => [] end) bs.

Definition holds_c (c : ccase) : bool :=
  ascending (map (fun x => fst (fst x)) (k_qs c)) &&
  mono_from None (map (fun x => snd (fst x)) (k_qs c)) &&
  (* results for q in [0,1] are NaN or between min(0, lowest bound) and the highest finite bound *)
  forallb (fun qrf =>
             let '(q, r, _) := qrf in
             if in01 q then
               match r with
               | RNaN => true
               | R (Fin x) =>
                   existsb (fun u => qle_tol rel12 x u) (fin_ubs (k_bs c)) &&
                   (Qle_bool 0 x || existsb (fun u => qle_tol rel12 u x) (fin_ubs (k_bs c)))
               | R _ => false
               end
             else match r with
                  | R NInf => Qlt_bool q 0
                  | R PInf => Qlt_bool 1 q
                  | _ => false
                  end) (k_qs c).

(* ================================================================ range queries *)
(* the sample an instant vector selector sees at time t: the latest one with t - lookback < ts <= t *)
Fixpoint select_sample (lb t : Z) (ss : list (Z * Q * res)) (acc : option (Q * res)) : option (Q * res) :=
  match ss with
  | [] => acc
  | (ts, c, sm) :: r =>
      if (ts <=? t)%Z then select_sample lb t r (if (t - lb <? ts)%Z then Some (c, sm) else None)
      else acc
  end.

Definition ores (chk : res -> res -> bool) (o : option res) (m : option res) : bool :=
  match o, m with
  | None, None => true
  | Some a, Some b => chk a b
  | _, _ => false
  end.

(* model: the histogram functions of model/Quantile.v applied to the selected stored histogram *)
Definition agree_r (c : rcase) : bool :=
  forallb (fun st =>
    let '(t, oc, os, oa) := st in
    let sel := select_sample (r_lookback c) t (r_samples c) None in
    let hh := option_map (fun cs => mkH (fst cs) (snd cs) false true false []) sel in
    ores res_exact oc (option_map hist_count hh) &&
    ores res_exact os (option_map hist_sum hh) &&
    ores res_close oa (option_map hist_avg hh)) (r_steps c).

(* property: every step reports the count, sum and their ratio of the histogram stored for that step *)
Definition holds_r (c : rcase) : bool :=
  forallb (fun st =>
    let '(t, oc, os, oa) := st in
    match select_sample (r_lookback c) t (r_samples c) None with
    | None => match oc, os, oa with None, None, None => true | _, _, _ => false end
    | Some (cnt, sm) =>
        ores res_exact oc (Some (R (Fin cnt))) && ores res_exact os (Some sm) &&
        ores res_close oa (Some (fdiv sm cnt))
    end) (r_steps c).

Definition agree (c : case) : bool :=
  match c with CN n => agree_n n | CC k => agree_c k | CR r => agree_r r end.
Definition holds (c : case) : bool :=
  match c with CN n => holds_n n | CC k => holds_c k | CR r => holds_r r end.

Definition mismatches (cs : list case) : list Z := map c_id (filter (fun c => negb (agree c)) cs).
Definition failing_holds (cs : list case) : list Z := map c_id (filter (fun c => negb (holds c)) cs).

(* corr/CorrC04.v — correspondence (agree) and specification (holds) checkers for C04 cases.

   A master is a real database directory as the harness read it back: the samples of its
   blocks, the records of checkpoint / WAL / WBL segments (decoded with the real record
   decoder, with the fragment layout), the chunks of the head chunk files, the written history.
   An experiment is one damage (truncation or one changed byte) of one file of a copy of the
   master, followed by the real tsdb.Open, a query, appends, Close, a second Open and a query.
   Every experiment yields three cases (aspects), so that a failure of one part of the property
   does not hide the others:
     aspect 0: the open itself - an error leaves every other file as it was; otherwise no
               sample that was not written, and the damaged log is replayed up to the damage
     aspect 1: the undamaged logs are replayed in full
     aspect 2: writes after the open are accepted and kept, nothing disappears or appears
               at the second open
   agree (aspect 0 only) compares everything observed with model/Damage.v's scenario. *)
From Coq Require Import List ZArith Bool Uint63 MSets.MSetPositive.
From Verif Require Import model.Damage.
Import ListNotations.
Open Scope Z_scope.

Definition z (i : int) : Z := Uint63.to_Z i.
Definition zn (i : int) : Z := - Uint63.to_Z i.

(* samples as one number: identity * 2^56 + t * 2^28 + v  (0 <= t, v < 2^28) *)
Definition pk (x : Z * Z * Z) : Z := let '(id, t, v) := x in id * 72057594037927936 + t * 268435456 + v.
Definition unpk (p : Z) : Z * Z * Z :=
  (p / 72057594037927936, (p / 268435456) mod 268435456, p mod 268435456).

Module PS := PositiveSet.
Definition key (p : Z) : positive := Z.to_pos (p + 1).
Definition mkset (l : list Z) : PS.t := fold_left (fun s p => PS.add (key p) s) l PS.empty.
Definition subset_of (l : list Z) (s : PS.t) : bool := forallb (fun p => PS.mem (key p) s) l.
Definition seteq (a b : list Z) : bool := subset_of a (mkset b) && subset_of b (mkset a).
Definition minus (a : list Z) (b : list Z) : list Z := let s := mkset b in filter (fun p => negb (PS.mem (key p) s)) a.

Record master := mkM { m_disk : disk; m_hist : list Z; m_base : list Z }.

(* which file is damaged *)
Inductive role := RoleWal | RoleWbl | RoleCkpt | RoleChunk.

Inductive obs :=
| ObsErr (lost : Z) (wal_left wbl_left : list Z)       (* Open failed: number of other files missing or altered; segment indices left *)
| ObsOk (repair : Z) (crep : bool)                     (* 0 none, 1 WAL, 2 WBL; head chunk files dropped *)
        (c1_missing c1_extra : list Z)                 (* contents after open 1, relative to the undamaged contents *)
        (attempted : Z) (added : list Z)               (* appends tried / acknowledged *)
        (c1b_missing c1b_extra : list Z)               (* contents after the appends, relative to C1 + added *)
        (open2 : bool) (repair2 : Z)
        (c2_missing c2_extra : list Z).                (* contents after the second open, relative to undamaged + added *)

Record exper := mkE { e_m : master; e_role : role; e_file : Z; e_dmg : dmg; e_or : oracle; e_crc_ok : bool; e_obs : obs }.

Record case := mkCase { c_id : Z; c_aspect : Z; c_e : exper }.

(* ------------------------------------------------------------------ the damaged disk *)
Definition dmg_segs (segs : list (Z * seg)) (file : Z) (d : dmg) (o : oracle) : list (Z * seg) :=
  map (fun p => if fst p =? file then (fst p, mkSeg (sg_size (snd p)) (sg_recs (snd p)) d o) else p) segs.

Definition damaged_disk (e : exper) : disk :=
  let d := m_disk (e_m e) in
  match e_role e with
  | RoleWal => mkD (d_blocks d) (d_minvalid d) (d_ckpt d) (dmg_segs (d_wal d) (e_file e) (e_dmg e) (e_or e)) (d_wbl d) (d_chunks d) (d_cap d)
  | RoleWbl => mkD (d_blocks d) (d_minvalid d) (d_ckpt d) (d_wal d) (dmg_segs (d_wbl d) (e_file e) (e_dmg e) (e_or e)) (d_chunks d) (d_cap d)
  | RoleCkpt => mkD (d_blocks d) (d_minvalid d)
                    (match d_ckpt d with Some (i, l) => Some (i, dmg_segs l (e_file e) (e_dmg e) (e_or e)) | None => None end)
                    (d_wal d) (d_wbl d) (d_chunks d) (d_cap d)
  | RoleChunk => mkD (d_blocks d) (d_minvalid d) (d_ckpt d) (d_wal d) (d_wbl d)
                     (map (fun f => if cf_idx f =? e_file e then mkCF (cf_idx f) (cf_size f) (cf_chunks f) (e_dmg e) (e_crc_ok e) else f) (d_chunks d))
                     (d_cap d)
  end.

(* ------------------------------------------------------------------ observed contents *)
Definition apply_delta (base missing extra : list Z) : list Z := minus base missing ++ extra.

Definition obs_c1 (e : exper) : list Z :=
  match e_obs e with ObsOk _ _ ms ex _ _ _ _ _ _ _ _ => apply_delta (m_base (e_m e)) ms ex | _ => [] end.

(* ------------------------------------------------------------------ agree *)
Definition kind_code (k : repair_kind) : Z := match k with KNone => 0 | KWal => 1 | KWbl => 2 end.
Definition pks (l : list (Z * Z * Z)) : list Z := map pk l.
Definition seg_idxs (l : list (Z * seg)) : list Z := map fst l.
Fixpoint zleq (a b : list Z) : bool :=
  match a, b with [], [] => true | x :: a', y :: b' => (x =? y) && zleq a' b' | _, _ => false end.

Definition agree_exp (e : exper) : bool :=
  let d := damaged_disk e in
  match e_obs e with
  | ObsErr _ wl bl =>
    match scenario d [] with
    | SErr d' => zleq (seg_idxs (d_wal d')) wl && zleq (seg_idxs (d_wbl d')) bl
    | SUnmod => true
    | _ => false
    end
  | ObsOk rep crep ms ex _ added bms bex o2 rep2 ms2 ex2 =>
    let base := m_base (e_m e) in
    let c1 := apply_delta base ms ex in
    let c1b := apply_delta (c1 ++ added) bms bex in
    let c2 := apply_delta (base ++ added) ms2 ex2 in
    match scenario d (map unpk added) with
    | SOk m1 k cr m1b r2 =>
      (kind_code k =? rep) && Bool.eqb cr crep && seteq (pks m1) c1 && seteq (pks m1b) c1b &&
      match r2 with
      | R2Ok m2 k2 => o2 && (kind_code k2 =? rep2) && seteq (pks m2) c2
      | R2Fail => negb o2
      | R2Unmod => true
      end
    | SUnmod => true
    | _ => false
    end
  end.

Definition unmodelled (e : exper) : bool :=
  match scenario (damaged_disk e) (match e_obs e with ObsOk _ _ _ _ _ added _ _ _ _ _ _ => map unpk added | _ => [] end) with
  | SUnmod => true | SOk _ _ _ _ R2Unmod => true | _ => false end.

(* ------------------------------------------------------------------ holds: the property itself *)
Definition recs_of (segs : list (Z * seg)) : list wrec := flat_map (fun p => seg_contents (snd p)) segs.
Definition decls (rs : list wrec) : list (Z * Z) := flat_map (fun r => match r with RSeries l => l | _ => [] end) rs.
Definition smps (rs : list wrec) : list (Z * Z * Z) := flat_map (fun r => match r with RSamples l => l | _ => [] end) rs.

(* samples (ref, t, v) of series declared in dm, as packed (identity, t, v) *)
Definition attrib (dm : list (Z * Z)) (l : list (Z * Z * Z)) : list Z :=
  flat_map (fun x => let '(ref, t, v) := x in match lookup ref dm with Some id => [pk (id, t, v)] | None => [] end) l.
(* WAL replay keeps a float sample only if it is newer than every earlier sample of its series
   in the log (out-of-order samples are logged to the WAL too, but only the WBL replays them) *)
Fixpoint in_order_only (mx : list (Z * Z)) (l : list (Z * Z * Z)) : list (Z * Z * Z) :=
  match l with
  | [] => []
  | (ref, t, v) :: rest =>
    match lookup ref mx with
    | Some t0 => if t0 <? t then (ref, t, v) :: in_order_only (update ref t mx) rest else in_order_only mx rest
    | None => (ref, t, v) :: in_order_only (update ref t mx) rest
    end
  end.

Definition chunk_smps (fs : list cfile) : list (Z * Z * Z) :=
  flat_map (fun f => flat_map (fun c => map (fun p => (c_ref c, fst p, snd p)) (c_samples c)) (cf_chunks f)) fs.

(* number of records of the damaged log that lie wholly before the damage *)
Definition before_in_seg (d : dmg) (s : seg) : Z :=
  match d with
  | DNone => Z.of_nat (length (sg_recs s))
  | DTrunc off | DByte off _ => Z.of_nat (length (filter (fun r => r_end r <=? off) (sg_recs s)))
  end.
Fixpoint before_dmg (segs : list (Z * seg)) (file : Z) (d : dmg) : Z :=
  match segs with
  | [] => 0
  | (i, s) :: rest => if i =? file then before_in_seg d s else Z.of_nat (length (sg_recs s)) + before_dmg rest file d
  end.

(* what the database must / may contain when the damaged log is replayed up to record k and
   the others in full: (must, may) *)
Definition spec_at (e : exper) (k : Z) (with_others : bool) : list Z * list Z :=
  let d := m_disk (e_m e) in
  let kn := Z.to_nat k in
  let crecs := recs_of (ckpt_recs d) in
  let wrecs := recs_of (d_wal d) in
  let brecs := recs_of (d_wbl d) in
  let '(cr, wr, br) :=
    match e_role e with
    | RoleCkpt => (firstn kn crecs, wrecs, brecs)
    | RoleWal => (crecs, firstn kn wrecs, brecs)
    | RoleWbl => (crecs, wrecs, firstn kn brecs)
    | RoleChunk => (crecs, wrecs, brecs)
    end in
  let dm := decls (cr ++ wr) in
  let blocks := map pk (d_blocks d) in
  let walpart := attrib dm (in_order_only [] (smps (cr ++ wr))) in
  let wblpart := attrib dm (smps br) in
  let '(own, others) := match e_role e with RoleWbl => (wblpart, walpart) | _ => (walpart, wblpart) end in
  let must := blocks ++ own ++ (if with_others then others else []) in
  let may := blocks ++ own ++ others ++ attrib dm (smps (cr ++ wr)) ++ attrib dm (chunk_smps (d_chunks d)) in
  (must, may).

Definition log_len (e : exper) : Z :=
  let d := m_disk (e_m e) in
  match e_role e with
  | RoleCkpt => Z.of_nat (length (recs_of (ckpt_recs d)))
  | RoleWal => Z.of_nat (length (recs_of (d_wal d)))
  | RoleWbl => Z.of_nat (length (recs_of (d_wbl d)))
  | RoleChunk => 0
  end.

Definition kd (e : exper) : Z :=
  let d := m_disk (e_m e) in
  match e_role e with
  | RoleCkpt => before_dmg (ckpt_recs d) (e_file e) (e_dmg e)
  | RoleWal => before_dmg (d_wal d) (e_file e) (e_dmg e)
  | RoleWbl => before_dmg (d_wbl d) (e_file e) (e_dmg e)
  | RoleChunk => 0
  end.

(* exists k, kd <= k <= n, must k included in c1 included in may k; tried from n downwards *)
Fixpoint sandwich (e : exper) (c1 : list Z) (c1s : PS.t) (with_others : bool) (lo : Z) (fuel : nat) (k : Z) : bool :=
  let '(must, may) := spec_at e k with_others in
  if (if subset_of must c1s then subset_of c1 (mkset may) else false) then true
  else match fuel with
       | O => false
       | S f => if k <=? lo then false else sandwich e c1 c1s with_others lo f (k - 1)
       end.

Definition prefix_ok (e : exper) (with_others : bool) : bool :=
  let c1 := obs_c1 e in
  let n := log_len e in
  sandwich e c1 (mkset c1) with_others (kd e) (Z.to_nat (n - kd e)) n.

Definition holds_exp (aspect : Z) (e : exper) : bool :=
  match e_obs e with
  | ObsErr lost _ _ => if aspect =? 0 then lost =? 0 else true
  | ObsOk rep crep ms ex att added bms bex o2 rep2 ms2 ex2 =>
    let base := m_base (e_m e) in
    let hist := m_hist (e_m e) in
    let c1 := apply_delta base ms ex in
    if aspect =? 0 then subset_of c1 (mkset hist) && prefix_ok e false
    else if aspect =? 1 then prefix_ok e true
    else
      let c2 := apply_delta (base ++ added) ms2 ex2 in
      (att =? Z.of_nat (length added)) &&                 (* every write was accepted *)
      match bms, bex with [], [] => true | _, _ => false end &&   (* visible at once, nothing else changed *)
      o2 &&
      subset_of added (mkset c2) &&                       (* kept *)
      subset_of c1 (mkset c2) &&                          (* nothing that was readable disappears *)
      subset_of c2 (mkset (hist ++ added))                (* nothing appears that was never written *)
  end.

Definition agree (c : case) : bool := if c_aspect c =? 0 then agree_exp (c_e c) else true.
Definition holds (c : case) : bool := holds_exp (c_aspect c) (c_e c).

Definition mismatches (cs : list case) : list Z := map c_id (filter (fun c => negb (agree c)) cs).
Definition failing_holds (cs : list case) : list Z := map c_id (filter (fun c => negb (holds c)) cs).
Definition unmodelled_ids (cs : list case) : list Z :=
  map c_id (filter (fun c => (c_aspect c =? 0) && unmodelled (c_e c)) cs).

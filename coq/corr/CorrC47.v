(* corr/CorrC47.v — correspondence (agree) and specification (holds) checkers for C47.

   Two kinds of cases:
   - Det: a deterministic script (reloads through the real ApplyConfig, updates through the real
     updater goroutine, trigger drained through the export shim) with, after every operation,
     the observed trigger flag (after the operation; for a drain: whether the
     trigger was armed before it), allGroups() and m.targets.  agree = the model, run step by step
     through the same atomic steps, shows the same three observables.  holds = allGroups()
     equals the reference fold of the operation history (latest non-empty group per source of
     every live provider of the job; jobs without targets present and empty).
   - Conc: a concurrent run of the real Manager (Run + sender goroutine, fake discoverers on
     their own goroutines, slow consumer, concurrent ApplyConfig).  holds = every map received
     from SyncCh equals, for some configuration epoch within the observed window and for some
     per-(job, provider-instance) prefix cut of the batches actually sent within the observed
     bounds, the reference fold; the final pseudo-receive has exact bounds (full fold, last
     epoch).  agree = the model, run on a serialisation of the same history and drained, delivers
     the same final map. *)
From Coq Require Import List ZArith Bool.
From Verif Require Import model.Discovery.
Import ListNotations.
Open Scope Z_scope.

(* ---------- canonical views ---------- *)
Definition cview := list (Z * list Z).

Fixpoint zins (x : Z) (l : list Z) : list Z :=
  match l with [] => [x] | y :: r => if x <=? y then x :: l else y :: zins x r end.
Definition zsort (l : list Z) : list Z := fold_right zins [] l.

Fixpoint kins (x : Z * list Z) (l : cview) : cview :=
  match l with [] => [x] | y :: r => if fst x <=? fst y then x :: l else y :: kins x r end.
Definition ksort (l : cview) : cview := fold_right kins [] l.

Definition canon (l : cview) : cview := ksort (map (fun kv => (fst kv, zsort (snd kv))) l).

Fixpoint lzeqb (a b : list Z) : bool :=
  match a, b with
  | [], [] => true
  | x :: a', y :: b' => (x =? y) && lzeqb a' b'
  | _, _ => false
  end.
Fixpoint cveqb (a b : cview) : bool :=
  match a, b with
  | [], [] => true
  | (k, v) :: a', (k', v') :: b' => (k =? k') && lzeqb v v' && cveqb a' b'
  | _, _ => false
  end.

Definition view_snap (a : snap) : cview := canon (map (fun jg => (fst jg, map gid (snd jg))) a).

Definition cfg_of (P : list prov) (pn : Z) : Z :=
  match find (hasname pn) P with Some p => pcfg p | None => 99998 end.
Definition view_targets (P : list prov) (T : tmap) : cview :=
  canon (flat_map (fun e : key * imap =>
                     match snd e with
                     | [] => []
                     | m => [(fst (fst e) * 100000 + cfg_of P (snd (fst e)) + 1,
                              map (fun sg : Z * group => fst sg * 1000000 + gid (snd sg)) m)]
                     end) T).

(* ---------- scripts ---------- *)
Inductive dop := DReload (c : cfg) | DUpdate (cid : Z) (b : batch) | DDrain.

Definition exec_dop (s : state) (o : dop) : option state :=
  match o with
  | DReload c => step s (EReload c)
  | DUpdate cid b =>
      match find (fun p => (pcfg p =? cid) && pstarted p) (providers s) with
      | Some p => let pn := pname p in
                  run s ([EUpdate pn b; ELock pn] ++ repeat (ESub pn) (length (psubs p)) ++ [EUnlock pn; ETrig pn])
      | None => None
      end
  | DDrain =>
      if trigger s
      then run s ((if cwait s then [] else [EWait]) ++ [ETake]
                  ++ repeat ESnapProv (length (providers s)) ++ [ESnapDone; ESend])
      else Some s
  end.

Record dobs := mkO { o_armed : option bool; o_ag : cview; o_tg : cview }.

Fixpoint agree_det (s : state) (ops : list dop) (obs : list dobs) : bool :=
  match ops, obs with
  | [], [] => true
  | o :: ops', b :: obs' =>
      match exec_dop s o with
      | Some s' =>
          match o_armed b with
          | Some a => Bool.eqb a (match o with DDrain => trigger s | _ => trigger s' end)
          | None => true
          end
          && cveqb (view_snap (allGroups (providers s') (targets s'))) (o_ag b)
          && cveqb (view_targets (providers s') (targets s')) (o_tg b)
          && agree_det s' ops' obs'
      | None => false
      end
  | _, _ => false
  end.

(* ---------- reference fold over the operation history (independent of the model's steps) ---------- *)
Record sp := mkSp { sp_jobs : list (Z * list Z); sp_hist : list (Z * list batch) }.

Fixpoint dedupe (l : list Z) : list Z :=
  match l with [] => [] | x :: r => if zmem x r then dedupe r else x :: dedupe r end.
Definition eff (cs : list (Z * bool)) : list Z :=
  match dedupe (map fst (filter (fun c : Z * bool => snd c) cs)) with [] => [STATIC_EMPTY] | l => l end.
Fixpoint hget (cid : Z) (h : list (Z * list batch)) : option (list batch) :=
  match h with [] => None | (c, l) :: r => if c =? cid then Some l else hget cid r end.
Definition sp_step (s : sp) (o : dop) : sp :=
  match o with
  | DReload c =>
      let jobs := map (fun jc : Z * list (Z * bool) => (fst jc, eff (snd jc))) c in
      let cids := dedupe (flat_map snd jobs) in
      mkSp jobs (map (fun cid => (cid, match hget cid (sp_hist s) with Some l => l | None => [] end)) cids)
  | DUpdate cid b =>
      mkSp (sp_jobs s) (map (fun ch : Z * list batch => if fst ch =? cid then (fst ch, snd ch ++ [b]) else ch) (sp_hist s))
  | DDrain => s
  end.
Definition sp_view (s : sp) : cview :=
  canon (map (fun jc : Z * list Z =>
                (fst jc, flat_map (fun cid => map gid (latest (match hget cid (sp_hist s) with Some l => l | None => [] end)))
                                  (snd jc))) (sp_jobs s)).

Definition armed_ok (o : dop) (b : dobs) : bool :=
  match o, o_armed b with
  | DUpdate _ _, Some a => a
  | DReload (_ :: _), Some a => a
  | DDrain, Some a => a      (* reported only when the trigger was certainly armed before *)
  | _, _ => true
  end.

Fixpoint holds_det (s : sp) (ops : list dop) (obs : list dobs) : bool :=
  match ops, obs with
  | [], [] => true
  | o :: ops', b :: obs' =>
      let s' := sp_step s o in
      cveqb (sp_view s') (o_ag b) && armed_ok o b && holds_det s' ops' obs'
  | _, _ => false
  end.

(* ---------- concurrent runs ---------- *)
Record recv := mkR { r_elo : nat; r_ehi : nat; r_bounds : list (Z * (nat * nat)); r_map : cview }.

Definition owner (g : Z) : Z := g / 1000.    (* gid = instance * 1000 + sequence number *)
Fixpoint bget (i : Z) (l : list (Z * (nat * nat))) : nat * nat :=
  match l with [] => (O, O) | (j, b) :: r => if i =? j then b else bget i r end.
Fixpoint lget (i : Z) (l : list (Z * list batch)) : list batch :=
  match l with [] => [] | (j, b) :: r => if i =? j then b else lget i r end.
Fixpoint cvget (j : Z) (l : cview) : option (list Z) :=
  match l with [] => None | (k, v) :: r => if j =? k then Some v else cvget j r end.

(* some prefix cut c in [lo, hi] of the instance's sent batches explains what was observed *)
Definition cut_ok (logs : list (Z * list batch)) (bounds : list (Z * (nat * nat))) (observed : list Z) (i : Z) : bool :=
  let '(lo, hi) := bget i bounds in
  let mine := filter (fun g => owner g =? i) observed in
  existsb (fun c => lzeqb (zsort (map gid (latest (firstn c (lget i logs))))) mine)
          (seq lo (S hi - lo)).

Definition job_ok logs bounds (m : cview) (ji : Z * list Z) : bool :=
  match cvget (fst ji) m with
  | None => false                                        (* every configured job is delivered *)
  | Some observed =>
      forallb (fun g => zmem (owner g) (snd ji)) observed (* nothing from a provider not serving the job *)
      && forallb (cut_ok logs bounds observed) (snd ji)
  end.

Definition epoch_ok logs (r : recv) (jobs : list (Z * list Z)) : bool :=
  lzeqb (map fst (r_map r)) (zsort (map fst jobs))        (* exactly the configured jobs *)
  && forallb (job_ok logs (r_bounds r) (r_map r)) jobs.

Definition recv_ok (epochs : list (list (Z * list Z))) logs (r : recv) : bool :=
  existsb (fun e => epoch_ok logs r (nth e epochs [])) (seq (r_elo r) (S (r_ehi r) - r_elo r)).

Inductive case :=
| Det (id : Z) (ops : list dop) (obs : list dobs)
| Conc (id : Z) (epochs : list (list (Z * list Z))) (logs : list (Z * list batch))
       (recvs : list recv) (ops : list dop) (final : cview).

Definition c_id (c : case) : Z := match c with Det i _ _ => i | Conc i _ _ _ _ _ => i end.

Fixpoint exec_all (s : state) (ops : list dop) : option state :=
  match ops with [] => Some s | o :: r => match exec_dop s o with Some s' => exec_all s' r | None => None end end.

Definition agree (c : case) : bool :=
  match c with
  | Det _ ops obs => agree_det init ops obs
  | Conc _ _ _ _ ops final =>
      match exec_all init (ops ++ [DDrain]) with
      | Some s => cveqb (view_snap (delivered s)) final
                  && cveqb (view_snap (allGroups (providers s) (targets s))) final
      | None => false
      end
  end.

Definition holds (c : case) : bool :=
  match c with
  | Det _ ops obs => holds_det (mkSp [] []) ops obs
  | Conc _ epochs logs recvs _ final =>
      forallb (recv_ok epochs logs) recvs
      && match rev recvs with
         | last :: _ => cveqb (r_map last) final
         | [] => match epochs with [] | [_] => true | _ => false end
         end
  end.

Definition mismatches (cs : list case) : list Z := map c_id (filter (fun c => negb (agree c)) cs).
Definition failing_holds (cs : list case) : list Z := map c_id (filter (fun c => negb (holds c)) cs).

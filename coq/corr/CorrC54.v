(* corr/CorrC54.v — correspondence (agree) and specification (holds) checkers for C54 cases.
   A query case carries the configuration of the fake primary / secondary storages behind a
   real storage.NewFanout and everything the consumer observed (Querier / ChunkQuerier
   creation, every drained Select, LabelValues, LabelNames, Close flags).  An append case
   carries a history of fanout appender sessions and what was observed after each. *)
From Coq Require Import List ZArith Bool Arith.
From Verif Require Import model.Fanout.
Import ListNotations.
Open Scope Z_scope.

(* ------------------------------------------------------------------ equality helpers *)
Fixpoint list_eqb {A} (eqb : A -> A -> bool) (a b : list A) : bool :=
  match a, b with
  | [], [] => true
  | x :: a', y :: b' => eqb x y && list_eqb eqb a' b'
  | _, _ => false
  end.

Fixpoint all2 {A B} (f : A -> B -> bool) (a : list A) (b : list B) : bool :=
  match a, b with
  | [], [] => true
  | x :: a', y :: b' => f x y && all2 f a' b'
  | _, _ => false
  end.

Definition sample_eqb (a b : sample) : bool := (fst a =? fst b) && (snd a =? snd b).
Definition series_eqb (a b : series) : bool :=
  (s_key a =? s_key b) && list_eqb sample_eqb (s_smp a) (s_smp b).
Definition serl_eqb := list_eqb series_eqb.
Definition zl_eqb := list_eqb Z.eqb.
Definition memz (x : Z) (l : list Z) : bool := existsb (Z.eqb x) l.
Definition subset (a b : list Z) : bool := forallb (fun x => memz x b) a.
Definition set_eqb (a b : list Z) : bool := subset a b && subset b a.
Definition optz_eqb (a b : option Z) : bool :=
  match a, b with Some x, Some y => x =? y | None, None => true | _, _ => false end.
Definition is_nil {A} (l : list A) : bool := match l with [] => true | _ => false end.

(* observed error codes vs the model's candidates *)
Definition errs_agree (model obs : list Z) : bool :=
  match model, obs with
  | [], [] => true
  | _ :: _, [x] => memz x model
  | _, _ => false
  end.

(* ------------------------------------------------------------------ query cases *)
Definition osel := (list series * list Z * list Z)%type.        (* series, error codes, warnings *)
Definition olbl := (list Z * list Z * list Z)%type.             (* values, warnings, error codes *)

Inductive qobs :=
| OCreateFail (errs : list Z) (closed : list bool)
| OOk (sels : list osel) (lv ln : olbl) (closed : list bool).

Record qcase := mkQ { q_prim : qcfg; q_secs : list qcfg; q_nsel : nat; q_currs : list nat;
                      q_order : list nat;       (* order in which the consumer drained the sets *)
                      q_obs : qobs }.

Definition sel_agree (m : selres) (o : osel) : bool :=
  let '(ser, errs, ws) := o in
  serl_eqb (r_series m) ser && errs_agree (r_errs m) errs && set_eqb (r_warns m) ws.

Definition lbl_agree (m : lres) (o : olbl) : bool :=
  let '(mv, mw, me) := m in
  let '(ov, ow, oe) := o in
  zl_eqb mv ov && set_eqb mw ow && errs_agree (opt_list me) oe.

(* the observed Once triggers must be possible: the Once of a secondary fires while the first
   merged set is initialised, unless that initialisation stopped early at a primary whose
   first Next failed (then it may fire at a later drained set) *)
Fixpoint sched_ok (p : qcfg) (order : list nat) (curr : nat) : bool :=
  match order with
  | [] => true          (* no Select at all *)
  | a :: r =>
      if (a =? curr)%nat then true
      else match nth_error (sels_of p) a with
           | Some c => is_some (first_fail c) && sched_ok p r curr
           | None => false
           end
  end.

Definition agree_q (c : qcase) : bool :=
  match query (q_prim c) (q_secs c) (q_nsel c) (q_currs c), q_obs c with
  | RCreateFail e cl, OCreateFail oe ocl => zl_eqb [e] oe && list_eqb Bool.eqb cl ocl
  | ROk ms mlv mln cl, OOk os olv oln ocl =>
      all2 sel_agree ms os && lbl_agree mlv olv && lbl_agree mln oln
      && list_eqb Bool.eqb cl ocl
      && forallb (sched_ok (q_prim c) (q_order c)) (q_currs c)
  | _, _ => false
  end.

(* ---- the property, on the observed output *)
Definition sec_errcodes (q : qcfg) : list Z :=
  match q with
  | QCreateFail e => [e]
  | QOk sels _ _ => flat_map (fun c => opt_list (final_err c)) sels
  | QNoop => []
  end.
Definition all_warn_codes (q : qcfg) : list Z :=
  match q with
  | QOk sels lv ln =>
      flat_map (fun c => sc_warns c ++ opt_list (final_err c)) sels
      ++ l_warns lv ++ opt_list (l_fail lv) ++ l_warns ln ++ opt_list (l_fail ln)
  | _ => []
  end.

Fixpoint insert_z (x : Z) (l : list Z) : list Z :=
  match l with
  | [] => [x]
  | y :: r => if x <? y then x :: l else if x =? y then l else y :: insert_z x r
  end.
Definition zunion (ls : list (list Z)) : list Z := fold_right insert_z [] (concat ls).

Definition holds_select (p : qcfg) (secs : list qcfg) (a : nat) (o : osel) : bool :=
  let '(ser, errs, ws) := o in
  match set_at p a with
  | None => false
  | Some pc =>
      if is_some (final_err pc) then negb (is_nil errs)          (* the primary fails: the query fails *)
      else
        is_nil errs
        && serl_eqb ser
             (expected_series pc secs a)
        && subset (sc_warns pc) ws
  end.

Definition holds_label (sel : qcfg -> option lblcfg) (p : qcfg) (secs : list qcfg) (o : olbl) : bool :=
  let '(vals, ws, errs) := o in
  let pl := match sel p with Some l => l | None => mkLbl [] None [] end in
  if is_some (l_fail pl) then negb (is_nil errs)
  else
    is_nil errs
    && zl_eqb vals (zunion (l_vals pl ::
         flat_map (fun s => match sel s with
                            | Some l => if is_some (l_fail l) then [] else [l_vals l]
                            | None => [] end) secs))
    && subset (l_warns pl) ws
    && forallb (fun s => match sel s with
                         | Some l => match l_fail l with Some e => memz e ws | None => true end
                         | None => true end) secs.

Definition prim_fails_somewhere (p : qcfg) : bool :=
  match p with QOk sels _ _ => existsb (fun c => is_some (final_err c)) sels | _ => false end.

Definition holds_q (c : qcase) : bool :=
  let p := q_prim c in
  let secs := q_secs c in
  match p, q_obs c with
  | QCreateFail _, OCreateFail errs _ => negb (is_nil errs)      (* primary fails: query fails *)
  | QCreateFail _, OOk _ _ _ _ => false
  | _, OCreateFail _ _ => false                                  (* only secondaries failed: the query must succeed *)
  | _, OOk sels lv ln _ =>
      (length sels =? q_nsel c)%nat
      && forallb (fun ao => holds_select p secs (fst ao) (snd ao)) (combine (seq 0 (q_nsel c)) sels)
      (* every failed secondary is reported by a warning (when the primary failed nowhere) *)
      && (if prim_fails_somewhere p then true else
            let allws := flat_map (fun o => snd o) sels in
            forallb (fun s => if sec_failed s then existsb (fun e => memz e allws) (sec_errcodes s) else true) secs)
      (* no warning out of thin air *)
      && (let known := flat_map all_warn_codes (p :: secs) in
          forallb (fun o => subset (snd o) known) sels)
      && holds_label lv_of p secs lv && holds_label ln_of p secs ln
  end.

(* ------------------------------------------------------------------ append cases *)
Record acase := mkA { a_sessions : list session; a_obs : list sessres }.

Definition entry_eqb (a b : entry) : bool := (fst a =? fst b) && (snd a =? snd b).
Definition endcall_eqb (a b : endcall) : bool :=
  match a, b with
  | ENone, ENone | ECommitOk, ECommitOk | ECommitFail, ECommitFail
  | ERollbackOk, ERollbackOk | ERollbackFail, ERollbackFail => true
  | _, _ => false
  end.
Definition sessres_eqb (a b : sessres) : bool :=
  list_eqb (fun x y => (fst x =? fst y) && optz_eqb (snd x) (snd y)) (sr_appends a) (sr_appends b)
  && optz_eqb (sr_end a) (sr_end b)
  && list_eqb endcall_eqb (sr_calls a) (sr_calls b)
  && list_eqb (list_eqb entry_eqb) (sr_stores a) (sr_stores b).

Definition agree_a (c : acase) : bool :=
  match a_sessions c with
  | [] => is_nil (a_obs c)
  | s :: _ => list_eqb sessres_eqb
                (run_sessions (map (fun _ => []) (ss_prim s :: ss_secs s)) (a_sessions c)) (a_obs c)
  end.

Definition is_commit_call (e : endcall) : bool :=
  match e with ECommitOk | ECommitFail => true | _ => false end.
Definition is_rollback_call (e : endcall) : bool :=
  match e with ERollbackOk | ERollbackFail => true | _ => false end.

(* before is a prefix of after; returns the delta *)
Fixpoint delta (before after : list entry) : option (list entry) :=
  match before, after with
  | [], _ => Some after
  | x :: b, y :: a => if entry_eqb x y then delta b a else None
  | _ :: _, [] => None
  end.

(* the property for one session, on the observed stores before / after and the observed calls *)
Definition holds_session (before : list (list entry)) (s : session) (o : sessres) : bool :=
  let n := S (length (ss_secs s)) in
  (length (sr_stores o) =? n)%nat && (length before =? n)%nat && (length (sr_calls o) =? n)%nat
  && (length (sr_appends o) =? length (ss_samples s))%nat
  && match all_some (map (fun ba => delta (fst ba) (snd ba)) (combine before (sr_stores o))) with
     | None => false                                             (* stored data only grows *)
     | Some ds =>
         (* nothing is stored that was not appended in this session *)
         forallb (fun d => forallb (fun en => memz (fst en) (ss_samples s)) d) ds
         && (if ss_commit s then
               (* a committed append reaches the primary and every secondary *)
               (if is_some (sr_end o) then true else
                  forallb (fun xr => if is_some (snd (snd xr)) then true
                                     else forallb (fun d => memz (fst xr) (map fst d)) ds)
                          (combine (ss_samples s) (sr_appends o)))
               (* Commit returns nil exactly when every appender committed *)
               && Bool.eqb (negb (is_some (sr_end o))) (forallb (fun e => endcall_eqb e ECommitOk) (sr_calls o))
               (* if the primary's commit fails no secondary commits *)
               && (if ac_commit (ss_prim s) then
                     is_some (sr_end o)
                     && forallb is_rollback_call (tl (sr_calls o))
                     && forallb (fun d => is_nil d) ds
                   else true)
             else
               forallb is_rollback_call (sr_calls o) && forallb (fun d => is_nil d) ds)
     end.

Fixpoint holds_sessions (before : list (list entry)) (ss : list session) (os : list sessres) : bool :=
  match ss, os with
  | [], [] => true
  | s :: sr, o :: or => holds_session before s o && holds_sessions (sr_stores o) sr or
  | _, _ => false
  end.

Definition holds_a (c : acase) : bool :=
  match a_sessions c with
  | [] => is_nil (a_obs c)
  | s :: _ => holds_sessions (map (fun _ => []) (ss_prim s :: ss_secs s)) (a_sessions c) (a_obs c)
  end.

(* ------------------------------------------------------------------ cases *)
Inductive case := CQ (id : Z) (c : qcase) | CA (id : Z) (c : acase).

Definition c_id (c : case) : Z := match c with CQ i _ | CA i _ => i end.
Definition agree (c : case) : bool := match c with CQ _ q => agree_q q | CA _ a => agree_a a end.
Definition holds (c : case) : bool := match c with CQ _ q => holds_q q | CA _ a => holds_a a end.

Definition mismatches (cs : list case) : list Z := map c_id (filter (fun c => negb (agree c)) cs).
Definition failing_holds (cs : list case) : list Z := map c_id (filter (fun c => negb (holds c)) cs).

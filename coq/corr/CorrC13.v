(* corr/CorrC13.v — correspondence (agree) and specification (holds) checkers for C13 cases.
   One case = one real write-ahead log: the records handed to wlog.WL.Log (in batches), the bytes of
   the real segment files, what the real wlog.Reader returned over them and what real
   wlog.LiveReader(s) returned when the bytes of each segment were released to them in pieces. *)
From Coq Require Import List ZArith NArith Bool.
From Verif Require Import model.Wal.
Import ListNotations.
Open Scope Z_scope.

(* compact byte strings: runs, literals, and stretches of a 16-bit LFSR generator
   (incompressible filler that is cheap to write down) *)
Inductive chunk := CRun (b : N) (n : Z) | CLit (l : list N) | CPrng (x : N) (n : Z).

(* 16-bit Galois LFSR (taps 0xB400), two output bytes per step *)
Definition lfsr (x : N) : N :=
  match x with
  | N0 => N0
  | Npos xH => 46080%N
  | Npos (xO q) => Npos q
  | Npos (xI q) => N.lxor (Npos q) 46080
  end.

Fixpoint prng (n : nat) (x : N) : list N :=
  match n with
  | O => []
  | S O => [N.shiftr x 8]
  | S (S m) => N.shiftr x 8 :: N.land x 255 :: prng m (lfsr x)
  end.

Definition expand1 (c : chunk) : list N :=
  match c with
  | CRun b n => repeat b (Z.to_nat n)
  | CLit l => l
  | CPrng x n => prng (Z.to_nat n) x
  end.
Definition expand (cs : list chunk) : list N := flat_map expand1 cs.

Fixpoint beq (a b : list N) : bool :=
  match a, b with
  | [], [] => true
  | x :: a', y :: b' => if N.eqb x y then beq a' b' else false
  | _, _ => false
  end.
Fixpoint lbeq (a b : list (list N)) : bool :=
  match a, b with
  | [], [] => true
  | x :: a', y :: b' => if beq x y then lbeq a' b' else false
  | _, _ => false
  end.
Fixpoint llbeq (a b : list (list (list N))) : bool :=
  match a, b with
  | [], [] => true
  | x :: a', y :: b' => if lbeq x y then llbeq a' b' else false
  | _, _ => false
  end.

(* oracle tables, keyed by (length, bytes) *)
Definition crc_tab := list (Z * list N * N).
Fixpoint crc_lookup (t : crc_tab) (n : Z) (l : list N) : N :=
  match t with
  | [] => 4294967296%N           (* miss: not a 32-bit value, cannot match any real header *)
  | (m, k, v) :: t' => if (if m =? n then beq k l else false) then v else crc_lookup t' n l
  end.
Definition crc_of (t : crc_tab) (l : list N) : N := crc_lookup t (zlen l) l.

Definition enc_tab := list (Z * list N * (Z * list N)).   (* (len rec, rec, (len enc, enc)) *)
Fixpoint enc_lookup (t : enc_tab) (n : Z) (l : list N) : list N :=
  match t with
  | [] => [999%N]                (* miss: not a byte string *)
  | (m, k, (_, v)) :: t' => if (if m =? n then beq k l else false) then v else enc_lookup t' n l
  end.
Fixpoint dec_lookup (t : enc_tab) (n : Z) (l : list N) : option (list N) :=
  match t with
  | [] => None
  | (_, k, (m, v)) :: t' => if (if m =? n then beq v l else false) then Some k else dec_lookup t' n l
  end.

(* key of a CRC table entry: a slice of one of the real files, or literal bytes *)
Inductive ckey := KFile (seg off len : Z) | KLit (b : list chunk).
Definition key_bytes (files : list (list N)) (k : ckey) : list N :=
  match k with
  | KFile seg off len => ztake len (zdrop off (nth (Z.to_nat seg) files []))
  | KLit b => expand b
  end.

Inductive rref := Idx (j : Z) | Raw (b : list chunk).

Record case := mkCase {
  c_id : Z;
  c_compr : N;                               (* 0 none, 1 snappy, 2 zstd *)
  c_pps : Z;                                 (* segmentSize / pageSize *)
  c_close : bool;                            (* WL.Close() called before reading *)
  c_batches : list (list (list chunk));      (* arguments of the successive WL.Log calls *)
  c_crc : list (ckey * N);                   (* CRC-32C oracle, tabulated on every fragment *)
  c_enc : list (Z * (Z * list chunk));       (* compression oracle: (index of record, (len, encoded)) *)
  c_sizes : list (Z * Z);                    (* after each Log call: (index, size) of the last segment file *)
  c_files : list (list chunk);               (* the segment files at the end *)
  c_read : list rref * Z;                    (* wlog.Reader over the directory: records, status *)
  c_cuts : list (list Z);                    (* per segment: sizes of the successive releases *)
  c_live : list (list (list rref) * Z)       (* per segment: records per release, final status *)
}.

Definition page : Z := 32768.

Definition rstatus_code (s : rstatus) : Z :=
  match s with
  | RClean => 0 | RTorn => 1 | RUnexpectedEOF => 2 | RBadZero => 3 | RBadSize => 4
  | RBadCrc => 5 | RBadSeq => 6 | RDecode => 7 | RFuel => 8
  end.
Definition nres_code (e : nres) : Z :=
  match e with
  | NEof => 0 | NRec _ => 9
  | NErr LBadZero => 1 | NErr LTooBig => 2 | NErr LBadCrc => 3 | NErr LBadSeq => 4
  | NErr LDecode => 5 | NErr LPanic => 6 | NFuel => 7
  end.

Definition resolve (recs : list (list N)) (r : rref) : list N :=
  match r with
  | Idx j => nth (Z.to_nat j) recs [1000%N]
  | Raw b => expand b
  end.

Fixpoint split_at (cuts : list Z) (s : list N) : list (list N) :=
  match cuts with
  | [] => []
  | n :: rest => ztake n s :: split_at rest (zdrop n s)
  end.

Fixpoint run_batches (crcf : list N -> N) (encf : N -> list N -> list N) (c : N) (pps : Z)
         (bs : list (list (list N))) (st : wst) (acc : list (Z * Z)) : option (wst * list (Z * Z)) :=
  match bs with
  | [] => Some (st, rev acc)
  | b :: rest =>
    match log_batch page crcf encf c pps b st with
    | WOk st' => run_batches crcf encf c pps rest st' ((zlen (w_closed st'), zlen (active_file st')) :: acc)
    | _ => None
    end
  end.

Definition zz_eqb (a b : Z * Z) : bool := (fst a =? fst b) && (snd a =? snd b).
Fixpoint list_eqb {A B} (f : A -> B -> bool) (a : list A) (b : list B) : bool :=
  match a, b with
  | [], [] => true
  | x :: a', y :: b' => if f x y then list_eqb f a' b' else false
  | _, _ => false
  end.

Fixpoint seqZ (from : Z) (n : nat) : list Z :=
  match n with O => [] | S m => from :: seqZ (from + 1) m end.

Definition is_idx (r : rref) (j : Z) : bool := match r with Idx k => k =? j | Raw _ => false end.

(* model vs implementation *)
Definition agree (c : case) : bool :=
  let batches := map (map expand) (c_batches c) in
  let recs := concat batches in
  let files := map expand (c_files c) in
  let ctab : crc_tab := map (fun '(k, v) => let b := key_bytes files k in (zlen b, b, v)) (c_crc c) in
  let etab : enc_tab := map (fun '(j, (m, v)) => let r := nth (Z.to_nat j) recs [1000%N] in (zlen r, r, (m, expand v))) (c_enc c) in
  let crcf := crc_of ctab in
  let encf := fun (_ : N) l => enc_lookup etab (zlen l) l in
  let decf := fun (_ : N) l => dec_lookup etab (zlen l) l in
  (* writer: file sizes after each Log call, final file contents *)
  let wok :=
    match run_batches crcf encf (c_compr c) (c_pps c) batches (w_init) [] with
    | None => false
    | Some (st, sizes) =>
      let st' := if c_close c then close page st else st in
      list_eqb zz_eqb sizes (c_sizes c) && lbeq (segments st') files
    end in
  (* reader, run on the real files *)
  let rok :=
    let '(rs, e) := read_segments page crcf decf files in
    lbeq rs (map (resolve recs) (fst (c_read c))) && (rstatus_code e =? snd (c_read c)) in
  (* live reader, run on the real bytes of each segment with the harness's releases *)
  let lok :=
    list_eqb (fun '(f, cuts) '(outs, code) =>
                let '(mo, me) := live_run page crcf decf (split_at cuts f) l_init in
                llbeq mo (map (map (resolve recs)) outs) && (nres_code me =? code))
             (combine files (c_cuts c)) (c_live c)
    && (length files =? length (c_cuts c))%nat in
  wok && rok && lok.

(* the property on the implementation's own output: the Reader returns exactly the written
   records in order with no error; the live readers, over all segments, return exactly the
   written records in order, and every one of them ends in the "no more data yet" state *)
Definition holds (c : case) : bool :=
  let n := length (concat (c_batches c)) in
  let want := seqZ 0 n in
  list_eqb is_idx (fst (c_read c)) want && (snd (c_read c) =? 0)
  && list_eqb is_idx (concat (map (fun x => concat (fst x)) (c_live c))) want
  && forallb (fun x => snd x =? 0) (c_live c)
  && (length (c_live c) =? length (c_files c))%nat.

Definition mismatches (cs : list case) : list Z := map c_id (filter (fun c => negb (agree c)) cs).
Definition failing_holds (cs : list case) : list Z := map c_id (filter (fun c => negb (holds c)) cs).

(* corr/CorrC16.v — correspondence (agree) and specification (holds) checkers for C16.
   A case = one query (Select / LabelValues / LabelNames) run on the real tsdb querier over a
   head, a persisted block, or a DB with blocks + head, together with
     - the stores as read back from the index readers (refs, labels, chunk ranges, raw value
       tables, time bounds)  -> input of the model,
     - the harness's own ground truth (every series it appended with all sample times)
       -> input of `holds`,
     - the regex oracle tables (Go regexp) and SetMatches lists of the matchers,
     - the observed answer (for label queries: with the limit and without). *)
From Coq Require Import List ZArith NArith Bool.
From Verif Require Import model.Postings.
Import ListNotations.
Open Scope Z_scope.

Inductive obs := ObsSeries (l : list labels) | ObsStrs (lim unlim : list str) | ObsErr.

Record case := mkCase {
  c_id : Z;
  c_mode : mode;
  c_stores : list store;
  c_truth : list (labels * list Z);
  c_mint : Z;
  c_maxt : Z;
  c_q : query;
  c_ms : list matcher;
  c_obs : obs
}.

Fixpoint list_eqb {A} (eqb : A -> A -> bool) (a b : list A) : bool :=
  match a, b with
  | [], [] => true
  | x :: a', y :: b' => eqb x y && list_eqb eqb a' b'
  | _, _ => false
  end.

(* ---- oracle sanity: the tables cover every string the model may ask for and are consistent
   with the special cases the code decides by value string / SetMatches ---- *)
Definition needed_strings (c : case) (m : matcher) : list str :=
  [] :: map (fun t => lget (m_name m) (fst t)) (c_truth c)
     ++ flat_map (fun st => label_values_raw st (m_name m)) (c_stores c)
     ++ m_set m.

Definition oracle_ok (c : case) : bool :=
  forallb (fun m =>
    match m_type m with
    | MEq | MNe => true
    | _ =>
        forallb (fun s => match tab_find s (m_tab m) with Some _ => true | None => false end)
                (needed_strings c m) &&
        (if str_eqb (m_value m) dot_star then forallb (fun e => snd e) (m_tab m) else true) &&
        (if str_eqb (m_value m) dot_plus
         then forallb (fun e => Bool.eqb (snd e) (negb (is_nil (fst e)))) (m_tab m) else true) &&
        (if is_nil (m_value m)
         then forallb (fun e => Bool.eqb (snd e) (is_nil (fst e))) (m_tab m) else true) &&
        (if is_nil (m_set m) then true
         else forallb (fun e => Bool.eqb (snd e) (mem_str (fst e) (m_set m))) (m_tab m))
    end) (c_ms c).

Definition limit_of (q : query) : Z :=
  match q with QSelect _ => 0 | QValues _ l => l | QNames l => l end.
Definition unlimited (q : query) : query :=
  match q with QSelect s => QSelect s | QValues n _ => QValues n 0 | QNames _ => QNames 0 end.

Definition agree (c : case) : bool :=
  oracle_ok c && forallb store_wfb (c_stores c) &&
  match run_query (c_mode c) (c_stores c) (c_mint c) (c_maxt c) (c_q c) (c_ms c), c_obs c with
  | ASeries l, ObsSeries l' => list_eqb labels_eqb l l'
  | AStrs l, ObsStrs lim unlim =>
      list_eqb str_eqb l lim &&
      match run_query (c_mode c) (c_stores c) (c_mint c) (c_maxt c) (unlimited (c_q c)) (c_ms c) with
      | AStrs u => list_eqb str_eqb u unlim
      | _ => false
      end
  | AErr, ObsErr => true
  | _, _ => false
  end.

(* ---- the property, evaluated on the implementation's answer and the harness's ground truth ---- *)
Definition matches_all (ms : list matcher) (ls : labels) : bool :=
  forallb (fun m => matches m (lget (m_name m) ls)) ms.
Definition has_data (mint maxt : Z) (ts : list Z) : bool :=
  existsb (fun t => (mint <=? t) && (t <=? maxt)) ts.
Definition mem_labels (x : labels) (l : list labels) : bool := existsb (labels_eqb x) l.

Fixpoint sorted_by {A} (lt : A -> A -> bool) (l : list A) : bool :=
  match l with
  | [] => true
  | x :: r => match r with [] => true | y :: _ => lt x y && sorted_by lt r end
  end.
Fixpoint nodup_labels (l : list labels) : bool :=
  match l with [] => true | x :: r => negb (mem_labels x r) && nodup_labels r end.

(* sorted + duplicate-free; contains [proj] of every matching series with data in range;
   only [proj]s of stored matching series *)
Definition strs_spec (c : case) (proj : labels -> list str) (out : list str) : bool :=
  sorted_by str_ltb out &&
  forallb (fun t => implb (matches_all (c_ms c) (fst t) && has_data (c_mint c) (c_maxt c) (snd t))
                          (forallb (fun v => mem_str v out) (proj (fst t)))) (c_truth c) &&
  forallb (fun v => existsb (fun t => matches_all (c_ms c) (fst t) && mem_str v (proj (fst t)))
                            (c_truth c)) out.

Definition limit_spec (limit : Z) (lim unlim : list str) : bool :=
  if 0 <? limit then
    sorted_by str_ltb lim && forallb (fun v => mem_str v unlim) lim &&
    (Z.of_nat (length lim) =? Z.min limit (Z.of_nat (length unlim)))
  else list_eqb str_eqb lim unlim.

Definition holds (c : case) : bool :=
  if negb (oracle_ok c) then true else
  match c_q c, c_obs c with
  | QSelect sorted, ObsSeries out =>
      (* Select with an empty matcher list is outside the domain: PostingsForMatchers()
         yields no postings at all (Intersect of nothing); see notes/C16.md and
         C16_select_no_matchers in props/C16.v *)
      if is_nil (c_ms c) then true else
      forallb (fun t => implb (matches_all (c_ms c) (fst t) && has_data (c_mint c) (c_maxt c) (snd t))
                              (mem_labels (fst t) out)) (c_truth c) &&
      forallb (fun ls => matches_all (c_ms c) ls && mem_labels ls (map fst (c_truth c))) out &&
      nodup_labels out &&
      (if sorted then sorted_by labels_ltb out else true)
  | QValues name limit, ObsStrs lim unlim =>
      strs_spec c (fun ls => match lfind name ls with Some v => [v] | None => [] end) unlim &&
      limit_spec limit lim unlim
  | QNames limit, ObsStrs lim unlim =>
      strs_spec c (fun ls => map fst ls) unlim && limit_spec limit lim unlim
  | _, _ => false
  end.

Definition mismatches (cs : list case) : list Z := map c_id (filter (fun c => negb (agree c)) cs).
Definition failing_holds (cs : list case) : list Z := map c_id (filter (fun c => negb (holds c)) cs).

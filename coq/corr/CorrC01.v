(* corr/CorrC01.v — correspondence (agree) and specification (holds) checkers for C01 cases.
   A case is one history driven against a real tsdb.DB: the configuration and a list of steps.
   A step is either an operation together with what the implementation showed afterwards
   (Head.MinTime/MaxTime/minValidTime, the head's chunks per series, the block metas), or a
   query together with the implementation's answer.
     agree : the structured model (model/Tsdb.v), run on the same operations, shows the same
             head times, the same head chunks, the same multiset of block metas, and its query
             answers admit the implementation's answers;
     holds : the implementation's answer to every query is a correct answer of the FLAT
             specification (model/TsdbSpec.v) run on the acknowledged samples / deletions of the
             history — independent of the structured model. *)
From Coq Require Import List ZArith Bool.
From Verif Require Import lib.Int64 model.TsdbSpec model.Tsdb.
Import ListNotations.
Open Scope Z_scope.

(* observed head series: id, in-order chunks newest first (minTime, maxTime, timestamps), sorted
   distinct out-of-order timestamps *)
Definition oser := (sid * list (Z * Z * list Z) * list Z)%type.

Record hobs := mkObs {
  o_minT : Z; o_maxT : Z; o_minValid : Z;
  o_series : list oser;
  o_blocks : list (Z * Z * bool * Z)      (* mint, maxt, out-of-order hint, numSamples *)
}.

Inductive cstep :=
| SOp (o : op) (obs : hobs)
| SQuery (mint maxt : Z) (sel : list sid) (res : list (sid * list (Z * Z)))
| SSpec (o : sop).   (* a specification-only step (mixed sample kinds: the structured model is
                        float-only); from here on [agree] does not judge the case, [holds] does.
                        Values of such cases are codes kind*10^6 + digest. *)

Record case := mkCase { c_id : Z; c_cfg : cfg; c_steps : list cstep }.

Definition listZ_eqb (a b : list Z) : bool :=
  (Nat.eqb (length a) (length b)) && forallb (fun p => fst p =? snd p) (combine a b).

Definition chunk_eqb (c : chunk) (o : Z * Z * list Z) : bool :=
  let '(mi, ma, ts) := o in
  (c_min c =? mi) && (c_max c =? ma) && listZ_eqb (map st (c_samples c)) ts.

Fixpoint chunks_eqb (cs : list chunk) (os : list (Z * Z * list Z)) : bool :=
  match cs, os with
  | [], [] => true
  | c :: cs', o :: os' => chunk_eqb c o && chunks_eqb cs' os'
  | _, _ => false
  end.

Definition find_oser (l : list oser) (i : sid) : list (Z * Z * list Z) * list Z :=
  match find (fun p => fst (fst p) =? i) l with
  | Some p => (snd (fst p), snd p)
  | None => ([], [])
  end.

Definition series_agree (u : list sid) (h : head) (l : list oser) : bool :=
  forallb (fun i => let m := h_series h i in
                    let '(cs, oo) := find_oser l i in
                    chunks_eqb (ms_chunks m) cs && listZ_eqb (sort_uniq (map st (ms_ooo m))) oo) u
  && forallb (fun p => memZ (fst (fst p)) u) l.

Definition meta_eqb (a b : Z * Z * bool * Z) : bool :=
  let '(a1, a2, a3, a4) := a in let '(b1, b2, b3, b4) := b in
  (a1 =? b1) && (a2 =? b2) && Bool.eqb a3 b3 && (a4 =? b4).

Fixpoint remove1 (x : Z * Z * bool * Z) (l : list (Z * Z * bool * Z)) : option (list (Z * Z * bool * Z)) :=
  match l with
  | [] => None
  | y :: r => if meta_eqb x y then Some r else
                match remove1 x r with Some r' => Some (y :: r') | None => None end
  end.
Fixpoint multiset_eqb (a b : list (Z * Z * bool * Z)) : bool :=
  match a with
  | [] => is_nil b
  | x :: a' => match remove1 x b with Some b' => multiset_eqb a' b' | None => false end
  end.

Definition obs_agree (c : cfg) (s : state) (o : hobs) : bool :=
  let h := s_head s in
  (h_minT h =? o_minT o) && (h_maxT h =? o_maxT o) && (h_minValid h =? o_minValid o)
  && series_agree (universe c) h (o_series o)
  && multiset_eqb (map (block_meta (universe c)) (s_blocks s)) (o_blocks o)
  && negb (s_fuelout s).

(* "a series without such a sample is absent or returned empty": empty series are dropped from
   the implementation's answer before the comparison *)
Definition drop_empty (res : list (sid * list (Z * Z))) : list (sid * list (Z * Z)) :=
  filter (fun p => negb (is_nil (snd p))) res.

Fixpoint agree_steps (c : cfg) (s : state) (l : list cstep) : bool :=
  match l with
  | [] => true
  | SOp o obs :: r => let s' := step c s o in obs_agree c s' obs && agree_steps c s' r
  | SQuery mint maxt sel res :: r => answer_ok (drop_empty res) (query s mint maxt sel) && agree_steps c s r
  | SSpec _ :: _ => true
  end.
Definition agree (c : case) : bool := agree_steps (c_cfg c) state0 (c_steps c).

Fixpoint holds_steps (sp : sstate) (l : list cstep) : bool :=
  match l with
  | [] => true
  | SOp o _ :: r => holds_steps (spec_step sp (spec_of_op o)) r
  | SQuery mint maxt sel res :: r => answer_ok (drop_empty res) (spec_query sp mint maxt sel) && holds_steps sp r
  | SSpec o :: r => holds_steps (spec_step sp o) r
  end.
Definition holds (c : case) : bool := holds_steps sempty (c_steps c).

Definition mismatches (cs : list case) : list Z := map c_id (filter (fun c => negb (agree c)) cs).
Definition failing_holds (cs : list case) : list Z := map c_id (filter (fun c => negb (holds c)) cs).

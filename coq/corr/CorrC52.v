(* corr/CorrC52.v — correspondence (agree) and specification (holds) checkers for C52 cases.

   A case is one single-threaded history on a real tsdb.DB.  Every step carries the operation
   (with the oracles the model does not decide, see model/HeadStats.v) and what the harness read
   from the implementation right after it:
     - the reported numbers: Head.NumSeries / NumStaleSeries / NumNativeHistogramSeries /
       NumNativeHistogramBuckets, prometheus_tsdb_head_chunks, prometheus_tsdb_head_active_appenders,
     - the number of appenders the harness still holds open,
     - a walk over the head: every memSeries reachable through the by-ref map with its m-mapped
       chunks, head chunk list, headChunkCount, OOO chunks, s.ooo != nil, the last-value fields,
       sampleState() and pendingCommit; and the number of series reachable through the by-hash map.
   holds: the reported numbers equal the recount over the walk after every step (and the by-hash
          map, headChunkCount and sampleState() agree with the walk) — the implementation only.
   agree: the model driven by the same operations has the same counters and the same per-series
          structure after every step.

   Numbers are printed as primitive 63-bit integers (Coq 8.16 parses decimal Z literals slowly);
   they are converted to Z before anything is computed. *)
From Coq Require Import List ZArith Bool Uint63.
From Verif Require Import model.HeadStats.
Import ListNotations.
Open Scope Z_scope.

Definition z (i : int) : Z := Uint63.to_Z i.
Inductive sint := P (i : int) | M (i : int).
Definition sz (x : sint) : Z := match x with P i => z i | M i => - z i end.

Inductive rlast := RF (stale : bool) | RH (stale : bool) (nb : int).
Definition to_last (l : rlast) : lastv := match l with RF s => LF s | RH s n => LH s (z n) end.

Record rser := mkW {
  w_ref : int; w_mm : list int; w_hc : list int; w_omm : int; w_ohead : option int; w_ostruct : bool;
  w_last : rlast; w_pend : bool; w_snap : int;
  w_hcc : int;                 (* memSeries.headChunkCount *)
  w_ss : rlast                 (* memSeries.sampleState() *)
}.

(* short form used by the harness for the common case: no out-of-order data, nothing from a
   snapshot, headChunkCount = length of the list, sampleState() = the last-value fields *)
Definition W (ref : int) (mm hc : list int) (last : rlast) (pend : bool) : rser :=
  mkW ref mm hc 0%uint63 None false last pend 0%uint63 (Uint63.of_Z (Z.of_nat (length hc))) last.

Definition to_ser (w : rser) : mser :=
  mkS (z (w_ref w)) (map z (w_mm w)) (map z (w_hc w)) (z (w_omm w))
      (match w_ohead w with Some n => Some (z n) | None => None end) (w_ostruct w)
      (to_last (w_last w)) (w_pend w) (z (w_snap w)).

Inductive rlanded :=
| RIn (r t : int) (hist stale : bool) (nb_in nb_after : int) (cut : bool)
| ROoo (r k : int) (dup : bool).
Definition to_landed (x : rlanded) : landed :=
  match x with
  | RIn r t h s a b c => LIn (z r) (z t) h s (z a) (z b) c
  | ROoo r k d => LOoo (z r) (z k) d
  end.

Inductive rop :=
| ROpen (a : int)
| RAppend (a : int) (created ok : option int)
| RCommit (a : int) (touched : list int) (l : list rlanded)
| RRollback (a : int) (touched : list int)
| RMmap
| RTrunc (ran : bool) (mint : int) (flush ooorm : list (int * int))
| REvict (stale_only : bool) (refs : list int) (maxt : int)
| RNop
| RRestart (post : list rser) (extra bextra : sint).

Definition zo (o : option int) : option Z := match o with Some i => Some (z i) | None => None end.
Definition zp (p : int * int) : Z * Z := (z (fst p), z (snd p)).

Definition to_op (o : rop) : op :=
  match o with
  | ROpen a => OOpen (z a)
  | RAppend a c k => OAppend (z a) (zo c) (zo k)
  | RCommit a t l => OCommit (z a) (map z t) (map to_landed l)
  | RRollback a t => ORollback (z a) (map z t)
  | RMmap => OMmap
  | RTrunc ran mint f r => OTrunc ran (z mint) (map zp f) (map zp r)
  | REvict so refs maxt => OEvict so (map z refs) (z maxt)
  | RNop => ONop
  | RRestart post extra bextra => ORestart (map to_ser post) (sz extra) (sz bextra)
  end.

Record robs := mkO {
  o_series : sint; o_stale : sint; o_hist : sint; o_buckets : sint; o_chunks : sint; o_active : sint;
  o_open : int;                (* appenders the harness holds open *)
  o_byhash : int;              (* series reachable through stripeSeries.hashes *)
  o_walk : option (list rser)  (* None: the walk is identical to the one after the previous step *)
}.
(* short form: all six numbers are non-negative *)
Definition K (a b c d e f o h : int) (w : option (list rser)) : robs := mkO (P a) (P b) (P c) (P d) (P e) (P f) o h w.

Record case := mkCase { c_id : Z; c_cap : int; c_steps : list (rop * robs) }.

Definition obs_ctrs (o : robs) : ctrs :=
  mkC (sz (o_series o)) (sz (o_stale o)) (sz (o_hist o)) (sz (o_buckets o)) (sz (o_chunks o)) (sz (o_active o)).

Definition ctrs_eqb (a b : ctrs) : bool :=
  (c_series a =? c_series b) && (c_stale a =? c_stale b) && (c_hist a =? c_hist b) &&
  (c_buckets a =? c_buckets b) && (c_chunks a =? c_chunks b) && (c_active a =? c_active b).

Fixpoint lz_eqb (a b : list Z) : bool :=
  match a, b with
  | [], [] => true
  | x :: r, y :: s => (x =? y) && lz_eqb r s
  | _, _ => false
  end.
Definition oz_eqb (a b : option Z) : bool :=
  match a, b with Some x, Some y => x =? y | None, None => true | _, _ => false end.
Definition last_eqb (a b : lastv) : bool :=
  match a, b with
  | LF s, LF t => Bool.eqb s t
  | LH s n, LH t m => Bool.eqb s t && (n =? m)
  | _, _ => false
  end.

(* s_snap is not observable after the restart step itself and is not compared *)
Definition ser_eqb (a b : mser) : bool :=
  (s_ref a =? s_ref b) && lz_eqb (s_mm a) (s_mm b) && lz_eqb (s_hc a) (s_hc b) && (s_omm a =? s_omm b) &&
  oz_eqb (s_ohead a) (s_ohead b) && Bool.eqb (s_ostruct a) (s_ostruct b) && last_eqb (s_last a) (s_last b) &&
  Bool.eqb (s_pend a) (s_pend b).

Fixpoint sers_eqb (a b : list mser) : bool :=
  match a, b with
  | [], [] => true
  | x :: r, y :: s => ser_eqb x y && sers_eqb r s
  | _, _ => false
  end.

(* the walk after a step: printed in full, or identical to the previous one, or (restart steps)
   the structure that is already part of the operation *)
Definition walk_of (prev : list rser) (o : rop) (ob : robs) : list rser :=
  match o_walk ob with
  | Some w => w
  | None => match o with RRestart post _ _ => post | _ => prev end
  end.

(* the model keeps the series in creation order = increasing ref; the walk is sorted by ref *)
Fixpoint agree_steps (cap : Z) (st : state) (prev : list rser) (l : list (rop * robs)) : bool :=
  match l with
  | [] => true
  | (o, ob) :: r =>
      let st' := step cap st (to_op o) in
      let w := walk_of prev o ob in
      ctrs_eqb (st_c st') (obs_ctrs ob) && sers_eqb (st_series st') (map to_ser w) &&
      agree_steps cap st' w r
  end.

Definition agree (c : case) : bool := agree_steps (z (c_cap c)) state0 [] (c_steps c).

(* ---------------------------------------------------------------- holds: implementation only *)
Definition walk_state (o : robs) (w : list rser) : state :=
  mkSt (map to_ser w) [] (repeat 0 (Z.to_nat (z (o_open o)))) ctrs0.

Definition walk_ok (w : rser) : bool :=
  (z (w_hcc w) =? zlen (w_hc w)) && last_eqb (to_last (w_ss w)) (to_last (w_last w)).

Definition holds_obs (o : robs) (w : list rser) : bool :=
  ctrs_eqb (obs_ctrs o) (recount (walk_state o w)) &&
  (z (o_byhash o) =? zlen w) &&
  forallb walk_ok w &&
  (if z (o_open o) =? 0 then sz (o_active o) =? 0 else true).

Fixpoint holds_steps (prev : list rser) (l : list (rop * robs)) : bool :=
  match l with
  | [] => true
  | (o, ob) :: r =>
      let w := walk_of prev o ob in
      holds_obs ob w && holds_steps w r
  end.

Definition holds (c : case) : bool := holds_steps [] (c_steps c).

Definition mismatches (cs : list case) : list Z := map c_id (filter (fun c => negb (agree c)) cs).
Definition failing_holds (cs : list case) : list Z := map c_id (filter (fun c => negb (holds c)) cs).

(* debugging aid: index of the first step at which agree / holds fails *)
Fixpoint agree_idx (cap : Z) (st : state) (prev : list rser) (l : list (rop * robs)) (i : nat) : option (nat * bool * bool) :=
  match l with
  | [] => None
  | (o, ob) :: r =>
      let st' := step cap st (to_op o) in
      let w := walk_of prev o ob in
      let a := ctrs_eqb (st_c st') (obs_ctrs ob) in
      let b := sers_eqb (st_series st') (map to_ser w) in
      if a && b then agree_idx cap st' w r (S i) else Some (i, a, b)
  end.
Definition first_mismatch (c : case) := (c_id c, agree_idx (z (c_cap c)) state0 [] (c_steps c) O).

(* corr/CorrC18.v — correspondence (agree) and specification (holds) checkers for C18.

   Two kinds of cases:
   * CHash: one label set, the harness' own reference serialisation [key] and
     xxhash.Sum64(key) (the tabulated oracle point), the StableHash values returned by the
     real implementation under the three build variants (stringlabels = default, slicelabels,
     dedupelabels; -1 = not available), and the stringlabels internal encoding (Labels.Bytes).
   * CSel: a series set (label set + oracle point per series), and a list of views.  A view is
     one state of a real TSDB (head / head after WAL replay / persisted block / several of
     them behind one querier) queried with real Select calls: once without sharding hints and
     once per shard index 0..n-1 (plus some out-of-range indexes).  Series are identified by
     their index in the series set (the harness maps returned label sets back; an unknown
     label set becomes -1). *)
From Coq Require Import List NArith ZArith Bool.
From Verif Require Import lib.Bytes model.Sharding.
Import ListNotations.
Open Scope Z_scope.

(* ------------------------------------------------------------------ case format *)
Record sentry := mkS { s_labels : labels; s_hash : Z }.

(* run-length encoded byte strings in case files: [rp c n] is n copies of byte c *)
Definition rp (c n : Z) : list N := repeat (Z.to_N c) (Z.to_nat n).

(* observed result of one Select: series indexes in the order returned, or an error *)
Inductive ores := OOk (l : list Z) | OErrDisabled | OErrOther.

(* source kinds: 0 = head (series created by appends), 1 = head rebuilt by WAL replay,
   2 = persisted block.  members = series indexes present, in creation / index order *)
Record src := mkSrc { src_kind : Z; src_members : list Z }.

Record view := mkView {
  v_sharding : bool;            (* HeadOptions.EnableSharding *)
  v_srcs : list src;
  v_n : Z;                      (* ShardCount *)
  v_unsharded : ores;           (* Select without shard hints *)
  v_shards : list ores;         (* Select with ShardIndex = 0..n-1 *)
  v_oob : list (Z * ores)       (* Select with ShardIndex >= n *)
}.

Inductive case :=
| CHash (id : Z) (ls : labels) (key : bytes) (h : Z) (obs : list Z) (sl_data : option bytes)
| CSel (id : Z) (series : list sentry) (views : list view).

Definition c_id (c : case) : Z := match c with CHash id _ _ _ _ _ => id | CSel id _ _ => id end.

(* ------------------------------------------------------------------ small list utilities *)
Fixpoint insert_u (x : Z) (l : list Z) : list Z :=
  match l with
  | [] => [x]
  | y :: r => if x <? y then x :: l else if x =? y then l else y :: insert_u x r
  end.
Definition sort_u (l : list Z) : list Z := fold_right insert_u [] l.

Fixpoint list_eqb (a b : list Z) : bool :=
  match a, b with
  | [], [] => true
  | x :: a', y :: b' => (x =? y) && list_eqb a' b'
  | _, _ => false
  end.

Fixpoint strictly_sorted (l : list Z) : bool :=
  match l with
  | x :: ((y :: _) as r) => (x <? y) && strictly_sorted r
  | _ => true
  end.

Definition memb (x : Z) (l : list Z) : bool := existsb (Z.eqb x) l.

Fixpoint nodupb (l : list Z) : bool :=
  match l with [] => true | x :: r => negb (memb x r) && nodupb r end.

Definition ores_eqb (a b : ores) : bool :=
  match a, b with
  | OOk x, OOk y => list_eqb x y
  | OErrDisabled, OErrDisabled => true
  | OErrOther, OErrOther => true
  | _, _ => false
  end.

(* ------------------------------------------------------------------ the tabulated oracle *)
Definition table := list (bytes * Z).

Fixpoint tab_lookup (t : table) (b : bytes) : Z :=
  match t with
  | [] => -1                       (* not tabulated: never equal to a uint64 *)
  | (k, h) :: r => if bytes_eqb k b then h else tab_lookup r b
  end.

Definition xsum (t : table) : bytes -> Z := tab_lookup t.
(* streaming = one-shot: the oracle hypothesis of the proofs; the real slow path really
   streams, so its agreement with the tabulated Sum64 exercises the hypothesis *)
Definition xstream (t : table) : list bytes -> Z := fun ws => tab_lookup t (concat ws).

(* ------------------------------------------------------------------ CHash *)
Definition variants : list variant := [VString; VSlice; VDedupe].

Definition opt_bytes_eqb (a : option bytes) (b : bytes) : bool :=
  match a with None => true | Some x => bytes_eqb x b end.

Definition agree_hash (ls : labels) (key : bytes) (h : Z) (obs : list Z) (sl : option bytes) : bool :=
  let t := [(key, h)] in
  bytes_eqb (stable_bytes ls) key
  && (Nat.eqb (length obs) 3)
  && forallb (fun vo => let '(v, o) := vo in
                        (o =? -1) || (stable_hash_v (xsum t) (xstream t) v ls =? o))
             (combine variants obs)
  && opt_bytes_eqb sl (sl_encode ls)
  && match sl with
     | None => true
     | Some d => match feed_string_data d with
                 | Some f => bytes_eqb (feed_bytes f) key
                 | None => false
                 end
     end.

(* the property on the implementation's output alone: every available variant returned the
   same value, and it is the hash of the reference serialisation *)
Definition holds_hash (h : Z) (obs : list Z) : bool :=
  (0 <=? h) && forallb (fun o => (o =? -1) || (o =? h)) obs
  && existsb (fun o => negb (o =? -1)) obs.

(* ------------------------------------------------------------------ CSel: model side *)
(* the oracle point of a series is keyed by the model's serialisation of its label set (the
   harness hashes its own serialisation; CHash cases check that the two coincide) *)
Definition tab_of (ss : list sentry) : table := map (fun s => (stable_bytes (s_labels s), s_hash s)) ss.

Definition labels_of (ss : list sentry) (k : Z) : labels :=
  match nth_error ss (Z.to_nat k) with Some s => s_labels s | None => [] end.

Fixpoint index_of (ss : list sentry) (ls : labels) (i : Z) : Z :=
  match ss with
  | [] => -1
  | s :: r => if labels_eqb (s_labels s) ls then i else index_of r ls (i + 1)
  end.

Fixpoint positions {A} (l : list A) (from : Z) : list Z :=
  match l with [] => [] | _ :: r => from :: positions r (from + 1) end.

(* the model source for one real source; refs are synthetic (1..k in member order; the real
   refs are never observed by Select) *)
Definition model_source (t : table) (en : bool) (ss : list sentry) (s : src) : source :=
  let lss := map (labels_of ss) (src_members s) in
  if src_kind s =? 0 then
    SrcHead (run_head (xsum t) en (map OpCreate lss))
  else if src_kind s =? 1 then
    SrcHead (run_head (xsum t) en (map (fun rl => OpReplay (fst rl) (snd rl)) (combine (positions lss 1) lss)))
  else SrcBlock (combine (positions lss 1) lss).

(* postings handed to ShardedPostings: the members the unsharded query returned *)
Definition model_postings (s : src) (u : list Z) : list Z :=
  map fst (filter (fun rk => memb (snd rk) u) (combine (positions (src_members s) 1) (src_members s))).

(* merged querier: any failing source fails the query (disabled wins, as the head is the
   only source that can return it); otherwise the union of the series *)
Fixpoint merge_results (rs : list (sres (list Z))) : ores :=
  match rs with
  | [] => OOk []
  | r :: rest =>
      match r, merge_results rest with
      | SOk l, OOk l' => OOk (sort_u (l ++ l'))
      | SErrDisabled, _ => OErrDisabled
      | _, OErrDisabled => OErrDisabled
      | _, _ => OErrOther
      end
  end.

(* one Select over already built model sources [(source, postings)] *)
Definition model_select (t : table) (ss : list sentry) (srcs : list (source * list Z)) (hs : hints) : ores :=
  merge_results
    (map (fun sp =>
            match select (xsum t) (fst sp) (fun _ => true) (snd sp) hs with
            | SOk l => SOk (map (fun rl => index_of ss (snd rl) 0) l)
            | SErrDisabled => SErrDisabled
            | SErrNotFound r => SErrNotFound r
            | SPanic => SPanic
            end) srcs).

Definition canon (o : ores) : ores := match o with OOk l => OOk (sort_u l) | e => e end.

Definition agree_view (t : table) (ss : list sentry) (v : view) : bool :=
  match v_unsharded v with
  | OOk u =>
      let srcs := map (fun s => (model_source t (v_sharding v) ss s, model_postings s u)) (v_srcs v) in
      ores_eqb (model_select t ss srcs no_shard) (canon (v_unsharded v))
      && (Nat.eqb (length (v_shards v)) (Z.to_nat (v_n v)))
      && forallb (fun io => ores_eqb (model_select t ss srcs (mkHints (fst io) (v_n v))) (canon (snd io)))
                 (combine (positions (v_shards v) 0) (v_shards v))
      && forallb (fun io => ores_eqb (model_select t ss srcs (mkHints (fst io) (v_n v))) (canon (snd io)))
                 (v_oob v)
  | _ => false   (* the unsharded query never fails in the harness *)
  end.

Definition agree (c : case) : bool :=
  match c with
  | CHash _ ls key h obs sl => agree_hash ls key h obs sl
  | CSel _ ss vs => let t := tab_of ss in forallb (agree_view t ss) vs
  end.

(* ------------------------------------------------------------------ CSel: the property *)
Definition ok_list (o : ores) : option (list Z) := match o with OOk l => Some l | _ => None end.

(* pairwise disjoint: no series index occurs in two different shards (and none twice in one) *)
Definition disjoint_all (ls : list (list Z)) : bool := nodupb (concat ls).

(* with sharding enabled: every shard query succeeds, returns no series twice, the shard
   results are pairwise disjoint and their union is exactly the unsharded result; a shard
   index >= n selects nothing *)
Definition holds_view (m : Z) (v : view) : bool :=
  if negb (v_sharding v) then true else
  match v_unsharded v with
  | OOk u =>
      (1 <=? v_n v)
      && forallb (fun k => (0 <=? k) && (k <? m)) u
      && nodupb u
      && (Nat.eqb (length (v_shards v)) (Z.to_nat (v_n v)))
      && forallb (fun o => match o with OOk _ => true | _ => false end) (v_shards v)
      && (let ls := flat_map (fun o => match o with OOk l => [l] | _ => [] end) (v_shards v) in
          disjoint_all ls && list_eqb (sort_u (concat ls)) (sort_u u))
      && forallb (fun io => match snd io with OOk [] => true | _ => false end) (v_oob v)
  | _ => false
  end.

(* the shard of a series depends only on its label set: whenever two views of the same case
   (head, replayed head, block, other insertion order, merged) use the same n, a series is
   found in the same shard in both *)
Definition assignment (v : view) : list (Z * Z) :=
  flat_map (fun io => match snd io with
                      | OOk l => map (fun k => (k, fst io)) l
                      | _ => []
                      end) (combine (positions (v_shards v) 0) (v_shards v)).

Definition consistent (a b : view) : bool :=
  if negb (v_sharding a && v_sharding b && (v_n a =? v_n b)) then true else
  let aa := assignment a in
  forallb (fun ki => forallb (fun kj => negb (fst ki =? fst kj) || (snd ki =? snd kj)) aa) (assignment b).

(* ... and it is the tabulated hash of the label set's reference serialisation mod n *)
Definition assignment_is_hash (ss : list sentry) (v : view) : bool :=
  if negb (v_sharding v) then true else
  forallb (fun ki => match nth_error ss (Z.to_nat (fst ki)) with
                     | Some s => (s_hash s) mod (v_n v) =? snd ki
                     | None => false
                     end) (assignment v).

Definition holds (c : case) : bool :=
  match c with
  | CHash _ _ _ h obs _ => holds_hash h obs
  | CSel _ ss vs =>
      forallb (holds_view (Z.of_nat (length ss))) vs
      && forallb (fun a => forallb (consistent a) vs) vs
      && forallb (assignment_is_hash ss) vs
  end.

Definition mismatches (cs : list case) : list Z := map c_id (filter (fun c => negb (agree c)) cs).
Definition failing_holds (cs : list case) : list Z := map c_id (filter (fun c => negb (holds c)) cs).

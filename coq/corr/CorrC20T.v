(* corr/CorrC20T.v — tombstone file part of property C20 ("tombstone files read back exactly what
   was written").  A case is one real tombstones.WriteFile of a tombstones.Reader followed by a
   real tombstones.ReadTombstones of the directory:
     t_in      the groups (series ref, intervals) handed to WriteFile — for an ORDERED reader (a
               Reader of the harness iterating a fixed list; refs may repeat, groups may overlap)
               in iteration order; for a real *MemTombstones (Go map: iteration order unknown)
               sorted by ref;
     t_bytes   the content of the file ReadTombstones saw (as written, or damaged by the harness);
     t_read    what ReadTombstones returned: the groups sorted by ref, or an error class.
   agree : the model (model/TombFile.v with the executable bitwise CRC-32C of model/BlockFmt.v)
           reads the same bytes to the same result; and, for an undamaged file, writes exactly the
           same bytes (ordered reader) resp. the file is the model's encoding of ITS OWN entries
           in file order and these entries are, per ref, the written intervals in order (map order);
     holds : on the implementation's output alone, for an undamaged file of well-formed groups:
           the read succeeds, refs strictly increase, a ref is present iff something was written
           for it, every group is canonical (sorted, disjoint, non-adjacent) and covers exactly
           the union of the intervals written for its ref (checked on all critical points); and if
           the written groups were themselves in that form (what a MemTombstones holds), the
           result is identical to what was written. *)
From Coq Require Import List NArith ZArith Bool Uint63.
From Verif Require Import lib.Int64 lib.Bytes lib.Varint model.Intervals model.BlockFmt model.TombFile.
Import ListNotations.
Open Scope Z_scope.

Inductive robs := RdOk (m : smap) | RdErr (e : rerr).

Record tcase := mkT { t_id : Z; t_ordered : bool; t_damaged : bool;
                      t_in : list stone; t_bytes : list N; t_read : robs }.

(* ---- monomorphic constructors for the generated case files (primitive integer literals) ---- *)
Inductive il := INil | ICons (x : int) (r : il).
Inductive vl := VNil | VCons (minh minl maxh maxl : int) (r : vl).
Inductive sl := SNil | SCons (refh refl : int) (ivs : vl) (r : sl).
Inductive rd := RdOk_ (m : sl) | RdErr_ (code : int).

Definition u64_of (h l : int) : Z := Uint63.to_Z h * 4294967296 + Uint63.to_Z l.
Definition i64_of (h l : int) : Z := wrap64 (u64_of h l).
Fixpoint il_bytes (l : il) : list N :=
  match l with INil => [] | ICons x r => Z.to_N (Uint63.to_Z x) :: il_bytes r end.
Fixpoint vl_ivs (l : vl) : list interval :=
  match l with VNil => [] | VCons a b c d r => mkI (i64_of a b) (i64_of c d) :: vl_ivs r end.
Fixpoint sl_stones (l : sl) : list stone :=
  match l with SNil => [] | SCons h lo ivs r => (Z.to_N (u64_of h lo), vl_ivs ivs) :: sl_stones r end.
Definition err_of_code (c : int) : rerr :=
  match Uint63.to_Z c with
  | 1 => RHeader | 2 => RMagic | 3 => RChecksum | 4 => RFormat | 5 => RSize | 6 => RPanic | _ => RFuel
  end.
Definition tc (id : int) (ordered damaged : bool) (inp : sl) (bytes : il) (r : rd) : tcase :=
  mkT (Uint63.to_Z id) ordered damaged (sl_stones inp) (il_bytes bytes)
      (match r with RdOk_ m => RdOk (sl_stones m) | RdErr_ c => RdErr (err_of_code c) end).

(* ---- agree ---- *)
Definition read_agree (b : list N) (o : robs) : bool :=
  match read_file crc32c b, o with
  | ROk m, RdOk m' => smap_eqb m m'
  | RErr e, RdErr e' => rerr_eqb e e'
  | _, _ => false
  end.

Definition refs_of (l : list stone) : list N := map fst l.
Definition memN (x : N) (l : list N) : bool := existsb (N.eqb x) l.

(* the intervals handed to WriteFile for ref, in order *)
Definition written_for (ref : N) (inp : list stone) : list interval :=
  flat_map (fun s => if (fst s =? ref)%N then snd s else []) inp.

Definition write_agree (c : tcase) : bool :=
  if t_ordered c then bytes_eqb (write_file crc32c (t_in c)) (t_bytes c)
  else
    match raw_of_file (t_bytes c) with
    | None => false
    | Some ts =>
        bytes_eqb (write_triples crc32c ts) (t_bytes c)
        && forallb (fun t => memN (fst (fst t)) (refs_of (t_in c))) ts
        && forallb (fun s => ivs_eqb (ivs_of (fst s) ts) (written_for (fst s) (t_in c))) (t_in c)
    end.

Definition agree (c : tcase) : bool :=
  read_agree (t_bytes c) (t_read c) && (t_damaged c || write_agree c).

(* ---- holds ---- *)
Definition points (l : list interval) : list Z :=
  flat_map (fun i => [imin i - 1; imin i; imin i + 1; imax i - 1; imax i; imax i + 1]) l.

Fixpoint refs_incrb (m : smap) : bool :=
  match m with
  | [] => true
  | (r, _) :: t => match t with [] => true | (r', _) :: _ => (r <? r')%N end && refs_incrb t
  end.

Definition is_nilb {A} (l : list A) : bool := match l with [] => true | _ => false end.

Definition stones_canonicalb (l : list stone) : bool :=
  refs_incrb l && forallb (fun s => negb (is_nilb (snd s)) && canonicalb (snd s)) l.

Definition wf_inb (l : list stone) : bool :=
  forallb (fun s => (fst s <? two64N)%N && forallb wf_ivb (snd s)) l.

Definition group_ok (inp : list stone) (m : smap) (ref : N) : bool :=
  let w := written_for ref inp in
  let g := get m ref in
  Bool.eqb (is_nilb g) (is_nilb w) && Bool.eqb (memN ref (refs_of m)) (negb (is_nilb w))
  && canonicalb g
  && forallb (fun t => Bool.eqb (coveredb g t) (coveredb w t)) (points (w ++ g)).

Definition holds (c : tcase) : bool :=
  if t_damaged c || negb (wf_inb (t_in c)) then true else
  match t_read c with
  | RdErr _ => false
  | RdOk m =>
      refs_incrb m
      && forallb (group_ok (t_in c) m) (refs_of (t_in c) ++ refs_of m)
      && (if stones_canonicalb (t_in c) then smap_eqb m (t_in c) else true)
  end.

Definition mismatches (cs : list tcase) : list Z := map t_id (filter (fun c => negb (agree c)) cs).
Definition failing_holds (cs : list tcase) : list Z := map t_id (filter (fun c => negb (holds c)) cs).

(* corr/CorrC39.v — correspondence (agree) and specification (holds) checkers for C39 cases.
   A case = one generated program over a Builder, a ScratchBuilder and K label-set registers,
   the probe names, the strconv.Quote / IsValidLabelName oracle table, and the three transcripts
   observed by running the REAL model/labels package built under the three tag sets
   (stringlabels = default, slicelabels, dedupelabels). *)
From Coq Require Import List ZArith Bool.
From Verif Require Import model.LabelsX.
Import ListNotations.
Open Scope Z_scope.

Record case := mkCase {
  c_id : Z; c_ops : list op; c_probes : list str; c_q : qtable;
  c_tS : transcript;    (* stringlabels *)
  c_tL : transcript;    (* slicelabels *)
  c_tD : transcript     (* dedupelabels *)
}.

Definition pair_eqb (a b : str * bool) : bool := str_eqb (fst a) (fst b) && Bool.eqb (snd a) (snd b).
Definition event_eqb (a b : event) : bool :=
  match a, b with
  | EGet x, EGet y => str_eqb x y
  | ERange x, ERange y => labels_eqb x y
  | _, _ => false
  end.
(* everything observable except Bytes and Hash *)
Definition lobs_eqb_nobytes (a b : lobs) : bool :=
  labels_eqb (o_range a) (o_range b) && (o_len a =? o_len b) && Bool.eqb (o_empty a) (o_empty b) &&
  str_eqb (o_str a) (o_str b) && list_eqb pair_eqb (o_gets a) (o_gets b).
Definition lobs_eqb (a b : lobs) : bool := lobs_eqb_nobytes a b && str_eqb (o_bytes a) (o_bytes b).
Definition t_eqb_with (e : lobs -> lobs -> bool) (a b : transcript) : bool :=
  Bool.eqb (t_panic a) (t_panic b) && list_eqb event_eqb (t_events a) (t_events b) &&
  list_eqb e (t_regs a) (t_regs b) && list_eqb Z.eqb (t_cmp a) (t_cmp b) && list_eqb Bool.eqb (t_eq a) (t_eq b).

(* ---- agree: each build's transcript equals its model's (Bytes included; Hash is process-local
   in principle and is only judged by [holds]) *)
Definition agree1 (I : impl) (c : case) (t : transcript) : bool :=
  match run I (c_q c) (c_probes c) (c_ops c) with
  | Ok m => t_eqb_with lobs_eqb m t
  | _ => false
  end.
Definition agree (c : case) : bool :=
  forallb op_regs_ok (c_ops c) &&
  agree1 I_string c (c_tS c) && agree1 I_slice c (c_tL c) && agree1 I_dedupe c (c_tD c).

(* ---- holds: the property evaluated on the implementation's own output *)
(* the map a well-formed label list denotes *)
Fixpoint lookup (ls : list label) (n : str) : option str :=
  match ls with [] => None | (k, v) :: t => if str_eqb k n then Some v else lookup t n end.
(* the order of label sets: lexicographic over name1, value1, name2, value2, ... *)
Fixpoint spec_cmp (a b : list label) : Z :=
  match a, b with
  | [], [] => 0
  | [], _ :: _ => -1
  | _ :: _, [] => 1
  | (an, av) :: a', (bn, bv) :: b' =>
      match str_cmp an bn with
      | Lt => -1 | Gt => 1
      | Eq => match str_cmp av bv with Lt => -1 | Gt => 1 | Eq => spec_cmp a' b' end
      end
  end.
Definition clean_str (s : str) : bool := forallb (fun b => b <? 254) s.
Definition clean_labels (l : list label) : bool := forallb (fun x => clean_str (fst x) && clean_str (snd x)) l.

(* laws of one observed label set, whatever it is *)
Definition laws1 (q : qtable) (o : lobs) : bool :=
  (o_len o =? zlen (o_range o)) &&
  Bool.eqb (o_empty o) (match o_range o with [] => true | _ => false end) &&
  str_eqb (o_str o) (labels_string q (o_range o)) &&
  (* StableHash is a function of the abstract entry list only: xxhash64 over (name 0xff value 0xff)*,
     whatever the build and however the 1 KiB buffer / streaming switch falls.  xxhash is an oracle:
     the harness evaluates it on hash_input(Range) (o_sref), Coq compares. *)
  (o_stable o =? o_sref o).
(* laws of a well-formed one: iteration in strict name order, lookups are the map's *)
Definition laws_wf (probes : list str) (o : lobs) : bool :=
  wf_labels (o_range o) &&
  list_eqb pair_eqb (o_gets o)
    (map (fun p => match lookup (o_range o) p with Some v => (v, true) | None => ([], false) end) probes).
(* equality / order / byte form / hash are mutually consistent *)
Definition nth_lobs (t : transcript) (i : nat) : lobs := nth i (t_regs t) (mkO [] 0 true [] [] 0 0 0 []).
Definition idx := seq 0 K.
Definition matrix_laws (t : transcript) : bool :=
  (length (t_cmp t) =? K * K)%nat && (length (t_eq t) =? K * K)%nat && (length (t_regs t) =? K)%nat &&
  forallb (fun i => forallb (fun j =>
    let a := nth_lobs t i in let b := nth_lobs t j in
    let c := nth (i * K + j) (t_cmp t) 99 in
    let e := nth (i * K + j) (t_eq t) false in
    (c =? spec_cmp (o_range a) (o_range b)) &&
    (c =? - nth (j * K + i) (t_cmp t) 99) &&
    Bool.eqb e (c =? 0) &&
    Bool.eqb e (labels_eqb (o_range a) (o_range b)) &&
    (if clean_labels (o_range a) && clean_labels (o_range b) then Bool.eqb e (str_eqb (o_bytes a) (o_bytes b)) else true) &&
    (if e then o_hash a =? o_hash b else true) &&
    (* equal sets <-> equal stable hashes (no label may be ignored by the hash) *)
    Bool.eqb e (o_stable a =? o_stable b)) idx) idx.

(* registers whose current content comes from Builder.Labels: no empty values *)
Definition from_builder (ops : list op) : list bool :=
  fold_left (fun acc o =>
    match o with
    | OBLabels r => firstn r acc ++ true :: skipn (S r) acc
    | OSLabels r | ONew r _ => firstn r acc ++ false :: skipn (S r) acc
    | _ => acc
    end) ops (repeat false K).
Definition no_empty_values (l : list label) : bool := forallb (fun x => match snd x with [] => false | _ => true end) l.

Definition laws_always (q : qtable) (t : transcript) : bool :=
  if t_panic t then true else forallb (laws1 q) (t_regs t) && matrix_laws t.
Definition laws_protocol (c : case) (t : transcript) : bool :=
  negb (t_panic t) &&
  forallb (laws_wf (c_probes c)) (t_regs t) &&
  forallb (fun ob : bool * lobs => if fst ob then no_empty_values (o_range (snd ob)) else true) (combine (from_builder (c_ops c)) (t_regs t)).

(* Builder.Range promises no order (stringlabels/dedupelabels sort b.add in place inside
   Builder.Labels, slicelabels does not: C39_builder_range_order_differs); across builds its
   output is compared as a set, i.e. sorted by name (names are unique in a Builder) *)
Definition canon_event (e : event) : event :=
  match e with ERange l => ERange (sort_labels l) | _ => e end.
Definition canon_t (t : transcript) : transcript :=
  mkT (t_panic t) (map canon_event (t_events t)) (t_regs t) (t_cmp t) (t_eq t).
(* across builds everything but Bytes/Hash must coincide - including StableHash *)
Definition lobs_eqb_cross (a b : lobs) : bool := lobs_eqb_nobytes a b && (o_stable a =? o_stable b).
Definition cross_eq (a b : transcript) : bool := t_eqb_with lobs_eqb_cross (canon_t a) (canon_t b).

(* ---- the specification machine: label sets are finite maps name -> value kept as strictly
   name-sorted association lists; a Builder is a map plus the set of names with a pending addition
   (Keep spares those); the ScratchBuilder (inside its protocol) is the list of additions or an
   assigned set.  Nothing here mentions encodings, del/add slices, merges or sorts of the
   implementations. *)
Fixpoint m_set (n v : str) (m : list label) : list label :=
  match m with
  | [] => [(n, v)]
  | (k, w) :: t => match str_cmp n k with
                   | Lt => (n, v) :: m
                   | Eq => (n, v) :: t
                   | Gt => (k, w) :: m_set n v t
                   end
  end.
Definition m_del (n : str) (m : list label) : list label := filter (fun x => negb (str_eqb (fst x) n)) m.
Definition m_of (ls : list label) : list label := fold_left (fun m x => m_set (fst x) (snd x) m) ls [].
Record spec_st := mkSp {
  sp_regs : list (list label); sp_view : list label; sp_added : list str;
  sp_adds : list label; sp_asg : option (list label); sp_ev : list event }.
Definition set_nth {A} (l : list A) (r : nat) (x : A) : list A := firstn r l ++ x :: skipn (S r) l.
Definition sp_del1 (s : spec_st) (n : str) : spec_st :=
  mkSp (sp_regs s) (m_del n (sp_view s)) (filter (fun a => negb (str_eqb a n)) (sp_added s)) (sp_adds s) (sp_asg s) (sp_ev s).
Definition spec_step (s : spec_st) (o : op) : spec_st :=
  let '(mkSp regs view added adds asg ev) := s in
  match o with
  | OBReset r => mkSp regs (filter (fun x => match snd x with [] => false | _ => true end) (nth r regs [])) [] adds asg ev
  | OBSet n [] => sp_del1 s n
  | OBSet n v => mkSp regs (m_set n v view) (n :: added) adds asg ev
  | OBDel ns => fold_left sp_del1 ns s
  | OBKeep ns => mkSp regs (filter (fun x => mem (fst x) added || mem (fst x) ns) view) added adds asg ev
  | OBLabels r => mkSp (set_nth regs r view) view added adds asg ev
  | OBGet n => mkSp regs view added adds asg (EGet (match lookup view n with Some v => v | None => [] end) :: ev)
  | OBRange => mkSp regs view added adds asg (ERange view :: ev)
  | OSReset => mkSp regs view added [] None ev
  | OSAdd n v => mkSp regs view added (adds ++ [(n, v)]) asg ev
  | OSSort => s
  | OSAssign r => mkSp regs view added adds (Some (nth r regs [])) ev
  | OSLabels r => mkSp (set_nth regs r (match asg with Some l => l | None => m_of adds end)) view added adds asg ev
  | ONew r ls => mkSp (set_nth regs r (m_of ls)) view added adds asg ev
  | ORebuild => s
  end.
Definition spec_run (ops : list op) : spec_st := fold_left spec_step ops (mkSp (repeat [] K) [] [] [] None []).
(* a build's transcript shows exactly the specified maps and Builder observations *)
Definition matches_spec (c : case) (t : transcript) : bool :=
  let sp := spec_run (c_ops c) in
  list_eqb labels_eqb (map o_range (t_regs t)) (sp_regs sp) &&
  list_eqb event_eqb (map canon_event (t_events t)) (rev (sp_ev sp)).

Definition holds (c : case) : bool :=
  laws_always (c_q c) (c_tS c) && laws_always (c_q c) (c_tL c) && laws_always (c_q c) (c_tD c) &&
  (if protocol_ok (c_ops c) then
     laws_protocol c (c_tS c) && laws_protocol c (c_tL c) && laws_protocol c (c_tD c) &&
     matches_spec c (c_tS c) && matches_spec c (c_tL c) && matches_spec c (c_tD c) &&
     cross_eq (c_tS c) (c_tL c) && cross_eq (c_tS c) (c_tD c)
   else true).

Definition mismatches (cs : list case) : list Z := map c_id (filter (fun c => negb (agree c)) cs).
Definition failing_holds (cs : list case) : list Z := map c_id (filter (fun c => negb (holds c)) cs).

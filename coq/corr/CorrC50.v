(* corr/CorrC50.v — correspondence (agree) and specification (holds) checkers for C50 cases.
   A case = one run of the real `promtool tsdb create-blocks-from openmetrics`: the entries the
   OpenMetrics parser yields for the input text, --max-block-duration in ms (0 = flag omitted),
   and what was observed: the exit class and every block left in the output directory
   (meta MinTime/MaxTime and all samples, queried per block, grouped by series id and in
   querier order inside a series; blocks sorted by MinTime). *)
From Coq Require Import List ZArith Bool.
From Verif Require Import lib.Int64 model.Backfill.
Import ListNotations.
Open Scope Z_scope.

Record oblock := mkOB { ob_mint : Z; ob_maxt : Z; ob_samples : list sample }.

Inductive obs :=
| ObsOk (bl : list oblock)                 (* exit 0 *)
| ObsRejected (e : rej) (nblocks : Z)      (* "getting min and max timestamp: ..." *)
| ObsCreateErr (bl : list oblock)          (* "block creation: ..." *)
| ObsOther.                                (* anything else (crash, unreadable block, ...) *)

Record case := mkCase { c_id : Z; c_maxdur : Z; c_nser : Z; c_input : list entry; c_obs : obs }.

(* ------------------------------------------------------------------ agree *)
Fixpoint samples_eqb (a b : list sample) : bool :=
  match a, b with
  | [], [] => true
  | x :: a', y :: b' => sample_eqb x y && samples_eqb a' b'
  | _, _ => false
  end.

(* the model keeps a block's samples in commit order; the observation is grouped by series *)
Definition canon (nser : Z) (l : list sample) : list sample :=
  flat_map (fun i => filter (fun x => s_sid x =? i) l) (map Z.of_nat (seq 0 (Z.to_nat nser))).

Definition block_agree (nser : Z) (b : block) (o : oblock) : bool :=
  (b_mint b =? ob_mint o) && (b_maxt b =? ob_maxt o) && samples_eqb (canon nser (b_samples b)) (ob_samples o).

Fixpoint blocks_agree (nser : Z) (bl : list block) (ol : list oblock) : bool :=
  match bl, ol with
  | [], [] => true
  | b :: bl', o :: ol' => block_agree nser b o && blocks_agree nser bl' ol'
  | _, _ => false
  end.

Definition rej_eqb (a b : rej) : bool :=
  match a, b with RejParse, RejParse => true | RejNoTs, RejNoTs => true | _, _ => false end.

Definition agree (c : case) : bool :=
  match backfill (c_maxdur c) (c_input c), c_obs c with
  | BFOk bl, ObsOk ol => blocks_agree (c_nser c) bl ol
  | BFRejected e, ObsRejected e' n => rej_eqb e e' && (n =? 0)
  | BFCreateErr w, ObsCreateErr ol => blocks_agree (c_nser c) w ol
  | _, _ => false
  end.

(* ------------------------------------------------------------------ holds *)
(* the block duration the tool must choose, stated directly: the largest of 2h * 3^i (i < 10)
   not above the requested maximum, and 2h when the maximum is below 2h or absent *)
Definition spec_duration (mx : Z) : Z :=
  fold_left (fun best r => if r <=? mx then r else best) block_ranges default_block_duration.

(* samples grouped by series id 0 .. nser-1 (only to make the membership tests below cheap) *)
Definition buckets (nser : Z) (l : list sample) : list (list sample) :=
  map (fun i => filter (fun x => s_sid x =? i) l) (map Z.of_nat (seq 0 (Z.to_nat nser))).

Definition has_sample (bk : list (list sample)) (x : sample) : bool :=
  if s_sid x <? 0 then false else
  match nth_error bk (Z.to_nat (s_sid x)) with
  | Some b => existsb (sample_eqb x) b
  | None => false
  end.

Fixpoint nodup_ts (l : list sample) : bool :=
  match l with
  | [] => true
  | x :: r => negb (existsb (fun y => s_ts y =? s_ts x) r) && nodup_ts r
  end.

Fixpoint nodupZ (l : list Z) : bool :=
  match l with [] => true | x :: r => negb (existsb (Z.eqb x) r) && nodupZ r end.

(* a block lies within one window [k*d, (k+1)*d) and its meta range covers its samples *)
Definition oblock_ok (d : Z) (o : oblock) : bool :=
  (ob_mint o <? ob_maxt o) && (ob_mint o / d =? (ob_maxt o - 1) / d)
  && negb (match ob_samples o with [] => true | _ => false end)
  && forallb (fun x => (ob_mint o <=? s_ts x) && (s_ts x <? ob_maxt o)) (ob_samples o).

(* The property, on the implementation's own output:
   - an input with a line without timestamp (or one the parser rejects) is rejected and the
     output directory holds no block;
   - otherwise: every block left in the output directory is aligned and within one block
     duration, no two blocks share a window; every stored sample is an input sample (same
     series, timestamp, value bits); no (series, timestamp) is stored twice; and, when the
     input is ordered (per series and window: increasing timestamps or exact repetitions),
     the run succeeds and every input sample is stored.  For an input that is not ordered the
     run may also fail after the scan ("block creation: ... add sample"). *)
Definition holds (c : case) : bool :=
  if well_formedb (c_input c) then
    let d := spec_duration (c_maxdur c) in
    let ins := samples_of (c_input c) in
    let ord := orderedb d ins in
    let check (ol : list oblock) (complete : bool) :=
        let all := flat_map ob_samples ol in
        let bk_all := buckets (c_nser c) all in
        let bk_ins := buckets (c_nser c) ins in
        forallb (oblock_ok d) ol
        && nodupZ (map (fun o => ob_mint o / d) ol)
        && forallb (has_sample bk_ins) all           (* every stored sample is an input sample *)
        && forallb nodup_ts bk_all                   (* no (series, timestamp) stored twice ... *)
        && (Z.of_nat (length (concat bk_all)) =? Z.of_nat (length all))  (* ... (all stored series are input series) *)
        && (if complete then forallb (has_sample bk_all) ins else true) in
    match c_obs c with
    | ObsOk ol => check ol ord
    | ObsCreateErr ol => negb ord && check ol false
    | _ => false
    end
  else
    match c_obs c with
    | ObsRejected _ n => n =? 0
    | _ => false
    end.

Definition mismatches (cs : list case) : list Z := map c_id (filter (fun c => negb (agree c)) cs).
Definition failing_holds (cs : list case) : list Z := map c_id (filter (fun c => negb (holds c)) cs).

(* corr/CorrC05.v — correspondence (agree) and specification (holds) checkers for C05 cases.

   A case is one schedule driven through a real tsdb.Head: the atomic steps in the order the
   harness let them happen (a real Commit paused at the c05.* pause points, queriers created
   and read in between), interleaved with what the implementation showed after the steps
   (isolation bookkeeping, per-series chunk layout and raw transaction ring, and what every
   open querier returned), plus a final dump of every series read without isolation. *)
From Coq Require Import List ZArith Bool Arith.
From Verif Require Import model.Isolation.
Import ListNotations.
Open Scope Z_scope.

Inductive item :=
| IEv (e : ev)
| IApp (id bound : Z)                                   (* what newAppendID returned for the last ENewApp *)
| IIso (last : Z) (openl rlows : list Z) (low : Z)       (* VerifC05Iso *)
| ISeries (sref : Z) (mm hd : list nat) (ids : list Z) (first count : nat)   (* VerifC05Series *)
| IRead (key sref : Z) (samples : list (Z * Z)).        (* querier [key] Select on series sref: (t, v) *)

Record case := mkCase {
  c_id : Z;
  c_items : list item;
  c_final : list (Z * list (Z * Z))     (* series ref -> all samples, read with isolation disabled at the end *)
}.

Definition eqb_listZ (a b : list Z) : bool :=
  (length a =? length b)%nat && forallb (fun p => fst p =? snd p) (combine a b).
Definition eqb_listnat (a b : list nat) : bool :=
  (length a =? length b)%nat && forallb (fun p => Nat.eqb (fst p) (snd p)) (combine a b).
Definition eqb_pairs (a b : list (Z * Z)) : bool :=
  (length a =? length b)%nat &&
  forallb (fun p => (fst (fst p) =? fst (snd p)) && (snd (fst p) =? snd (snd p))) (combine a b).

Definition tv (l : list sample) : list (Z * Z) := map (fun x => (s_t x, s_v x)) l.

(* ---------------------------------------------------------------- agree: model vs implementation *)

Definition check_obs (st : state) (it : item) : bool :=
  match it with
  | IEv _ => true
  | IApp id bound =>
      match rev (st_open st) with
      | a :: _ => (a_id a =? id) && (a_bound a =? bound)
      | [] => false
      end
  | IIso last openl rlows low =>
      (st_last st =? last) && eqb_listZ (map a_id (st_open st)) openl
      && eqb_listZ (map rd_low (st_readers st)) rlows
      && (low_watermark (st_last st) (st_open st) (st_readers st) =? low)
  | ISeries sref mm hd ids first count =>
      let s := st_series st sref in
      eqb_listnat (map (@length sample) (m_mm s)) mm && eqb_listnat (map (@length sample) (m_hd s)) hd
      && eqb_listZ (r_ids (m_txs s)) ids && Nat.eqb (r_first (m_txs s)) first && Nat.eqb (r_count (m_txs s)) count
  | IRead key sref samples =>
      match find_reader key st with
      | None => false
      | Some rd =>
          match read_series rd (st_series st sref) with
          | None => false
          | Some l => eqb_pairs (tv l) samples
          end
      end
  end.

Fixpoint replay (st : state) (its : list item) : option state :=
  match its with
  | [] => Some st
  | IEv e :: rest => match step st e with ROk st' => replay st' rest | _ => None end
  | it :: rest => if check_obs st it then replay st rest else None
  end.

Definition agree (c : case) : bool :=
  match replay init (c_items c) with
  | None => false
  | Some st => forallb (fun p => eqb_pairs (tv (all_samples (st_series st (fst p)))) (snd p)) (c_final c)
  end.

(* ---------------------------------------------------------------- holds: the property itself

   Evaluated on the schedule and the implementation's outputs only (the model is not run):
   the harness writes every sample with value v = 1000 * appendID + k, so the transaction of
   a returned sample is v / 1000.  For a querier created at some point of the schedule, the
   transactions "committed before it was created" are those whose EClose precedes its
   ENewReader.  The statement, literally: whatever such a querier returns for a series, at any
   later moment, is exactly the in-order samples of those transactions — all of them (on every
   series: whole transactions) and nothing else (no sample of an appender still committing). *)

Definition owner_of (p : Z * Z) : Z := snd p / 1000.

Definition lookup_final (c : case) (sref : Z) : list (Z * Z) :=
  match find (fun p => fst p =? sref) (c_final c) with Some p => snd p | None => [] end.

(* walk the items; closed = appendIDs closed so far; snaps = (reader key, closed at its creation) *)
Fixpoint holds_walk (c : case) (its : list item) (closed : list Z) (snaps : list (Z * list Z)) : bool :=
  match its with
  | [] => true
  | IEv (EClose a) :: rest => holds_walk c rest (a :: closed) snaps
  | IEv (ENewReader key) :: rest => holds_walk c rest closed ((key, closed) :: snaps)
  | IRead key sref samples :: rest =>
      match find (fun p => fst p =? key) snaps with
      | None => false
      | Some p =>
          eqb_pairs samples (filter (fun x => memZ (owner_of x) (snd p)) (lookup_final c sref))
          && holds_walk c rest closed snaps
      end
  | _ :: rest => holds_walk c rest closed snaps
  end.

Definition holds (c : case) : bool := holds_walk c (c_items c) [] [].

Definition mismatches (cs : list case) : list Z := map c_id (filter (fun c => negb (agree c)) cs).
Definition failing_holds (cs : list case) : list Z := map c_id (filter (fun c => negb (holds c)) cs).

(* corr/CorrC42.v — correspondence (agree) and specification (holds) checkers for C42 cases.

   One case = one remote-read query against one storage:
     - what a direct storage.Querier / storage.ChunkQuerier over [mint,maxt] with the same
       matchers returns on that storage (c_direct, c_chunks: the inputs of the handler),
     - what the real client (remote.NewReadClient) decoded from the real handler
       (remote.NewReadHandler behind httptest) for the SAMPLES response (c_sampled) and for the
       STREAMED_XOR_CHUNKS response (c_chunked),
     - the frames read off the wire of the streamed response with remote.ChunkedReader
       (c_frames; chunk data decoded to samples by chunkenc). *)
From Coq Require Import List ZArith Bool NArith.
From Verif Require Import lib.Int64 model.RemoteRead.
Import ListNotations.
Open Scope Z_scope.

Inductive obs := ObsOk (l : list series) | ObsErrLimit | ObsErrInvalid | ObsErrOther | ObsSkip.

(* a Seek probe on one series of the SAMPLES client (concreteSeriesIterator): the series'
   samples as obtained with Next alone, the number of Next calls before the Seek, the Seek
   target, and what Seek + At + draining with Next returned (None = Seek returned ValNone) *)
Record probe := mkProbe { p_all : list sample; p_skip : nat; p_t : Z; p_obs : option (list sample) }.

Record case := mkCase {
  c_id : Z;
  c_mint : Z; c_maxt : Z;
  c_maxbytes : Z;              (* remoteReadMaxBytesInFrame of the handler *)
  c_limit : Z;                 (* remoteReadSampleLimit of the handler (0 = none) *)
  c_sort : bool;               (* sortSeries passed to ReadClient.Read *)
  c_ext : labels;              (* external labels of the serving side, sorted by name *)
  c_direct : list series;
  c_chunks : list cseries;
  c_sampled : obs;
  c_frames : list frame;
  c_chunked : obs;
  (* remote.NewSampleAndChunkQueryableClient(client, ext, ...).Querier(mint,maxt).Select(...) with
     the same external labels as the serving side; ObsSkip when not run (an external label
     name that also occurs in stored series) *)
  c_qchunked : bool;           (* response type of the client underneath *)
  c_mnames : list str;         (* label names of the user's matchers *)
  c_querier : obs;
  c_probes : list probe;
  (* oracle (unicode/utf8.ValidString, tabulated by the harness): some series of the response
     carries a label name, label value or metric name that is invalid under the UTF-8 naming
     scheme (empty or not valid UTF-8).  FromQueryResult (validateLabelsAndMetricName) then
     refuses the whole SAMPLES response; a name that is merely not "legacy" (dots, dashes,
     spaces, non-ASCII letters, leading digits) must be accepted.  The streamed client does not
     validate. *)
  c_bad : bool
}.

Definition chunk_eqb (a b : chunk) : bool :=
  (c_min a =? c_min b) && (c_max a =? c_max b) && (c_enc a =? c_enc b) && (c_len a =? c_len b)
  && samples_eqb (c_samples a) (c_samples b).

Fixpoint chunks_eqb (a b : list chunk) : bool :=
  match a, b with
  | [], [] => true
  | x :: a', y :: b' => chunk_eqb x y && chunks_eqb a' b'
  | _, _ => false
  end.

Fixpoint frames_eqb (a b : list frame) : bool :=
  match a, b with
  | [], [] => true
  | x :: a', y :: b' => labels_eqb (f_l x) (f_l y) && chunks_eqb (f_c x) (f_c y) && frames_eqb a' b'
  | _, _ => false
  end.

(* model vs implementation, exactly (order of series, split points of frames, samples) *)
Definition agree_sampled (c : case) : bool :=
  match sampled_path (c_limit c) (c_ext c) (c_sort c) (c_direct c), c_sampled c with
  | Ok l, ObsOk l' => negb (c_bad c) && serieslist_eqb l l'
  | Ok _, ObsErrInvalid => c_bad c            (* validateLabelsAndMetricName, after the limit check *)
  | ErrLimit, ObsErrLimit => true
  | _, _ => false
  end.

Definition agree_frames (c : case) : bool :=
  frames_eqb (stream_frames (c_maxbytes c) (c_ext c) (c_chunks c)) (c_frames c).

Definition agree_chunked (c : case) : bool :=
  match c_chunked c with
  | ObsOk l' =>
      serieslist_eqb (chunked_path (c_maxbytes c) (c_ext c) (c_mint c) (c_maxt c) (c_chunks c)) l'
      && serieslist_eqb (client_chunked (c_mint c) (c_maxt c) (c_frames c)) l'
  | _ => false
  end.

Definition agree_querier (c : case) : bool :=
  match c_querier c with
  | ObsSkip => true
  | o =>
      match querier_path (c_qchunked c) (c_limit c) (c_maxbytes c) (c_ext c) (c_mnames c) (c_sort c)
                         (c_mint c) (c_maxt c) (c_direct c) (c_chunks c), o with
      | Ok l, ObsOk l' => (c_qchunked c || negb (c_bad c)) && serieslist_eqb l l'
      | Ok _, ObsErrInvalid => negb (c_qchunked c) && c_bad c
      | ErrLimit, ObsErrLimit => true
      | _, _ => false
      end
  end.

Definition agree_probe (p : probe) : bool :=
  match seek_probe (floats_of (p_all p)) (hists_of (p_all p)) (p_skip p) (p_t p), p_obs p with
  | Some (Some l), Some l' => samples_eqb l l'
  | Some None, None => true
  | _, _ => false
  end.

Definition agree (c : case) : bool :=
  agree_sampled c && agree_frames c && agree_chunked c && agree_querier c
  && forallb agree_probe (c_probes c).

(* the property on the implementation's own output: both response types return exactly the
   series of the direct query (external labels of the serving side attached), with exactly the
   direct query's samples.  The order of the series is not part of the statement: both sides
   are sorted by label set before the comparison.  A series without any sample in the range
   carries no data: such entries are dropped on both sides (the TSDB's sample querier returns a
   series whose chunk overlaps the range although no sample lies in it, its trimming chunk
   querier does not).  A sample limit, when configured and
   exceeded by the direct result, must turn the sampled response into an error instead. *)
Definition has_samples (s : series) : bool := match ser_s s with [] => false | _ => true end.
Definition canon (l : list series) : list series := sort_series (filter has_samples l).

Definition expected (c : case) : list series :=
  canon (map (fun s => mkSer (merge_labels (ser_l s) (c_ext c)) (ser_s s)) (c_direct c)).

Definition total_samples (l : list series) : Z :=
  fold_left (fun a s => a + Z.of_nat (length (ser_s s))) l 0.

Definition holds_sampled (c : case) : bool :=
  if (0 <? c_limit c) && (c_limit c <? total_samples (c_direct c)) then
    match c_sampled c with ObsErrLimit => true | _ => false end
  else
  if c_bad c then
    (* a response with labels invalid under the UTF-8 scheme is refused as a whole (by design) *)
    match c_sampled c with ObsErrInvalid => true | _ => false end
  else
    match c_sampled c with
    | ObsOk l => serieslist_eqb (canon l) (expected c)
    | _ => false
    end.

Definition holds_chunked (c : case) : bool :=
  match c_chunked c with
  | ObsOk l => serieslist_eqb (canon l) (expected c)
  | _ => false
  end.

(* through the querier the external labels are stripped again: exactly the direct result *)
Definition holds_querier (c : case) : bool :=
  match c_querier c with
  | ObsSkip => true
  | o =>
      if negb (c_qchunked c) && (0 <? c_limit c) && (c_limit c <? total_samples (c_direct c)) then
        match o with ObsErrLimit => true | _ => false end
      else if negb (c_qchunked c) && c_bad c then
        match o with ObsErrInvalid => true | _ => false end
      else
        match o with
        | ObsOk l => serieslist_eqb (canon l) (canon (c_direct c))
        | _ => false
        end
  end.

(* Seek is an access path to the same data: it must stand on the first sample, at or after the
   current one, with timestamp >= t, and Next must continue from there *)
Definition holds_probe (p : probe) : bool :=
  samples_eqb (match p_obs p with Some l => l | None => [] end) (seek_spec (p_all p) (p_skip p) (p_t p)).

Definition holds (c : case) : bool :=
  holds_sampled c && holds_chunked c && holds_querier c && forallb holds_probe (c_probes c).

Definition mismatches (cs : list case) : list Z := map c_id (filter (fun c => negb (agree c)) cs).
Definition failing_holds (cs : list case) : list Z := map c_id (filter (fun c => negb (holds c)) cs).

(* corr/CorrC53.v — correspondence (agree) and specification (holds) checkers for C53 cases.
   A case is one data directory left behind by a generated history on a real tsdb.DB
   (copied while the DB was open = unclean shutdown, or after Close), described by
     - its blocks in directory order (meta.json times and hints, decoded content),
     - the table of the oracle Head.Init (real Head.Init run on a copy, per cut-off value),
     - what a read-write tsdb.Open of a copy shows (Head.minValidTime, Head.MinTime()),
     - per read-only session (OpenDBReadOnly on another copy, ONE Querier or ChunkQuerier, Close):
       the query, the read-only and the read-write answer, the read-only head's minValidTime and
       MinTime, the file tree (paths, inode identities, content hashes) while open and after Close,
     - the block DBReadOnly.FlushWAL wrote (on yet another copy).
   agree : model/ReadOnly.v predicts all of it (cut-offs, head times, both answers, the file
           tree while the session is open, the flushed block);
   holds : the property itself on the implementation's own output: read-only answer =
           read-write answer (timestamps and values), every pre-existing path unchanged while
           open, the tree after Close identical to the tree before, the flushed block holds
           exactly the head data. *)
From Coq Require Import List ZArith Bool.
From Verif Require Import lib.Int64 model.ReadOnly.
Import ListNotations.
Open Scope Z_scope.

(* tree entry: path, node (-1 = directory, otherwise the inode identity), content hash *)
Definition entry := (path * Z * Z)%type.
Definition e_path (e : entry) : path := fst (fst e).
Definition e_node (e : entry) : Z := snd (fst e).
Definition e_hash (e : entry) : Z := snd e.

Definition oanswer := list (sid * list (Z * Z)).   (* series, (timestamp, value code) *)

Record sess := mkSess {
  s_mint : Z; s_maxt : Z; s_sel : list sid;
  s_ro : oanswer; s_rw : oanswer;
  s_ro_mv : Z; s_ro_minT : Z;
  s_sandbox : path;
  (* the trees while the session is open and after Close, as differences to c_before (computed
     by the harness, lossless): entries that are new or changed, entries that are gone or changed *)
  s_dnew : list entry; s_dgone : list entry;
  s_anew : list entry; s_agone : list entry }.

Record case := mkCase {
  c_id : Z;
  c_blocks : list blockd;
  c_init : list (Z * hdata);
  c_sel : list sid;
  c_rw_mv : Z; c_rw_minT : Z;
  c_dir : path;
  c_before : list entry;
  c_sess : list sess;
  c_flushed : bool;                              (* FlushWAL was run *)
  c_flush : option (Z * Z * answer) }.           (* the block it wrote: MinTime, MaxTime, content *)

Definition patch (before gone new : list entry) : list entry :=
  filter (fun e => negb (existsb (fun g => path_eqb (fst (fst e)) (fst (fst g)) && (snd (fst e) =? snd (fst g)) && (snd e =? snd g)) gone)) before ++ new.
Definition s_during (c : case) (s : sess) : list entry := patch (c_before c) (s_dgone s) (s_dnew s).
Definition s_after (c : case) (s : sess) : list entry := patch (c_before c) (s_agone s) (s_anew s).

Definition hbad : hdata := mkH 0 0 [] [] 0 0 [].
Definition init_of (tbl : list (Z * hdata)) (mv : Z) : hdata :=
  match find (fun p => fst p =? mv) tbl with Some p => snd p | None => hbad end.
Definition has_key (tbl : list (Z * hdata)) (mv : Z) : bool := existsb (fun p => fst p =? mv) tbl.

(* ---- comparisons ---- *)
Definition listZ_eqb (a b : list Z) : bool :=
  Nat.eqb (length a) (length b) && forallb (fun p => fst p =? snd p) (combine a b).
Fixpoint answer_eqb (a b : answer) : bool :=
  match a, b with
  | [], [] => true
  | (i, l) :: a', (j, m) :: b' => (i =? j) && listZ_eqb l m && answer_eqb a' b'
  | _, _ => false
  end.
Definition pairs_eqb (a b : list (Z * Z)) : bool :=
  Nat.eqb (length a) (length b)
  && forallb (fun p => (fst (fst p) =? fst (snd p)) && (snd (fst p) =? snd (snd p))) (combine a b).
Fixpoint oanswer_eqb (a b : oanswer) : bool :=
  match a, b with
  | [], [] => true
  | (i, l) :: a', (j, m) :: b' => (i =? j) && pairs_eqb l m && oanswer_eqb a' b'
  | _, _ => false
  end.
(* series returned without a sample are dropped before comparing *)
Definition times (o : oanswer) : answer :=
  flat_map (fun p => match snd p with [] => [] | l => [(fst p, map fst l)] end) o.
Definition drop_empty (o : oanswer) : oanswer :=
  filter (fun p => match snd p with [] => false | _ => true end) o.

Definition entry_eqb (a b : entry) : bool :=
  path_eqb (e_path a) (e_path b) && (e_node a =? e_node b) && (e_hash a =? e_hash b).
Definition subset (a b : list entry) : bool := forallb (fun x => existsb (entry_eqb x) b) a.
Definition same_entries (a b : list entry) : bool :=
  Nat.eqb (length a) (length b) && subset a b && subset b a.

(* ---- the file system part of agree ---- *)
Definition node_of (e : entry) : node := if e_node e =? -1 then NDir else NFile (e_node e).
Definition fs_of (l : list entry) : fs :=
  mkFS (map (fun e => (e_path e, node_of e)) l)
       (flat_map (fun e => if e_node e =? -1 then [] else [(e_node e, e_hash e)]) l).

Definition last_comp (p : path) : Z := last p 0.
Definition node_eqb (a b : node) : bool :=
  match a, b with
  | NDir, NDir => true
  | NFile x, NFile y => x =? y
  | _, _ => false
  end.

(* head chunk files of the data directory: the files directly under dir/chunks_head *)
Definition chunk_files (dir : path) (before : list entry) : list entry :=
  filter (fun e => path_eqb (removelast (e_path e)) (dir ++ [chunks_dir]) && negb (e_node e =? -1)) before.
Definition has_chunk_dir (dir : path) (before : list entry) : bool :=
  existsb (fun e => path_eqb (e_path e) (dir ++ [chunks_dir]) && (e_node e =? -1)) before.

(* files under sandbox/chunks_head that are NOT links of an original (new inode): created by the
   replay; original names that are missing there: removed by the replay *)
Definition sb_files (sb : path) (during : list entry) : list entry :=
  filter (fun e => path_eqb (removelast (e_path e)) (sb ++ [chunks_dir]) && negb (e_node e =? -1)) during.
Definition created_of (dir sb : path) (before during : list entry) : list (Z * Z * Z) :=
  flat_map (fun e => if existsb (fun o => (last_comp (e_path o) =? last_comp (e_path e)) && (e_node o =? e_node e))
                                (chunk_files dir before)
                     then [] else [(last_comp (e_path e), e_node e, e_hash e)]) (sb_files sb during).
Definition removed_of (dir sb : path) (before during : list entry) : list Z :=
  flat_map (fun o => if existsb (fun e => (last_comp (e_path e) =? last_comp (e_path o)) && (e_node o =? e_node e))
                                (sb_files sb during)
                     then [] else [last_comp (e_path o)]) (chunk_files dir before).

Definition tree_matches (t : list (path * node)) (l : list entry) : bool :=
  Nat.eqb (length t) (length l)
  && forallb (fun e => match lookup t (e_path e) with Some n => node_eqb n (node_of e) | None => false end) l
  && forallb (fun b => existsb (fun e => path_eqb (fst b) (e_path e)) l) t.

Definition fs_agree (c : case) (s : sess) : bool :=
  let dir := c_dir c in let sb := s_sandbox s in
  let ops := ro_open_ops dir sb (has_chunk_dir dir (c_before c))
                         (map (fun e => last_comp (e_path e)) (chunk_files dir (c_before c)))
                         (created_of dir sb (c_before c) (s_during c s))
                         (removed_of dir sb (c_before c) (s_during c s)) in
  match run (fs_of (c_before c)) ops with
  | Some f =>
      tree_matches (f_tree f) (s_during c s)
      && forallb (fun e => if e_node e =? -1 then true
                           else match content (f_data f) (e_node e) with Some h => h =? e_hash e | None => false end)
                 (s_during c s)
      && match run f [ORemoveAll sb] with
         | Some f' => tree_matches (f_tree f') (s_after c s)
         | None => false
         end
  | None => false
  end.

(* ---- agree ---- *)
Definition sess_agree (c : case) (s : sess) : bool :=
  let init := init_of (c_init c) in
  let mv := cutoff (sort_blocks (c_blocks c)) in
  let vro := open_ro init (c_blocks c) (s_maxt s) in
  let vrw := open_rw init (c_blocks c) in
  answer_eqb (times (s_ro s)) (query vro (s_mint s) (s_maxt s) (s_sel s))
  && answer_eqb (times (s_rw s)) (query vrw (s_mint s) (s_maxt s) (s_sel s))
  && (s_ro_mv s =? (if mv <=? s_maxt s then mv else 0))   (* a head that was never initialised: 0 *)
  && (s_ro_minT s =? v_minT vro)
  && fs_agree c s.

Definition flush_agree (c : case) : bool :=
  if c_flushed c then
    has_key (c_init c) (cutoff_old (c_blocks c))
    && match flush_wal (init_of (c_init c)) (c_blocks c) (c_sel c), c_flush c with
       | None, None => true
       | Some (a, b, x), Some (a', b', y) => (a =? a') && (b =? b') && answer_eqb x y
       | _, _ => false
       end
  else true.

Definition agree (c : case) : bool :=
  has_key (c_init c) (cutoff (c_blocks c))
  && (c_rw_mv c =? cutoff (c_blocks c))
  && (c_rw_minT c =? v_minT (open_rw (init_of (c_init c)) (c_blocks c)))
  && forallb (sess_agree c) (c_sess c)
  && flush_agree c.

(* ---- holds: the property on the implementation's own output ---- *)
Definition sess_holds (c : case) (s : sess) : bool :=
  oanswer_eqb (drop_empty (s_ro s)) (drop_empty (s_rw s))     (* same series, timestamps and values *)
  && subset (c_before c) (s_during c s)                           (* while open: every pre-existing path unchanged *)
  && same_entries (c_before c) (s_after c s).                     (* after Close: identical tree, nothing left behind *)

Definition flush_holds (c : case) : bool :=
  if c_flushed c then
    let want := head_data (open_ro (init_of (c_init c)) (c_blocks c) maxInt64) (c_sel c) in
    match c_flush c with
    | None => match want with [] => true | _ => false end
    | Some (_, _, y) => answer_eqb y want
    end
  else true.

Definition holds (c : case) : bool := forallb (sess_holds c) (c_sess c) && flush_holds c.

Definition mismatches (cs : list case) : list Z := map c_id (filter (fun c => negb (agree c)) cs).
Definition failing_holds (cs : list case) : list Z := map c_id (filter (fun c => negb (holds c)) cs).

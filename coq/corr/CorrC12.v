(* corr/CorrC12.v — correspondence and specification predicates for C12.
   The harness (harness/cmd/h_c12) prints raw Go values: histograms with spans and (delta or absolute)
   buckets, numbers as primitive 63-bit literals biased by 2^62 (float64 bit patterns as two 32-bit
   halves; see "packing" below).  This file converts them ([to_ahist], via model.buckets_of), runs the model and evaluates
   the property.

   chunk case  CChunk float ops obs ivs dobs:
     agree: run (KInt|KFloat) ops, read with read_chunk = the observed chunks (header, and per
            sample timestamp, hint, canonical value); read_source (not in ivs) = dobs, the chunks read
            through the real tsdb.DeletedIterator with the deletion intervals ivs;
     holds: the property on the concatenation of the observed chunk reads and on dobs.
   merge case  CMerge float opss final:
     agree: every chunk of run ops (each series of opss) read with read_chunk is one input of the
            model's chained merge; its output = the observed output of the real
            ChainSampleIteratorFromIterables over the real chunks (timestamps, hints; values up to
            the tie-break between sources holding the same timestamp);
     holds: the property on the observed merged list.
   query case  CQuery srcs final:
     agree: the model's chained merge of the observed per-source lists = the observed merged list;
     holds: the property on the observed merged list. *)
From Coq Require Import List ZArith Bool Uint63.
From Verif Require Import model.CounterResetHint.
Import ListNotations.
Open Scope Z_scope.

(* ---------------------------------------------------------------- decoding the harness output *)
(* One case is one flat list of numbers; variable-length parts carry their length first:
     hist  = deltas hint stale schema zthHi zthLo #custom (hi lo)* count zcount #ps (off len)* #ns (off len)*
             #pb pb* #nb nb*
     obs   = t hist                 obsl = #obs obs*
     case  = 0 id float #ops (cut t hist)* #chunks (header obsl)* #ivs (lo hi)* obsl   (chunk case)
           | 1 id #srcs obsl* obsl                                      (query case)
           | 2 id float #series series* obsl   with series = #ops (cut t hist)*    (merge case) *)
(* packing: every number is zigzag-encoded, cut into base-2^14 digits (least significant first, bit 14
   set on all but the last digit); four such 15-bit symbols per literal; up to three padding zeros *)
Definition syms (x : int) : list Z :=
  let z := Uint63.to_Z x in
  [z mod 32768; (z / 32768) mod 32768; (z / 1073741824) mod 32768; z / 35184372088832].
Definition unzig (u : Z) : Z := if Z.even u then u / 2 else - ((u + 1) / 2).
Fixpoint unvar (acc shift : Z) (l : list Z) : list Z :=
  match l with
  | [] => []
  | s :: r =>
      let acc' := acc + (s mod 16384) * shift in
      if s <? 16384 then unzig acc' :: unvar 0 1 r else unvar acc' (shift * 16384) r
  end.
Definition unpack (raw : list int) : list Z := unvar 0 1 (flat_map syms raw).

Definition P (A : Type) := list Z -> option (A * list Z).
Definition ret {A} (x : A) : P A := fun l => Some (x, l).
Definition bind {A B} (p : P A) (f : A -> P B) : P B :=
  fun l => match p l with Some (x, r) => f x r | None => None end.
Notation "x <- p ;; q" := (bind p (fun x => q)) (at level 61, p at next level, right associativity).
Definition num : P Z := fun l => match l with x :: r => Some (x, r) | [] => None end.
Fixpoint rep {A} (p : P A) (n : nat) : P (list A) :=
  match n with
  | O => ret []
  | S k => x <- p ;; xs <- rep p k ;; ret (x :: xs)
  end.
Definition counted {A} (p : P A) : P (list A) := n <- num ;; rep p (Z.to_nat n).

Definition hint_of (x : Z) : hint :=
  match x with 1 => HReset | 2 => HNotReset | 3 => HGauge | _ => HUnknown end.
Definition crh_of (x : Z) : crh :=
  match x with 1 => CReset | 2 => CNotReset | 3 => CGauge | _ => CUnknown end.
Definition bool_of (x : Z) : bool := negb (x =? 0).

Definition pbits : P Z := h <- num ;; l <- num ;; ret (h * 4294967296 + l).
Definition pspan : P span := o <- num ;; n <- num ;; ret (mkSpan o n).

Definition phist : P ahist :=
  deltas <- num ;; hnt <- num ;; stale <- num ;; schema <- num ;; zth <- pbits ;;
  custom <- counted pbits ;; count <- num ;; zcount <- num ;;
  ps <- counted pspan ;; ns <- counted pspan ;; pb <- counted num ;; nb <- counted num ;;
  ret (mkA (hint_of hnt) (bool_of stale) schema zth custom count zcount
           (buckets_of (bool_of deltas) ps pb) (buckets_of (bool_of deltas) ns nb)).

(* an observed sample: the hint is the CounterResetHint field of the returned histogram *)
Definition pobs : P rs := t <- num ;; h <- phist ;; ret (mkR t (a_hint h) h).
Definition pobsl : P (list rs) := counted pobs.

Inductive case :=
| CChunk (float : bool) (ops : list (bool * Z * ahist)) (obs : list (crh * list rs))
         (ivs : list (Z * Z)) (dobs : list rs)
| CQuery (srcs : list (list rs)) (final : list rs)
| CMerge (float : bool) (opss : list (list (bool * Z * ahist))) (final : list rs).

Definition pop3 : P (bool * Z * ahist) := c <- num ;; t <- num ;; h <- phist ;; ret (bool_of c, t, h).
Definition pchunk : P (crh * list rs) := c <- num ;; l <- pobsl ;; ret (crh_of c, l).

Definition pcase : P case :=
  tag <- num ;; _ <- num ;;
  if tag =? 0 then
    f <- num ;; ops <- counted pop3 ;; obs <- counted pchunk ;;
    ivs <- counted (lo <- num ;; hi <- num ;; ret (lo, hi)) ;; dobs <- pobsl ;;
    ret (CChunk (bool_of f) ops obs ivs dobs)
  else if tag =? 1 then
    srcs <- (n <- num ;; rep pobsl (Z.to_nat n)) ;; final <- pobsl ;; ret (CQuery srcs final)
  else
    f <- num ;; opss <- counted (counted pop3) ;; final <- pobsl ;; ret (CMerge (bool_of f) opss final).

(* the whole input must be consumed (up to the padding) *)
Definition parse (raw : list int) : option case :=
  match pcase (unpack raw) with
  | Some (c, rest) => if (length rest <=? 3)%nat && forallb (Z.eqb 0) rest then Some c else None
  | None => None
  end.

Definition case_id (raw : list int) : Z :=
  match unpack (firstn 4 raw) with _ :: id :: _ => id | _ => -1 end.

(* ---------------------------------------------------------------- canonical observables *)
Definition nz (l : list bk) : list bk := filter (fun b => negb (snd b =? 0)) l.

Fixpoint bks_eqb (a b : list bk) : bool :=
  match a, b with
  | [], [] => true
  | (i, c) :: a', (j, d) :: b' => (i =? j) && (c =? d) && bks_eqb a' b'
  | _, _ => false
  end.

(* values of two returned histograms (zero-count buckets are layout, not value) *)
Definition value_eqb (a b : ahist) : bool :=
  if a_stale a || a_stale b then a_stale a && a_stale b
  else (a_schema a =? a_schema b) && (a_zth a =? a_zth b) && zlist_eqb (a_custom a) (a_custom b)
       && (a_count a =? a_count b) && (a_zcount a =? a_zcount b)
       && bks_eqb (nz (a_pos a)) (nz (a_pos b)) && bks_eqb (nz (a_neg a)) (nz (a_neg b)).

Definition rs_eqb (a b : rs) : bool :=
  (r_t a =? r_t b) && hint_eqb (r_hint a) (r_hint b) && value_eqb (r_h a) (r_h b).

Fixpoint rsl_eqb (a b : list rs) : bool :=
  match a, b with
  | [], [] => true
  | x :: a', y :: b' => rs_eqb x y && rsl_eqb a' b'
  | _, _ => false
  end.

(* the property itself: model.sound_list (defined next to the model so that the theorems of props/C12.v
   are stated with the very predicate evaluated here) *)

(* ---------------------------------------------------------------- agree / holds *)
Definition kind_of (float : bool) : kind := if float then KFloat else KInt.

Definition model_chunks (float : bool) (ops : list (bool * Z * ahist)) : list (crh * list rs) :=
  map (fun c => (c_crh c, read_chunk c)) (run (kind_of float) ops).

Fixpoint chunks_eqb (a b : list (crh * list rs)) : bool :=
  match a, b with
  | [], [] => true
  | (c, l) :: a', (d, m) :: b' => crh_eqb c d && rsl_eqb l m && chunks_eqb a' b'
  | _, _ => false
  end.

(* deletion intervals (query range trimming, tombstones) as a keep predicate *)
Definition keep_of (ivs : list (Z * Z)) (t : Z) : bool :=
  negb (existsb (fun iv => (fst iv <=? t) && (t <=? snd iv)) ivs).

(* NewMergeQuerier: a series found in one querier only is returned as it is, otherwise
   ChainedSeriesMerge *)
Definition model_query (srcs : list (list rs)) : cres :=
  match srcs with
  | [] => COk []
  | [s] => COk s
  | _ => chain srcs []
  end.

(* Merged output against the model's.  When several inputs hold the same timestamp, which of them the
   merge returns depends on container/heap's tie-breaking, which is not modelled (the model takes
   the first minimal element).  So: timestamps must be equal; the observed value must be the value x
   some input holds at that timestamp; and the observed hint must be the one the model gives at
   this position, adapted to x: Gauge if x is a gauge sample (the merge never touches it), and if the
   model returned a gauge sample where the implementation returned a counter sample (only possible
   at such a tie, where the iterator has just changed): unknown. *)
Definition hint_for (m x : rs) : hint :=
  if hint_eqb (r_hint x) HGauge then HGauge
  else if hint_eqb (r_hint m) HGauge then HUnknown else r_hint m.
Definition obs_ok (srcs : list (list rs)) (m o : rs) : bool :=
  (r_t m =? r_t o)
  && existsb (fun s => existsb (fun x => (r_t x =? r_t o) && value_eqb (r_h x) (r_h o)
                                         && hint_eqb (r_hint o) (hint_for m x)) s) srcs.
Fixpoint rsl_match (srcs : list (list rs)) (a b : list rs) : bool :=
  match a, b with
  | [], [] => true
  | m :: a', o :: b' => obs_ok srcs m o && rsl_match srcs a' b'
  | _, _ => false
  end.

(* merge case: every chunk of every series is one input of ChainSampleIteratorFromIterables *)
Definition merge_srcs (float : bool) (opss : list (list (bool * Z * ahist))) : list (list rs) :=
  flat_map (fun ops => map read_chunk (run (kind_of float) ops)) opss.

Definition agree_case (c : case) : bool :=
  match c with
  | CChunk float ops obs ivs dobs =>
      chunks_eqb (model_chunks float ops) obs
      && rsl_eqb (read_source (keep_of ivs) (run (kind_of float) ops)) dobs
  | CQuery srcs final =>
      match model_query srcs with
      | COk out => rsl_match srcs out final
      | COutOfFuel => false
      end
  | CMerge float opss final =>
      let srcs := merge_srcs float opss in
      match chain srcs [] with
      | COk out => rsl_match srcs out final
      | COutOfFuel => false
      end
  end.

Definition holds_case (c : case) : bool :=
  match c with
  | CChunk _ _ obs _ dobs => sound_list (concat (map snd obs)) && sound_list dobs
  | CQuery _ final => sound_list final
  | CMerge _ _ final => sound_list final
  end.

(* an unparsable case counts as a disagreement and as a failure *)
Definition agree (raw : list int) : bool :=
  match parse raw with Some c => agree_case c | None => false end.
Definition holds (raw : list int) : bool :=
  match parse raw with Some c => holds_case c | None => false end.

Definition mismatches (cs : list (list int)) : list Z :=
  map case_id (filter (fun c => negb (agree c)) cs).
Definition failing_holds (cs : list (list int)) : list Z :=
  map case_id (filter (fun c => negb (holds c)) cs).

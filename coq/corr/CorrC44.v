(* corr/CorrC44.v — correspondence (agree) and specification (holds) checkers for C44.
   A case is one history of operations on a real rules.AlertingRule (Eval with a fake query
   function, sendAlerts, reload with changed durations via Group.CopyState, restart,
   Group.RestoreForState over a fake Queryable) together with what was observed after each
   operation: the returned vector / error, the whole r.active map (ForEachActiveAlert), the
   keys returned by ActiveAlerts(), the restored flag, the alerts handed to the notify function. *)
From Coq Require Import List ZArith Bool.
From Verif Require Import model.Alerting.
Import ListNotations.
Open Scope Z_scope.

Record obs := mkObs { o_res : result; o_map : amap; o_restored : bool; o_active : list Z }.

(* Compact form in which the harness prints the observations (Coq's elaboration time is
   per AST node): the active map as the difference to the previous observation, an
   (ALERTS, ALERTS_FOR_STATE) pair of one instance with a common timestamp and ALERTS value 1
   as one VPair, a notified alert that is field-for-field the map entry as its key only. *)
Inductive vobs := VPair (k : Z) (st : astate) (tms actSec : Z) | VOdd (s : sample).
Inductive cres :=
| CEval (o : list vobs) | CQueryErr | CDup | CLimit
| CSend (sent : list (Z * option alert))
| CNone.
Record cobs := mkCObs { co_res : cres; co_delta : list (Z * option alert); co_restored : bool; co_active : list Z }.

Fixpoint remove_key (k : Z) (m : amap) : amap :=
  match m with [] => [] | (k', a) :: r => if k =? k' then r else (k', a) :: remove_key k r end.
Definition apply_delta (m : amap) (d : list (Z * option alert)) : amap :=
  fold_left (fun m ka => match snd ka with Some a => upsert (fst ka) a m | None => remove_key (fst ka) m end) d m.
Definition expand_vec (l : list vobs) : list sample :=
  flat_map (fun v => match v with VPair k st t s => [SAlerts k st t 1; SFor k t s] | VOdd s => [s] end) l.
Definition expand_res (m : amap) (r : cres) : result :=
  match r with
  | CEval o => REval (EvOk (expand_vec o))
  | CQueryErr => REval EvQueryErr | CDup => REval EvDup | CLimit => REval EvLimit
  | CSend sent => RSend (flat_map (fun ka => match snd ka with
                                            | Some a => [(fst ka, a)]
                                            | None => match lookup (fst ka) m with Some a => [(fst ka, a)] | None => [(fst ka, new_alert (-1) (-1))] end
                                            end) sent)
  | CNone => RNone
  end.
Fixpoint expand (prev : amap) (os : list cobs) : list obs :=
  match os with
  | [] => []
  | o :: r => let m := apply_delta prev (co_delta o) in
              mkObs (expand_res m (co_res o)) m (co_restored o) (co_active o) :: expand m r
  end.

Record case := mkCase { c_id : Z; c_cfg : cfg; c_ops : list op; c_cobs : list cobs }.
Definition c_obs (c : case) : list obs := expand [] (c_cobs c).

(* ---------- decidable equalities ---------- *)
Definition optZ_eqb (a b : option Z) : bool :=
  match a, b with Some x, Some y => x =? y | None, None => true | _, _ => false end.

Definition alert_eqb (a b : alert) : bool :=
  astate_eqb (a_state a) (a_state b) && (a_value a =? a_value b) && (a_activeAt a =? a_activeAt b)
  && optZ_eqb (a_firedAt a) (a_firedAt b) && optZ_eqb (a_resolvedAt a) (a_resolvedAt b)
  && optZ_eqb (a_keepSince a) (a_keepSince b) && optZ_eqb (a_lastSent a) (a_lastSent b)
  && optZ_eqb (a_validUntil a) (a_validUntil b).

Definition optA_eqb (a b : option alert) : bool :=
  match a, b with Some x, Some y => alert_eqb x y | None, None => true | _, _ => false end.

Fixpoint list_eqb {A B} (eqb : A -> B -> bool) (a : list A) (b : list B) : bool :=
  match a, b with
  | [], [] => true
  | x :: r, y :: s => eqb x y && list_eqb eqb r s
  | _, _ => false
  end.

Definition amap_eqb : amap -> amap -> bool :=
  list_eqb (fun x y => (fst x =? fst y) && alert_eqb (snd x) (snd y)).

Definition sample_eqb (a b : sample) : bool :=
  match a, b with
  | SAlerts k s t v, SAlerts k' s' t' v' => (k =? k') && astate_eqb s s' && (t =? t') && (v =? v')
  | SFor k t v, SFor k' t' v' => (k =? k') && (t =? t') && (v =? v')
  | _, _ => false
  end.

Definition outcome_eqb (a b : outcome) : bool :=
  match a, b with
  | EvOk v, EvOk v' => list_eqb sample_eqb v v'
  | EvQueryErr, EvQueryErr | EvDup, EvDup | EvLimit, EvLimit => true
  | _, _ => false
  end.

Definition result_eqb (a b : result) : bool :=
  match a, b with
  | REval o, REval o' => outcome_eqb o o'
  | RSend s, RSend s' => amap_eqb s s'
  | RNone, RNone => true
  | _, _ => false
  end.

(* ActiveAlerts(): the entries whose ResolvedAt is zero *)
Definition active_keys (m : amap) : list Z :=
  map fst (filter (fun ka => match a_resolvedAt (snd ka) with None => true | Some _ => false end) m).

(* ---------- agree: the model run from the same configuration over the same operations
   produces exactly the observed results and states ---------- *)
Definition obs_eqb (m : result * amap * bool) (o : obs) : bool :=
  let '(r, am, rs) := m in
  result_eqb r (o_res o) && amap_eqb am (o_map o) && Bool.eqb rs (o_restored o)
  && list_eqb Z.eqb (active_keys am) (o_active o).

Definition agree (c : case) : bool :=
  list_eqb obs_eqb (run (c_cfg c, []) (c_ops c)) (c_obs c).

(* ---------- holds: the property evaluated on the implementation's own observations:
   every observed transition (from the OBSERVED previous state) is a transition of the
   documented per-instance state machine, the returned series reflect the observed states,
   resolved entries are retained/dropped per the retention period, the restore shifts
   ActiveAt as documented. ---------- *)
Fixpoint sorted_keys (l : list Z) : bool :=
  match l with
  | [] => true
  | x :: r => match r with [] => true | y :: _ => (x <? y) && sorted_keys r end
  end.

Definition keys_of (prev : amap) (res : list (Z * Z)) (next : amap) : list Z :=
  map fst prev ++ map fst res ++ map fst next.

Definition holds_eval (c : cfg) (prev : amap) (ts qo limit : Z) (qerr : bool) (res : list (Z * Z))
           (o : obs) : bool :=
  match o_res o with
  | REval EvQueryErr => qerr && amap_eqb (o_map o) prev
  | REval EvDup => negb qerr && has_dup (map fst res) && amap_eqb (o_map o) prev
  | REval EvLimit =>
      negb qerr && negb (has_dup (map fst res)) && (0 <? limit)
      && match o_map o with [] => true | _ => false end
      (* and the limit really was exceeded: more instances would be active than allowed *)
      && (limit <? Z.of_nat (length (filter (fun k =>
              match spec_next c ts (lookup k res) (lookup k prev) with
              | Some a => is_active a | None => false end)
            (nodup Z.eq_dec (map fst prev ++ map fst res)))))
  | REval (EvOk vec) =>
      negb qerr && negb (has_dup (map fst res))
      && forallb (fun k => optA_eqb (lookup k (o_map o)) (spec_next c ts (lookup k res) (lookup k prev)))
                 (keys_of prev res (o_map o))
      && list_eqb sample_eqb vec (spec_vec c ts qo (o_map o))
      && ((limit <=? 0) || (Z.of_nat (length (filter (fun ka => is_active (snd ka)) (o_map o))) <=? limit))
  | _ => false
  end.

(* notifications: pending alerts are never sent; firing and resolved ones are sent when they
   were resolved after the last send or the last send is older than the resend delay; sending
   only stamps LastSentAt / ValidUntil *)
Definition holds_send (prev : amap) (ts resend interval : Z) (o : obs) : bool :=
  match o_res o with
  | RSend sent =>
      list_eqb Z.eqb (map fst (o_map o)) (map fst prev)
      && forallb (fun ka =>
           let k := fst ka in let a := snd ka in
           let due := negb (astate_eqb (a_state a) Pending)
                      && (after (a_resolvedAt a) (a_lastSent a)
                          || match a_lastSent a with None => true | Some l => l + resend <? ts end) in
           let a' := if due then mark_sent a ts resend interval else a in
           optA_eqb (lookup k (o_map o)) (Some a')
           && optA_eqb (lookup k sent) (if due then Some a' else None)) prev
      && forallb (fun ka => match lookup (fst ka) prev with Some _ => true | None => false end) sent
  | _ => false
  end.

(* restore: with the last stored sample (t ms, v s) inside [ts - tolerance, ts]:
   the instance was already firing when the sample was written (v + hold <= t) -> ActiveAt is the
   stored one; otherwise the time still to wait after ts is max(grace, what remained).
   No such sample, a stale marker, or hold < grace: ActiveAt is untouched. Nothing else changes. *)
Definition holds_restore (c : cfg) (prev : amap) (ts tol grace : Z) (st : store) (o : obs) : bool :=
  match o_res o with
  | RNone =>
      o_restored o
      && list_eqb Z.eqb (map fst (o_map o)) (map fst prev)
      && forallb (fun ka =>
           let k := fst ka in let a := snd ka in
           match lookup k (o_map o) with
           | None => false
           | Some a' =>
               alert_eqb (set_activeAt a' (a_activeAt a)) a    (* only ActiveAt may differ *)
               && let lo := Z.quot (ts - tol) 1000000 in let hi := Z.quot ts 1000000 in
                  let inr := filter (fun tv => (lo <=? fst tv) && (fst tv <=? hi))
                                    (match lookup k st with Some s => s | None => [] end) in
                  match rev inr with
                  | (t, Some v) :: _ =>
                      if c_hold c <? grace then a_activeAt a' =? a_activeAt a
                      else
                        let down := Z.quot t 1000 * 1000000000 in
                        let remaining := v * 1000000000 + c_hold c - down in
                        if remaining <=? 0 then a_activeAt a' =? v * 1000000000
                        else a_activeAt a' + c_hold c =? ts + Z.max grace remaining
                  | _ => a_activeAt a' =? a_activeAt a
                  end
           end) prev
  | _ => false
  end.

Definition holds_op (c : cfg) (prev : amap) (o : op) (ob : obs) : bool :=
  sorted_keys (map fst (o_map ob))
  && list_eqb Z.eqb (active_keys (o_map ob)) (o_active ob)
  && forallb (fun ka => wf_alert (snd ka)) (o_map ob)
  && match o with
     | OpEval ts qo limit qerr res => holds_eval c prev ts qo limit qerr res ob && Bool.eqb (o_restored ob) (c_restored c)
     | OpSend ts resend interval => holds_send prev ts resend interval ob && Bool.eqb (o_restored ob) (c_restored c)
     | OpReload hold kff restored =>
         amap_eqb (o_map ob) prev && Bool.eqb (o_restored ob) restored
         && match o_res ob with RNone => true | _ => false end
     | OpRestart hold kff =>
         match o_map ob with [] => true | _ => false end && negb (o_restored ob)
         && match o_res ob with RNone => true | _ => false end
     | OpRestore ts tol grace st => holds_restore c prev ts tol grace st ob
     end.

(* the configuration after an operation is an input (it is what the harness configured) *)
Definition cfg_after (c : cfg) (o : op) : cfg :=
  match o with
  | OpReload hold kff restored => mkCfg hold kff restored
  | OpRestart hold kff => mkCfg hold kff false
  | OpRestore _ _ _ _ => mkCfg (c_hold c) (c_kff c) true
  | _ => c
  end.

Fixpoint holds_run (c : cfg) (prev : amap) (ops : list op) (obs : list obs) : bool :=
  match ops, obs with
  | [], [] => true
  | o :: r, ob :: s => holds_op c prev o ob && holds_run (cfg_after c o) (o_map ob) r s
  | _, _ => false
  end.

Definition holds (c : case) : bool := holds_run (c_cfg c) [] (c_ops c) (c_obs c).

Definition mismatches (cs : list case) : list Z := map c_id (filter (fun c => negb (agree c)) cs).
Definition failing_holds (cs : list case) : list Z := map c_id (filter (fun c => negb (holds c)) cs).

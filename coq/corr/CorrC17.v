(* corr/CorrC17.v — correspondence (agree) and specification (holds) checkers for C17 cases.
   A case = one pattern accepted by labels.NewFastRegexMatcher: the pattern text, the tree
   regexp/syntax.Parse(pattern, Perl|DotNL) returned (parsing trusted), the oracle tables
   (fold orbits, toNormalisedLower, strings.ToLower on the non-ASCII strings involved), the
   dump of the FastRegexMatcher the real code built, and for a list of strings what
   FastRegexMatcher.MatchString and Go's standard regexp ^(?s:pattern)$ answered. *)
From Coq Require Import List ZArith Bool.
From Verif Require Import lib.Regex model.FastRegex.
Import ListNotations.
Open Scope Z_scope.

Record case := mkCase {
  c_id : Z;
  c_pat : str;
  c_ast : re;
  c_orbits : list (list rune);
  c_nl : list (bytes * bytes);
  c_tl : list (bytes * bytes);
  c_frm : frm;                         (* dump; f_re = Some RNoMatch iff m.re != nil *)
  c_strs : list (str * bool * bool)    (* string, FastRegexMatcher.MatchString, std regexp *)
}.

Definition tab (t : list (bytes * bytes)) (b : bytes) : bytes :=
  match lookup b t with Some v => v | None => oracle_miss end.

Fixpoint strs_eqb (a b : list (list Z)) : bool :=
  match a, b with
  | [], [] => true
  | x :: a', y :: b' => str_eqb x y && strs_eqb a' b'
  | _, _ => false
  end.
Definition incl_str (a b : list (list Z)) : bool := forallb (fun x => mem_str x b) a.
Definition set_eq_str (a b : list (list Z)) : bool := incl_str a b && incl_str b a.
(* same multiset for duplicate-free b (Go map iteration order is random) *)
Definition perm_str (a b : list (list Z)) : bool := set_eq_str a b && (len a =? len b).

Fixpoint sm_eqb (a b : sm) {struct a} : bool :=
  match a, b with
  | SEqual s c, SEqual s' c' => str_eqb s s' && Bool.eqb c c'
  | SEmpty, SEmpty => true
  | SOr l, SOr l' =>
      (fix go (l l' : list sm) : bool :=
         match l, l' with
         | [], [] => true
         | x :: t, y :: t' => sm_eqb x y && go t t'
         | _, _ => false
         end) l l'
  | SContains lf subs rt, SContains lf' subs' rt' =>
      match lf, lf' with Some x, Some y => sm_eqb x y | None, None => true | _, _ => false end
      && strs_eqb subs subs' &&
      match rt, rt' with Some x, Some y => sm_eqb x y | None, None => true | _, _ => false end
  | SPrefix c p r, SPrefix c' p' r' => Bool.eqb c c' && str_eqb p p' && sm_eqb r r'
  | SSuffix l s c, SSuffix l' s' c' => Bool.eqb c c' && str_eqb s s' && sm_eqb l l'
  | SAnyNonEmpty n, SAnyNonEmpty n' => Bool.eqb n n'
  | SZeroOrOne n, SZeroOrOne n' => Bool.eqb n n'
  | SNoNL, SNoNL => true
  | STrue, STrue => true
  | SMultiSlice c vs, SMultiSlice c' vs' => Bool.eqb c c' && strs_eqb vs vs'
  | SMultiMap c vs mp ps, SMultiMap c' vs' mp' ps' =>
      Bool.eqb c c' && set_eq_str vs vs' && (mp =? mp') && (len ps =? len ps') &&
      (fix allk (ps : list (bytes * list sm)) : bool :=
         match ps with
         | [] => true
         | (k, ms) :: t =>
             (fix findk (qs : list (bytes * list sm)) : bool :=
                match qs with
                | [] => false
                | (k', ms') :: t' =>
                    if str_eqb k k'
                    then (fix go (l l' : list sm) : bool :=
                            match l, l' with
                            | [], [] => true
                            | x :: u, y :: u' => sm_eqb x y && go u u'
                            | _, _ => false
                            end) ms ms'
                    else findk t'
                end) ps' && allk t
         end) ps
  | _, _ => false
  end.

Definition osm_eqb (a b : option sm) : bool :=
  match a, b with Some x, Some y => sm_eqb x y | None, None => true | _, _ => false end.

Definition frm_eqb (m d : frm) : bool :=
  Bool.eqb (match f_re m with Some _ => true | None => false end)
           (match f_re d with Some _ => true | None => false end) &&
  perm_str (nodup_str (f_set m)) (nodup_str (f_set d)) && (len (f_set m) =? len (f_set d)) &&
  osm_eqb (f_sm m) (f_sm d) && Bool.eqb (f_ci m) (f_ci d) &&
  str_eqb (f_prefix m) (f_prefix d) && str_eqb (f_suffix m) (f_suffix d) &&
  strs_eqb (f_contains m) (f_contains d).

Definition model_of (c : case) : frm :=
  new_frm (tab (c_nl c)) (tab (c_tl c)) (c_pat c) (c_ast c).

Definition model_match (c : case) (m : frm) (s : str) : bool :=
  match_string (fold_of (c_orbits c)) (tab (c_nl c)) m s.

(* the model builds the same matcher and answers the same on every string *)
Definition agree (c : case) : bool :=
  let m := model_of c in
  frm_eqb m (c_frm c) &&
  forallb (fun t => Bool.eqb (model_match c m (fst (fst t))) (snd (fst t))) (c_strs c).

(* the property on the implementation's own answers: MatchString = the anchored regular
   expression (Go's standard engine AND the proved reference matcher on the parsed tree);
   and if SetMatches is non-empty, a string matches exactly when it is in the set. *)
Definition holds (c : case) : bool :=
  forallb (fun t =>
             let '(s, fast, std) := t in
             Bool.eqb fast std &&
             Bool.eqb fast (re_match (fold_of (c_orbits c)) (c_ast c) s) &&
             (isnil (f_set (c_frm c)) || Bool.eqb std (mem_str s (f_set (c_frm c)))))
          (c_strs c).

Definition mismatches (cs : list case) : list Z := map c_id (filter (fun c => negb (agree c)) cs).
Definition failing_holds (cs : list case) : list Z := map c_id (filter (fun c => negb (holds c)) cs).

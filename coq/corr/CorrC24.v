(* corr/CorrC24.v — correspondence (agree) and specification (holds) checkers for C24 cases.

   A case is one block written by the real code (index.Writer + chunks.Writer directly, or
   tsdb.BlockWriter, or LeveledCompactor.Compact) and read back through tsdb.OpenBlock:
     c_input  what was handed to the writers (route "direct" only; None for the head/compactor
              routes, whose sample-level round trip is judged on the Go side),
     c_index / c_segs  the raw bytes of the index file and of every chunk segment file,
     c_open   everything the real readers returned (symbols, every series with labels and chunk
              metas, every chunk's encoding+bytes, label names, label values, every postings list),
     c_alts   single byte alterations inside series entries (index) / chunk records (segments),
              each with what the real reader of a re-opened copy returned for the entry/record
              that contains the altered byte.
   agree: the model readers of model/BlockFmt.v (instantiated with the executable CRC-32C), run
          on the same bytes, return exactly the same values and the same error classes.
   holds: the property evaluated on the implementation's answers alone. *)
From Coq Require Import List NArith ZArith Bool Uint63.
From Verif Require Import lib.Int64 lib.Bytes lib.Varint model.BlockFmt.
Import ListNotations.
Open Scope N_scope.

(* ---------------------------------------------------------------- transport encoding of byte strings
   Coq 8.16 spends ~250 us per decimal N literal, which makes raw index/segment files too
   expensive as [list N] literals.  The harness therefore prints every byte string as
   [pk len [w1; w2; ...]%uint63]: primitive 63-bit integers each carrying 7 bytes big-endian
   (the last one len - 7*(k-1) bytes).  Primitive integers are used for nothing else; the
   model and the theorems are over [N]. *)
Definition int_to_N (i : int) : N := Z.to_N (Uint63.to_Z i).
Fixpoint unpack (n : nat) (l : list int) : list N :=
  match l with
  | [] => []
  | w :: r => be_enc (Nat.min n 7) (int_to_N w) ++ unpack (n - 7) r
  end.
Definition pk (n : N) (l : list int) : list N := unpack (N.to_nat n) l.

(* ---------------------------------------------------------------- case data *)
Record series_obs := mkSO {
  so_ref : N;
  so_res : rres (list lbl * list cmeta);       (* Reader.Series *)
  so_chunks : list (rres (N * bstr))           (* ChunkOrIterable of every meta: encoding, bytes *)
}.

Record block_obs := mkBO {
  bo_syms : list bstr;                         (* Symbols() iterator *)
  bo_series : list series_obs;                 (* in the order of the all-postings list *)
  bo_names : list bstr;                        (* LabelNames *)
  bo_lvals : list (bstr * list bstr);          (* LabelValues(name) for every name *)
  bo_postings : list (lbl * rres (list N))     (* Postings(name, value) for every pair; ("","") first *)
}.

Record chunk_in := mkCI { ci_min : Z; ci_max : Z; ci_enc : N; ci_data : bstr }.
Record series_in := mkSI { si_labels : list lbl; si_chunks : list chunk_in }.

Inductive aobs :=
| AOpenErr (e : rerr)                          (* re-opening the altered file failed *)
| AOpenOk                                      (* it opened (alterations judged at open level) *)
| ASeries (r : rres (list lbl * list cmeta))
| APostings (r : rres (list N))
| AChunk (r : rres (N * bstr)).

Record alt := mkAlt {
  a_file : Z;        (* -1: series entry of the index; -2: symbol table / postings offset table / TOC
                        of the index (judged at open); -3: a postings list of the index;
                        k >= 0: chunk record in segment k *)
  a_pos : N;         (* byte position in that file *)
  a_byte : N;        (* new value (differs from the old one) *)
  a_ref : N;         (* series ref / offset of the postings list / chunk ref containing a_pos *)
  a_obs : aobs;
  a_diff : N         (* bit i set: read API group i of the re-opened block returned, without an
                        error, an answer different from the undamaged block's (judged by the
                        harness over the whole API suite, see notes/C24.md); must be 0 *)
}.

(* ---- further queries on the undamaged block *)
Inductive pred := PAll | PPrefix (p : bstr) | PEq (v : bstr).
Inductive mkind := MEq | MNeq | MRePlus | MRePrefix      (* n="v", n!="v", n=~".+", n=~"v.*" (v quoted) *)
                 | MReSet | MNReSet.                     (* n=~"v1|v2|..", n!~"v1|v2|.." (alternatives m_vals, in the order given) *)
Record matcher := mkM { m_kind : mkind; m_name : bstr; m_val : bstr; m_vals : list bstr }.
Record queries := mkQ {
  q_slvals : list (bstr * list bstr);                       (* SortedLabelValues(name) *)
  q_match : list (bstr * option pred * rres (list N));      (* PostingsForLabelMatching; None: PostingsForAllLabelValues *)
  q_sel : list (bool * list matcher * rres (list N));       (* PostingsForMatchers; true: a block querier's Select (refs of the series returned) *)
  q_lnames_m : list (list matcher * rres (list bstr));      (* LabelNames(matchers) *)
  q_lvals_m : list (bstr * list matcher * rres (list bstr)); (* LabelValues(name, matchers), sorted by the harness (order unspecified) *)
  q_lnfor : list (list N * rres (list bstr));              (* LabelNamesFor(list postings of these refs) *)
  q_mpost : list (bstr * list bstr * rres (list N))        (* Postings(name, values...) with the values in exactly this order
                                                              (unsorted, duplicates, absent values) *)
}.

Record case := mkCase {
  c_id : Z;
  c_input : option (list series_in);
  c_index : list N;
  c_segs : list (list N);
  c_open : rres block_obs;
  c_q : queries;
  c_alts : list alt
}.

(* compact forms of the usual alteration outcome (the read failed with class e), with
   primitive integers for position, new byte and reference *)
Definition ia (pos byte ref : int) (e : rerr) : alt :=
  mkAlt (-1) (int_to_N pos) (int_to_N byte) (int_to_N ref) (ASeries (RErr e)) 0.
Definition ca (file pos byte ref : int) (e : rerr) : alt :=
  mkAlt (Uint63.to_Z file) (int_to_N pos) (int_to_N byte) (int_to_N ref) (AChunk (RErr e)) 0.
Definition oa (pos byte : int) (e : rerr) : alt :=           (* open failed *)
  mkAlt (-2) (int_to_N pos) (int_to_N byte) 0 (AOpenErr e) 0.
Definition pa (pos byte off : int) (e : rerr) : alt :=       (* postings list read failed *)
  mkAlt (-3) (int_to_N pos) (int_to_N byte) (int_to_N off) (APostings (RErr e)) 0.
(* numbers as primitive integers (|z| < 2^62; the int64 extremes stay decimal literals) *)
Definition iz (i : int) : Z := Uint63.to_Z i.
Definition izn (i : int) : Z := (- Uint63.to_Z i)%Z.
Definition inn (i : int) : N := int_to_N i.
(* reference lists as primitive integers *)
Definition rl (l : list int) : list N := map int_to_N l.

(* ---------------------------------------------------------------- equality helpers *)
Fixpoint list_eqb {A B} (f : A -> B -> bool) (a : list A) (b : list B) : bool :=
  match a, b with
  | [], [] => true
  | x :: a', y :: b' => f x y && list_eqb f a' b'
  | _, _ => false
  end.
Definition rres_eqb {A} (f : A -> A -> bool) (a b : rres A) : bool :=
  match a, b with
  | ROk x, ROk y => f x y
  | RErr e, RErr e' => rerr_eqb e e'
  | _, _ => false
  end.
Definition lbl_eqb (a b : lbl) : bool := bytes_eqb (fst a) (fst b) && bytes_eqb (snd a) (snd b).
Definition cmeta_eqb (a b : cmeta) : bool :=
  (cm_ref a =? cm_ref b) && (cm_min a =? cm_min b)%Z && (cm_max a =? cm_max b)%Z.
Definition sres_eqb (a b : list lbl * list cmeta) : bool :=
  list_eqb lbl_eqb (fst a) (fst b) && list_eqb cmeta_eqb (snd a) (snd b).
Definition chk_eqb (a b : N * bstr) : bool := (fst a =? fst b) && bytes_eqb (snd a) (snd b).

Definition so_eqb (a b : series_obs) : bool :=
  (so_ref a =? so_ref b) && rres_eqb sres_eqb (so_res a) (so_res b) &&
  list_eqb (rres_eqb chk_eqb) (so_chunks a) (so_chunks b).

Definition bo_eqb (a b : block_obs) : bool :=
  list_eqb bytes_eqb (bo_syms a) (bo_syms b) &&
  list_eqb so_eqb (bo_series a) (bo_series b) &&
  list_eqb bytes_eqb (bo_names a) (bo_names b) &&
  list_eqb (fun x y => bytes_eqb (fst x) (fst y) && list_eqb bytes_eqb (snd x) (snd y)) (bo_lvals a) (bo_lvals b) &&
  list_eqb (fun x y => lbl_eqb (fst x) (fst y) && rres_eqb (list_eqb N.eqb) (snd x) (snd y)) (bo_postings a) (bo_postings b).

Definition aobs_eqb (a b : aobs) : bool :=
  match a, b with
  | AOpenErr e, AOpenErr e' => rerr_eqb e e'
  | AOpenOk, AOpenOk => true
  | ASeries x, ASeries y => rres_eqb sres_eqb x y
  | APostings x, APostings y => rres_eqb (list_eqb N.eqb) x y
  | AChunk x, AChunk y => rres_eqb chk_eqb x y
  | _, _ => false
  end.

(* ---------------------------------------------------------------- model side *)
Definition m_series (r : ireader) (segs : list (list N)) (ref : N) : series_obs :=
  let s := ir_series crc32c r ref in
  mkSO ref s (match s with
              | ROk (_, cs) => map (fun c => chunk_of crc32c segs (cm_ref c)) cs
              | RErr _ => []
              end).

(* the sequence of reads the harness performs on an opened block *)
Definition model_read_ir (r : ireader) (segs : list (list N)) : rres block_obs :=
  (_ <-- open_segs segs ;;
   all <-- ir_postings crc32c r [] [] ;;
   let names := ir_label_names r in
   let lvals := map (fun n => (n, ir_label_values r n)) names in
   ROk (mkBO (ir_syms r)
             (map (m_series r segs) all)
             names lvals
             ((([], []), ROk all) ::
              flat_map (fun '(n, vs) => map (fun v => ((n, v), ir_postings crc32c r n v)) vs) lvals)))%rres.

Definition model_read (index : list N) (segs : list (list N)) : rres block_obs :=
  (r <-- open_index crc32c index ;; model_read_ir r segs)%rres.

(* an alteration is judged with the symbol table of the unaltered index: the harness only
   alters bytes of series entries, so a successful re-open yields the same table; a failing
   re-open is reported as AOpenErr and can never agree *)
Definition model_alt (syms : list bstr) (index : list N) (segs : list (list N)) (a : alt) : aobs :=
  if (a_file a =? -1)%Z then
    ASeries (series_at crc32c syms (alter (N.to_nat (a_pos a)) (a_byte a) index) (a_ref a))
  else if (a_file a =? -2)%Z then
    match open_index crc32c (alter (N.to_nat (a_pos a)) (a_byte a) index) with
    | RErr e => AOpenErr e
    | ROk _ => AOpenOk
    end
  else if (a_file a =? -3)%Z then
    APostings (postings_at crc32c (alter (N.to_nat (a_pos a)) (a_byte a) index) (a_ref a))
  else
    let k := Z.to_nat (a_file a) in
    AChunk (chunk_of crc32c
              (firstn k segs ++
               match nth_error segs k with Some s => [alter (N.to_nat (a_pos a)) (a_byte a) s] | None => [] end ++
               skipn (S k) segs)
              (a_ref a)).

(* ---- the writer half: the model ENCODERS applied to the values read back must reproduce the
   bytes the real writers put into the files (header, symbol table, every series entry, every
   chunk record, every postings list, the postings offset table, the TOC) *)
Definition bytes_at (bs : list N) (off : N) (expect : list N) : bool :=
  bytes_eqb (sub bs off (blen expect)) expect.

Definition writer_agree (r : ireader) (index : list N) (segs : list (list N)) (bo : block_obs) : bool :=
  match ROk r with
  | RErr _ => false
  | ROk r =>
      let t := ir_toc r in
      bytes_at index 0 (put_be32 magicIndex ++ [2]) &&
      match enc_symbols crc32c (ir_syms r) with
      | Some e => bytes_at index (t_symbols t) e
      | None => false
      end &&
      forallb (fun s => match so_res s with
                        | ROk (ls, cs) =>
                            match enc_series_entry crc32c (ir_syms r) ls cs with
                            | Some e => bytes_at index (so_ref s * 16) e
                            | None => false
                            end &&
                            check_chunks true 0 0 cs &&
                            forallb (fun '(cm, ch) =>
                                       match ch with
                                       | ROk (enc, data) =>
                                           match nth_error segs (N.to_nat (cm_ref cm / 4294967296)) with
                                           | Some seg => bytes_at seg (cm_ref cm mod 4294967296) (enc_chunk_record crc32c enc data)
                                           | None => false
                                           end
                                       | RErr _ => true
                                       end) (combine cs (so_chunks s))
                        | RErr _ => true
                        end) (bo_series bo) &&
      forallb (fun x => match snd x, po_find (ir_po r) (fst (fst x)) (snd (fst x)) with
                        | ROk refs, Some off => bytes_at index off (enc_postings crc32c refs)
                        | ROk _, None => false
                        | RErr _, _ => true
                        end) (bo_postings bo) &&
      bytes_at index (t_potab t) (enc_po_table crc32c (ir_po r)) &&
      bytes_at index (blen index - tocLen) (enc_toc crc32c t) &&
      forallb (fun seg => bytes_at seg 0 seg_header) segs
  end.

(* ---- Reader.PostingsForLabelMatching / PostingsForAllLabelValues / SortedLabelValues on the model:
   the entries of the offset table with that name, in table order, filtered by the predicate on
   the value; their postings lists merged (index.Merge: ascending, without duplicates) *)
Fixpoint prefixb (p v : bstr) : bool :=
  match p, v with
  | [], _ => true
  | x :: p', y :: v' => (x =? y) && prefixb p' v'
  | _ :: _, [] => false
  end.
Definition pred_ok (p : option pred) (v : bstr) : bool :=
  match p with
  | None | Some PAll => true
  | Some (PPrefix q) => prefixb q v
  | Some (PEq w) => bytes_eqb w v
  end.
Fixpoint insert_ref (x : N) (l : list N) : list N :=
  match l with
  | [] => [x]
  | y :: r => if x <? y then x :: l else if x =? y then l else y :: insert_ref x r
  end.
Definition merge_refs (ls : list (list N)) : list N := fold_right (fun l acc => fold_right insert_ref acc l) [] ls.
Fixpoint rres_all {A} (l : list (rres A)) : rres (list A) :=
  match l with
  | [] => ROk []
  | ROk a :: r => match rres_all r with ROk t => ROk (a :: t) | RErr e => RErr e end
  | RErr e :: _ => RErr e
  end.
Definition ir_postings_matching (r : ireader) (n : bstr) (p : option pred) : rres (list N) :=
  match rres_all (map (fun '(_, _, off) => postings_at crc32c (ir_bytes r) off)
                      (filter (fun '(n', v, _) => bytes_eqb n' n && pred_ok p v) (ir_po r))) with
  | ROk ls => ROk (merge_refs ls)
  | RErr e => RErr e
  end.

Definition pred_eqb (a b : option pred) : bool :=
  match a, b with
  | None, None | Some PAll, Some PAll => true
  | Some (PPrefix x), Some (PPrefix y) | Some (PEq x), Some (PEq y) => bytes_eqb x y
  | _, _ => false
  end.

Definition queries_agree (r : ireader) (q : queries) : bool :=
  match ROk r with
  | RErr _ => false
  | ROk r =>
      forallb (fun x => list_eqb bytes_eqb (snd x) (ir_label_values r (fst x))) (q_slvals q) &&
      forallb (fun x => let '(n, p, res) := x in
                        rres_eqb (list_eqb N.eqb) (ir_postings_matching r n p) res) (q_match q) &&
      forallb (fun x => rres_eqb (list_eqb bytes_eqb) (label_names_for crc32c r (fst x) None) (snd x)) (q_lnfor q) &&
      (* Reader.Postings(name, values...): the union of the per-value lists, whatever the order of the values *)
      forallb (fun x => let '(n, vs, res) := x in
                        rres_eqb (list_eqb N.eqb)
                          (match rres_all (map (ir_postings crc32c r n) vs) with
                           | ROk ls => ROk (merge_refs ls) | RErr e => RErr e end) res) (q_mpost q)
  end.

Definition agree (c : case) : bool :=
  match open_index crc32c (c_index c) with       (* the index is opened once for all parts *)
  | RErr e => rres_eqb bo_eqb (RErr e) (c_open c) && match c_alts c with [] => true | _ => false end
  | ROk r =>
      let m := model_read_ir r (c_segs c) in
      rres_eqb bo_eqb m (c_open c) &&
      match c_open c with
      | ROk bo => writer_agree r (c_index c) (c_segs c) bo && queries_agree r (c_q c)
      | RErr _ => true
      end &&
      match m with
      | ROk bo => forallb (fun a => aobs_eqb (model_alt (bo_syms bo) (c_index c) (c_segs c) a) (a_obs a)) (c_alts c)
      | RErr _ => match c_alts c with [] => true | _ => false end
      end
  end.

(* ---------------------------------------------------------------- the property on the observations *)
Fixpoint insert_u (s : bstr) (l : list bstr) : list bstr :=      (* sorted insert without duplicates *)
  match l with
  | [] => [s]
  | x :: r => if bytes_eqb x s then l else if bs_ltb s x then s :: l else x :: insert_u s r
  end.
Definition sort_u (l : list bstr) : list bstr := fold_right insert_u [] l.

Definition has_label (ls : list lbl) (n v : bstr) : bool := existsb (fun l => lbl_eqb l (n, v)) ls.

Fixpoint strictly_ascb (l : list N) : bool :=
  match l with
  | a :: ((b :: _) as r) => (a <? b) && strictly_ascb r
  | _ => true
  end.

(* the series as read: (ref, labels) of every series, all of which must have been read without error *)
Definition read_series (bo : block_obs) : option (list (N * list lbl * list cmeta)) :=
  fold_right (fun s acc => match so_res s, acc with
                           | ROk (ls, cs), Some t => Some ((so_ref s, ls, cs) :: t)
                           | _, _ => None end) (Some []) (bo_series bo).

(* internal consistency of what the readers returned: symbols, postings, label names and
   values are exactly those of the series returned; nothing failed *)
Definition consistent (bo : block_obs) : bool :=
  match read_series bo with
  | None => false
  | Some ss =>
      let all_labels := flat_map (fun '(_, ls, _) => ls) ss in
      let strings := sort_u (flat_map (fun l => [fst l; snd l]) all_labels) in
      let names := sort_u (map fst all_labels) in
      (* symbols: sorted, unique, exactly the strings in use *)
      (* (blocks written from a head also carry the empty string: the head's symbol set contains
         the name and value of its all-postings key) *)
      symbols_sortedb None (bo_syms bo) &&
      list_eqb bytes_eqb (match bo_syms bo with [] :: r => r | l => l end) strings &&
      (* series refs strictly ascending = the all-postings list *)
      strictly_ascb (map (fun '(r, _, _) => r) ss) &&
      (* label names / values *)
      list_eqb bytes_eqb (bo_names bo) names &&
      list_eqb (fun x n => bytes_eqb (fst x) n &&
                           list_eqb bytes_eqb (snd x)
                             (sort_u (map snd (filter (fun l => bytes_eqb (fst l) n) all_labels))))
               (bo_lvals bo) names &&
      (* postings: ("","") = all refs; (n,v) = refs of the series carrying n=v; one list per pair *)
      match bo_postings bo with
      | (([], []), ROk all) :: rest =>
          list_eqb N.eqb all (map (fun '(r, _, _) => r) ss) &&
          list_eqb (fun x nv => lbl_eqb (fst x) nv) rest
                   (flat_map (fun x => map (fun v => (fst x, v)) (snd x)) (bo_lvals bo)) &&
          forallb (fun x => match snd x with
                            | ROk refs => list_eqb N.eqb refs
                                            (map (fun '(r, _, _) => r)
                                                 (filter (fun '(_, ls, _) => has_label ls (fst (fst x)) (snd (fst x))) ss))
                            | RErr _ => false end) rest
      | _ => false
      end &&
      (* every chunk was readable *)
      forallb (fun s => forallb (fun c => match c with ROk _ => true | RErr _ => false end) (so_chunks s)) (bo_series bo)
  end.

(* the series read back are exactly the series written (labels, chunk ranges, encodings, bytes) *)
Definition matches_input (inp : list series_in) (bo : block_obs) : bool :=
  (* the symbols are exactly the strings handed to AddSymbol: the label names and values in use *)
  list_eqb bytes_eqb (bo_syms bo)
           (sort_u (flat_map (fun si => flat_map (fun l => [fst l; snd l]) (si_labels si)) inp)) &&
  list_eqb (fun si so =>
      match so_res so with
      | ROk (ls, cs) =>
          list_eqb lbl_eqb (si_labels si) ls &&
          list_eqb (fun ci cm => (ci_min ci =? cm_min cm)%Z && (ci_max ci =? cm_max cm)%Z) (si_chunks si) cs &&
          list_eqb (fun ci r => match r with
                                | ROk (e, d) => (ci_enc ci =? e) && bytes_eqb (ci_data ci) d
                                | RErr _ => false end) (si_chunks si) (so_chunks so)
      | RErr _ => false
      end) inp (bo_series bo).

(* what the unaltered readers returned for the target of an alteration *)
Definition orig_series (bo : block_obs) (ref : N) : option (list lbl * list cmeta) :=
  match find (fun s => so_ref s =? ref) (bo_series bo) with
  | Some s => match so_res s with ROk x => Some x | RErr _ => None end
  | None => None
  end.
Definition orig_chunk (bo : block_obs) (ref : N) : option (N * bstr) :=
  let l := flat_map (fun s => match so_res s with
                              | ROk (_, cs) => combine (map cm_ref cs) (so_chunks s)
                              | RErr _ => [] end) (bo_series bo) in
  match find (fun x => fst x =? ref) l with
  | Some (_, ROk x) => Some x
  | _ => None
  end.

(* ---- the further queries against the plain sorted-map reading of the block: a block IS the
   list of (ref, label set) read back; every query is a filter over it *)
Definition value_of (ls : list lbl) (n : bstr) : bstr :=
  match find (fun l => bytes_eqb (fst l) n) ls with Some l => snd l | None => [] end.
Definition nonempty (v : bstr) : bool := match v with [] => false | _ => true end.
Definition matches (m : matcher) (ls : list lbl) : bool :=
  let v := value_of ls (m_name m) in
  match m_kind m with
  | MEq => bytes_eqb v (m_val m)
  | MNeq => negb (bytes_eqb v (m_val m))
  | MRePlus => nonempty v
  | MRePrefix => prefixb (m_val m) v
  | MReSet => existsb (bytes_eqb v) (m_vals m)
  | MNReSet => negb (existsb (bytes_eqb v) (m_vals m))
  end.
Definition selected (ms : list matcher) (ss : list (N * list lbl * list cmeta)) :=
  filter (fun '(_, ls, _) => forallb (fun m => matches m ls) ms) ss.

Definition queries_ok (bo : block_obs) (q : queries) : bool :=
  match read_series bo with
  | None => false
  | Some ss =>
      let refs l := map (fun '(r, _, _) => r) l in
      let all_labels := flat_map (fun '(_, ls, _) => ls) ss in
      let values_of n l := sort_u (filter nonempty (map (fun '(_, ls, _) => value_of ls n) l)) in
      (* SortedLabelValues: one answer per label name, the sorted distinct values *)
      list_eqb (fun x n => bytes_eqb (fst x) n && list_eqb bytes_eqb (snd x) (values_of n ss))
               (q_slvals q) (bo_names bo) &&
      (* PostingsForLabelMatching / PostingsForAllLabelValues: series carrying the name with a value the predicate accepts *)
      forallb (fun x => let '(n, p, res) := x in
                 match res with
                 | ROk l => list_eqb N.eqb l
                              (refs (filter (fun '(_, ls, _) => let v := value_of ls n in nonempty v && pred_ok p v) ss))
                 | RErr _ => false
                 end) (q_match q) &&
      (* PostingsForMatchers, and Select of a block querier (which skips series without chunks) *)
      forallb (fun x => let '(querier, ms, res) := x in
                 match res with
                 | ROk l => list_eqb N.eqb l
                              (refs (filter (fun '(_, _, cs) => negb querier || match cs with [] => false | _ => true end)
                                            (selected ms ss)))
                 | RErr _ => false
                 end) (q_sel q) &&
      (* LabelNames(matchers): sorted distinct names of the selected series *)
      forallb (fun x => match snd x with
                        | ROk l => list_eqb bytes_eqb l (sort_u (map fst (flat_map (fun '(_, ls, _) => ls) (selected (fst x) ss))))
                        | RErr _ => false
                        end) (q_lnames_m q) &&
      (* LabelValues(name, matchers): distinct values of the name over the selected series, ascending *)
      forallb (fun x => let '(n, ms, res) := x in
                 match res with
                 | ROk l => list_eqb bytes_eqb l (values_of n (selected ms ss))
                 | RErr _ => false
                 end) (q_lvals_m q) &&
      (* LabelNamesFor(refs): sorted distinct names of those series *)
      forallb (fun x => match snd x with
                        | ROk l => list_eqb bytes_eqb l
                                     (sort_u (map fst (flat_map (fun '(_, ls, _) => ls)
                                                         (filter (fun '(r, _, _) => existsb (N.eqb r) (fst x)) ss))))
                        | RErr _ => false
                        end) (q_lnfor q) &&
      (* Postings(name, values...): the series whose value of the name is one of the values *)
      forallb (fun x => let '(n, vs, res) := x in
                 match res with
                 | ROk l => list_eqb N.eqb l
                              (refs (filter (fun '(_, ls, _) => let v := value_of ls n in nonempty v && existsb (bytes_eqb v) vs) ss))
                 | RErr _ => false
                 end) (q_mpost q)
  end.

(* "reported as an error when it is read instead of being returned as data": an error, or —
   the only alternative the statement tolerates — data identical to the unaltered data *)
Definition alt_ok (bo : block_obs) (a : alt) : bool :=
  (a_diff a =? 0) &&      (* no read API of the re-opened block returned different data *)
  match a_obs a with
  | AOpenErr _ | AOpenOk => true
  | ASeries (RErr _) | AChunk (RErr _) | APostings (RErr _) => true
  | APostings (ROk x) => existsb (fun p => match snd p with ROk y => list_eqb N.eqb x y | RErr _ => false end) (bo_postings bo)
  | ASeries (ROk x) => match orig_series bo (a_ref a) with Some y => sres_eqb x y | None => false end
  | AChunk (ROk x) => match orig_chunk bo (a_ref a) with Some y => chk_eqb x y | None => false end
  end.

Definition holds (c : case) : bool :=
  match c_open c with
  | RErr _ => false            (* every generated block is well formed: it must open and read *)
  | ROk bo =>
      consistent bo &&
      match c_input c with Some inp => matches_input inp bo | None => true end &&
      queries_ok bo (c_q c) &&
      forallb (alt_ok bo) (c_alts c)
  end.

Definition mismatches (cs : list case) : list Z := map c_id (filter (fun c => negb (agree c)) cs).
Definition failing_holds (cs : list case) : list Z := map c_id (filter (fun c => negb (holds c)) cs).

(* corr/CorrC20H.v — history part of property C20 (deletion removes exactly the requested data).
   A case is one delete-centred history driven against a real tsdb.DB, in the format of
   corr/CorrC01.v (configuration + steps; a step is an operation with the head / block
   observations made afterwards, or a query with the implementation's answer).

     agree : CorrC01.agree — the structured TSDB model (model/Tsdb.v: Head.Delete clamping,
             Block.Delete, tombstone-aware compaction, CleanTombstones, WAL tombstone replay at
             restart, querier candidates) shows the same head times / head chunks / block metas
             after every operation and admits every query answer;
     holds : the C20 statement evaluated on the IMPLEMENTATION's answers alone (no model, no
             specification run): every Delete(mint, maxt, sel) opens an obligation that every
             LATER query — whatever compactions, tombstone cleanings, restarts, appends and further
             deletes lie in between — must meet:
               (a) no returned sample of a selected series has its timestamp in [mint, maxt],
                   unless exactly that sample was stored by a transaction after the delete;
               (b) every sample that was visible right before the delete (= returned by the last
                   full query, plus the samples stored since then) and is not covered by this or
                   a later delete is returned exactly once, with the same value, by every query
                   whose range and selector contain it.
             "Stored by a transaction" is what the harness read from the head (the accepted
             samples of the Commit step), an observation of the implementation as well. *)
From Coq Require Import List ZArith Bool.
From Verif Require Import lib.Int64 model.TsdbSpec model.Tsdb corr.CorrC01.
Import ListNotations.
Open Scope Z_scope.

(* series, timestamp, value *)
Record pt := mkPt { p_sid : sid; p_t : Z; p_v : Z }.

Record obl := mkObl { o_mint : Z; o_maxt : Z; o_sel : list sid;
                      o_keep : list pt;      (* must stay visible *)
                      o_after : list pt }.   (* stored after the delete *)

Definition flat (res : list (sid * list (Z * Z))) : list pt :=
  flat_map (fun p => map (fun q => mkPt (fst p) (fst q) (snd q)) (snd p)) res.

Definition same_key (a b : pt) : bool := (p_sid a =? p_sid b) && (p_t a =? p_t b).
Definition same_pt (a b : pt) : bool := same_key a b && (p_v a =? p_v b).

Definition acc_pts (l : list acc) : list pt :=
  map (fun a => mkPt (fst (fst a)) (st (snd (fst a))) (sv (snd (fst a)))) l.

Definition hit (mint maxt : Z) (sel : list sid) (p : pt) : bool :=
  memZ (p_sid p) sel && in_rng mint maxt (p_t p).

(* a transaction stored the samples [a]: a re-used (series, timestamp) is no longer pinned to
   its old value *)
Definition obl_ack (a : list pt) (o : obl) : obl :=
  mkObl (o_mint o) (o_maxt o) (o_sel o)
        (filter (fun k => negb (existsb (same_key k) a)) (o_keep o)) (o_after o ++ a).

(* a later delete releases what it covers *)
Definition obl_del (mint maxt : Z) (sel : list sid) (o : obl) : obl :=
  mkObl (o_mint o) (o_maxt o) (o_sel o)
        (filter (fun k => negb (hit mint maxt sel k)) (o_keep o)) (o_after o).

Definition count_key (k : pt) (l : list pt) : nat := length (filter (same_key k) l).

Definition obl_ok (qmin qmax : Z) (qsel : list sid) (got : list pt) (o : obl) : bool :=
  (* (a) nothing of the selected series inside the deleted range, unless stored afterwards *)
  forallb (fun p => if hit (o_mint o) (o_maxt o) (o_sel o) p then existsb (same_pt p) (o_after o) else true) got
  (* (b) everything else still there, once, same value *)
  && forallb (fun k => if hit qmin qmax qsel k
                       then Nat.eqb (count_key k got) 1 && existsb (same_pt k) got else true) (o_keep o).

Definition is_full (u : list sid) (qmin qmax : Z) (qsel : list sid) : bool :=
  (qmin =? minInt64) && (qmax =? maxInt64) && forallb (fun i => memZ i qsel) u.

(* vis: what the implementation showed last (last full answer + samples stored since) *)
Fixpoint holds_steps (u : list sid) (vis : list pt) (obls : list obl) (l : list cstep) : bool :=
  match l with
  | [] => true
  | SOp (Commit a _ _) _ :: r =>
      let ap := acc_pts a in
      holds_steps u (filter (fun k => negb (existsb (same_key k) ap)) vis ++ ap) (map (obl_ack ap) obls) r
  | SOp (Delete mint maxt sel) _ :: r =>
      let keep := filter (fun k => negb (hit mint maxt sel k)) vis in
      holds_steps u keep (map (obl_del mint maxt sel) obls ++ [mkObl mint maxt sel keep []]) r
  | SOp _ _ :: r => holds_steps u vis obls r
  | SSpec _ :: r => holds_steps u vis obls r   (* C01's specification-only steps never occur in C20 histories *)
  | SQuery qmin qmax qsel res :: r =>
      let got := flat res in
      forallb (obl_ok qmin qmax qsel got) obls
      && holds_steps u (if is_full u qmin qmax qsel then got else vis) obls r
  end.

Definition holds (c : case) : bool := holds_steps (universe (c_cfg c)) [] [] (c_steps c).
Definition agree (c : case) : bool := CorrC01.agree c.

Definition mismatches (cs : list case) : list Z := map c_id (filter (fun c => negb (agree c)) cs).
Definition failing_holds (cs : list case) : list Z := map c_id (filter (fun c => negb (holds c)) cs).

(* the number of delete obligations and of query checks of a case (the harness reports them;
   a history without a Delete followed by a query checks nothing) *)
Fixpoint n_checks (seen_delete : bool) (l : list cstep) : nat :=
  match l with
  | [] => O
  | SOp (Delete _ _ _) _ :: r => n_checks true r
  | SOp _ _ :: r => n_checks seen_delete r
  | SSpec _ :: r => n_checks seen_delete r
  | SQuery _ _ _ _ :: r => (if seen_delete then 1 else 0) + n_checks seen_delete r
  end.

(* corr/CorrC23.v — correspondence of the real tsdb.DB restart paths with model/Snapshot.v.

   One case = one generated history that ended in a clean shutdown with
   EnableMemorySnapshotOnShutdown; the harness copied the data directory and reopened it
     a   with the snapshot                      b   with the snapshot directory removed
     off with the snapshot option disabled      c   with a damaged snapshot (detected by the loader)
     d1  with the snapshot renamed beyond the last WAL segment ("WAL behind the snapshot")
     d2  with all WAL segments / checkpoints before the snapshot's segment removed
     e / e2  with a damaged head chunk file, with and without the snapshot
   and recorded the full-range query answer of each (None: variant not applicable / not run),
   plus the exemplars before the shutdown and after reopening a and b.

   holds  = the property itself on the implementation's answers only:
            a = b, off = b, c = b, d1 = b (unusable / outdated snapshot: nothing lost, nothing
            invented), d2 = a (the snapshot alone carries everything before its position),
            e = e2, head state (in-order samples >= minValidTime and out-of-order samples per
            series) of a = that of b, exemplars(a) and exemplars(b) are among the exemplars before the shutdown.
   agree  = the model's Init on the decoded durable state (WAL records, head chunk files,
            snapshot content) gives the same answers for a, b, off, c, d1, d2. *)
From Coq Require Import List ZArith Bool Uint63.
From Verif Require Import model.Snapshot.
Import ListNotations.
Open Scope Z_scope.

(* the harness writes numbers as primitive integer literals (fast to parse) *)
Definition z (x : int) : Z := Uint63.to_Z x.
Definition zn (x : int) : Z := - Uint63.to_Z x.

Record snap_raw := mkSnR {
  r_idx : Z; r_off : Z; r_ok : bool;
  r_hc : list (Z * list sample); r_has : list Z; r_tomb : list (Z * list ivl); r_ex : list (Z * sample) }.

Record dstate_raw := mkDR {
  r_mv : Z; r_lastseg : Z; r_cp : Z; r_wal : list wentry;
  r_mm : list (Z * list (list sample)); r_mm_ok : bool; r_snap : option snap_raw;
  r_ooo : list (Z * list sample); r_blk : list (Z * list sample); r_univ : list Z }.

Definition assoc {A} (l : list (Z * list A)) : Z -> list A :=
  fun i => match find (fun p => fst p =? i) l with Some p => snd p | None => [] end.
Definition memZ (x : Z) (l : list Z) : bool := existsb (Z.eqb x) l.

Definition snap_of (r : snap_raw) : snapshot :=
  mkSn (r_idx r) (r_off r) (r_ok r) (assoc (r_hc r)) (fun l => memZ l (r_has r)) (assoc (r_tomb r)) (r_ex r).

(* r_lastseg is the last segment of the closed directory; DB.Open creates the next one before Head.Init *)
Definition dstate_of (r : dstate_raw) : dstate :=
  mkD (r_mv r) (r_lastseg r + 1) (r_cp r) (r_wal r) (assoc (r_mm r)) (r_mm_ok r)
      (option_map snap_of (r_snap r)) (assoc (r_ooo r)) (assoc (r_blk r)) (r_univ r).

Record case := mkCase {
  c_id : Z; c_multi : bool; c_d : dstate_raw;
  c_qa : option answer; c_qb : option answer; c_qoff : option answer;
  c_qc : option answer; c_qd1 : option answer; c_qd2 : option answer;
  c_qe : option answer; c_qe2 : option answer;
  c_ha : option answer; c_hb : option answer;   (* head state after restart a / b *)
  c_epre : list (Z * sample); c_ea : list (Z * sample); c_eb : list (Z * sample) }.

(* ---- equality of answers ---- *)
Definition sample_eqb (x y : sample) : bool := (fst x =? fst y) && (snd x =? snd y).
Fixpoint list_eqb {A} (eqb : A -> A -> bool) (a b : list A) : bool :=
  match a, b with
  | [], [] => true
  | x :: a', y :: b' => eqb x y && list_eqb eqb a' b'
  | _, _ => false
  end.
Definition answer_eqb (a b : answer) : bool :=
  list_eqb (fun p q => (fst p =? fst q) && list_eqb sample_eqb (snd p) (snd q)) a b.

Definition both (a b : option answer) : bool :=
  match a, b with Some x, Some y => answer_eqb x y | _, _ => true end.

Definition ex_in (e : Z * sample) (l : list (Z * sample)) : bool :=
  existsb (fun f => (fst e =? fst f) && sample_eqb (snd e) (snd f)) l.
Definition ex_incl (a b : list (Z * sample)) : bool := forallb (fun e => ex_in e b) a.

(* ---- the property on the implementation's own outputs ---- *)
Definition holds (c : case) : bool :=
  both (c_qa c) (c_qb c) && both (c_qoff c) (c_qb c) && both (c_qc c) (c_qb c) &&
  both (c_qd1 c) (c_qb c) && both (c_qd2 c) (c_qa c) && both (c_qe c) (c_qe2 c) &&
  both (c_ha c) (c_hb c) &&
  ex_incl (c_ea c) (c_epre c) && ex_incl (c_eb c) (c_epre c).

(* ---- the model's answers ---- *)
Definition add_all (st : list (Z * sample)) (e : Z * sample) := st ++ [e].

Definition model_answer (enabled : bool) (d : dstate) : answer := query d (open add_all enabled d).

Definition with_snap (d : dstate) (s : option snapshot) : dstate :=
  mkD (d_mv d) (d_lastseg d) (d_cp d) (d_wal d) (d_mm d) (d_mm_ok d) s (d_ooo d) (d_blk d) (d_univ d).

Definition damaged (s : snapshot) : snapshot :=
  mkSn (sn_idx s) (sn_off s) false (sn_hc s) (sn_has s) (sn_tomb s) (sn_ex s).
Definition renamed (d : dstate) (s : snapshot) : snapshot :=
  mkSn (d_lastseg d + 1) (sn_off s) (sn_ok s) (sn_hc s) (sn_has s) (sn_tomb s) (sn_ex s).

(* d2: every checkpoint and every segment below the snapshot's segment is gone *)
Definition wal_cut (d : dstate) : dstate :=
  match d_snap d with
  | Some s => mkD (d_mv d) (d_lastseg d) (-1)
                  (filter (fun e => negb (w_cp e) && (sn_idx s <=? w_seg e)) (d_wal d))
                  (d_mm d) (d_mm_ok d) (d_snap d) (d_ooo d) (d_blk d) (d_univ d)
  | None => d
  end.

Definition check (obs : option answer) (m : answer) : bool :=
  match obs with Some a => answer_eqb a m | None => true end.

(* c_multi: some label set has several series refs in the WAL (series garbage collected and
   created again).  The model identifies series by label set and does not follow refs: such cases
   are left to [holds]. *)
Definition agree (c : case) : bool :=
  c_multi c ||
  let d := dstate_of (c_d c) in
  check (c_qa c) (model_answer true d) &&
  check (c_qb c) (model_answer true (with_snap d None)) &&
  check (c_qoff c) (model_answer false d) &&
  check (c_qc c) (model_answer true (with_snap d (option_map damaged (d_snap d)))) &&
  check (c_qd1 c) (model_answer true (with_snap d (option_map (renamed d) (d_snap d)))) &&
  check (c_qd2 c) (model_answer true (wal_cut d)).

Definition mismatches (cs : list case) : list Z := map c_id (filter (fun c => negb (agree c)) cs).
Definition failing_holds (cs : list case) : list Z := map c_id (filter (fun c => negb (holds c)) cs).

(* corr/CorrC49.v — correspondence (agree) and specification (holds) checkers for C49 cases.

   A case is one generated YAML document t0 and what the real code did with it:
     c1 = config.Load(t0), t1 = c1.String(), c2 = config.Load(t1), t2 = c2.String(),
     c3 = config.Load(t2), t3 = c3.String().
   Field trees (c_f1..c_f3) are the projection of the loaded *config.Config on the modelled
   schema, obtained by reflection; c_skel is the key skeleton of the YAML text t1; c_dN / c_tN
   are 120-bit prefixes of SHA-256 of the complete canonical dump of cN (every field, modelled
   or not) and of the text tN. *)
From Coq Require Import List ZArith Bool String Uint63.
From Verif Require Import model.Config.
Import ListNotations.
Open Scope string_scope.

(* ---- constructors used by the case files (numbers are primitive ints: fast to parse) *)
Definition I (x : int) : node := NInt (Uint63.to_Z x).
Definition Ng (x : int) : node := NInt (- Uint63.to_Z x).
Definition S (s : string) : node := NStr s.
Definition Tr : node := NBool true.
Definition Fa : node := NBool false.
Definition Nu : node := NNull.
(* monomorphic list builders: list literals elaborate superlinearly *)
Definition E : list node := nil.
Definition C (a : node) (l : list node) : list node := cons a l.
Definition W : amap := nil.
Definition D (k : string) (v : node) (m : amap) : amap := cons (k, v) m.
Definition Q (l : list node) : node := NSeq l.
Definition M (m : list (string * node)) : node := NMap m.
(* a struct value written positionally (values in schema order); [attach] adds the keys *)
Definition R (l : list node) : node := NMap (map (fun v => ("", v)) l).

Fixpoint attach (t : ty) (v : node) : node :=
  match t, v with
  | TPtr t', NNull => NNull
  | TPtr t', _ => attach t' v
  | TSeq t', NSeq l => NSeq (map (attach t') l)
  | TRec _ fs, NMap m => NMap (attachs fs m)
  | _, _ => v
  end
with attachs (fs : flds) (m : amap) : amap :=
  match fs, m with
  | FCons k _ t r, (_, v) :: m' => (k, attach t v) :: attachs r m'
  | _, _ => m      (* arity mismatch stays visible: the tree is then not well-typed *)
  end.

(* scalars erased: what remains is which keys are present *)
Fixpoint erase (v : node) : node :=
  match v with
  | NSeq l => NSeq (map erase l)
  | NMap m => NMap (map (fun kv => (fst kv, erase (snd kv))) m)
  | _ => NNull
  end.

Definition h := (int * int)%type.
Definition h_eqb (a b : h) : bool := Uint63.eqb (fst a) (fst b) && Uint63.eqb (snd a) (snd b).

Record case := mkCase {
  c_id : Z;
  c_doc : node;            (* modelled part of the input document t0 *)
  c_ok : bool;             (* config.Load(t0) accepted *)
  c_panic : bool;          (* config.Load(t0) panicked *)
  c_f1 : node;             (* c1 *)
  c_skel : node;           (* keys present in t1 *)
  c_f2 : option node;      (* c2, None = Load(t1) rejected *)
  c_f3 : option node;      (* c3 *)
  c_d1 : h; c_d2 : h; c_d3 : h;
  c_t1 : h; c_t2 : h; c_t3 : h
}.

Definition mkRejected (id : int) (doc : node) : case :=
  mkCase (Uint63.to_Z id) doc false false NNull NNull None None (0, 0)%uint63 (0, 0)%uint63 (0, 0)%uint63 (0, 0)%uint63 (0, 0)%uint63 (0, 0)%uint63.
Definition mkPanicked (id : int) (doc : node) : case :=
  mkCase (Uint63.to_Z id) doc false true NNull NNull None None (0, 0)%uint63 (0, 0)%uint63 (0, 0)%uint63 (0, 0)%uint63 (0, 0)%uint63 (0, 0)%uint63.
Definition mkLoaded (id : int) (doc f1 skel : node) (f2 f3 : option node)
    (d1a d1b d2a d2b d3a d3b t1a t1b t2a t2b t3a t3b : int) : case :=
  mkCase (Uint63.to_Z id) doc true false (attach top_ty f1) skel
         (option_map (attach top_ty) f2) (option_map (attach top_ty) f3)
         (d1a, d1b) (d2a, d2b) (d3a, d3b) (t1a, t1b) (t2a, t2b) (t3a, t3b).

Definition opt_is (o : option node) (r : res node) : bool :=
  match o, r with
  | Some a, Ok b => node_eqb a b
  | None, Err _ => true
  | _, _ => false
  end.

(* model vs implementation:
   1. load: the model accepts t0 iff the code does, and computes the same configuration;
   2. print: the model writes exactly the keys found in the printed text;
   3. the loaded configuration is "valid" in the sense of the theorems (well-typed, every
      struct a fixed point of its hook);
   4. the model predicts the reload — including every lossy one — and the reload of the reload. *)
Definition agree (c : case) : bool :=
  match load (c_doc c) with
  | Err EPanic => c_panic c
  | Err _ => negb (c_ok c) && negb (c_panic c)
  | Ok m =>
      c_ok c && node_eqb m (c_f1 c)
      && node_eqb (erase (print (c_f1 c))) (c_skel c)
      && valid (c_f1 c)
      && opt_is (c_f2 c) (load (print (c_f1 c)))
      && match c_f2 c with Some f2 => opt_is (c_f3 c) (load (print f2)) | None => true end
  end.

(* the property, on the implementation's output alone: reloading the printed configuration
   gives an equal configuration (modelled tree and complete dump) and printing again gives the
   same text; and the second round trip changes nothing any more. *)
Definition same (a b : option node) : bool :=
  match a, b with Some x, Some y => node_eqb x y | _, _ => false end.
Definition holds (c : case) : bool :=
  if c_ok c then
    same (Some (c_f1 c)) (c_f2 c) && h_eqb (c_d1 c) (c_d2 c) && h_eqb (c_t1 c) (c_t2 c)
    && same (c_f2 c) (c_f3 c) && h_eqb (c_d2 c) (c_d3 c) && h_eqb (c_t2 c) (c_t3 c)
  else true.

Definition mismatches (cs : list case) : list Z := map c_id (filter (fun c => negb (agree c)) cs).
Definition failing_holds (cs : list case) : list Z := map c_id (filter (fun c => negb (holds c)) cs).

(* ---- schema keys as constants (case files refer to keys by identifier) *)
Definition K_action : string := "action".
Definition K_alert_relabel_configs : string := "alert_relabel_configs".
Definition K_alerting : string := "alerting".
Definition K_alertmanagers : string := "alertmanagers".
Definition K_always_scrape_classic_histograms : string := "always_scrape_classic_histograms".
Definition K_api_version : string := "api_version".
Definition K_batch_send_deadline : string := "batch_send_deadline".
Definition K_body_size_limit : string := "body_size_limit".
Definition K_capacity : string := "capacity".
Definition K_chunk_encoding : string := "chunk_encoding".
Definition K_chunked_read_limit : string := "chunked_read_limit".
Definition K_convert_classic_histograms_to_nhcb : string := "convert_classic_histograms_to_nhcb".
Definition K_convert_histograms_to_nhcb : string := "convert_histograms_to_nhcb".
Definition K_enable_compression : string := "enable_compression".
Definition K_enable_http2 : string := "enable_http2".
Definition K_evaluation_interval : string := "evaluation_interval".
Definition K_exemplars : string := "exemplars".
Definition K_extra_scrape_metrics : string := "extra_scrape_metrics".
Definition K_failed_request_logging : string := "failed_request_logging".
Definition K_fallback_scrape_protocol : string := "fallback_scrape_protocol".
Definition K_filter_external_labels : string := "filter_external_labels".
Definition K_floats : string := "floats".
Definition K_follow_redirects : string := "follow_redirects".
Definition K_global : string := "global".
Definition K_gogc : string := "gogc".
Definition K_honor_labels : string := "honor_labels".
Definition K_honor_timestamps : string := "honor_timestamps".
Definition K_ignore_resource_attributes : string := "ignore_resource_attributes".
Definition K_job_name : string := "job_name".
Definition K_keep_dropped_targets : string := "keep_dropped_targets".
Definition K_keep_identifying_resource_attributes : string := "keep_identifying_resource_attributes".
Definition K_label_limit : string := "label_limit".
Definition K_label_name_length_limit : string := "label_name_length_limit".
Definition K_label_name_preserve_multiple_underscores : string := "label_name_preserve_multiple_underscores".
Definition K_label_name_underscore_sanitization : string := "label_name_underscore_sanitization".
Definition K_label_value_length_limit : string := "label_value_length_limit".
Definition K_max_backoff : string := "max_backoff".
Definition K_max_exemplars : string := "max_exemplars".
Definition K_max_samples_per_send : string := "max_samples_per_send".
Definition K_max_shards : string := "max_shards".
Definition K_metadata_config : string := "metadata_config".
Definition K_metric_name_escaping_scheme : string := "metric_name_escaping_scheme".
Definition K_metric_name_validation_scheme : string := "metric_name_validation_scheme".
Definition K_metric_relabel_configs : string := "metric_relabel_configs".
Definition K_metrics_path : string := "metrics_path".
Definition K_min_backoff : string := "min_backoff".
Definition K_min_shards : string := "min_shards".
Definition K_modulus : string := "modulus".
Definition K_name : string := "name".
Definition K_native_histogram_bucket_limit : string := "native_histogram_bucket_limit".
Definition K_otlp : string := "otlp".
Definition K_out_of_order_time_window : string := "out_of_order_time_window".
Definition K_outofordertimewindow : string := "outofordertimewindow".
Definition K_path_prefix : string := "path_prefix".
Definition K_promote_all_resource_attributes : string := "promote_all_resource_attributes".
Definition K_promote_resource_attributes : string := "promote_resource_attributes".
Definition K_promote_scope_metadata : string := "promote_scope_metadata".
Definition K_protobuf_message : string := "protobuf_message".
Definition K_query_log_file : string := "query_log_file".
Definition K_queue_config : string := "queue_config".
Definition K_read_recent : string := "read_recent".
Definition K_regex : string := "regex".
Definition K_relabel_configs : string := "relabel_configs".
Definition K_remote_read : string := "remote_read".
Definition K_remote_timeout : string := "remote_timeout".
Definition K_remote_write : string := "remote_write".
Definition K_replacement : string := "replacement".
Definition K_retention : string := "retention".
Definition K_retry_on_http_429 : string := "retry_on_http_429".
Definition K_round_robin_dns : string := "round_robin_dns".
Definition K_rule_files : string := "rule_files".
Definition K_rule_query_offset : string := "rule_query_offset".
Definition K_runtime : string := "runtime".
Definition K_sample_age_limit : string := "sample_age_limit".
Definition K_sample_limit : string := "sample_limit".
Definition K_scheme : string := "scheme".
Definition K_scrape_config_files : string := "scrape_config_files".
Definition K_scrape_configs : string := "scrape_configs".
Definition K_scrape_failure_log_file : string := "scrape_failure_log_file".
Definition K_scrape_interval : string := "scrape_interval".
Definition K_scrape_native_histograms : string := "scrape_native_histograms".
Definition K_scrape_protocols : string := "scrape_protocols".
Definition K_scrape_timeout : string := "scrape_timeout".
Definition K_send : string := "send".
Definition K_send_exemplars : string := "send_exemplars".
Definition K_send_interval : string := "send_interval".
Definition K_send_native_histograms : string := "send_native_histograms".
Definition K_separator : string := "separator".
Definition K_size : string := "size".
Definition K_source_labels : string := "source_labels".
Definition K_storage : string := "storage".
Definition K_target_label : string := "target_label".
Definition K_target_limit : string := "target_limit".
Definition K_time : string := "time".
Definition K_timeout : string := "timeout".
Definition K_track_timestamps_staleness : string := "track_timestamps_staleness".
Definition K_translation_strategy : string := "translation_strategy".
Definition K_tsdb : string := "tsdb".
Definition K_url : string := "url".
Definition K_write_relabel_configs : string := "write_relabel_configs".

#!/bin/bash
# seedrecheck.sh <name>: re-run only our check against an already confirmed seeded change
# (/verif/seeded/<name>) and merge the new "checks" entry into its result.json.
name=$1
cand=/verif/seeded/$name
python3 /verif/tools/seedtest.py $cand --check-only > /tmp/seedrecheck_$name.json 2>/tmp/seedrecheck_$name.err
python3 - "$name" <<'PY'
import json, sys
name = sys.argv[1]
t = open('/tmp/seedrecheck_%s.json' % name).read(); r = json.loads(t[t.index('{'):])
rp = '/verif/seeded/%s/result.json' % name
old = json.load(open(rp))
for k, v in (r.get('checks') or {}).items():
    v['how'] = (v.get('replay_what') or '')[:160]
    old.setdefault('checks', {})[k] = v
json.dump(old, open(rp, 'w'), indent=1)
try:
    sp = '/tmp/seedres_%s.json' % name
    t = open(sp).read(); o = json.loads(t[t.index('{'):]); o['checks'] = old['checks']; json.dump(o, open(sp, 'w'), indent=1)
except Exception: pass
print(name, {k: (v.get('caught'), v.get('s')) for k, v in old['checks'].items()})
PY

#!/usr/bin/env python3
"""Confirm a seeded change and run our check against it, in a scratch worktree outside /repo and /verif.

usage: seedtest.py <candidate_dir> [--no-existing-tests] [--check-only] [--tier quick] [--ids C01,C20]
candidate_dir contains patch.diff, meta.json (property, demo_file, demo_cmd, existing_tests_cmd) and the demo file(s).
Prints a JSON summary; never touches /repo's working tree (uses VERIF_REPO=<worktree>)."""
import sys, os, json, subprocess, shutil, tempfile, time

def sh(cmd, cwd=None, timeout=3600, env=None):
    p = subprocess.run(cmd, cwd=cwd, shell=True, stdout=subprocess.PIPE, stderr=subprocess.STDOUT, text=True, timeout=timeout, env=env, errors="replace")
    return p.returncode, p.stdout

def main():
    a = sys.argv[1:]
    cand = os.path.abspath(a[0])
    no_existing = "--no-existing-tests" in a
    check_only = "--check-only" in a
    tier = a[a.index("--tier") + 1] if "--tier" in a else "quick"
    meta = json.load(open(os.path.join(cand, "meta.json")))
    ids = a[a.index("--ids") + 1].split(",") if "--ids" in a else [meta["property"]]
    wt = tempfile.mkdtemp(prefix="seedwt_", dir="/tmp")
    os.rmdir(wt)
    res = {"candidate": cand, "property": meta["property"]}
    env = dict(os.environ); env.pop("GOFLAGS", None)
    try:
        rc, out = sh("git -C /repo worktree add --detach %s HEAD" % wt)
        assert rc == 0, out
        # carry over uncommitted hook files (tag-guarded shims) so the harness builds
        rc, out = sh("git -C /repo ls-files --others --exclude-standard")
        for f in out.split():
            if "zz_verif_export" in f or f.startswith("util/verifhook/"):
                os.makedirs(os.path.dirname(os.path.join(wt, f)), exist_ok=True)
                shutil.copyfile(os.path.join("/repo", f), os.path.join(wt, f))
        rc, out = sh("git -C /repo diff HEAD")  # uncommitted hook-site insertions in tracked files
        if out.strip():
            open(wt + "/.hook.diff", "w").write(out)
            sh("git apply .hook.diff", cwd=wt)
        rc, out = sh("git apply %s" % os.path.join(cand, "patch.diff"), cwd=wt)
        if rc != 0:
            # /repo's HEAD has moved since the change was written (hook lines, fix: commits): 3-way merge
            rc, out = sh("git apply -3 %s" % os.path.join(cand, "patch.diff"), cwd=wt)
            res["patch_applied_3way"] = rc == 0
            if rc == 0:
                sh("git reset -q", cwd=wt)
                sh("git diff > .seed_applied.diff", cwd=wt)
        res["patch_applies"] = rc == 0
        if rc != 0:
            res["error"] = out[-2000:]
            return res
        demo_files = meta.get("demo_file")
        demo_files = [demo_files] if isinstance(demo_files, str) else (demo_files or [])
        def put_demo():
            import glob as _glob
            cand_tests = sorted(_glob.glob(os.path.join(cand, "*_test.go")) + _glob.glob(os.path.join(cand, "*.go")))
            cand_tests = sorted(set(cand_tests))
            for df in demo_files:
                src = os.path.join(cand, os.path.basename(df))
                if not os.path.exists(src) and len(demo_files) == 1 and len(cand_tests) == 1:
                    src = cand_tests[0]  # the agent kept a generic name (demo_test.go) in its output directory
                if os.path.exists(src):
                    os.makedirs(os.path.dirname(os.path.join(wt, df)), exist_ok=True)
                    shutil.copyfile(src, os.path.join(wt, df))
                else:
                    res.setdefault("demo_missing", []).append(df)
        def rm_demo():
            for df in demo_files:
                p = os.path.join(wt, df)
                if os.path.exists(p):
                    os.remove(p)
        import re as _re1
        demo_cmd = _re1.split(r"\s+\((?=[a-z])", meta["demo_cmd"])[0].strip()  # drop trailing prose in parentheses
        if not check_only:
            put_demo()
            rc, out = sh(demo_cmd, cwd=wt, env=env, timeout=2400)
            res["demo_fails_with_patch"] = rc != 0
            res["demo_out_with"] = out[-800:]
            rm_demo()
            if not no_existing and meta.get("existing_tests_cmd"):
                t0 = time.time()
                import re as _re0
                cmd = _re0.split(r"\s+\(", meta["existing_tests_cmd"])[0].strip()  # drop trailing prose in parentheses
                if "go test" in cmd and "-timeout" not in cmd:
                    cmd = cmd.replace("go test", "go test -timeout 90m", 1)
                rc, out = sh(cmd, cwd=wt, env=env, timeout=6000)
                if rc != 0:
                    # the machine is heavily loaded: timing-sensitive tests flake. Re-run the failing
                    # top-level tests of each failing package alone; they must pass on their own.
                    import re as _re
                    fails = sorted(set(_re.findall(r"^--- FAIL: (\w+)", out, flags=_re.M)))
                    # fails on the unchanged tree as well (its testdata file is not in this checkout)
                    base_fail = {"TestPersistence_index_e2e"}
                    if fails and set(fails) <= base_fail:
                        res["existing_tests_only_baseline_failures"] = fails
                        rc = 0
                    fails = [f for f in fails if f not in base_fail]
                    pkgs = sorted(set(x for x in _re.findall(r"^FAIL[ \t]+(\S+)[ \t]", out, flags=_re.M) if "/" in x))
                    res["existing_tests_first_run_failures"] = fails
                    if rc == 0:
                        pass
                    elif fails and pkgs and "panic: test timed out" not in out:
                        ok = True
                        for pk in pkgs:
                            rel = "./" + pk.split("github.com/prometheus/prometheus/", 1)[-1]
                            # up to 3 attempts: a test broken by the patch fails every time, a load flake does not
                            pf = list(fails)
                            for attempt in range(3):
                                rc2, out2 = sh("go test -count=1 -timeout 60m -run '^(%s)$' %s" % ("|".join(pf), rel), cwd=wt, env=env, timeout=4000)
                                if rc2 == 0:
                                    break
                                still = sorted(set(_re.findall(r"^--- FAIL: (\w+)", out2, flags=_re.M)))
                                if still:
                                    pf = [f for f in pf if f in still] or pf
                            res.setdefault("existing_tests_rerun_attempts", {})[pk] = attempt + 1
                            ok = ok and rc2 == 0
                            if rc2 != 0:
                                res["existing_tests_out"] = out2[-1500:]
                        rc = 0 if ok else 1
                        res["existing_tests_rerun_alone_pass"] = ok
                    elif "panic: test timed out" not in out:
                        # a crash without a named failing test (e.g. the mmap'd query log fault of
                        # TestQueryConcurrency under load): run the whole command once more
                        rc, out = sh(cmd, cwd=wt, env=env, timeout=6000)
                        res["existing_tests_second_full_run"] = rc == 0
                        if rc != 0:
                            res["existing_tests_out"] = out[-1500:]
                    else:
                        res["existing_tests_out"] = out[-1500:]
                res["existing_tests_pass_with_patch"] = rc == 0
                res["existing_tests_s"] = round(time.time() - t0)
        # our checks against the patched tree
        res["checks"] = {}
        for pid in ids:
            e2 = dict(os.environ); e2["VERIF_REPO"] = wt
            t0 = time.time()
            rc, out = sh("./check %s --tier %s" % (pid, tier), cwd="/verif", env=e2, timeout=3000)
            lines = [l for l in out.splitlines() if l.startswith("VIOLATION") or l.startswith("KNOWN-FINDING") or "tier=" in l]
            res["checks"][pid] = {"rc": rc, "caught": rc != 0 and any(l.startswith("VIOLATION") for l in lines), "lines": lines[:6], "s": round(time.time() - t0)}
            rp = [l.split("replay=")[1].split()[0] for l in lines if l.startswith("VIOLATION") and "replay=" in l]
            if rp and os.path.exists(rp[0]):
                res["checks"][pid]["replay_what"] = json.load(open(rp[0])).get("what", "")[:300]
        if not check_only:
            if res.get("patch_applied_3way"):
                rc, out = sh("git checkout -q -- . && git apply .hook.diff 2>/dev/null; true", cwd=wt)
            else:
                rc, out = sh("git apply -R %s" % os.path.join(cand, "patch.diff"), cwd=wt)
            put_demo()
            rc, out = sh(demo_cmd, cwd=wt, env=env, timeout=2400)
            res["demo_passes_without_patch"] = rc == 0
            if rc != 0:
                res["demo_out_without"] = out[-800:]
        return res
    finally:
        sh("git -C /repo worktree remove --force %s" % wt)
        shutil.rmtree(wt, ignore_errors=True)
        sh("git -C /repo worktree prune")
        # harness binaries built for the scratch tree
        import glob, hashlib
        h = hashlib.sha1(wt.encode()).hexdigest()[:8]
        for f in glob.glob("/verif/harness/bin/*_%s" % h) + glob.glob("/verif/harness/.mods/%s.*" % h):
            os.remove(f)

if __name__ == "__main__":
    r = main()
    print(json.dumps(r, indent=1))

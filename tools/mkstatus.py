#!/usr/bin/env python3
"""Regenerate the generated status region of DESIGN.md (section 10) from spec/, coq/props, evidence/,
known-findings.txt, notes/ and seeded/."""
import json, glob, os, re
ROOT = os.path.dirname(os.path.dirname(os.path.abspath(__file__)))
props = [json.loads(l) for l in open(os.path.join(ROOT, "properties.jsonl"))]
claimed = set(open(os.path.join(ROOT, "tools", "claimed.txt")).read().split())

def strip_comments(src):
    out, depth, i = [], 0, 0
    while i < len(src):
        if src.startswith("(*", i): depth += 1; i += 2
        elif src.startswith("*)", i) and depth > 0: depth -= 1; i += 2
        else:
            if depth == 0: out.append(src[i])
            i += 1
    return "".join(out)

def theorems(pid):
    p = os.path.join(ROOT, "coq", "props", pid + ".v")
    if not os.path.exists(p): return []
    return re.findall(r"^\s*(?:Theorem|Corollary)\s+([A-Za-z_][\w']*)", strip_comments(open(p).read()), flags=re.M)

lines = []
lines.append("### 10.1 Per-property status\n")
lines.append("| id | claimed | theorems (full / partial / refuted) | quick-tier cases of the committed evidence | harness | build report |")
lines.append("|---|---|---|---|---|---|")
for pr in props:
    pid = pr["id"]
    th = theorems(pid)
    part = [t for t in th if "partial" in t]
    ref = [t for t in th if "refuted" in t]
    full = [t for t in th if t not in part and t not in ref]
    ev = {}
    ep = os.path.join(ROOT, "evidence", pid + ".json")
    if os.path.exists(ep):
        try: ev = json.load(open(ep))
        except Exception: ev = {}
    cases = ev.get("coverage", {}).get("evaluations", "")
    tier = ev.get("tier", "")
    sp = os.path.join(ROOT, "spec", pid + ".json")
    h = json.load(open(sp)).get("harness", "") if os.path.exists(sp) else ""
    notes = "notes/%s.md" % pid if os.path.exists(os.path.join(ROOT, "notes", pid + ".md")) else ""
    lines.append("| %s | %s | %d / %d / %d | %s %s | %s | %s |" % (pid, "yes" if pid in claimed else "no", len(full), len(part), len(ref), cases, ("(%s)" % tier) if tier else "", h, notes))

lines.append("\n### 10.2 Defects repaired (`fix:` commits in /repo) and known findings\n")
lines.append("Taken from `known-findings.txt` (the authoritative list; `fixed:` lines suppress nothing).\n")
fx, fn = [], []
for l in open(os.path.join(ROOT, "known-findings.txt")):
    l = l.strip()
    m = re.match(r"fixed:\s+property=(\S+)\s+(\S+)\s+(.*)", l)
    if m: fx.append(m.groups()); continue
    m = re.match(r"finding:\s+property=(\S+)\s+key=(\S+)\s+(.*)", l)
    if m: fn.append(m.groups())
lines.append("| property | commit | what failed |")
lines.append("|---|---|---|")
for p, c, w in fx:
    lines.append("| %s | `%s` | %s |" % (p, c, w.replace("|", "\\|")))
lines.append("\n| property | known-finding key | what fails (reproduced on the real code; see the property's notes for the reproducer) |")
lines.append("|---|---|---|")
for p, k, w in fn:
    lines.append("| %s | `%s` | %s |" % (p, k, w.replace("|", "\\|")))

lines.append("\n### 10.2b Theorems that are partial or refuted, by name\n")
lines.append("A `_partial` theorem carries an explicit side condition (stated in `coq/props/<id>.v` next to the full statement it falls short of); a `_refuted` theorem proves, with a `vm_compute` witness that is also replayed on the real code by the harness corpus, that the full statement is false of the faithful model (`_old_refuted`: of the code before a `fix:` commit).\n")
lines.append("| id | partial | refuted |")
lines.append("|---|---|---|")
for pr in props:
    pid = pr["id"]
    th = theorems(pid)
    part = [t for t in th if "partial" in t]
    ref = [t for t in th if "refuted" in t]
    if part or ref:
        lines.append("| %s | %s | %s |" % (pid, ", ".join("`%s`" % t for t in part), ", ".join("`%s`" % t for t in ref)))

lines.append("\n### 10.3 Seeded breaking changes (written by fresh sub-agents that saw only the property text) and which checks catch them\n")
rows = []
for d in sorted(glob.glob(os.path.join(ROOT, "seeded", "*"))):
    mp, rp = os.path.join(d, "meta.json"), os.path.join(d, "result.json")
    if not os.path.exists(mp): continue
    m = json.load(open(mp)); r = json.load(open(rp)) if os.path.exists(rp) else {}
    caught = "; ".join("%s: %s" % (k, ("VIOLATION" + (" (" + v.get("how", "") + ")" if v.get("how") else "")) if v.get("caught") else "not caught") for k, v in (r.get("checks") or {}).items())
    rows.append("| %s | %s | %s | %s | %s |" % (os.path.basename(d), m.get("property", ""), (m.get("what_it_breaks") or m.get("title") or "").replace("|", "\\|")[:220], (m.get("needs_to_manifest") or "").replace("|", "\\|")[:200], caught or "not run"))
if rows:
    lines.append("| seeded change | property | what it breaks | what it needs to manifest | result of our checks |")
    lines.append("|---|---|---|---|---|")
    lines += rows
else:
    lines.append("(none confirmed yet)")
lines.append("\nIn addition every builder ran its own mutation trial (2-14 realistic edits of the anchored code per property, in scratch worktrees); the edits and which part of the check (`agree`, `holds`, Go-side report) caught each are tabulated in the *Mutation trial* section of `notes/<id>.md`.\n")

body = "\n".join(lines) + "\n"
dp = os.path.join(ROOT, "DESIGN.md")
s = open(dp).read()
B, E = "<!-- BEGIN GENERATED STATUS -->", "<!-- END GENERATED STATUS -->"
if B not in s:
    s += "\n\n## 10. As-built status (generated by tools/mkstatus.py — do not edit by hand)\n\n" + B + "\n" + E + "\n"
s = s[:s.index(B) + len(B)] + "\n" + body + s[s.index(E):]
open(dp, "w").write(s)
print("status region: %d lines" % len(lines))

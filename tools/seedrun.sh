#!/bin/bash
# seedrun.sh <candidate_dir> [extra seedtest args]: confirm a seeded change, run our check against it,
# and keep it under /verif/seeded/<name>/ (patch.diff, demo, meta.json, result.json) if confirmed.
cand=$1; shift
name=$(basename $cand)
out=/tmp/seedres_$name.json
python3 /verif/tools/seedtest.py $cand "$@" > $out 2>/tmp/seedres_$name.err
python3 - "$cand" "$out" <<'PY'
import json, sys, os, shutil
cand, out = sys.argv[1], sys.argv[2]
try:
    txt = open(out).read(); r = json.loads(txt[txt.index('{'):])
except Exception as e:
    print("seedrun: no result for", cand, e); sys.exit(1)
ok = r.get("patch_applies") and r.get("demo_fails_with_patch") and r.get("demo_passes_without_patch") and r.get("existing_tests_pass_with_patch", True)
name = os.path.basename(cand)
print(name, "confirmed" if ok else "NOT confirmed", {k: (v.get("caught"), v.get("s")) for k, v in (r.get("checks") or {}).items()},
      {k: r.get(k) for k in ("patch_applies", "demo_fails_with_patch", "demo_passes_without_patch", "existing_tests_pass_with_patch")})
if ok:
    d = os.path.join("/verif/seeded", name)
    os.makedirs(d, exist_ok=True)
    for f in os.listdir(cand):
        p = os.path.join(cand, f)
        if os.path.isfile(p) and os.path.getsize(p) < 2_000_000 and not f.endswith(".log"):
            shutil.copyfile(p, os.path.join(d, f))
    for k, v in (r.get("checks") or {}).items():
        v["how"] = (v.get("replay_what") or "")[:160]
    r["ran"] = "tools/seedtest.py in a scratch worktree: git apply patch.diff; demo_cmd (must fail); existing_tests_cmd (must pass); VERIF_REPO=<worktree> ./check <id> --tier quick; git apply -R; demo_cmd (must pass)"
    json.dump(r, open(os.path.join(d, "result.json"), "w"), indent=1)
PY

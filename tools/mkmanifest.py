#!/usr/bin/env python3
"""Regenerate MANIFEST.json from spec/*.json (claimed properties) and properties.jsonl."""
import json, glob, os, sys
ROOT = os.path.dirname(os.path.dirname(os.path.abspath(__file__)))
props = [json.loads(l) for l in open(os.path.join(ROOT, "properties.jsonl"))]
specs = {}
claimed = set(open(os.path.join(ROOT, "tools", "claimed.txt")).read().split())
for f in sorted(glob.glob(os.path.join(ROOT, "spec", "C*.json"))):
    s = json.load(open(f))
    if s["id"] in claimed:
        specs[s["id"]] = s
na_reasons = {}
p = os.path.join(ROOT, "tools", "not_applicable.json")
if os.path.exists(p):
    na_reasons = json.load(open(p))
hooks = json.load(open(os.path.join(ROOT, "tools", "hooks.json")))
base = json.load(open("/root/.vp/BASELINE.json"))["cmd"] if os.path.exists("/root/.vp/BASELINE.json") else hooks.get("baseline_off_cmd", "")
checks, na = [], []
for pr in props:
    pid = pr["id"]
    s = specs.get(pid)
    if s is None:
        na.append({"property_id": pid, "reason": na_reasons.get(pid, "not claimed yet: the Coq model, theorems and correspondence harness planned in DESIGN.md section 6 are not built; no check is registered until its pipeline runs green")})
        continue
    checks.append({
        "property_id": pid,
        "quick_cmd": "./check %s --tier quick" % pid,
        "thorough_cmd": "./check %s --tier thorough" % pid,
        "evidence_file": "/verif/evidence/%s.json" % pid,
        "replay_cmd_template": "./check %s --replay {path}" % pid,
        "engine": "coq-corr",
        "level_claimed": {"category": "proof", "text": s.get("level_text", "Coq theorems over a hand-written executable model; model tied to /repo by a vm_compute correspondence check on every run"), "design_ref": "DESIGN.md section 6, %s" % pid},
        "level_note": s.get("level_note", "; ".join(s.get("trusted_base", []) + s.get("assumptions", []))),
        "technique": s.get("technique", "Coq proof over hand-written Gallina model + vm_compute correspondence against the Go implementation"),
    })
m = {
    "version": 1,
    "setup_cmd": "./check --setup",
    "hooks": {"guard": "verif", "enable": "go build -tags verif (harness module /verif/harness, replace github.com/prometheus/prometheus => /repo)",
              "baseline_off_cmd": base, "source_commits": hooks.get("source_commits", []), "add_only": True},
    "engines": [{"name": "coq-corr", "path": "/verif/check", "serves_properties": [c["property_id"] for c in checks],
                 "kind_free_text": "Coq 8.16.1 theorems (coq/props) over hand-written executable Gallina models (coq/model), tied to /repo on every run by a Go harness that runs the real code and a vm_compute evaluation of model and specification predicate on the observed outputs (coq/corr)"}],
    "checks": checks,
    "notes": "Driver: ./check <id> [--tier quick|thorough] [--replay file]; ./check --setup builds the Coq development from clean and warms the Go build cache. Known findings: known-findings.txt. See DESIGN.md.",
    "not_applicable": na,
}
json.dump(m, open(os.path.join(ROOT, "MANIFEST.json"), "w"), indent=1)
print("claimed %d, not_applicable %d" % (len(checks), len(na)))

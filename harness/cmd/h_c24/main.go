// h_c24: correspondence harness for C24 (persistent blocks round-trip and detect corruption).
//
// Every case is one block on disk produced by the real writers and read back by the real
// readers of an opened block (tsdb.OpenBlock -> IndexReader / ChunkReader):
//
//	route "direct":      index.Writer + chunks.Writer (small segment size => several segment
//	                     files) fed with generated label sets and chunks of every encoding whose
//	                     payload is arbitrary bytes; the input is recorded and `holds` compares
//	                     the read-back with it.
//	route "blockwriter": tsdb.BlockWriter (head + LeveledCompactor.Write) fed with samples.
//	route "compact":     two BlockWriter blocks merged by LeveledCompactor.Compact with a small
//	                     MaxBlockChunkSegmentSize.
//	                     For these two the sample-level round trip is judged here (go_violations).
//
// For small blocks every byte of every series entry (index) and of every chunk record
// (segment files) is altered, one at a time, in an in-memory copy; the copy is re-opened with
// index.NewReader / chunks.newReader and the entry/record containing the byte is read.
// The raw file bytes, all reader answers and all alteration outcomes go to Coq.
package main

import (
	"bytes"
	"context"
	"encoding/binary"
	"errors"
	"fmt"
	"math"
	"os"
	"path/filepath"
	"sort"
	"strings"

	"github.com/prometheus/prometheus/model/labels"
	"github.com/prometheus/prometheus/storage"
	"github.com/prometheus/prometheus/tsdb"
	"github.com/prometheus/prometheus/tsdb/chunkenc"
	"github.com/prometheus/prometheus/tsdb/chunks"
	"github.com/prometheus/prometheus/tsdb/encoding"
	"github.com/prometheus/prometheus/tsdb/index"

	"verif/harness/internal/gallina"
	"verif/harness/internal/gen"
)

// ---------------------------------------------------------------- input types

type chunkIn struct {
	Min, Max int64
	Enc      byte
	Data     []byte
}

type seriesIn struct {
	Labels [][2]string
	Chunks []chunkIn
}

type sample struct {
	T int64
	V float64
}

type sampleSeries struct {
	Labels  [][2]string
	Samples []sample
}

func mkLabels(l [][2]string) labels.Labels {
	ls := make([]labels.Label, len(l))
	for i, p := range l {
		ls[i] = labels.Label{Name: p[0], Value: p[1]}
	}
	return labels.New(ls...)
}

// ---------------------------------------------------------------- error classes (model/BlockFmt.v rerr)

func classify(err error) string {
	s := err.Error()
	switch {
	case errors.Is(err, encoding.ErrInvalidChecksum), strings.Contains(s, "checksum mismatch"):
		return "RCrc"
	case errors.Is(err, encoding.ErrInvalidSize), strings.Contains(s, "segment doesn't include enough bytes"):
		return "RSize"
	case strings.Contains(s, "invalid uvarint"), strings.Contains(s, "reading chunk length failed"):
		return "RVarint"
	case strings.Contains(s, "unknown symbol"):
		return "RSym"
	case strings.Contains(s, "invalid chunk encoding"):
		return "REnc"
	case strings.Contains(s, "segment index"):
		return "RRange"
	case strings.Contains(s, "invalid magic number"), strings.Contains(s, "index file version"), strings.Contains(s, "chunk format version"):
		return "RMagic"
	}
	return "ROther"
}

func rerr(class string) string { return "(RErr " + class + ")" }

// ---------------------------------------------------------------- Gallina printers

// pk prints a byte string as (pk len [w; ...]%uint63): 7 bytes per primitive integer, big endian
// (see corr/CorrC24.v). Decimal N literals cost Coq ~250us each, primitive ints almost nothing.
func pkRaw(b []byte) string {
	if len(b) == 0 {
		return "(@nil N)"
	}
	var sb strings.Builder
	sb.WriteString("(pk ")
	sb.WriteString(fmt.Sprint(len(b)))
	sb.WriteString(" [")
	for i := 0; i < len(b); i += 7 {
		end := i + 7
		if end > len(b) {
			end = len(b)
		}
		var w uint64
		for _, x := range b[i:end] {
			w = w<<8 | uint64(x)
		}
		if i > 0 {
			sb.WriteString("; ")
		}
		sb.WriteString(fmt.Sprint(w))
	}
	sb.WriteString("]%uint63)")
	return sb.String()
}

// pool: every byte string of a case other than the raw files (label names and values, chunk
// payloads) is printed once, in a per-case table P, and referred to as (sy i). This is only a
// transport compression: the same string occurs in the input, the files' observations, the
// postings keys, the symbols ...
type pool struct {
	idx   map[string]int
	items []string
}

var curPool *pool

func newPool() *pool { return &pool{idx: map[string]int{}} }

func pk(b []byte) string {
	if len(b) == 0 {
		return "(@nil N)"
	}
	i, ok := curPool.idx[string(b)]
	if !ok {
		i = len(curPool.items)
		curPool.idx[string(b)] = i
		curPool.items = append(curPool.items, pkRaw(b))
	}
	return fmt.Sprintf("(sy %d)", i)
}

// wrap puts the pool definition around a case term.
func (p *pool) wrap(term string) string {
	return "(let P := " + gallina.List(p.items) + " in let sy := (fun i : N => nth (N.to_nat i) P (@nil N)) in\n " + term + ")"
}

func pks(s string) string { return pk([]byte(s)) }

func gLabels(l [][2]string) string {
	it := make([]string, len(l))
	for i, p := range l {
		it[i] = gallina.Pair(pks(p[0]), pks(p[1]))
	}
	return gallina.List(it)
}

func gStrs(l []string) string {
	it := make([]string, len(l))
	for i, s := range l {
		it[i] = pks(s)
	}
	return gallina.List(it)
}

// gz / gn print numbers through primitive integers when they fit (decimal Z/N literals are slow to parse)
func gz(v int64) string {
	switch {
	case v >= 0 && v < 1<<62:
		return fmt.Sprintf("(iz %d)", v)
	case v < 0 && v > -(1<<62):
		return fmt.Sprintf("(izn %d)", -v)
	}
	return gallina.Z(v)
}

func gn(v uint64) string {
	if v < 1<<62 {
		return fmt.Sprintf("(inn %d)", v)
	}
	return gallina.N(v)
}

func gRefs(l []uint64) string {
	if len(l) == 0 {
		return "(@nil N)"
	}
	it := make([]string, len(l))
	for i, r := range l {
		it[i] = fmt.Sprint(r)
	}
	return "(rl [" + strings.Join(it, "; ") + "]%uint63)"
}

type metaObs struct {
	Ref      uint64
	Min, Max int64
}

func gMetas(l []metaObs) string {
	it := make([]string, len(l))
	for i, m := range l {
		it[i] = fmt.Sprintf("mkCM %s %s %s", gn(m.Ref), gz(m.Min), gz(m.Max))
	}
	return gallina.List(it)
}

// seriesRes is the outcome of one Reader.Series call.
type seriesRes struct {
	Err    string // "" = ok
	Labels [][2]string
	Metas  []metaObs
}

func (r seriesRes) gallina() string {
	if r.Err != "" {
		return rerr(r.Err)
	}
	return "(ROk " + gallina.Pair(gLabels(r.Labels), gMetas(r.Metas)) + ")"
}

func (r seriesRes) equal(o seriesRes) bool {
	if r.Err != o.Err || len(r.Labels) != len(o.Labels) || len(r.Metas) != len(o.Metas) {
		return false
	}
	for i := range r.Labels {
		if r.Labels[i] != o.Labels[i] {
			return false
		}
	}
	for i := range r.Metas {
		if r.Metas[i] != o.Metas[i] {
			return false
		}
	}
	return true
}

// chunkRes is the outcome of one ChunkOrIterable call.
type chunkRes struct {
	Err  string
	Enc  byte
	Data []byte
}

func (r chunkRes) gallina() string {
	if r.Err != "" {
		return rerr(r.Err)
	}
	return "(ROk " + gallina.Pair(gn(uint64(r.Enc)), pk(r.Data)) + ")"
}

func (r chunkRes) equal(o chunkRes) bool {
	return r.Err == o.Err && r.Enc == o.Enc && bytes.Equal(r.Data, o.Data)
}

// ---------------------------------------------------------------- reading through the real readers

type seriesReader interface {
	Series(ref storage.SeriesRef, builder *labels.ScratchBuilder, chks *[]chunks.Meta) error
}

func readSeries(ir seriesReader, ref uint64) (res seriesRes) {
	defer func() {
		if r := recover(); r != nil {
			res = seriesRes{Err: "RPanic"}
		}
	}()
	var b labels.ScratchBuilder
	var chks []chunks.Meta
	if err := ir.Series(storage.SeriesRef(ref), &b, &chks); err != nil {
		return seriesRes{Err: classify(err)}
	}
	b.Labels().Range(func(l labels.Label) {
		res.Labels = append(res.Labels, [2]string{strings.Clone(l.Name), strings.Clone(l.Value)})
	})
	for _, c := range chks {
		res.Metas = append(res.Metas, metaObs{Ref: uint64(c.Ref), Min: c.MinTime, Max: c.MaxTime})
	}
	return res
}

type chunkReader interface {
	ChunkOrIterable(meta chunks.Meta) (chunkenc.Chunk, chunkenc.Iterable, error)
}

func readChunk(cr chunkReader, ref uint64) (res chunkRes) {
	defer func() {
		if r := recover(); r != nil {
			res = chunkRes{Err: "RPanic"}
		}
	}()
	c, _, err := cr.ChunkOrIterable(chunks.Meta{Ref: chunks.ChunkRef(ref)})
	if err != nil {
		return chunkRes{Err: classify(err)}
	}
	return chunkRes{Enc: byte(c.Encoding()), Data: append([]byte{}, c.Bytes()...)}
}

type seriesObs struct {
	Ref    uint64
	Res    seriesRes
	Chunks []chunkRes
}

type blockObs struct {
	Syms     []string
	Series   []seriesObs
	Names    []string
	LVals    [][]string // per name
	Postings []struct {
		N, V string
		Err  string
		Refs []uint64
	}
}

func expand(p index.Postings) ([]uint64, error) {
	var out []uint64
	for p.Next() {
		out = append(out, uint64(p.At()))
	}
	return out, p.Err()
}

// readBlock performs the fixed sequence of reads on an opened block.
func readBlock(ir tsdb.IndexReader, cr tsdb.ChunkReader) (*blockObs, error) {
	ctx := context.Background()
	o := &blockObs{}
	it := ir.Symbols()
	for it.Next() {
		o.Syms = append(o.Syms, strings.Clone(it.At()))
	}
	if it.Err() != nil {
		return nil, it.Err()
	}
	p, err := ir.Postings(ctx, "", "")
	if err != nil {
		return nil, err
	}
	all, err := expand(p)
	if err != nil {
		return nil, err
	}
	for _, ref := range all {
		so := seriesObs{Ref: ref, Res: readSeries(ir, ref)}
		for _, m := range so.Res.Metas {
			so.Chunks = append(so.Chunks, readChunk(cr, m.Ref))
		}
		o.Series = append(o.Series, so)
	}
	names, err := ir.LabelNames(ctx)
	if err != nil {
		return nil, err
	}
	o.Names = names
	o.Postings = append(o.Postings, struct {
		N, V string
		Err  string
		Refs []uint64
	}{"", "", "", all})
	for _, n := range names {
		vals, err := ir.LabelValues(ctx, n, nil)
		if err != nil {
			return nil, err
		}
		vals = append([]string{}, vals...)
		for i := range vals {
			vals[i] = strings.Clone(vals[i])
		}
		o.LVals = append(o.LVals, vals)
		for _, v := range vals {
			e := struct {
				N, V string
				Err  string
				Refs []uint64
			}{N: n, V: v}
			p, err := ir.Postings(ctx, n, v)
			if err == nil {
				e.Refs, err = expand(p)
			}
			if err != nil {
				e.Err = classify(err)
			}
			o.Postings = append(o.Postings, e)
		}
	}
	return o, nil
}

func (o *blockObs) gallina() string {
	ser := make([]string, len(o.Series))
	for i, s := range o.Series {
		ch := make([]string, len(s.Chunks))
		for j, c := range s.Chunks {
			ch[j] = c.gallina()
		}
		ser[i] = fmt.Sprintf("mkSO %s %s %s", gn(s.Ref), s.Res.gallina(), gallina.List(ch))
	}
	lv := make([]string, len(o.Names))
	for i, n := range o.Names {
		lv[i] = gallina.Pair(pks(n), gStrs(o.LVals[i]))
	}
	po := make([]string, len(o.Postings))
	for i, p := range o.Postings {
		r := "(ROk " + gRefs(p.Refs) + ")"
		if p.Err != "" {
			r = rerr(p.Err)
		}
		po[i] = gallina.Pair(gallina.Pair(pks(p.N), pks(p.V)), r)
	}
	return fmt.Sprintf("(mkBO %s\n %s\n %s\n %s\n %s)", gStrs(o.Syms), gallina.List(ser), gStrs(o.Names), gallina.List(lv), gallina.List(po))
}

// ---------------------------------------------------------------- writers

const fixedULID = "01ARZ3NDEKTSV4RRFFQ69G5FAV"

func writeMeta(dir string, mint, maxt int64) error {
	s := fmt.Sprintf(`{"ulid":%q,"minTime":%d,"maxTime":%d,"stats":{},"compaction":{"level":1,"sources":[%q]},"version":1}`, fixedULID, mint, maxt, fixedULID)
	return os.WriteFile(filepath.Join(dir, "meta.json"), []byte(s), 0o644)
}

// writeDirect writes the series (already sorted by label set) with the real index and chunk writers.
func writeDirect(dir string, series []seriesIn, segSize int64) error {
	if err := os.MkdirAll(dir, 0o777); err != nil {
		return err
	}
	cw, err := chunks.NewWriter(filepath.Join(dir, "chunks"), chunks.WithSegmentSize(segSize))
	if err != nil {
		return err
	}
	iw, err := index.NewWriter(context.Background(), filepath.Join(dir, "index"))
	if err != nil {
		return err
	}
	symset := map[string]struct{}{}
	for _, s := range series {
		for _, l := range s.Labels {
			symset[l[0]] = struct{}{}
			symset[l[1]] = struct{}{}
		}
	}
	syms := make([]string, 0, len(symset))
	for s := range symset {
		syms = append(syms, s)
	}
	sort.Strings(syms)
	for _, s := range syms {
		if err := iw.AddSymbol(s); err != nil {
			return err
		}
	}
	for i, s := range series {
		metas := make([]chunks.Meta, len(s.Chunks))
		for j, c := range s.Chunks {
			ch, err := chunkenc.FromData(chunkenc.Encoding(c.Enc), c.Data)
			if err != nil {
				return err
			}
			metas[j] = chunks.Meta{MinTime: c.Min, MaxTime: c.Max, Chunk: ch}
		}
		if err := cw.WriteChunks(metas...); err != nil {
			return err
		}
		if err := iw.AddSeries(storage.SeriesRef(i), mkLabels(s.Labels), metas...); err != nil {
			return err
		}
	}
	if err := iw.Close(); err != nil {
		return err
	}
	if err := cw.Close(); err != nil {
		return err
	}
	return writeMeta(dir, math.MinInt64, math.MaxInt64)
}

func writeViaBlockWriter(dir string, series []sampleSeries, chunkRange int64) (string, error) {
	w, err := tsdb.NewBlockWriter(nil2logger(), dir, chunkRange)
	if err != nil {
		return "", err
	}
	defer w.Close()
	ctx := context.Background()
	app := w.Appender(ctx)
	for _, s := range series {
		ls := mkLabels(s.Labels)
		var ref storage.SeriesRef
		for _, sm := range s.Samples {
			r, err := app.Append(ref, ls, sm.T, sm.V)
			if err != nil {
				return "", err
			}
			ref = r
		}
	}
	if err := app.Commit(); err != nil {
		return "", err
	}
	id, err := w.Flush(ctx)
	if err != nil {
		return "", err
	}
	return filepath.Join(dir, id.String()), nil
}

func compactBlocks(dest string, dirs []string, segSize int64) (string, error) {
	c, err := tsdb.NewLeveledCompactorWithOptions(context.Background(), nil, nil2logger(), []int64{1 << 40}, chunkenc.NewPool(),
		tsdb.LeveledCompactorOptions{MaxBlockChunkSegmentSize: segSize, EnableOverlappingCompaction: true})
	if err != nil {
		return "", err
	}
	ids, err := c.Compact(dest, dirs, nil)
	if err != nil {
		return "", err
	}
	if len(ids) != 1 {
		return "", fmt.Errorf("compaction produced %d blocks", len(ids))
	}
	return filepath.Join(dest, ids[0].String()), nil
}

// ---------------------------------------------------------------- raw files

type rawBlock struct {
	Index []byte
	Segs  [][]byte
}

func readRaw(dir string) (*rawBlock, error) {
	idx, err := os.ReadFile(filepath.Join(dir, "index"))
	if err != nil {
		return nil, err
	}
	ents, err := os.ReadDir(filepath.Join(dir, "chunks"))
	if err != nil {
		return nil, err
	}
	var names []string
	for _, e := range ents {
		names = append(names, e.Name())
	}
	sort.Strings(names)
	rb := &rawBlock{Index: idx}
	for _, n := range names {
		b, err := os.ReadFile(filepath.Join(dir, "chunks", n))
		if err != nil {
			return nil, err
		}
		rb.Segs = append(rb.Segs, b)
	}
	return rb, nil
}

type memSlice []byte

func (b memSlice) Len() int                    { return len(b) }
func (b memSlice) Range(start, end int) []byte { return b[start:end] }

// ---------------------------------------------------------------- alterations

type altRec struct {
	File  int // -1 series entry, -2 symbols/offset table/TOC (judged at open), -3 postings list, k >= 0 segment
	Pos   int
	Byte  byte
	Ref   uint64
	Obs   string // Gallina aobs
	IsErr bool
	Same  bool
	Part  string // "len" | "body" | "crc"
	// ErrClass != "": the read of the target failed with this class (Obs is then redundant)
	ErrClass string
	Diff     uint64 // API groups that returned different data
	Errs     uint64 // API groups that returned an error
	DiffWhat string
}

// newByte picks the replacement value for variant v of position pos.
func newByte(r *gen.Rand, old byte, v int) byte {
	switch v {
	case 0:
		return old ^ (1 << uint(r.Intn(8))) // single bit flip
	case 1:
		return old ^ 0x80 // continuation bit / sign
	case 2:
		return old + 1
	case 3:
		return old - 1
	case 4:
		if old != 0 {
			return 0
		}
		return 0xff
	default:
		for {
			b := byte(r.Intn(256))
			if b != old {
				return b
			}
		}
	}
}

// seriesExtent returns [start,end) of the series entry at ref*16 and the length of its uvarint prefix.
func seriesExtent(idx []byte, ref uint64) (start, n, end int) {
	start = int(ref) * 16
	l, n := binary.Uvarint(idx[start:])
	return start, n, start + n + int(l) + 4
}

func chunkExtent(seg []byte, start int) (n, end int) {
	l, n := binary.Uvarint(seg[start:])
	return n, start + n + 1 + int(l) + 4
}

func part(pos, start, n, end int) string {
	switch {
	case pos < start+n:
		return "len"
	case pos >= end-4:
		return "crc"
	}
	return "body"
}

// alterIndex alters one byte of the index file of the block in dir (on disk), re-opens the block
// with tsdb.OpenBlock and runs the whole read suite on it. kind: -1 the byte lies in the series
// entry ref; -2 in the symbol table / offset table / TOC; -3 in the postings list sec.
func alterIndex(dir string, rb *rawBlock, o *blockObs, pr *probes, baseline []probeAns, kind, pos int, nb byte, ref uint64, sec *section) altRec {
	cp := append([]byte{}, rb.Index...)
	cp[pos] = nb
	withIndex(dir, cp)
	a := altRec{File: kind, Pos: pos, Byte: nb, Ref: ref}
	ab, err := tsdb.OpenBlock(nil2logger(), dir, chunkenc.NewPool(), nil)
	if err != nil {
		a.Obs = "(AOpenErr " + classify(err) + ")"
		a.IsErr = true
		if kind == -2 {
			a.ErrClass = classify(err)
		}
		return a
	}
	defer ab.Close()
	a.Diff, a.Errs, a.DiffWhat = compare(ab, o, pr, baseline)
	ir, err := ab.Index()
	if err != nil {
		panic(err)
	}
	defer ir.Close()
	switch kind {
	case -1:
		res := readSeries(ir, ref)
		a.Obs = "(ASeries " + res.gallina() + ")"
		a.IsErr = res.Err != ""
		a.ErrClass = res.Err
		for _, s := range o.Series {
			if s.Ref == ref {
				a.Same = res.equal(s.Res)
			}
		}
	case -2:
		a.Obs = "AOpenOk"
		a.Same = a.Diff == 0
	default:
		res := refsAns(ir.Postings(context.Background(), sec.N, sec.V))
		a.IsErr = res.Err != ""
		a.ErrClass = res.Err
		a.Obs = "(APostings " + gRes(res, false) + ")"
		a.Same = a.Diff == 0
	}
	return a
}

func alterChunk(rb *rawBlock, o *blockObs, seg, pos int, nb byte, ref uint64) (altRec, string) {
	bs := make([]chunks.ByteSlice, len(rb.Segs))
	for i, s := range rb.Segs {
		if i == seg {
			cp := append([]byte{}, s...)
			cp[pos] = nb
			bs[i] = memSlice(cp)
		} else {
			bs[i] = memSlice(s)
		}
	}
	a := altRec{File: seg, Pos: pos, Byte: nb, Ref: ref}
	cr, err := chunks.VerifNewReader(bs, nil)
	if err != nil {
		a.Obs = "(AOpenErr " + classify(err) + ")"
		a.IsErr = true
		return a, ""
	}
	collateral := ""
	for _, s := range o.Series {
		for j, m := range s.Res.Metas {
			res := readChunk(cr, m.Ref)
			if m.Ref == ref {
				a.Obs = "(AChunk " + res.gallina() + ")"
				a.IsErr = res.Err != ""
				a.ErrClass = res.Err
				a.Same = res.equal(s.Chunks[j])
			} else if res.Err == "" && !res.equal(s.Chunks[j]) {
				collateral = fmt.Sprintf("segment %d byte %d of chunk %d altered: chunk %d now reads different data", seg, pos, ref, m.Ref)
			}
		}
	}
	return a, collateral
}

func (a altRec) gallina() string {
	// the usual outcome (an error, no API returned different data) in the compact forms of
	// corr/CorrC24.v: primitive integers
	if a.ErrClass != "" && a.Diff == 0 {
		switch {
		case a.File == -1:
			return fmt.Sprintf("ia %d %d %d %s", a.Pos, a.Byte, a.Ref, a.ErrClass)
		case a.File == -2:
			return fmt.Sprintf("oa %d %d %s", a.Pos, a.Byte, a.ErrClass)
		case a.File == -3:
			return fmt.Sprintf("pa %d %d %d %s", a.Pos, a.Byte, a.Ref, a.ErrClass)
		}
		return fmt.Sprintf("ca %d %d %d %d %s", a.File, a.Pos, a.Byte, a.Ref, a.ErrClass)
	}
	return fmt.Sprintf("mkAlt %s %s %s %s %s %s", gallina.Z(int64(a.File)), gallina.N(uint64(a.Pos)), gallina.N(uint64(a.Byte)), gallina.N(a.Ref), a.Obs, gallina.N(a.Diff))
}

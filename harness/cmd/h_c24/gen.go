package main

import (
	"encoding/json"
	"fmt"
	"log/slog"
	"math"
	"os"
	"path/filepath"
	"runtime/pprof"
	"sort"
	"strings"

	"github.com/prometheus/common/promslog"

	"github.com/prometheus/prometheus/model/labels"
	"github.com/prometheus/prometheus/tsdb"
	"github.com/prometheus/prometheus/tsdb/chunkenc"

	"verif/harness/internal/gallina"
	"verif/harness/internal/gen"
)

func nil2logger() *slog.Logger { return promslog.NewNopLogger() }

// ---------------------------------------------------------------- generators

var namePool = []string{"__name__", "job", "instance", "a", "b", "zz", "le", "a_shared_label_name", "é", "A"}
var valuePool = []string{"x", "y", "prometheus", "localhost:9090", "0", "1", "job", "a", "ünï", "v", "zzzzzzzz"}

func genLabelSet(r *gen.Rand, uniq int) [][2]string {
	k := 1 + r.Intn(4)
	if r.Chance(1, 10) {
		k = 5 + r.Intn(4)
	}
	names := map[string]bool{}
	var out [][2]string
	for len(out) < k {
		n := gen.Pick(r, namePool)
		if names[n] {
			continue
		}
		names[n] = true
		var v string
		switch r.Intn(12) {
		case 0, 1, 2:
			v = fmt.Sprintf("u%d_%d", uniq, r.Intn(1000)) // unique symbol
		case 3:
			v = strings.Repeat("L", 120+r.Intn(40)) + fmt.Sprint(r.Intn(3)) // symbol longer than 127 bytes: 2 byte uvarint
		default:
			v = gen.Pick(r, valuePool) // shared symbol (names are also used as values)
		}
		out = append(out, [2]string{n, v})
	}
	sort.Slice(out, func(i, j int) bool { return out[i][0] < out[j][0] })
	return out
}

var timeEdges = []int64{math.MinInt64, math.MinInt64 + 1, -1 << 40, -1000, -1, 0, 1, 1000, 1 << 40, math.MaxInt64 - 1, math.MaxInt64}

// genChunks: strictly increasing, non-overlapping [min,max] ranges, including the int64
// extremes (the delta encoding of AddSeries wraps there), every encoding, arbitrary payload.
func genChunks(r *gen.Rand, small bool) []chunkIn {
	k := r.Intn(4)
	if r.Chance(1, 8) {
		k = 4 + r.Intn(5)
	}
	if k == 0 {
		return nil
	}
	// 2k increasing time points
	pts := make([]int64, 0, 2*k)
	switch r.Intn(3) {
	case 0: // from the edge set
		perm := append([]int64{}, timeEdges...)
		for len(pts) < 2*k && len(perm) > 0 {
			i := r.Intn(len(perm))
			pts = append(pts, perm[i])
			perm = append(perm[:i], perm[i+1:]...)
		}
		for len(pts) < 2*k {
			pts = append(pts, r.Range(-1<<30, 1<<30)+int64(len(pts)))
		}
	case 1: // realistic millisecond timestamps
		t := int64(1700000000000) + r.Range(0, 1<<20)
		for len(pts) < 2*k {
			t += r.Range(0, 7200000)
			pts = append(pts, t)
		}
	default: // small numbers around zero
		t := r.Range(-300, 0)
		for len(pts) < 2*k {
			t += r.Range(0, 130)
			pts = append(pts, t)
		}
	}
	sort.Slice(pts, func(i, j int) bool { return pts[i] < pts[j] })
	// chunk i = [pts[2i], pts[2i+1]]; AddSeries demands min(i+1) > max(i)
	out := make([]chunkIn, 0, k)
	last := int64(0)
	for i := 0; i < k; i++ {
		mn, mx := pts[2*i], pts[2*i+1]
		if i > 0 && mn <= last {
			if last == math.MaxInt64 {
				break
			}
			mn = last + 1
			if mx < mn {
				mx = mn
			}
		}
		n := r.Intn(24)
		if !small && r.Chance(1, 10) {
			n = 120 + r.Intn(100) // two byte length prefix
		}
		if r.Chance(1, 12) {
			n = 0
		}
		d := make([]byte, n)
		for j := range d {
			d[j] = byte(r.Intn(256))
		}
		if r.Chance(1, 6) && n > 0 { // many zero bytes: padding-like content
			for j := range d {
				d[j] = 0
			}
		}
		out = append(out, chunkIn{Min: mn, Max: mx, Enc: byte(1 + r.Intn(6)), Data: d})
		last = mx
	}
	return out
}

func genDirect(r *gen.Rand, nseries int, small bool) []seriesIn {
	seen := map[string]bool{}
	var out []seriesIn
	for i := 0; len(out) < nseries && i < 4*nseries+8; i++ {
		ls := genLabelSet(r, i)
		key := fmt.Sprint(ls)
		if seen[key] {
			continue
		}
		seen[key] = true
		out = append(out, seriesIn{Labels: ls, Chunks: genChunks(r, small)})
	}
	sort.Slice(out, func(i, j int) bool { return labels.Compare(mkLabels(out[i].Labels), mkLabels(out[j].Labels)) < 0 })
	return out
}

// genWide: one label name with more than symbolFactor (32) values, so that the reader's sampled
// postings offset table and symbol offsets are exercised.
func genWide(r *gen.Rand) []seriesIn {
	n := 33 + r.Intn(14)
	var out []seriesIn
	for i := 0; i < n; i++ {
		ls := [][2]string{{"__name__", "m"}, {"i", fmt.Sprintf("%03d", i)}}
		if r.Chance(1, 3) {
			ls = append(ls, [2]string{"job", gen.Pick(r, valuePool)})
		}
		var cs []chunkIn
		if r.Chance(1, 2) {
			cs = []chunkIn{{Min: int64(i), Max: int64(i) + 5, Enc: 1, Data: []byte{byte(i), 1, 2}}}
		}
		out = append(out, seriesIn{Labels: ls, Chunks: cs})
	}
	sort.Slice(out, func(i, j int) bool { return labels.Compare(mkLabels(out[i].Labels), mkLabels(out[j].Labels)) < 0 })
	return out
}

// cardKs: label cardinalities around the reader's sampling constant (index.symbolFactor = 32: the
// in-memory postings offset table keeps every 32nd value of a name plus the last one).
var cardKs = [][]int{{1, 2, 3, 31, 32, 33, 34, 40}, {63, 64, 65, 66}, {96, 97, 100}}

// genCard: a block in which label "kNNN" has exactly NNN distinct values, for every NNN of ks0
// (plus `extra` random ones): series i carries kNNN = value(i mod NNN). Every series has one real
// XOR chunk with one sample, so that a block querier can be used as well. (Three blocks instead
// of one with all twelve cardinalities: the Coq model reader costs ~1 ms per read on a 25 KB index.)
func genCard(r *gen.Rand, ks0 []int, extra int) []seriesIn {
	ks := append([]int{}, ks0...)
	for i := 0; i < extra; i++ {
		ks = append(ks, 1+r.Intn(ks0[len(ks0)-1]+3))
	}
	maxK := 0
	for _, k := range ks {
		if k > maxK {
			maxK = k
		}
	}
	n := maxK + r.Intn(8)
	var out []seriesIn
	seenK := map[int]bool{}
	for i := 0; i < n; i++ {
		var ls [][2]string
		for k := range seenK {
			delete(seenK, k)
		}
		for _, k := range ks {
			if seenK[k] {
				continue
			}
			seenK[k] = true
			j := i % k
			pre := "a"
			if j >= (k+1)/2 {
				pre = "b"
			}
			ls = append(ls, [2]string{fmt.Sprintf("k%03d", k), fmt.Sprintf("%s%03d", pre, j)})
		}
		sort.Slice(ls, func(a, b int) bool { return ls[a][0] < ls[b][0] })
		c := chunkenc.NewXORChunk()
		app, err := c.Appender()
		if err != nil {
			panic(err)
		}
		t := int64(1000 + i)
		app.Append(0, t, float64(i))
		out = append(out, seriesIn{Labels: ls, Chunks: []chunkIn{{Min: t, Max: t, Enc: byte(chunkenc.EncXOR), Data: append([]byte{}, c.Bytes()...)}}})
	}
	sort.Slice(out, func(i, j int) bool { return labels.Compare(mkLabels(out[i].Labels), mkLabels(out[j].Labels)) < 0 })
	return out
}

func genSamples(r *gen.Rand, nseries int, t0 int64, maxSamples int) []sampleSeries {
	seen := map[string]bool{}
	var out []sampleSeries
	for i := 0; len(out) < nseries && i < 4*nseries+8; i++ {
		ls := genLabelSet(r, i%3) // small `uniq` space: the two source blocks of a compaction share series
		key := fmt.Sprint(ls)
		if seen[key] {
			continue
		}
		seen[key] = true
		n := 1 + r.Intn(maxSamples)
		t := t0 + r.Range(0, 50)
		var sm []sample
		for j := 0; j < n; j++ {
			v := float64(r.Range(-1000, 1000)) / 8
			if r.Chance(1, 20) {
				v = math.Float64frombits(r.U64())
				if math.IsNaN(v) {
					v = 1
				}
			}
			sm = append(sm, sample{T: t, V: v})
			t += r.Range(1, 40)
		}
		out = append(out, sampleSeries{Labels: ls, Samples: sm})
	}
	return out
}

// ---------------------------------------------------------------- one case

type desc struct {
	Route   string `json:"route"`
	Shape   string `json:"shape"`
	Seed    uint64 `json:"seed"`
	Index   int    `json:"case_index"`
	Series  int    `json:"series"`
	Chunks  int    `json:"chunks"`
	Segs    int    `json:"segments"`
	IdxLen  int    `json:"index_bytes"`
	SegSize int64  `json:"segment_size,omitempty"`
	Alts    int    `json:"alterations"`
	Input   any    `json:"input,omitempty"`
	OpenErr string `json:"open_error,omitempty"`
}

type runner struct {
	f       gallina.Flags
	meta    *gallina.Meta
	cf      *gallina.CaseFile
	scratch string
	id       int
	altLeft  int
	perBlock int
}

func gInput(series []seriesIn) string {
	it := make([]string, len(series))
	for i, s := range series {
		cs := make([]string, len(s.Chunks))
		for j, c := range s.Chunks {
			cs[j] = fmt.Sprintf("mkCI %s %s %s %s", gz(c.Min), gz(c.Max), gn(uint64(c.Enc)), pk(c.Data))
		}
		it[i] = fmt.Sprintf("mkSI %s %s", gLabels(s.Labels), gallina.List(cs))
	}
	return "(Some " + gallina.List(it) + ")"
}

// emit opens the block in dir with the real readers, records everything and (for small
// blocks) sweeps the alterations. expected != nil: sample-level check for the head routes.
func (rn *runner) emit(r *gen.Rand, route, dir string, input []seriesIn, expected map[string][]sample, segSize int64, sweep bool, caseIndex int) {
	id := rn.id
	rn.id++
	curPool = newPool()
	d := desc{Route: route, Shape: route, Seed: rn.f.Seed, Index: caseIndex, SegSize: segSize}
	if input != nil && len(input) <= 8 {
		d.Input = input
	}
	rb, err := readRaw(dir)
	if err != nil {
		panic(err)
	}
	d.IdxLen = len(rb.Index)
	d.Segs = len(rb.Segs)
	gin := "None"
	if input != nil {
		gin = gInput(input)
	}
	gsegs := make([]string, len(rb.Segs))
	for i, s := range rb.Segs {
		gsegs[i] = pkRaw(s)
	}
	b, err := tsdb.OpenBlock(nil2logger(), dir, chunkenc.NewPool(), nil)
	var o *blockObs
	if err == nil {
		defer b.Close()
		ir, e1 := b.Index()
		cr, e2 := b.Chunks()
		if e1 != nil || e2 != nil {
			panic(fmt.Sprint(e1, e2))
		}
		defer ir.Close()
		defer cr.Close()
		o, err = readBlock(ir, cr)
	}
	if err != nil {
		d.OpenErr = err.Error()
		d.Shape = route + "-open-error"
		rn.cf.Add(curPool.wrap(fmt.Sprintf("mkCase %s %s\n %s\n %s\n %s\n (mkQ [] [] [] [] [] [] []) []", gallina.Z(int64(id)), gin, pkRaw(rb.Index), gallina.List(gsegs), rerr(classify(err)))))
		rn.meta.Case(id, d)
		rn.meta.Evaluations++
		rn.meta.Hit(route + "/open-error")
		return
	}
	d.Series = len(o.Series)
	for _, s := range o.Series {
		d.Chunks += len(s.Chunks)
	}
	rn.meta.Hit("route/" + route)
	if len(rb.Segs) > 1 {
		rn.meta.Hit("segments>1")
	}
	if len(o.Syms) > 32 {
		rn.meta.Hit("symbols>32")
	}
	for _, lv := range o.LVals {
		if len(lv) > 32 {
			rn.meta.Hit("label-values>32")
			break
		}
	}

	// sample-level round trip of the head / compactor routes, judged here
	if expected != nil {
		if msg := checkSamples(o, expected); msg != "" {
			rn.meta.GoViol = append(rn.meta.GoViol, gallina.GoViolation{ID: fmt.Sprint(id), Shape: route + "-samples", What: msg})
		}
	}

	// the further read APIs on the undamaged block
	maxNames := 3
	if route == "card" {
		maxNames = 1 << 20
	}
	pr := makeProbes(r, o, maxNames, route == "card")
	baseline := suite(b, o, pr)
	gq := gQueries(o, pr, baseline)
	rn.meta.Evaluations += len(baseline)
	for _, a := range baseline {
		if a.A.Err != "" {
			rn.meta.Hit("query-error/" + groupNames[a.Group])
		}
	}
	if msg := sortedConsistency(baseline); msg != "" {
		rn.meta.GoViol = append(rn.meta.GoViol, gallina.GoViolation{ID: fmt.Sprint(id), Shape: "api-answers-inconsistent", What: msg})
	}
	for _, lv := range o.LVals {
		switch k := len(lv); {
		case k%32 == 1 && k > 1:
			rn.meta.Hit("label-cardinality=32k+1")
		case k%32 == 0 && k > 0:
			rn.meta.Hit("label-cardinality=32k")
		}
	}

	// alterations. A re-opened damaged block that answers some API differently from the undamaged
	// block without an error violates the property; all such alterations of a case are reported as
	// ONE go_violation whose shape joins the kinds seen with '+' (the driver treats a case as a known
	// finding only if every part is listed):
	//   labelnames-matchers-ignores-postings-error  a damaged postings list makes LabelNames(matchers)
	//       answer with fewer names and no error (index.Reader.LabelNamesFor never looks at
	//       postings.Err(); PostingsForLabelMatching reports the checksum error lazily) while every
	//       other API reports the error or answers as before
	//   alteration-different-answer                 anything else
	diffKinds := map[string]int{}
	diffExample := map[string]string{}
	noteDiff := func(a altRec, where string) {
		kind := "alteration-different-answer"
		if a.File == -3 && a.Diff == 1<<gLabelNamesM && a.ErrClass != "" {
			kind = "labelnames-matchers-ignores-postings-error"
		}
		diffKinds[kind]++
		if diffExample[kind] == "" {
			diffExample[kind] = fmt.Sprintf("%s byte %d := %d: %s", where, a.Pos, a.Byte, a.DiffWhat)
		}
	}
	flushDiffs := func() {
		if len(diffKinds) == 0 {
			return
		}
		var ks, ex []string
		for k := range diffKinds {
			ks = append(ks, k)
		}
		sort.Strings(ks)
		for _, k := range ks {
			ex = append(ex, fmt.Sprintf("%s (%d alterations), e.g. %s", k, diffKinds[k], diffExample[k]))
		}
		shape := strings.Join(ks, "+")
		rn.meta.GoViol = append(rn.meta.GoViol, gallina.GoViolation{ID: fmt.Sprint(id), Shape: shape, What: strings.Join(ex, "; ")})
		d.Shape = shape
	}
	var alts []string
	if sweep {
		variants := 1
		if rn.f.Tier == "thorough" {
			variants = 3
		}
		defer withIndex(dir, rb.Index)
		add := func(a altRec, coll string, start, n, end int) {
			a.Part = part(a.Pos, start, n, end)
			alts = append(alts, a.gallina())
			rn.meta.Evaluations++
			kind := "series"
			if a.File >= 0 {
				kind = "chunk"
			}
			if a.Diff != 0 {
				for g := 0; g < nGroups; g++ {
					if a.Diff&(1<<uint(g)) != 0 {
						rn.meta.Hit("alt/DIFFERENT-ANSWER/" + groupNames[g])
					}
				}
				noteDiff(a, "series entry")
			}
			switch {
			case a.IsErr:
				rn.meta.Hit("alt/" + kind + "/" + a.Part + "/error")
			case a.Same:
				rn.meta.Hit("alt/" + kind + "/" + a.Part + "/same-data")
			default:
				rn.meta.Hit("alt/" + kind + "/" + a.Part + "/DIFFERENT-DATA")
			}
			if coll != "" {
				rn.meta.GoViol = append(rn.meta.GoViol, gallina.GoViolation{ID: fmt.Sprint(id), Shape: "alteration-collateral", What: coll})
			}
		}
		// positions of this block: all of them when they fit the per-block share of the budget,
		// otherwise a uniform sample (every position has the same chance)
		total := 0
		for _, s := range o.Series {
			start, _, end := seriesExtent(rb.Index, s.Ref)
			total += end - start
			for _, m := range s.Res.Metas {
				_, cend := chunkExtent(rb.Segs[int(m.Ref>>32)], int(uint32(m.Ref)))
				total += cend - int(uint32(m.Ref))
			}
		}
		share := rn.perBlock
		if share > rn.altLeft {
			share = rn.altLeft
		}
		take := func() bool {
			if total*variants <= share {
				return true
			}
			return r.Intn(total*variants) < share
		}
		for _, s := range o.Series {
			start, n, end := seriesExtent(rb.Index, s.Ref)
			for pos := start; pos < end; pos++ {
				for v := 0; v < variants; v++ {
					if !take() || rn.altLeft <= 0 {
						continue
					}
					nb := newByte(r, rb.Index[pos], (pos+v*3+int(r.Intn(2)))%6)
					a := alterIndex(dir, rb, o, pr, baseline, -1, pos, nb, s.Ref, nil)
					add(a, "", start, n, end)
					rn.altLeft--
				}
			}
			for _, m := range s.Res.Metas {
				seg, cstart := int(m.Ref>>32), int(uint32(m.Ref))
				n, end := chunkExtent(rb.Segs[seg], cstart)
				for pos := cstart; pos < end; pos++ {
					for v := 0; v < variants; v++ {
						if !take() || rn.altLeft <= 0 {
							continue
						}
						nb := newByte(r, rb.Segs[seg][pos], (pos+v*3+int(r.Intn(2)))%6)
						a, coll := alterChunk(rb, o, seg, pos, nb, m.Ref)
						add(a, coll, cstart, n, end)
						rn.altLeft--
					}
				}
			}
		}
	}
	if sweep {
		// the other CRC-protected sections of the index: symbol table, postings offset table, TOC
		// (the re-open must fail, or every API must answer as before) and postings lists
		secs := sections(rb.Index)
		per := 4
		if rn.f.Tier == "thorough" {
			per = 24
		}
		nLists := 0
		for si := range secs {
			sec := &secs[si]
			kind := -2
			if sec.Kind == "postings" {
				kind = -3
				nLists++
				if nLists > 4 && !r.Chance(1, 4) {
					continue
				}
			}
			positions := []int{sec.Start, sec.Start + 3, sec.End - 1, sec.End - 4}
			k := per
			if kind == -3 {
				k = per / 3
			}
			if sec.Kind == "toc" && rn.f.Tier == "thorough" {
				positions = positions[:0]
				for p := sec.Start; p < sec.End; p++ {
					positions = append(positions, p)
				}
				k = 0
			}
			for j := 0; j < k; j++ {
				positions = append(positions, sec.Start+r.Intn(sec.End-sec.Start))
			}
			for _, pos := range positions {
				nb := newByte(r, rb.Index[pos], r.Intn(6))
				a := alterIndex(dir, rb, o, pr, baseline, kind, pos, nb, uint64(sec.Start), sec)
				if kind == -2 {
					a.Ref = 0
				}
				alts = append(alts, a.gallina())
				rn.meta.Evaluations++
				outcome := "same-answers"
				switch {
				case a.Diff != 0:
					outcome = "DIFFERENT-ANSWER"
					for g := 0; g < nGroups; g++ {
						if a.Diff&(1<<uint(g)) != 0 {
							rn.meta.Hit("alt/DIFFERENT-ANSWER/" + groupNames[g])
						}
					}
					noteDiff(a, sec.Kind)
				case a.IsErr:
					outcome = "error"
				}
				rn.meta.Hit("alt/" + sec.Kind + "/" + outcome)
			}
		}
	}
	flushDiffs()
	d.Alts = len(alts)
	if d.Series >= 2 && d.Chunks >= 1 {
		rn.meta.Nontrivial++
	}
	rn.meta.Nontrivial += len(alts)
	rn.meta.Evaluations++
	galts := gallina.List(alts) // ia/ca take primitive ints: their arguments are parsed in uint63_scope
	rn.cf.Add(curPool.wrap(fmt.Sprintf("mkCase %s %s\n %s\n %s\n (ROk %s)\n %s\n %s", gallina.Z(int64(id)), gin, pkRaw(rb.Index), gallina.List(gsegs), o.gallina(), gq, galts)))
	rn.meta.Case(id, d)
}

// checkSamples decodes every chunk read back from the block and compares the samples of
// every series with what was appended (float samples only).
func checkSamples(o *blockObs, expected map[string][]sample) string {
	got := map[string][]sample{}
	for _, s := range o.Series {
		if s.Res.Err != "" {
			return "series read error " + s.Res.Err
		}
		key := fmt.Sprint(s.Res.Labels)
		for i, c := range s.Chunks {
			if c.Err != "" {
				return "chunk read error " + c.Err
			}
			ch, err := chunkenc.FromData(chunkenc.Encoding(c.Enc), c.Data)
			if err != nil {
				return err.Error()
			}
			it := ch.Iterator(nil)
			first := true
			var lastT int64
			for it.Next() != chunkenc.ValNone {
				t, v := it.At()
				if first && t != s.Res.Metas[i].Min {
					return fmt.Sprintf("series %s chunk %d: first sample %d but MinTime %d", key, i, t, s.Res.Metas[i].Min)
				}
				first = false
				lastT = t
				got[key] = append(got[key], sample{t, v})
			}
			if it.Err() != nil {
				return it.Err().Error()
			}
			if !first && lastT != s.Res.Metas[i].Max {
				return fmt.Sprintf("series %s chunk %d: last sample %d but MaxTime %d", key, i, lastT, s.Res.Metas[i].Max)
			}
		}
	}
	if len(got) != len(expected) {
		return fmt.Sprintf("%d series with samples read back, %d written", len(got), len(expected))
	}
	for k, e := range expected {
		g := got[k]
		if len(g) != len(e) {
			return fmt.Sprintf("series %s: %d samples read back, %d written", k, len(g), len(e))
		}
		for i := range e {
			if g[i].T != e[i].T || math.Float64bits(g[i].V) != math.Float64bits(e[i].V) {
				return fmt.Sprintf("series %s sample %d: read (%d,%x) written (%d,%x)", k, i, g[i].T, math.Float64bits(g[i].V), e[i].T, math.Float64bits(e[i].V))
			}
		}
	}
	return ""
}

func expectedOf(sets ...[]sampleSeries) map[string][]sample {
	m := map[string][]sample{}
	for _, set := range sets {
		for _, s := range set {
			k := fmt.Sprint(s.Labels)
			m[k] = append(m[k], s.Samples...)
		}
	}
	return m
}

func main() {
	f := gallina.ParseFlags()
	if pf := os.Getenv("C24_PROF"); pf != "" {
		fh, _ := os.Create(pf)
		pprof.StartCPUProfile(fh)
		defer pprof.StopCPUProfile()
	}
	scratch, err := os.MkdirTemp(f.Out, "c24_")
	if err != nil {
		panic(err)
	}
	defer os.RemoveAll(scratch)
	os.Setenv("TMPDIR", scratch) // BlockWriter puts its head directory under os.TempDir()

	meta := gallina.NewMeta("C24", f.Seed, f.Tier)
	meta.Rule = "one evaluation = one block written+opened+fully read, or one single-byte alteration re-opened and read; " +
		"non-trivial = blocks with >= 2 series and >= 1 chunk, plus every alteration (each is a distinct (block, file, position, value)); " +
		"routes: direct (index.Writer+chunks.Writer, arbitrary chunk payloads, small segment sizes, int64 edge times), wide (> 32 values of one label), card (label names with exactly 1,2,31,32,33,34,63,64,65,66,96,97 values), " +
		"blockwriter (head + LeveledCompactor.Write), compact (LeveledCompactor.Compact of two blocks, small segments); " +
		"alterations: every byte of every series entry and chunk record of the small blocks (length prefix, body, crc) plus sampled bytes of the symbol table, postings offset table, TOC and postings lists, replacement chosen among bit flip / ^0x80 / +1 / -1 / 0 / random; after an index alteration the block is re-opened with tsdb.OpenBlock and every read API is compared with the undamaged block; " +
		"every block additionally answers SortedLabelValues, PostingsForLabelMatching, PostingsForAllLabelValues, PostingsForMatchers, Querier.Select, LabelNames/LabelValues with matchers (each API call counted as an evaluation)"
	cf := &gallina.CaseFile{Dir: f.Out, Type: "case", PerShard: 14,
		Preamble: "From Coq Require Import List NArith ZArith Uint63.\nFrom Verif Require Import lib.Int64 lib.Bytes model.BlockFmt corr.CorrC24.\nImport ListNotations.\nOpen Scope N_scope.\n",
		Footer:   gallina.StdFooter}
	rn := &runner{f: f, meta: meta, cf: cf, scratch: scratch, altLeft: f.Count(2200, 60000)}

	nDirect := f.Count(21, 120)
	rn.perBlock = rn.altLeft / (f.Count(14, 30) + 5)
	nSweep := f.Count(14, 30) // small blocks whose every entry/record byte is altered
	nWide := f.Count(0, 6) // the card blocks cover > 32 values in the quick tier
	nCard := f.Count(3, 9)
	nBW := f.Count(7, 30)
	nCompact := f.Count(4, 20)
	ci := 0
	next := func() (*gen.Rand, string, int) {
		r := gen.Fork(f.Seed, ci)
		dir := filepath.Join(scratch, fmt.Sprintf("b%d", ci))
		ci++
		return r, dir, ci - 1
	}

	// corpus first: fixed small blocks (empty chunk list, single series, extreme times)
	corpus := [][]seriesIn{
		{{Labels: [][2]string{{"a", "b"}}}},
		{{Labels: [][2]string{{"a", "b"}}, Chunks: []chunkIn{{Min: math.MinInt64, Max: math.MaxInt64, Enc: 1, Data: []byte{}}}}},
		{{Labels: [][2]string{{"a", "b"}}, Chunks: []chunkIn{{Min: -5, Max: -5, Enc: 2, Data: []byte{0, 0, 0}}, {Min: math.MaxInt64, Max: math.MaxInt64, Enc: 6, Data: []byte{255}}}},
			{Labels: [][2]string{{"a", "c"}, {"b", "a"}}, Chunks: []chunkIn{{Min: 0, Max: 0, Enc: 4, Data: bytesOf(130)}}}},
	}
	for _, in := range corpus {
		r, dir, idx := next()
		if err := writeDirect(dir, in, 64); err != nil {
			panic(err)
		}
		rn.emit(r, "direct", dir, in, nil, 64, true, idx)
		os.RemoveAll(dir)
	}
	for i := 0; i < nDirect; i++ {
		r, dir, idx := next()
		sweep := i < nSweep
		n := 1 + r.Intn(8)
		if sweep {
			n = 1 + r.Intn(4)
		} else if r.Chance(1, 6) {
			n = 10 + r.Intn(10)
			if f.Tier == "thorough" {
				n = 10 + r.Intn(40)
			}
		}
		in := genDirect(r, n, sweep)
		segSize := int64(0)
		switch r.Intn(3) {
		case 0:
			segSize = r.Range(20, 120)
		case 1:
			segSize = r.Range(200, 2000)
		}
		if err := writeDirect(dir, in, segSize); err != nil {
			panic(fmt.Sprintf("case %d: %v", idx, err))
		}
		rn.emit(r, "direct", dir, in, nil, segSize, sweep, idx)
		os.RemoveAll(dir)
	}
	for i := 0; i < nWide; i++ {
		r, dir, idx := next()
		in := genWide(r)
		if err := writeDirect(dir, in, 100); err != nil {
			panic(err)
		}
		rn.emit(r, "wide", dir, in, nil, 100, false, idx)
		os.RemoveAll(dir)
	}
	for i := 0; i < nCard; i++ {
		r, dir, idx := next()
		in := genCard(r, cardKs[i%len(cardKs)], i/len(cardKs))
		segSize := int64(0)
		if i%2 == 1 {
			segSize = 400
		}
		if err := writeDirect(dir, in, segSize); err != nil {
			panic(err)
		}
		rn.emit(r, "card", dir, nil, nil, segSize, false, idx) // no input copy: consistency and the query spec judge it
		os.RemoveAll(dir)
	}
	for i := 0; i < nBW; i++ {
		r, dir, idx := next()
		maxS, ns := 30, 1+r.Intn(5)
		if i%6 == 1 {
			maxS, ns = 300, 2 // several chunks per series (120 samples per chunk)
		}
		set := genSamples(r, ns, r.Range(-100000, 100000), maxS)
		bdir, err := writeViaBlockWriter(dir, set, 1<<40)
		if err != nil {
			panic(err)
		}
		rn.emit(r, "blockwriter", bdir, nil, expectedOf(set), 0, i < 3 && maxS == 30, idx)
		os.RemoveAll(dir)
	}
	for i := 0; i < nCompact; i++ {
		r, dir, idx := next()
		setA := genSamples(r, 1+r.Intn(3), 0, 90)
		setB := genSamples(r, 1+r.Intn(3), 1_000_000, 90)
		if i%3 == 0 {
			setA = genSamples(r, 2, 0, 200) // source chunks are cut at 120 samples
		}
		da, err := writeViaBlockWriter(filepath.Join(dir, "a"), setA, 1<<40)
		if err != nil {
			panic(err)
		}
		db, err := writeViaBlockWriter(filepath.Join(dir, "b"), setB, 1<<40)
		if err != nil {
			panic(err)
		}
		segSize := r.Range(100, 600)
		cdir, err := compactBlocks(filepath.Join(dir, "out"), []string{da, db}, segSize)
		if err != nil {
			panic(err)
		}
		rn.emit(r, "compact", cdir, nil, expectedOf(setA, setB), segSize, false, idx)
		os.RemoveAll(dir)
	}
	cf.Flush()
	if b, err := json.Marshal(map[string]int{"alterations_budget_left": rn.altLeft}); err == nil {
		meta.Notes = append(meta.Notes, string(b))
	}
	meta.Write(f.Out)
}

func bytesOf(n int) []byte {
	b := make([]byte, n)
	for i := range b {
		b[i] = byte(i * 7)
	}
	return b
}

package main

// Further read APIs of an opened block (strengthening of C24):
//
//   - on the undamaged block: SortedLabelValues, PostingsForLabelMatching, PostingsForAllLabelValues,
//     tsdb.PostingsForMatchers and a real block querier's Select with =, !=, =~".+", =~"prefix.*",
//     LabelNames / LabelValues with matchers. The answers go to Coq (corr/CorrC24.v `queries`),
//     where they are compared with the model of the index reader and with the plain
//     "list of (ref, label set)" reading of the block.
//   - on a damaged copy of the block (one byte altered): the whole suite of read APIs is run again
//     on the re-opened block (tsdb.OpenBlock on disk, so that the block-level wrappers
//     labelNamesWithMatchers / labelValuesWithMatchers are the real ones) and every answer must be
//     an error or equal to the undamaged block's answer.

import (
	"context"
	"fmt"
	"math"
	"os"
	"path/filepath"
	"regexp"
	"sort"
	"strings"

	"github.com/prometheus/prometheus/model/labels"
	"github.com/prometheus/prometheus/storage"
	"github.com/prometheus/prometheus/tsdb"
	"github.com/prometheus/prometheus/tsdb/chunkenc"
	"github.com/prometheus/prometheus/tsdb/index"

	"verif/harness/internal/gallina"
	"verif/harness/internal/gen"
)

// ---------------------------------------------------------------- matchers and predicates

type mspec struct {
	Kind string // MEq | MNeq | MRePlus | MRePrefix
	Name string
	Val  string
}

var matcherCache = map[mspec]*labels.Matcher{}

func (m mspec) matcher() *labels.Matcher {
	if c, ok := matcherCache[m]; ok {
		return c
	}
	c := m.newMatcher()
	matcherCache[m] = c
	return c
}

func (m mspec) newMatcher() *labels.Matcher {
	switch m.Kind {
	case "MEq":
		return labels.MustNewMatcher(labels.MatchEqual, m.Name, m.Val)
	case "MNeq":
		return labels.MustNewMatcher(labels.MatchNotEqual, m.Name, m.Val)
	case "MRePlus":
		return labels.MustNewMatcher(labels.MatchRegexp, m.Name, ".+")
	case "MReSet", "MNReSet": // alternatives in exactly the given (shuffled) order
		alts := strings.Split(m.Val, "\x00")
		for i := range alts {
			alts[i] = regexp.QuoteMeta(alts[i])
		}
		t := labels.MatchRegexp
		if m.Kind == "MNReSet" {
			t = labels.MatchNotRegexp
		}
		return labels.MustNewMatcher(t, m.Name, strings.Join(alts, "|"))
	default:
		return labels.MustNewMatcher(labels.MatchRegexp, m.Name, regexp.QuoteMeta(m.Val)+".*")
	}
}

func (m mspec) gallina() string {
	if m.Kind == "MReSet" || m.Kind == "MNReSet" {
		return fmt.Sprintf("mkM %s %s (@nil N) %s", m.Kind, pks(m.Name), gStrs(strings.Split(m.Val, "\x00")))
	}
	return fmt.Sprintf("mkM %s %s %s []", m.Kind, pks(m.Name), pks(m.Val))
}

func gMatchers(ms []mspec) string {
	it := make([]string, len(ms))
	for i, m := range ms {
		it[i] = m.gallina()
	}
	return gallina.List(it)
}

func matchers(ms []mspec) []*labels.Matcher {
	out := make([]*labels.Matcher, len(ms))
	for i, m := range ms {
		out[i] = m.matcher()
	}
	return out
}

type pspec struct {
	Kind string // "" (PostingsForAllLabelValues) | PAll | PPrefix | PEq
	Val  string
}

func (p pspec) fn() func(string) bool {
	switch p.Kind {
	case "PAll":
		return func(string) bool { return true }
	case "PPrefix":
		return func(v string) bool { return strings.HasPrefix(v, p.Val) }
	default:
		return func(v string) bool { return v == p.Val }
	}
}

func (p pspec) gallina() string {
	switch p.Kind {
	case "":
		return "None"
	case "PAll":
		return "(Some PAll)"
	}
	return fmt.Sprintf("(Some (%s %s))", p.Kind, pks(p.Val))
}

// ---------------------------------------------------------------- the probes of one block

// probes are derived from the undamaged block's label names and values only.
type probes struct {
	Names  []string
	Match  []struct{ N string; P pspec }
	Sel    []struct{ Q bool; M []mspec }
	LNames [][]mspec
	LVals  []struct{ N string; M []mspec }
	MPost  []struct{ N string; Vs []string } // Postings(name, values...) in exactly this order
}

// pickValues: 2..6 values of a label in random order: existing ones (with a duplicate now and then),
// absent ones between existing values, one before the first and one beyond the last.
func pickValues(r *gen.Rand, vals []string) []string {
	k := 2 + r.Intn(5)
	var out []string
	for len(out) < k {
		v := vals[r.Intn(len(vals))]
		switch r.Intn(8) {
		case 0:
			v += "_absent" // between two values (or beyond the last)
		case 1:
			v = vals[len(vals)-1] + "zz" // beyond the last
		case 2:
			v = "!" + v // before the first
		case 3:
			if len(out) > 0 {
				v = out[r.Intn(len(out))] // duplicate
			}
		case 4:
			v = vals[len(vals)-1]
		case 5:
			v = vals[0]
		}
		out = append(out, v)
	}
	// make sure the order is not increasing when there are two different values
	sorted := sort.StringsAreSorted(out)
	if sorted {
		for i, j := 0, len(out)-1; i < j; i, j = i+1, j-1 {
			out[i], out[j] = out[j], out[i]
		}
	}
	return out
}

func existing(vs, vals []string) []string {
	set := map[string]bool{}
	for _, v := range vals {
		set[v] = true
	}
	var out []string
	seen := map[string]bool{}
	for _, v := range vs {
		if set[v] && !seen[v] {
			seen[v] = true
			out = append(out, v)
		}
	}
	return out
}

// firstRunes returns a non-empty proper prefix of v when there is one (whole runes).
func prefixOf(v string) string {
	rs := []rune(v)
	if len(rs) <= 1 {
		return v
	}
	return string(rs[:(len(rs)+1)/2])
}

func makeProbes(r *gen.Rand, o *blockObs, maxNames int, lean bool) *probes {
	p := &probes{Names: o.Names}
	idx := make([]int, len(o.Names))
	for i := range idx {
		idx[i] = i
	}
	// a random subset of the names when there are many
	for i := len(idx) - 1; i > 0; i-- {
		j := r.Intn(i + 1)
		idx[i], idx[j] = idx[j], idx[i]
	}
	if len(idx) > maxNames {
		idx = idx[:maxNames]
	}
	sort.Ints(idx)
	for k, i := range idx {
		n, vals := o.Names[i], o.LVals[i]
		if len(vals) == 0 {
			continue
		}
		first, last, mid := vals[0], vals[len(vals)-1], vals[r.Intn(len(vals))]
		p.Match = append(p.Match,
			struct{ N string; P pspec }{n, pspec{}},
			struct{ N string; P pspec }{n, pspec{"PEq", last}},
		)
		if !lean || k%3 == 0 {
			p.Match = append(p.Match,
				struct{ N string; P pspec }{n, pspec{"PAll", ""}},
				struct{ N string; P pspec }{n, pspec{"PPrefix", prefixOf(mid)}},
			)
		}
		sels := [][]mspec{
			{{"MRePlus", n, ""}},
			{{"MEq", n, last}},
			{{"MNeq", n, first}},
			{{"MRePrefix", n, prefixOf(last)}},
		}
		if lean && k%3 != 0 {
			sels = sels[:2]
		} else if len(o.Names) > 1 { // a conjunction with another label
			other := o.Names[(i+1)%len(o.Names)]
			sels = append(sels, []mspec{{"MRePlus", n, ""}, {"MNeq", other, o.LVals[(i+1)%len(o.Names)][0]}})
		}
		for j, ms := range sels {
			p.Sel = append(p.Sel, struct{ Q bool; M []mspec }{false, ms})
			if j == 0 || (k+j)%3 == 0 { // the same selection through a real querier
				p.Sel = append(p.Sel, struct{ Q bool; M []mspec }{true, ms})
			}
		}
		// multi-value lookups with the values NOT in increasing order
		if len(vals) >= 2 {
			nm := 1
			if lean {
				nm = 2
			}
			for j := 0; j < nm; j++ {
				vs := pickValues(r, vals)
				p.MPost = append(p.MPost, struct{ N string; Vs []string }{n, vs})
				if ex := existing(vs, vals); len(ex) >= 2 {
					// set matchers need >= 2 alternatives to take the Postings(name, values...) path; absent
					// alternatives are fine for the regexp but keep the alternatives free of the "!" prefix
					set := []mspec{{"MReSet", n, strings.Join(ex, "\x00")}}
					p.Sel = append(p.Sel, struct{ Q bool; M []mspec }{false, set}, struct{ Q bool; M []mspec }{true, set})
					if j == 0 {
						nset := []mspec{{"MNReSet", n, strings.Join(ex, "\x00")}}
						p.Sel = append(p.Sel, struct{ Q bool; M []mspec }{false, nset}, struct{ Q bool; M []mspec }{true, nset})
					}
				}
			}
		}
		if lean && k%3 != 0 {
			p.LVals = append(p.LVals, struct{ N string; M []mspec }{n, []mspec{{"MRePrefix", n, prefixOf(last)}}})
			continue
		}
		p.LNames = append(p.LNames, []mspec{{"MRePlus", n, ""}}, []mspec{{"MEq", n, mid}})
		other := o.Names[(i+1)%len(o.Names)]
		p.LVals = append(p.LVals,
			struct{ N string; M []mspec }{other, []mspec{{"MRePlus", n, ""}}},
			struct{ N string; M []mspec }{n, []mspec{{"MRePrefix", n, prefixOf(first)}}},
			struct{ N string; M []mspec }{other, []mspec{{"MNeq", n, last}}},
		)
	}
	return p
}

// ---------------------------------------------------------------- answers

// ans is one canonical answer: an error class or a printed value.
type ans struct {
	Err  string
	Strs []string
	Refs []uint64
}

func (a ans) key() string {
	if a.Err != "" {
		return "E"
	}
	return fmt.Sprintf("%q %v", a.Strs, a.Refs)
}

func refsAns(p index.Postings, err error) (a ans) {
	defer func() {
		if r := recover(); r != nil {
			a = ans{Err: "RPanic"}
		}
	}()
	if err != nil {
		return ans{Err: classify(err)}
	}
	refs, err := expand(p)
	if err != nil {
		return ans{Err: classify(err)}
	}
	return ans{Refs: refs}
}

func strsAns(s []string, err error) ans {
	if err != nil {
		return ans{Err: classify(err)}
	}
	out := make([]string, len(s))
	for i := range s {
		out[i] = strings.Clone(s[i])
	}
	return ans{Strs: out}
}

func guard(f func() ans) (a ans) {
	defer func() {
		if r := recover(); r != nil {
			a = ans{Err: "RPanic"}
		}
	}()
	return f()
}

// API groups (bit numbers of a_diff in corr/CorrC24.v)
const (
	gSymbols = iota
	gSeries
	gPostings
	gLabelNames
	gLabelNamesM
	gLabelValues
	gLabelValuesM
	gLabelMatching
	gLabelNamesFor
	gSortedSharded
	gMatchersG
	gQuerier
	nGroups
)

var groupNames = []string{"Symbols", "Series", "Postings", "LabelNames", "LabelNames(matchers)", "LabelValues/SortedLabelValues",
	"LabelValues(matchers)", "PostingsForLabelMatching/AllLabelValues", "LabelNamesFor", "SortedPostings/ShardedPostings", "PostingsForMatchers", "Querier.Select"}

type probeAns struct {
	Group int
	What  string
	A     ans
}

// suite runs every read API of the index reader (and a querier) of block b.
// base supplies the refs / names / values to ask for: always those of the undamaged block.
func suite(b *tsdb.Block, base *blockObs, pr *probes) []probeAns {
	ctx := context.Background()
	var out []probeAns
	add := func(g int, what string, f func() ans) { out = append(out, probeAns{g, what, guard(f)}) }
	ir, err := b.Index()
	if err != nil {
		panic(err)
	}
	defer ir.Close()

	add(gSymbols, "Symbols", func() ans {
		it := ir.Symbols()
		var s []string
		for it.Next() {
			s = append(s, strings.Clone(it.At()))
		}
		return strsAns(s, it.Err())
	})
	for _, so := range base.Series {
		ref := so.Ref
		add(gSeries, fmt.Sprintf("Series(%d)", ref), func() ans {
			res := readSeries(ir, ref)
			if res.Err != "" {
				return ans{Err: res.Err}
			}
			return ans{Strs: []string{fmt.Sprint(res.Labels, res.Metas)}}
		})
	}
	// withAll hands the all-postings list to f; an error of Postings itself is the answer (a
	// caller that got an error does not go on)
	withAll := func(f func(p index.Postings) ans) ans {
		p, err := ir.Postings(ctx, "", "")
		if err != nil {
			return ans{Err: classify(err)}
		}
		return f(p)
	}
	for _, p := range base.Postings {
		n, v := p.N, p.V
		add(gPostings, fmt.Sprintf("Postings(%q,%q)", n, v), func() ans { return refsAns(ir.Postings(ctx, n, v)) })
	}
	add(gLabelNames, "LabelNames", func() ans { return strsAns(ir.LabelNames(ctx)) })
	for i, n := range base.Names {
		n := n
		add(gLabelValues, fmt.Sprintf("LabelValues(%q)", n), func() ans { return strsAns(ir.LabelValues(ctx, n, nil)) })
		add(gLabelValues, fmt.Sprintf("SortedLabelValues(%q)", n), func() ans { return strsAns(ir.SortedLabelValues(ctx, n, nil)) })
		if len(base.LVals[i]) > 0 {
			v := base.LVals[i][0]
			add(gLabelNamesFor, fmt.Sprintf("LabelNamesFor(Postings(%q,%q))", n, v), func() ans {
				p, err := ir.Postings(ctx, n, v)
				if err != nil {
					return ans{Err: classify(err)}
				}
				return strsAns(ir.LabelNamesFor(ctx, p))
			})
		}
	}
	add(gLabelNamesFor, "LabelNamesFor(all)", func() ans {
		return withAll(func(p index.Postings) ans { return strsAns(ir.LabelNamesFor(ctx, p)) })
	})
	add(gSortedSharded, "SortedPostings(all)", func() ans {
		return withAll(func(p index.Postings) ans { return refsAns(ir.SortedPostings(p), nil) })
	})
	for sh := uint64(0); sh < 2; sh++ {
		sh := sh
		add(gSortedSharded, fmt.Sprintf("ShardedPostings(all,%d,2)", sh), func() ans {
			return withAll(func(p index.Postings) ans { return refsAns(ir.ShardedPostings(p, sh, 2), nil) })
		})
	}
	for _, m := range pr.Match {
		m := m
		if m.P.Kind == "" {
			add(gLabelMatching, fmt.Sprintf("PostingsForAllLabelValues(%q)", m.N), func() ans { return refsAns(ir.PostingsForAllLabelValues(ctx, m.N), nil) })
		} else {
			add(gLabelMatching, fmt.Sprintf("PostingsForLabelMatching(%q,%s %q)", m.N, m.P.Kind, m.P.Val), func() ans {
				return refsAns(ir.PostingsForLabelMatching(ctx, m.N, m.P.fn()), nil)
			})
		}
	}
	byLabels := map[string]uint64{}
	for _, so := range base.Series {
		byLabels[fmt.Sprint(so.Res.Labels)] = so.Ref
	}
	for _, s := range pr.Sel {
		s := s
		if !s.Q {
			add(gMatchersG, fmt.Sprintf("PostingsForMatchers(%v)", matchers(s.M)), func() ans { return refsAns(tsdb.PostingsForMatchers(ctx, ir, matchers(s.M)...)) })
			continue
		}
		add(gQuerier, fmt.Sprintf("Select(%v)", matchers(s.M)), func() ans {
			q, err := tsdb.NewBlockQuerier(b, math.MinInt64, math.MaxInt64)
			if err != nil {
				return ans{Err: classify(err)}
			}
			defer q.Close()
			ss := q.Select(ctx, true, nil, matchers(s.M)...)
			var refs []uint64
			for ss.Next() {
				var ls [][2]string
				ss.At().Labels().Range(func(l labels.Label) { ls = append(ls, [2]string{l.Name, l.Value}) })
				ref, ok := byLabels[fmt.Sprint(ls)]
				if !ok {
					ref = 1<<62 - 1 // a series the undamaged block does not contain
				}
				refs = append(refs, ref)
			}
			if ss.Err() != nil {
				return ans{Err: classify(ss.Err())}
			}
			return ans{Refs: refs}
		})
	}
	for _, mp := range pr.MPost {
		mp := mp
		call := func(vs []string) ans { return refsAns(ir.Postings(ctx, mp.N, append([]string{}, vs...)...)) } // fresh copy: the reader may sort it
		add(gPostings, fmt.Sprintf("Postings(%q,%q...)", mp.N, mp.Vs), func() ans { return call(mp.Vs) })
		add(gPostings, fmt.Sprintf("Postings(%q,sorted %q...)", mp.N, mp.Vs), func() ans {
			vs := append([]string{}, mp.Vs...)
			sort.Strings(vs)
			return call(vs)
		})
		add(gPostings, fmt.Sprintf("Postings(%q,reversed-sorted %q...)", mp.N, mp.Vs), func() ans {
			vs := append([]string{}, mp.Vs...)
			sort.Sort(sort.Reverse(sort.StringSlice(vs)))
			return call(vs)
		})
	}
	for _, ms := range pr.LNames {
		ms := ms
		add(gLabelNamesM, fmt.Sprintf("LabelNames(%v)", matchers(ms)), func() ans { return strsAns(ir.LabelNames(ctx, matchers(ms)...)) })
	}
	for _, lv := range pr.LVals {
		lv := lv
		add(gLabelValuesM, fmt.Sprintf("LabelValues(%q,%v)", lv.N, matchers(lv.M)), func() ans {
			a := strsAns(ir.LabelValues(ctx, lv.N, nil, matchers(lv.M)...))
			sort.Strings(a.Strs) // the order of LabelValues with matchers is unspecified (FindIntersectingPostings)
			return a
		})
		add(gLabelValuesM, fmt.Sprintf("SortedLabelValues(%q,%v)", lv.N, matchers(lv.M)), func() ans {
			return strsAns(ir.SortedLabelValues(ctx, lv.N, nil, matchers(lv.M)...))
		})
	}
	return out
}

func gRes(a ans, strs bool) string {
	if a.Err != "" {
		return rerr(a.Err)
	}
	if strs {
		return "(ROk " + gStrs(a.Strs) + ")"
	}
	return "(ROk " + gRefs(a.Refs) + ")"
}

// gQueries prints the part of the baseline suite that goes to Coq.
func gQueries(base *blockObs, pr *probes, as []probeAns) string {
	by := map[string]ans{}
	for _, a := range as {
		by[a.What] = a.A
	}
	var slv, mt, sel, lnm, lvm []string
	for _, n := range base.Names {
		a := by[fmt.Sprintf("SortedLabelValues(%q)", n)]
		slv = append(slv, gallina.Pair(pks(n), gStrs(a.Strs)))
	}
	for _, m := range pr.Match {
		what := fmt.Sprintf("PostingsForAllLabelValues(%q)", m.N)
		if m.P.Kind != "" {
			what = fmt.Sprintf("PostingsForLabelMatching(%q,%s %q)", m.N, m.P.Kind, m.P.Val)
		}
		mt = append(mt, fmt.Sprintf("(%s, %s, %s)", pks(m.N), m.P.gallina(), gRes(by[what], false)))
	}
	for _, s := range pr.Sel {
		what := fmt.Sprintf("PostingsForMatchers(%v)", matchers(s.M))
		if s.Q {
			what = fmt.Sprintf("Select(%v)", matchers(s.M))
		}
		sel = append(sel, fmt.Sprintf("(%s, %s, %s)", gallina.Bool(s.Q), gMatchers(s.M), gRes(by[what], false)))
	}
	for _, ms := range pr.LNames {
		lnm = append(lnm, gallina.Pair(gMatchers(ms), gRes(by[fmt.Sprintf("LabelNames(%v)", matchers(ms))], true)))
	}
	for _, lv := range pr.LVals {
		lvm = append(lvm, fmt.Sprintf("(%s, %s, %s)", pks(lv.N), gMatchers(lv.M), gRes(by[fmt.Sprintf("LabelValues(%q,%v)", lv.N, matchers(lv.M))], true)))
	}
	var lnf []string
	lnf = append(lnf, gallina.Pair(gRefs(base.Postings[0].Refs), gRes(by["LabelNamesFor(all)"], true)))
	for _, p := range base.Postings[1:] {
		if a, ok := by[fmt.Sprintf("LabelNamesFor(Postings(%q,%q))", p.N, p.V)]; ok && len(lnf) < 6 {
			lnf = append(lnf, gallina.Pair(gRefs(p.Refs), gRes(a, true)))
		}
	}
	var mpo []string
	for _, mp := range pr.MPost {
		mpo = append(mpo, fmt.Sprintf("(%s, %s, %s)", pks(mp.N), gStrs(mp.Vs), gRes(by[fmt.Sprintf("Postings(%q,%q...)", mp.N, mp.Vs)], false)))
	}
	return fmt.Sprintf("(mkQ %s\n %s\n %s\n %s\n %s\n %s\n %s)", gallina.List(slv), gallina.List(mt), gallina.List(sel), gallina.List(lnm), gallina.List(lvm), gallina.List(lnf), gallina.List(mpo))
}

// sortedOK: the two sorted variants must agree with their unsorted forms on the undamaged block
// (SortedLabelValues with matchers vs LabelValues with matchers, judged here).
func sortedConsistency(as []probeAns) string {
	by := map[string]ans{}
	for _, a := range as {
		by[a.What] = a.A
	}
	for what, a := range by {
		// Postings(name, values...) must not depend on the order of the values
		if strings.HasPrefix(what, "Postings(") && strings.Contains(what, ",sorted ") {
			for _, other := range []string{strings.Replace(what, ",sorted ", ",", 1), strings.Replace(what, ",sorted ", ",reversed-sorted ", 1)} {
				if o, ok := by[other]; ok && o.key() != a.key() {
					return fmt.Sprintf("%s = %s but %s = %s", what, a.key(), other, o.key())
				}
			}
		}
		if strings.HasPrefix(what, "SortedLabelValues(") && strings.Contains(what, ",[") {
			if o, ok := by[strings.TrimPrefix(what, "Sorted")]; ok && o.key() != a.key() {
				return fmt.Sprintf("%s = %s but LabelValues gives %s", what, a.key(), o.key())
			}
		}
	}
	return ""
}

// ---------------------------------------------------------------- damaged copies on disk

// withIndex replaces dir/index by bytes (new inode: the undamaged block's mmap stays intact).
func withIndex(dir string, bytes []byte) {
	tmp := filepath.Join(dir, "index.alt")
	if err := os.WriteFile(tmp, bytes, 0o644); err != nil {
		panic(err)
	}
	if err := os.Rename(tmp, filepath.Join(dir, "index")); err != nil {
		panic(err)
	}
}

// compare runs the suite on the damaged block and returns the bit mask of API groups that
// returned different data, the error mask, and a description of the first difference.
func compare(b *tsdb.Block, base *blockObs, pr *probes, baseline []probeAns) (diff, errs uint64, what string) {
	got := suite(b, base, pr)
	for i, g := range got {
		switch {
		case g.A.Err != "":
			errs |= 1 << uint(g.Group)
		case g.A.key() != baseline[i].A.key():
			diff |= 1 << uint(g.Group)
			if what == "" {
				what = fmt.Sprintf("%s returned %s, the undamaged block %s", g.What, g.A.key(), baseline[i].A.key())
			}
		}
	}
	return diff, errs, what
}

// section extents of an index file, from its own TOC and offset table
type section struct {
	Kind       string // "symbols" | "potable" | "toc" | "postings"
	Start, End int
	N, V       string // for postings lists
}

func sections(idx []byte) []section {
	toc, err := index.NewTOCFromByteSlice(memSlice(idx))
	if err != nil {
		panic(err)
	}
	be32 := func(off uint64) int {
		return int(idx[off])<<24 | int(idx[off+1])<<16 | int(idx[off+2])<<8 | int(idx[off+3])
	}
	out := []section{
		{Kind: "symbols", Start: int(toc.Symbols), End: int(toc.Symbols) + 4 + be32(toc.Symbols) + 4},
		{Kind: "potable", Start: int(toc.PostingsTable), End: int(toc.PostingsTable) + 4 + be32(toc.PostingsTable) + 4},
		{Kind: "toc", Start: len(idx) - 52, End: len(idx)},
	}
	if err := index.ReadPostingsOffsetTable(memSlice(idx), toc.PostingsTable, func(name, value []byte, off uint64, _ int) error {
		out = append(out, section{Kind: "postings", Start: int(off), End: int(off) + 4 + be32(off) + 4, N: string(name), V: string(value)})
		return nil
	}); err != nil {
		panic(err)
	}
	return out
}

var _ = storage.SeriesRef(0)
var _ = chunkenc.EncXOR

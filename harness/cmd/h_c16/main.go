// h_c16: correspondence harness for C16 (series selection and label queries follow matcher
// semantics).
//
// Builds real TSDBs (tsdb.Open) from generated series: samples are appended in up to three
// phases, the head is compacted into a persisted block after phase 1 and 2
// (DB.CompactHead), phase 3 stays in the head.  Then runs generated queries
// (Select / LabelValues / LabelNames, with matchers, time ranges and limits) through the real
// queriers: tsdb.NewBlockQuerier over one block, over a RangeHead, or DB.Querier (merge of
// head + blocks).  Every case carries the stores as read back through the index readers, the
// harness's own ground truth (series + sample times), regex oracle tables computed with Go's
// regexp package (independent of FastRegexMatcher) and the observed answers.
package main

import (
	"context"
	"fmt"
	"math"
	"os"
	"regexp"
	"sort"
	"strings"

	"github.com/prometheus/prometheus/model/labels"
	"github.com/prometheus/prometheus/storage"
	"github.com/prometheus/prometheus/tsdb"
	"github.com/prometheus/prometheus/tsdb/chunks"
	"github.com/prometheus/prometheus/tsdb/index"

	"verif/harness/internal/gallina"
	"verif/harness/internal/gen"
)

var ctx = context.Background()

type tseries struct {
	lset   labels.Labels
	times  []int64 // all sample times (ground truth)
	phase  [3][]int64
	headTs []int64 // samples appended after the last compaction
}

type gstore struct {
	head     bool
	min, max int64
	term     string // Gallina store term (a name defined in the shard preamble)
	truth    string // ground truth restricted to this store
	block    *tsdb.Block
	nseries  int
}

type world struct {
	db     *tsdb.DB
	series []*tseries
	stores []gstore // head first, then blocks (order of DB.Querier)
	truth  string
	defs   []string // Gallina definitions of this world (stores, ground truths)
	names  []string
	values map[string][]string
	wide   int    // >0: a label with this many distinct values (postings offset table sampling boundaries)
	wname  string // its name
	shuffle int   // >0: head series created with explicit refs in non-monotonic order (1 random, 2 corpus)
	unsorted []string // Go-side check: head postings lists that are not sorted by ref
}

func check(err error) {
	if err != nil {
		panic(err)
	}
}

// string interning: every pool string is defined once in the preamble (keeps case files small)
var internTab = map[string]string{}
var internDefs []string

func intern(s string) {
	if _, ok := internTab[s]; ok {
		return
	}
	id := fmt.Sprintf("s%d", len(internTab))
	internTab[s] = id
	internDefs = append(internDefs, fmt.Sprintf("Definition %s : str := %s.", id, gallina.Str(s)))
}

func gStr(s string) string {
	if id, ok := internTab[s]; ok {
		return id
	}
	return gallina.Str(s)
}

func gLabels(l labels.Labels) string {
	var it []string
	l.Range(func(x labels.Label) {
		it = append(it, gallina.Pair(gStr(x.Name), gStr(x.Value)))
	})
	return gallina.List(it)
}

func gStrs(l []string) string {
	it := make([]string, len(l))
	for i, s := range l {
		it[i] = gStr(s)
	}
	return gallina.List(it)
}

var namePool = []string{"a", "b", "c", "job"}
var valuePool = map[string][]string{
	"a":   {"x", "y", "xy", "z"},
	"b":   {"1", "2", "12", "x"},
	"c":   {"foo", "bar", "ba", "baz", "Foo", "a\nb"},
	"job": {"api", "db"},
}

// unsortedPostings lists the head postings lists (name=value) that are not strictly sorted by ref.
func unsortedPostings(h *tsdb.Head) []string {
	ir, err := h.Index()
	check(err)
	defer ir.Close()
	names, err := ir.LabelNames(ctx)
	check(err)
	var bad []string
	for _, n := range append([]string{""}, names...) {
		vs, err := ir.LabelValues(ctx, n, nil)
		check(err)
		for _, v := range vs {
			p, err := ir.Postings(ctx, n, v)
			check(err)
			refs, err := index.ExpandPostings(p)
			check(err)
			for i := 1; i < len(refs); i++ {
				if refs[i-1] >= refs[i] {
					bad = append(bad, fmt.Sprintf("%s=%q: %v", n, v, refs))
					break
				}
			}
		}
	}
	return bad
}

// readStore reads a store back through its IndexReader.
func readStore(ir tsdb.IndexReader, head bool, min, max int64, headChunks map[string][2]int64) (string, int) {
	k, v := index.AllPostingsKey()
	p, err := ir.Postings(ctx, k, v)
	check(err)
	refs, err := index.ExpandPostings(p)
	check(err)
	var ss []string
	var b labels.ScratchBuilder
	for _, ref := range refs {
		var chks []chunks.Meta
		check(ir.Series(ref, &b, &chks))
		ls := b.Labels()
		var cs []string
		if head {
			// the open head chunk is reported with MaxTime = MaxInt64; its real range is the
			// range of the samples appended since the last compaction (one chunk: < 120 samples,
			// inside one chunk range)
			if r, ok := headChunks[ls.String()]; ok && len(chks) > 0 {
				cs = append(cs, gallina.Pair(gallina.Z(r[0]), gallina.Z(r[1])))
			}
			if len(chks) > 1 {
				panic("harness assumption broken: more than one head chunk")
			}
		} else {
			for _, c := range chks {
				cs = append(cs, gallina.Pair(gallina.Z(c.MinTime), gallina.Z(c.MaxTime)))
			}
		}
		ss = append(ss, fmt.Sprintf("mkS %s %s %s", gallina.Z(int64(ref)), gLabels(ls), gallina.List(cs)))
	}
	names, err := ir.LabelNames(ctx)
	check(err)
	names = append([]string{""}, names...)
	var lvs []string
	for _, n := range names {
		vs, err := ir.LabelValues(ctx, n, nil)
		check(err)
		if len(vs) == 0 {
			continue
		}
		lvs = append(lvs, gallina.Pair(gStr(n), gStrs(vs)))
	}
	kind := "Block"
	if head {
		kind = "Head"
	}
	return fmt.Sprintf("(mkSt %s %s %s %s %s)", kind, gallina.Z(min), gallina.Z(max), gallina.List(ss), gallina.List(lvs)), len(refs)
}

func buildWorld(r *gen.Rand, wi int, dir string, thorough bool, wide int, wname string, shuffle int) *world {
	opts := tsdb.DefaultOptions()
	opts.WALSegmentSize = -1
	opts.RetentionDuration = 0
	db, err := tsdb.Open(dir, nil, nil, opts, nil)
	check(err)
	db.DisableCompactions()
	w := &world{db: db, values: map[string][]string{}, wide: wide, wname: wname, shuffle: shuffle}

	// series
	maxSeries := 8
	if thorough {
		maxSeries = 14
	}
	n := 1 + r.Intn(maxSeries)
	if wide > 0 {
		n = 0 // wide world: one tiny series per value of the wide label
		for i := 0; i < wide; i++ {
			b := labels.NewBuilder(labels.EmptyLabels())
			b.Set(wname, wideValue(i))
			switch { // deterministic second label: the matching values lie outside the first few
			case i%5 == 4:
				b.Set("a", "y")
			case i%11 == 3:
				b.Set("a", "x")
			}
			w.series = append(w.series, &tseries{lset: b.Labels()})
		}
	}
	if shuffle == 2 {
		n = 0 // corpus: two older series, then new series sharing pairs no older series has
		for _, l := range []labels.Labels{
			labels.FromStrings("a", "x", "job", "api"),
			labels.FromStrings("a", "y", "b", "1", "job", "api"),
			labels.FromStrings("a", "x", "c", "foo", "job", "db"),
			labels.FromStrings("c", "bar", "job", "db"),
			labels.FromStrings("a", "z", "b", "2", "c", "baz", "job", "db"),
		} {
			w.series = append(w.series, &tseries{lset: l})
		}
	}
	seen := map[string]bool{}
	for i := 0; i < n; i++ {
		b := labels.NewBuilder(labels.EmptyLabels())
		for _, name := range namePool {
			if r.Chance(3, 5) {
				b.Set(name, gen.Pick(r, valuePool[name]))
			}
		}
		l := b.Labels()
		if l.IsEmpty() || seen[l.String()] {
			continue
		}
		seen[l.String()] = true
		w.series = append(w.series, &tseries{lset: l})
	}
	if len(w.series) == 0 {
		w.series = append(w.series, &tseries{lset: labels.FromStrings("a", "x")})
	}
	// phases: which of block0, block1, head exist
	layout := r.Intn(6)
	if wide > 0 {
		layout = 2 // the same data in a persisted block and in the head
	}
	if shuffle > 0 {
		layout = 2 * r.Intn(2) // head only, or block + head (block refs are monotonic: contrast)
		if shuffle == 2 {
			layout = 2
		}
	}
	_ = layout // 0: head only, 1: one block only, 2: block+head, 3: two blocks, 4: two blocks+head, 5: like 4
	phases := []bool{false, false, false}
	switch layout {
	case 0:
		phases[2] = true
	case 1:
		phases[0] = true
	case 2:
		phases[0], phases[2] = true, true
	case 3:
		phases[0], phases[1] = true, true
	default:
		phases[0], phases[1], phases[2] = true, true, true
	}
	for ph := 0; ph < 3; ph++ {
		if !phases[ph] {
			continue
		}
		base := int64(1000 * ph)
		any := false
		for _, s := range w.series {
			s.headTs = nil
		}
		if shuffle > 0 && ph == 2 {
			// create the head series with explicit refs whose order differs from the insertion
			// order (refs are allocated before MemPostings.Add runs; concurrent appenders and
			// WAL replay can reach Add in any order)
			n := len(w.series)
			refs := make([]uint64, n)
			pat := r.Intn(3)
			if shuffle == 2 {
				pat = 1
			}
			for i := range refs {
				switch pat {
				case 0: // random permutation
					refs[i] = uint64(5000 + i)
				case 1: // every new ref is the lowest so far
					refs[i] = uint64(5000 + n - i)
				default: // ascending, but the last one is the lowest
					refs[i] = uint64(5001 + i)
					if i == n-1 {
						refs[i] = 5000
					}
				}
			}
			if pat == 0 {
				for i := n - 1; i > 0; i-- {
					j := r.Intn(i + 1)
					refs[i], refs[j] = refs[j], refs[i]
				}
			}
			if shuffle == 2 { // the two older series first and lowest, then the new ones descending
				refs = []uint64{5001, 5002, 5013, 5012, 5011}
			}
			for i, s := range w.series {
				_, err := db.Head().VerifCreateSeriesWithRef(chunks.HeadSeriesRef(refs[i]), s.lset)
				check(err)
			}
		}
		app := db.Appender(ctx)
		for si, s := range w.series {
			k := r.Intn(4) // 0..3 samples in this phase
			if shuffle > 0 && ph == 2 {
				k = 1 + r.Intn(3) // every explicitly created series gets data
			}
			if wide > 0 {
				k = 1
			}
			if !any && si == len(w.series)-1 && k == 0 {
				k = 1 // at least one sample per phase
			}
			t := base + r.Range(0, 300)
			for j := 0; j < k; j++ {
				_, err := app.Append(0, s.lset, t, float64(j))
				check(err)
				s.times = append(s.times, t)
				s.phase[ph] = append(s.phase[ph], t)
				s.headTs = append(s.headTs, t)
				any = true
				t += r.Range(1, 300)
				if t > base+999 {
					break
				}
			}
		}
		check(app.Commit())
		if ph < 2 {
			check(db.CompactHead(tsdb.NewRangeHead(db.Head(), base, base+999)))
		}
	}
	// read the stores back
	h := db.Head()
	w.unsorted = unsortedPostings(h)
	headChunks := map[string][2]int64{}
	if phases[2] {
		for _, s := range w.series {
			if len(s.headTs) > 0 {
				headChunks[s.lset.String()] = [2]int64{s.headTs[0], s.headTs[len(s.headTs)-1]}
			}
		}
	}
	truthOf := func(sel func(s *tseries) []int64) string {
		var tr []string
		for _, s := range w.series {
			ts := sel(s)
			if len(ts) == 0 {
				continue // no sample (there): not stored (there)
			}
			tr = append(tr, gallina.Pair(gLabels(s.lset), gallina.ListZ(ts)))
		}
		return gallina.List(tr)
	}
	def := func(name, ty, term string) string {
		w.defs = append(w.defs, fmt.Sprintf("Definition %s : %s := %s.", name, ty, term))
		return name
	}
	ir, err := h.Index()
	check(err)
	term, ns := readStore(ir, true, h.MinTime(), h.MaxTime(), headChunks)
	ir.Close()
	pfx := fmt.Sprintf("w%d_", wi)
	headTruth := "[]"
	if phases[2] {
		headTruth = truthOf(func(s *tseries) []int64 { return s.phase[2] })
	}
	w.stores = append(w.stores, gstore{head: true, min: h.MinTime(), max: h.MaxTime(),
		term: def(pfx+"st0", "store", term), truth: def(pfx+"tr0", "list (labels * list Z)", headTruth), nseries: ns})
	var blockPhases []int
	for ph := 0; ph < 2; ph++ {
		if phases[ph] {
			blockPhases = append(blockPhases, ph)
		}
	}
	if len(blockPhases) != len(db.Blocks()) {
		panic("harness assumption broken: one block per compacted phase")
	}
	for i, b := range db.Blocks() {
		ir, err := b.Index()
		check(err)
		term, ns := readStore(ir, false, b.Meta().MinTime, b.Meta().MaxTime, nil)
		ir.Close()
		ph := blockPhases[i]
		w.stores = append(w.stores, gstore{min: b.Meta().MinTime, max: b.Meta().MaxTime,
			term:  def(fmt.Sprintf("%sst%d", pfx, i+1), "store", term),
			truth: def(fmt.Sprintf("%str%d", pfx, i+1), "list (labels * list Z)", truthOf(func(s *tseries) []int64 { return s.phase[ph] })),
			block: b, nseries: ns})
	}
	// ground truth
	nm := map[string]bool{}
	vals := map[string]map[string]bool{}
	for _, s := range w.series {
		if len(s.times) == 0 {
			continue // never appended: not stored
		}
		s.lset.Range(func(l labels.Label) {
			nm[l.Name] = true
			if vals[l.Name] == nil {
				vals[l.Name] = map[string]bool{}
			}
			vals[l.Name][l.Value] = true
		})
	}
	w.truth = def(pfx+"truth", "list (labels * list Z)", truthOf(func(s *tseries) []int64 { return s.times }))
	for n := range nm {
		w.names = append(w.names, n)
	}
	sort.Strings(w.names)
	for n, m := range vals {
		for v := range m {
			w.values[n] = append(w.values[n], v)
		}
		sort.Strings(w.values[n])
	}
	return w
}

type cm struct {
	t    labels.MatchType
	n, v string
}

// corpus: reproducers of the empty-label-name finding (replayed in world 0)
var corpus = [][]cm{
	{{labels.MatchRegexp, "", ".+"}},
	{{labels.MatchNotRegexp, "", ".+"}, {labels.MatchNotEqual, "a", "nope"}},
	{{labels.MatchNotEqual, "", ""}},
	{{labels.MatchEqual, "", ""}, {labels.MatchNotEqual, "a", "nope"}},
}

var regexPool = []string{
	".*", ".+", "", "x|y", "x.*", ".*y", "x|", "(x|y)?", "x", "[^x]*", ".", "ba.", "foo|bar|baz",
	"x+", "|", "()", "(?i)foo", "1|2|12", "api|db", "a.b", "[0-9]+", "ba.*", ".*a.*", "x|xy|zz",
	"foo|", ".*|x", "(?i:x)|y", "b.+", "z*", "fo+", "1.*", "api", "d.",
}

type gmatcher struct {
	m    *labels.Matcher
	term string
	desc string
}

func mtypeName(t labels.MatchType) string {
	switch t {
	case labels.MatchEqual:
		return "MEq"
	case labels.MatchNotEqual:
		return "MNe"
	case labels.MatchRegexp:
		return "MRe"
	}
	return "MNre"
}

// mkMatcher builds the real matcher and its Gallina term with the oracle table.
func mkMatcher(w *world, t labels.MatchType, name, value string) gmatcher {
	m, err := labels.NewMatcher(t, name, value)
	check(err)
	tab, set := "[]", "[]"
	if t == labels.MatchRegexp || t == labels.MatchNotRegexp {
		re := regexp.MustCompile("^(?s:" + value + ")$") // the oracle: Go's regexp, anchored
		sm := m.SetMatches()
		strs := append([]string{""}, w.values[name]...)
		strs = append(strs, sm...)
		seen := map[string]bool{}
		var it []string
		for _, s := range strs {
			if seen[s] {
				continue
			}
			seen[s] = true
			it = append(it, gallina.Pair(gStr(s), gallina.Bool(re.MatchString(s))))
		}
		tab = gallina.List(it)
		set = gStrs(sm)
	}
	return gmatcher{m: m,
		term: fmt.Sprintf("mkM %s %s %s %s %s", mtypeName(t), gStr(name), gStr(value), tab, set),
		desc: m.String()}
}

func genMatcher(r *gen.Rand, w *world) gmatcher {
	t := labels.MatchType(r.Intn(4))
	name := gen.Pick(r, namePool)
	if r.Chance(1, 8) {
		name = "zz" // never present
	}
	if r.Chance(1, 40) {
		name = "" // accepted by the PromQL parser; see the finding in notes/C16.md
	}
	var value string
	if t == labels.MatchEqual || t == labels.MatchNotEqual {
		switch r.Intn(6) {
		case 0:
			value = ""
		case 1:
			value = "nope"
		case 2:
			value = gen.Pick(r, []string{".*", ".+"}) // literal, not a regex
		default:
			if vs := valuePool[name]; len(vs) > 0 {
				value = gen.Pick(r, vs)
			}
		}
	} else {
		value = gen.Pick(r, regexPool)
	}
	return mkMatcher(w, t, name, value)
}

func wideValue(i int) string { return fmt.Sprintf("v%03d", i) }

var wideSizes = []int64{31, 32, 33, 34, 63, 64, 65, 66, 97}
var wideRegexes = []string{".+", ".*", "", "v0.*", "v03.", "v.*2", "v032|v064", "v0(31|32|33)", "v09.|v06.", "v0[0-2].", "v03[0-9]|"}

// genWide: a matcher on the wide label (regex / non-empty / empty / equality / set)
func genWide(r *gen.Rand, w *world) gmatcher {
	t := labels.MatchType(r.Intn(4))
	if t == labels.MatchRegexp || t == labels.MatchNotRegexp {
		return mkMatcher(w, t, w.wname, gen.Pick(r, wideRegexes))
	}
	v := ""
	switch r.Intn(5) {
	case 0:
		v = wideValue(w.wide - 1) // the greatest value
	case 1:
		v = wideValue(r.Intn(w.wide))
	case 2:
		v = "nope"
	}
	return mkMatcher(w, t, w.wname, v)
}

// limit stream 2 (labelValuesWithMatchers pre-filter): LabelValues(L, limit 1..5) with a broad
// matcher on L plus either a restrictive second matcher on L or a matcher on another label, in
// both orders; the fully matching values tend to lie outside the first N values of L.
var wideRestrict = []cm{
	{labels.MatchNotRegexp, "", "v0[0-2]."}, {labels.MatchNotRegexp, "", "v0[0-5]."},
	{labels.MatchRegexp, "", "v0[3-9].|v0[6-9]."}, {labels.MatchNotRegexp, "", "v00.|v01."},
	{labels.MatchRegexp, "", "v.*[7-9]"},
}

func genSameName(r *gen.Rand, w *world) (string, []gmatcher, bool) {
	var cands []string
	for n, vs := range w.values {
		if len(vs) >= 2 {
			cands = append(cands, n)
		}
	}
	sort.Strings(cands)
	if len(cands) == 0 {
		return "", nil, false
	}
	name := gen.Pick(r, cands)
	if w.wide > 0 {
		name = w.wname
	}
	vals := w.values[name] // sorted
	var first gmatcher
	switch r.Intn(4) {
	case 0:
		first = mkMatcher(w, labels.MatchRegexp, name, ".+")
	case 1:
		first = mkMatcher(w, labels.MatchNotEqual, name, "")
	case 2:
		first = mkMatcher(w, labels.MatchNotRegexp, name, "zz|nope")
	default:
		first = mkMatcher(w, labels.MatchRegexp, name, ".*")
	}
	var second gmatcher
	if r.Chance(3, 5) { // restrictive matcher on the same label
		if w.wide > 0 {
			c := gen.Pick(r, wideRestrict)
			second = mkMatcher(w, c.t, name, c.v)
		} else {
			k := 1 + r.Intn(len(vals)-1)
			excl := make([]string, 0, k)
			for _, v := range vals[:k] {
				excl = append(excl, regexp.QuoteMeta(v))
			}
			if r.Bool() { // exclude the greatest instead of the smallest values
				excl = excl[:0]
				for _, v := range vals[len(vals)-k:] {
					excl = append(excl, regexp.QuoteMeta(v))
				}
			}
			second = mkMatcher(w, labels.MatchNotRegexp, name, strings.Join(excl, "|"))
		}
	} else { // matcher on another label, taken from a stored series that has both
		var opts [][2]string
		for _, s := range w.series {
			if len(s.times) == 0 || s.lset.Get(name) == "" {
				continue
			}
			s.lset.Range(func(l labels.Label) {
				if l.Name != name {
					opts = append(opts, [2]string{l.Name, l.Value})
				}
			})
		}
		if len(opts) == 0 {
			second = mkMatcher(w, labels.MatchNotEqual, "job", "nope")
		} else {
			o := gen.Pick(r, opts)
			second = mkMatcher(w, labels.MatchEqual, o[0], o[1])
		}
	}
	gms := []gmatcher{first, second}
	if r.Bool() {
		gms = []gmatcher{second, first}
	}
	return name, gms, true
}

// genBroad: a matcher that usually keeps many series
func genBroad(r *gen.Rand, w *world) gmatcher {
	name := gen.Pick(r, namePool)
	switch r.Intn(5) {
	case 0:
		return mkMatcher(w, labels.MatchRegexp, name, ".+")
	case 1:
		return mkMatcher(w, labels.MatchNotEqual, name, "nope")
	case 2:
		return mkMatcher(w, labels.MatchNotRegexp, name, "zz|nope")
	case 3:
		return mkMatcher(w, labels.MatchRegexp, name, ".*")
	default:
		return mkMatcher(w, labels.MatchNotEqual, name, "")
	}
}

type desc struct {
	World   int      `json:"world"`
	Target  string   `json:"target"`
	Query   string   `json:"query"`
	Ms      []string `json:"matchers"`
	Mint    int64    `json:"mint"`
	Maxt    int64    `json:"maxt"`
	Obs     string   `json:"obs"`
	Shape   string   `json:"shape"`
	Series  []string `json:"series"`
}

func pickTime(r *gen.Rand, w *world) int64 {
	switch r.Intn(5) {
	case 0:
		return r.Range(-50, 3100)
	case 1:
		return r.PickI64(0, 999, 1000, 1999, 2000, 2999, 3000)
	default:
		s := gen.Pick(r, w.series)
		if len(s.times) == 0 {
			return r.Range(0, 3000)
		}
		return gen.Pick(r, s.times) + r.Range(-1, 1)
	}
}

func main() {
	f := gallina.ParseFlags()
	meta := gallina.NewMeta("C16", f.Seed, f.Tier)
	meta.Rule = "one case = one query on a real querier; world 0 replays the corpus of empty-label-name reproducers; worlds 4 (corpus), 6, 8 mod 10 create the head series with explicit refs in non-monotonic insertion order (Head.VerifCreateSeriesWithRef), and every head's postings lists are checked Go-side to be sorted by ref; every 10th world (and worlds 1, 2 as corpus: 33 and 65 values) is a wide world: a label with 31..97 distinct values (postings offset table sampling boundaries) in a block and in the head, queried with LabelValues and regex/non-empty/empty matchers on it; worlds (DBs) are generated with 1..8 (thorough 14) series over 4 label names, samples in up to 3 phases (2 compacted to blocks, 1 in head); queries: Select(sorted/unsorted) / LabelValues / LabelNames with 0..4 generated matchers (=,!=,=~,!~; regexes from a pool incl. .*, .+, empty-matching, set-style, negations on absent labels, duplicates on one name), time range, limit; targets: one block, range head, DB.Querier. non-trivial = at least one matcher and the unlimited answer is neither empty nor everything stored; distinct by (world, target, query, matchers, range)"
	// intern every pool string (names, values, regexes and their SetMatches)
	for _, s := range []string{"", "zz", "nope"} {
		intern(s)
	}
	for _, n := range namePool {
		intern(n)
		for _, v := range valuePool[n] {
			intern(v)
		}
	}
	for _, n := range []string{"w", "bb"} {
		intern(n)
	}
	for i := 0; i < 97; i++ {
		intern(wideValue(i))
	}
	for _, c := range wideRestrict {
		intern(c.v)
	}
	for _, re := range wideRegexes {
		intern(re)
		for _, v := range labels.MustNewMatcher(labels.MatchRegexp, "a", re).SetMatches() {
			intern(v)
		}
	}
	for _, re := range regexPool {
		intern(re)
		for _, v := range labels.MustNewMatcher(labels.MatchRegexp, "a", re).SetMatches() {
			intern(v)
		}
	}
	header := "From Coq Require Import List ZArith NArith.\nFrom Verif Require Import model.Postings corr.CorrC16.\nImport ListNotations.\nOpen Scope Z_scope.\n" +
		strings.Join(internDefs, "\n") + "\n"
	cf := &gallina.CaseFile{Dir: f.Out, Type: "case", PerShard: 0, Preamble: header, Footer: gallina.StdFooter}
	var shardDefs []string
	thorough := f.Tier == "thorough"
	worldsPerShard := 10
	if thorough {
		worldsPerShard = 50
	}
	nWorlds := f.Count(40, 300)
	perWorld := 14
	if thorough {
		perWorld = 30
	}
	tmp, err := os.MkdirTemp(f.Out, "c16db")
	check(err)
	defer os.RemoveAll(tmp)
	id := 0
	seen := map[string]bool{}
	for wi := 0; wi < nWorlds; wi++ {
		r := gen.Fork(f.Seed, wi)
		dir, err := os.MkdirTemp(tmp, "w")
		check(err)
		wide, wname := 0, ""
		switch {
		case wi == 1: // corpus: 33 values, label name that is not the last one of the table
			wide, wname = 33, "bb"
		case wi == 2: // corpus: 65 values, last label name of the table
			wide, wname = 65, "w"
		case wi%10 == 3:
			wide, wname = int(gen.Pick(r, wideSizes)), gen.Pick(r, []string{"w", "bb"})
		}
		shuffle := 0
		switch {
		case wi == 4: // corpus: new series arrive with ever lower refs
			shuffle = 2
		case wi%10 == 6 || wi%10 == 8:
			shuffle = 1
		}
		w := buildWorld(r, wi, dir, thorough, wide, wname, shuffle)
		if shuffle > 0 {
			meta.Hit("shuffled-ref-head")
		}
		for _, u := range w.unsorted {
			meta.GoViol = append(meta.GoViol, gallina.GoViolation{ID: fmt.Sprintf("world%d", wi), Shape: "mempostings-unsorted",
				What: "head MemPostings list not sorted by ref after construction: " + u})
		}
		if wide > 0 {
			meta.Hit(fmt.Sprintf("wide-world:%d", wide))
		}
		var seriesDesc []string
		for _, s := range w.series {
			seriesDesc = append(seriesDesc, fmt.Sprintf("%s@%v", s.lset.String(), s.times))
		}
		for qi := 0; qi < perWorld; qi++ {
			// matchers
			var gms []gmatcher
			nm := r.Intn(5)
			if qi == 0 {
				nm = 0
			}
			for j := 0; j < nm; j++ {
				gm := genMatcher(r, w)
				if j > 0 && r.Chance(1, 4) { // duplicate matcher name
					prev := gms[r.Intn(len(gms))]
					gm = mkMatcher(w, labels.MatchType(r.Intn(4)), prev.m.Name, gm.m.Value)
				}
				gms = append(gms, gm)
			}
			if w.wide > 0 && qi >= 2 {
				gms = nil
				for j, k := 0, r.Intn(3); j < k; j++ {
					gms = append(gms, genWide(r, w))
				}
				if r.Chance(1, 5) {
					gms = append(gms, genMatcher(r, w))
				}
				switch qi { // fixed reproducers of the sampling-boundary shapes
				case 2:
					gms = []gmatcher{mkMatcher(w, labels.MatchRegexp, w.wname, ".+")}
				case 3:
					gms = []gmatcher{mkMatcher(w, labels.MatchNotEqual, w.wname, "")}
				case 4:
					gms = []gmatcher{mkMatcher(w, labels.MatchEqual, w.wname, "")}
				case 5:
					gms = nil
				}
			}
			if w.shuffle == 2 && qi >= 2 && qi <= 5 {
				switch qi {
				case 2:
					gms = []gmatcher{mkMatcher(w, labels.MatchEqual, "job", "db"), mkMatcher(w, labels.MatchRegexp, "c", ".+")}
				case 3:
					gms = []gmatcher{mkMatcher(w, labels.MatchEqual, "job", "db"), mkMatcher(w, labels.MatchNotEqual, "a", "x")}
				case 4:
					gms = []gmatcher{mkMatcher(w, labels.MatchEqual, "job", "db")}
				case 5:
					gms = []gmatcher{mkMatcher(w, labels.MatchEqual, "job", "db"), mkMatcher(w, labels.MatchNotEqual, "c", "")}
				}
			}
			forcedName := "" // LabelValues on this name (limit stream 2)
			forcedLimit := 0
			if w.wide > 0 && qi >= 6 && qi <= 9 {
				// corpus for the same-name pre-filter of labelValuesWithMatchers
				broad := mkMatcher(w, labels.MatchRegexp, w.wname, "v.+")
				switch qi {
				case 6:
					gms = []gmatcher{broad, mkMatcher(w, labels.MatchNotRegexp, w.wname, "v0[0-2].")}
					forcedLimit = 3
				case 7:
					gms = []gmatcher{broad, mkMatcher(w, labels.MatchEqual, "a", "y")}
					forcedLimit = 2
				case 8:
					gms = []gmatcher{mkMatcher(w, labels.MatchNotRegexp, w.wname, "v0[0-2]."), broad}
					forcedLimit = 3
				case 9:
					gms = []gmatcher{mkMatcher(w, labels.MatchEqual, "a", "y"), broad}
					forcedLimit = 2
				}
				forcedName = w.wname
			}
			if qi >= 10 && qi <= 12 || (thorough && qi >= 20 && qi <= 25) {
				if n, g, ok := genSameName(r, w); ok {
					forcedName, gms, forcedLimit = n, g, 1+r.Intn(5)
				}
			}
			if wi == 0 && qi >= 6 && qi-6 < len(corpus) {
				gms = nil
				for _, c := range corpus[qi-6] {
					gms = append(gms, mkMatcher(w, c.t, c.n, c.v))
				}
			}
			switch {
			case qi == 1:
				gms = []gmatcher{mkMatcher(w, labels.MatchEqual, "", "")} // the all-series idiom
			case qi == 2 && r.Chance(1, 2):
				// all-postings key inside a longer list: "unexpected all postings" or early empty
				gms = append(gms, mkMatcher(w, labels.MatchEqual, "", ""))
			}
			// range
			var mint, maxt int64
			switch r.Intn(8) {
			case 0:
				mint, maxt = math.MinInt64, math.MaxInt64
			case 1:
				mint, maxt = 0, 2999
			case 2, 3:
				// boundary: mint on (or just after) the last sample of a series in one phase,
				// i.e. the MaxTime of a persisted chunk
				s := gen.Pick(r, w.series)
				ts := s.phase[r.Intn(3)]
				if len(ts) == 0 {
					ts = s.times
				}
				if len(ts) > 0 {
					mint = ts[len(ts)-1]
					if r.Chance(1, 4) {
						mint++
					}
				}
				maxt = mint + r.Range(0, 600)
				if r.Chance(1, 4) {
					maxt = math.MaxInt64
				}
			case 4:
				// boundary: maxt on (or just before) the first sample of a series in one phase
				s := gen.Pick(r, w.series)
				ts := s.phase[r.Intn(3)]
				if len(ts) == 0 {
					ts = s.times
				}
				if len(ts) > 0 {
					maxt = ts[0]
					if r.Chance(1, 4) {
						maxt--
					}
				}
				mint = maxt - r.Range(0, 600)
				if r.Chance(1, 4) {
					mint = math.MinInt64
				}
			default:
				a, b := pickTime(r, w), pickTime(r, w)
				if a > b {
					a, b = b, a
				}
				mint, maxt = a, b
			}
			if wi == 0 && qi >= 6 && qi-6 < len(corpus) {
				mint, maxt = math.MinInt64, math.MaxInt64
			}
			if w.wide > 0 && qi >= 2 && qi <= 9 {
				mint, maxt = math.MinInt64, math.MaxInt64
			}
			if w.shuffle == 2 && qi >= 2 && qi <= 5 {
				mint, maxt = math.MinInt64, math.MaxInt64
			}
			// target
			mode, target := "DB", "db"
			var stores []gstore
			ti := r.Intn(len(w.stores) + 2)
			if w.wide > 0 && qi >= 2 && qi <= 5 {
				ti = 1 // the persisted block
				if qi == 3 {
					ti = len(w.stores) // DB.Querier
				}
			}
			if w.wide > 0 && qi >= 6 && qi <= 9 {
				ti = (qi + wi) % 2 // head or block
			}
			if w.shuffle == 2 && qi >= 2 && qi <= 5 {
				ti = 0 // the head
			} else if w.shuffle > 0 && r.Chance(1, 2) {
				ti = 0
			}
			if ti < len(w.stores) {
				mode = "Direct"
				stores = []gstore{w.stores[ti]}
				target = fmt.Sprintf("store%d", ti)
			} else {
				stores = w.stores
			}
			var q storage.Querier
			switch {
			case mode == "DB":
				q, err = w.db.Querier(mint, maxt)
			case stores[0].head:
				q, err = tsdb.NewBlockQuerier(tsdb.NewRangeHead(w.db.Head(), mint, maxt), mint, maxt)
			default:
				q, err = tsdb.NewBlockQuerier(stores[0].block, mint, maxt)
			}
			check(err)
			ms := func() []*labels.Matcher { // fresh slice per call: PostingsForMatchers reorders it
				out := make([]*labels.Matcher, len(gms))
				for i, g := range gms {
					out[i] = g.m
				}
				return out
			}
			// query
			var qterm, qdesc, obs, obsDesc string
			var nOut, nAll int
			limit := 0
			if r.Chance(3, 5) {
				limit = int(r.PickI64(1, 1, 2, 2, 3, 5))
			}
			kindSel := int(r.PickI64(0, 0, 0, 1, 1, 2, 2, 2, 2, 3, 3))
			isCorpus := wi == 0 && qi >= 6 && qi-6 < len(corpus)
			if isCorpus {
				kindSel = 0
			}
			if forcedName != "" && !isCorpus {
				kindSel, limit = 2, forcedLimit
			}
			wideFixed := w.wide > 0 && qi >= 2 && qi <= 5
			if wideFixed {
				kindSel, limit = 0, 0
				if qi == 5 {
					kindSel = 2
				}
			}
			shufFixed := w.shuffle == 2 && qi >= 2 && qi <= 5
			if shufFixed {
				limit = 0
				kindSel = map[int]int{2: 0, 3: 1, 4: 2, 5: 3}[qi]
			}
			if w.wide == 0 && !shufFixed && qi >= 3 && qi <= 5 {
				// limit stream: LabelValues/LabelNames with a small limit and one or two broad
				// matchers on other labels (exercises the limit inside labelValuesWithMatchers)
				kindSel = 2 + r.Intn(2)
				limit = 1 + r.Intn(2)
				gms = []gmatcher{genBroad(r, w)}
				if r.Bool() {
					gms = append(gms, genBroad(r, w))
				}
			}
			isErr := false
			switch kindSel {
			case 0, 1:
				sorted := kindSel == 0
				var hints *storage.SelectHints
				if r.Bool() {
					hints = &storage.SelectHints{Start: mint, End: maxt}
				}
				set := q.Select(ctx, sorted, hints, ms()...)
				var out []string
				for set.Next() {
					out = append(out, gLabels(set.At().Labels()))
				}
				if set.Err() != nil {
					isErr = true
					obsDesc = set.Err().Error()
				} else {
					obs = "(ObsSeries " + gallina.List(out) + ")"
					obsDesc = fmt.Sprintf("%d series", len(out))
				}
				nOut = len(out)
				qterm = "(QSelect " + gallina.Bool(sorted) + ")"
				qdesc = fmt.Sprintf("Select(sorted=%v,hints=%v)", sorted, hints != nil)
			case 2:
				name := gen.Pick(r, namePool)
				if r.Chance(1, 10) {
					name = "zz"
				}
				if w.wide > 0 && (wideFixed || r.Chance(2, 3)) {
					name = w.wname
				}
				if w.shuffle == 2 && qi == 4 {
					name = "c"
				}
				if forcedName != "" {
					name = forcedName
					meta.Hit("limit-stream-same-name")
				}
				lim, _, err1 := q.LabelValues(ctx, name, &storage.LabelHints{Limit: limit}, ms()...)
				var hints0 *storage.LabelHints
				if r.Bool() {
					hints0 = &storage.LabelHints{}
				}
				unlim, _, err2 := q.LabelValues(ctx, name, hints0, ms()...)
				if err1 != nil || err2 != nil {
					isErr = true
					obsDesc = fmt.Sprint(err1, err2)
				} else {
					obs = "(ObsStrs " + gStrs(lim) + " " + gStrs(unlim) + ")"
					obsDesc = fmt.Sprintf("%q of %q", lim, unlim)
				}
				nOut = len(unlim)
				qterm = fmt.Sprintf("(QValues %s %s)", gStr(name), gallina.Z(int64(limit)))
				qdesc = fmt.Sprintf("LabelValues(%s,limit=%d)", name, limit)
			default:
				lim, _, err1 := q.LabelNames(ctx, &storage.LabelHints{Limit: limit}, ms()...)
				unlim, _, err2 := q.LabelNames(ctx, nil, ms()...)
				if err1 != nil || err2 != nil {
					isErr = true
					obsDesc = fmt.Sprint(err1, err2)
				} else {
					obs = "(ObsStrs " + gStrs(lim) + " " + gStrs(unlim) + ")"
					obsDesc = fmt.Sprintf("%q of %q", lim, unlim)
				}
				nOut = len(unlim)
				qterm = fmt.Sprintf("(QNames %s)", gallina.Z(int64(limit)))
				qdesc = fmt.Sprintf("LabelNames(limit=%d)", limit)
			}
			check(q.Close())
			if isErr {
				obs = "ObsErr"
			}
			var mterms, mdescs []string
			for _, g := range gms {
				mterms = append(mterms, g.term)
				mdescs = append(mdescs, g.desc)
			}
			var sterms []string
			for _, s := range stores {
				sterms = append(sterms, s.term)
				nAll += s.nseries
			}
			key := fmt.Sprint(wi, target, qdesc, mdescs, mint, maxt)
			if seen[key] {
				continue
			}
			seen[key] = true
			// classes
			meta.Hit("target:" + map[bool]string{true: "db", false: "single"}[mode == "DB"] + fmt.Sprintf("/%dstores", len(stores)))
			meta.Hit("query:" + strings.SplitN(qdesc, "(", 2)[0])
			meta.Hit(fmt.Sprintf("matchers:%d", len(gms)))
			if limit > 0 && kindSel >= 2 {
				meta.Hit("limited")
			}
			if isErr {
				meta.Hit("error")
			}
			for _, g := range gms {
				me := g.m.Matches("")
				meta.Hit(fmt.Sprintf("m:%s/matchesEmpty=%v", g.m.Type, me))
				if g.m.Value == ".*" || g.m.Value == ".+" {
					meta.Hit("m:special-" + g.m.Value)
				}
				if len(g.m.SetMatches()) > 0 {
					meta.Hit("m:set")
				}
			}
			if len(gms) > 0 && nOut > 0 && nOut < nAll && !isErr {
				meta.Nontrivial++
			}
			shape := "ok"
			if isErr {
				shape = "error"
			}
			for _, g := range gms {
				if g.m.Name == "" && !(len(gms) == 1 && g.m.Value == "" && (g.m.Type == labels.MatchEqual || g.m.Type == labels.MatchRegexp)) {
					shape = "empty-label-name-matcher" // known finding: pseudo pair ""="" is visible to matchers
					meta.Hit("empty-label-name")
				}
			}
			truth := w.truth
			if mode == "Direct" {
				truth = stores[0].truth
			}
			cf.Add(fmt.Sprintf("mkCase %s %s %s %s %s %s %s %s %s", gallina.Z(int64(id)), mode, gallina.List(sterms),
				truth, gallina.Z(mint), gallina.Z(maxt), qterm, gallina.List(mterms), obs))
			meta.Case(id, desc{World: wi, Target: target, Query: qdesc, Ms: mdescs, Mint: mint, Maxt: maxt, Obs: obsDesc, Shape: shape, Series: seriesDesc})
			meta.Evaluations++
			id++
		}
		check(w.db.Close())
		os.RemoveAll(dir)
		shardDefs = append(shardDefs, w.defs...)
		if (wi+1)%worldsPerShard == 0 {
			cf.Preamble = header + strings.Join(shardDefs, "\n") + "\n"
			cf.Flush()
			shardDefs = nil
		}
	}
	cf.Preamble = header + strings.Join(shardDefs, "\n") + "\n"
	cf.Flush()
	meta.Write(f.Out)
}

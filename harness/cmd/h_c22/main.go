// h_c22: correspondence harness for C22 (samples are never attributed to the wrong series).
//
// Every case is one history against a real tsdb.DB: transactions of float appends through
// Appender.Append(ref, labels, t, v) where ref is 0 or whatever the client cached for these labels
// (possibly stale: the series may have been garbage-collected or evicted meanwhile), head
// truncation steps (CompactHead = block cut + Head.truncateMemory + Head.truncateWAL),
// CompactOOOHead, CompactStaleHead, CompactSelectedSeries, m-mapping passes, clean restarts and
// crashes (the next lifetime is opened on a copy of the directory taken while the database was
// open), fast startup on/off per lifetime. The value of every sample encodes the id of the label
// set it was appended with, so that every later observation (query, head chunks, head-chunk
// files, WAL/WBL records) tells which label set a sample belongs to.
package main

import (
	"context"
	"fmt"
	"os"
	"path/filepath"
	"runtime/pprof"
	"sort"
	"strings"
	"sync"

	"github.com/prometheus/prometheus/storage"

	"verif/harness/internal/gallina"
	"verif/harness/internal/gen"
)

type appEv struct {
	CRef  int64
	L     int64
	T     int64
	OK    bool
	Stale bool
	Ret   int64
}

type event struct {
	Kind   string // tx trunc gc evict restart head ghosts wal query
	Apps   []appEv
	Mint   int64
	Dead   [][2]int64
	R      *restartObs
	Last   int64
	Series [][2]int64
	Ghosts [][]int64 // ref :: ghost ids
	Q      []qres
}

type runner struct {
	s       *sys
	r       *gen.Rand
	evs     []event
	clock   int64
	seq     int64
	cache   map[int64]uint64 // client cache: lset id -> ref (this lifetime)
	lastT   map[int64]int64  // lset id -> highest timestamp appended in order
	used    map[[2]int64]bool
	trace   []string
	errs    []string
	nLife   int
	fixed   int64 // > 0: the clock advances by exactly this much per transaction (corpus histories)
	classes map[string]bool
}

func (x *runner) note(f string, a ...any) { x.trace = append(x.trace, fmt.Sprintf(f, a...)) }
func (x *runner) fail(f string, a ...any) { x.errs = append(x.errs, fmt.Sprintf(f, a...)) }

func (x *runner) obsHead() {
	m, _ := x.s.seriesMap()
	x.evs = append(x.evs, event{Kind: "head", Last: x.s.last(), Series: m})
}

func (x *runner) obsGhosts() {
	m, g := x.s.seriesMap()
	var out [][]int64
	for _, p := range m {
		out = append(out, append([]int64{p[0]}, g[uint64(p[0])]...))
	}
	x.evs = append(x.evs, event{Kind: "ghosts", Ghosts: out})
}

type appSpec struct {
	L      int64
	UseRef bool // pass the cached ref (if any) instead of 0
	OOO    bool
	Stale  bool
}

func (x *runner) tx(specs []appSpec) {
	if x.fixed > 0 {
		x.clock += x.fixed
	} else {
		x.clock += x.r.Range(20, 420) * 2
	}
	var reqs []appReq
	for _, sp := range specs {
		t := x.clock
		if sp.OOO && x.lastT[sp.L] > 3 {
			lo := x.lastT[sp.L] - x.s.cfg.OOOWindow/2
			if lo < 1 {
				lo = 1
			}
			t = x.r.Range(lo, x.lastT[sp.L]-1) | 1 // odd timestamps are only used out of order
			if x.fixed > 0 {
				t = (x.lastT[sp.L] - x.fixed/2) | 1
			}
			if x.used[[2]int64{sp.L, t}] || t >= x.lastT[sp.L] {
				t = x.clock
			}
		}
		x.used[[2]int64{sp.L, t}] = true
		x.seq++
		rq := appReq{L: sp.L, T: t, Stale: sp.Stale, V: float64(sp.L*ghostMul + x.seq%ghostMul)}
		if sp.UseRef {
			rq.CRef = x.cache[sp.L]
		}
		reqs = append(reqs, rq)
	}
	res, err := x.s.tx(reqs)
	if err != nil {
		x.fail("commit: %v", err)
	}
	ev := event{Kind: "tx"}
	for i, rq := range reqs {
		a := appEv{CRef: int64(rq.CRef), L: rq.L, T: rq.T, OK: res[i].OK, Stale: rq.Stale, Ret: int64(res[i].Ret)}
		if a.OK {
			x.cache[rq.L] = res[i].Ret
			if rq.T > x.lastT[rq.L] {
				x.lastT[rq.L] = rq.T
			}
		}
		ev.Apps = append(ev.Apps, a)
		x.note("app(l%d,ref%d,t%d%s)->%d/%v", a.L, a.CRef, a.T, map[bool]string{true: ",stale"}[a.Stale], a.Ret, a.OK)
	}
	x.evs = append(x.evs, ev)
	x.obsHead()
}

func (x *runner) trunc(force bool) {
	h := x.s.db.Head()
	if !(h.VerifCompactable() || (force && h.MinTime() <= h.MaxTime() && h.MaxTime()-h.MinTime() > blockRange)) {
		return
	}
	before, _ := x.s.seriesMap()
	mint, err := x.s.truncateStep()
	if err != nil {
		x.fail("truncate: %v", err)
		return
	}
	after, _ := x.s.seriesMap()
	dead := deadOf(before, after, h.VerifC22WALExpiries(), mint-1)
	x.evs = append(x.evs, event{Kind: "trunc", Mint: mint, Dead: dead})
	x.note("trunc(%d) dead=%v", mint, dead)
	x.classes["trunc"] = true
	if len(dead) > 0 {
		x.classes["gc"] = true
	}
	x.obsHead()
}

func (x *runner) gcLike(kind string, f func() error) {
	before, _ := x.s.seriesMap()
	if err := f(); err != nil {
		x.fail("%s: %v", kind, err)
		return
	}
	after, _ := x.s.seriesMap()
	dead := deadOf(before, after, x.s.db.Head().VerifC22WALExpiries(), -1)
	k := "gc"
	if kind != "ooo" {
		k = "evict"
	}
	x.evs = append(x.evs, event{Kind: k, Dead: dead})
	x.note("%s dead=%v", kind, dead)
	if len(dead) > 0 {
		x.classes[kind+"-removed"] = true
	}
	x.obsHead()
}

func (x *runner) oooCompact() {
	x.gcLike("ooo", func() error { return x.s.db.CompactOOOHead(context.Background()) })
}
func (x *runner) staleCompact() { x.gcLike("stale", func() error { return x.s.db.CompactStaleHead() }) }
func (x *runner) selected(ls []int64) {
	var refs []storage.SeriesRef
	m, _ := x.s.seriesMap()
	for _, p := range m {
		for _, l := range ls {
			if p[1] == l {
				refs = append(refs, storage.SeriesRef(p[0]))
			}
		}
	}
	x.gcLike("selected", func() error { return x.s.db.CompactSelectedSeries(refs) })
}

func (x *runner) mmap() {
	x.s.db.Head().VerifC22MmapHeadChunks()
	x.note("mmap")
}

func (x *runner) restart(clean, fast bool) bool {
	o, err := x.s.restart(clean, fast)
	if err != nil {
		x.fail("restart: %v", err)
		return false
	}
	x.nLife++
	x.evs = append(x.evs, event{Kind: "wal", R: o})
	x.evs = append(x.evs, event{Kind: "restart", R: o})
	x.cache = map[int64]uint64{}
	x.note("restart(clean=%v,fast=%v->%v) sf=%v minValid=%d chunks=%d", clean, o.FastOld, fast, o.SF != nil, o.MinValid, len(o.Chunks))
	if clean {
		x.classes["restart-clean"] = true
	} else {
		x.classes["restart-crash"] = true
	}
	if fast {
		x.classes["fast"] = true
	}
	if len(o.Ckpt) > 0 {
		x.classes["checkpoint"] = true
	}
	x.obsHead()
	x.obsGhosts()
	return true
}

func (x *runner) query() {
	q, err := x.s.query()
	if err != nil {
		x.fail("query: %v", err)
		return
	}
	x.evs = append(x.evs, event{Kind: "query", Q: q})
}

// ---------------------------------------------------------------- Gallina printing

func zz(v int64) string {
	if v < 0 {
		return fmt.Sprintf("(%d)", v)
	}
	return fmt.Sprintf("%d", v)
}

func pairsZ(ps [][2]int64) string {
	it := make([]string, len(ps))
	for i, p := range ps {
		it[i] = "(" + zz(p[0]) + "," + zz(p[1]) + ")"
	}
	return gallina.List(it)
}

func listZ(vs []int64) string {
	it := make([]string, len(vs))
	for i, v := range vs {
		it[i] = zz(v)
	}
	return gallina.List(it)
}

func recsG(rs []rec) string {
	it := make([]string, len(rs))
	for i, r := range rs {
		switch r.Kind {
		case 0:
			it[i] = fmt.Sprintf("RSeries %d %s", r.Ref, zz(r.L))
		case 1:
			it[i] = fmt.Sprintf("RSample %d %s %s", r.Ref, zz(r.L), zz(r.T))
		case 2:
			it[i] = fmt.Sprintf("RTomb %d", r.Ref)
		default:
			it[i] = fmt.Sprintf("RTombIv %d", r.Ref)
		}
	}
	return gallina.List(it)
}

func (e event) gallina() string {
	switch e.Kind {
	case "tx":
		it := make([]string, len(e.Apps))
		rets := make([]int64, len(e.Apps))
		for i, a := range e.Apps {
			it[i] = fmt.Sprintf("mkApp %d %s %s %s %s", a.CRef, zz(a.L), zz(a.T), gallina.Bool(a.OK), gallina.Bool(a.Stale))
			rets[i] = a.Ret
		}
		return "EOp (OTx " + gallina.List(it) + "); ERets " + listZ(rets)
	case "trunc":
		return fmt.Sprintf("EOp (OTruncate %s %s)", zz(e.Mint), pairsZ(e.Dead))
	case "gc":
		return "EOp (OGc " + pairsZ(e.Dead) + ")"
	case "evict":
		return "EOp (OEvict " + pairsZ(e.Dead) + ")"
	case "wal":
		segs := make([]string, len(e.R.Segs))
		for i, s := range e.R.Segs {
			segs[i] = recsG(s)
		}
		return fmt.Sprintf("EWal %s %s %d", recsG(e.R.Ckpt), gallina.List(segs), e.R.First)
	case "restart":
		sf := "None"
		if e.R.SF != nil {
			sf = fmt.Sprintf("(Some (%d, %s, %s))", e.R.SF.LastSeriesID, zz(int64(e.R.SF.LastWALSegment)), gallina.Bool(e.R.SF.CleanShutdown))
		}
		cs := make([]string, len(e.R.Chunks))
		for i, c := range e.R.Chunks {
			cs[i] = fmt.Sprintf("mkChunk %d %s %s %s", c.Ref, gallina.Bool(c.OOO), zz(c.MaxT), listZ(c.Ghosts))
		}
		return fmt.Sprintf("EOp (ORestart %s %s %s %s %s %s %s %s %s)", gallina.Bool(e.R.Clean), gallina.Bool(e.R.FastOld), gallina.Bool(e.R.FastNew),
			sf, zz(e.R.MinValid), gallina.List(cs), recsG(e.R.WBL), pairsZ(e.R.ExpAfter), listZ(e.R.Alive))
	case "head":
		return fmt.Sprintf("EHead %s %s", zz(e.Last), pairsZ(e.Series))
	case "ghosts":
		it := make([]string, len(e.Ghosts))
		for i, g := range e.Ghosts {
			it[i] = "(" + zz(g[0]) + "," + listZ(g[1:]) + ")"
		}
		return "EGhosts " + gallina.List(it)
	case "query":
		it := make([]string, len(e.Q))
		for i, q := range e.Q {
			it[i] = "(" + zz(q.L) + "," + listZ(q.Ghosts) + ")"
		}
		return "EQuery " + gallina.List(it)
	}
	panic("unknown event " + e.Kind)
}

// ---------------------------------------------------------------- Go-side classification (shape keys)

// shapeOf classifies what the implementation showed, independently of Coq (used for the
// `shape` key of the case description; the verdict itself is computed by Coq's holds).
func shapeOf(evs []event) string {
	shape := "ok"
	bind := map[int64]map[int64]string{} // ref -> lset -> source
	add := func(ref, l int64, src string) {
		if bind[ref] == nil {
			bind[ref] = map[int64]string{}
		}
		if _, ok := bind[ref][l]; !ok {
			bind[ref][l] = src
		}
	}
	for _, e := range evs {
		switch e.Kind {
		case "restart":
			bind = map[int64]map[int64]string{}
			for _, r := range e.R.Ckpt {
				if r.Kind == 0 {
					add(int64(r.Ref), r.L, "wal-series")
				} else if r.Kind == 1 {
					add(int64(r.Ref), r.L, "wal-sample")
				}
			}
			for _, sg := range e.R.Segs {
				for _, r := range sg {
					if r.Kind == 0 {
						add(int64(r.Ref), r.L, "wal-series")
					} else if r.Kind == 1 {
						add(int64(r.Ref), r.L, "wal-sample")
					}
				}
			}
			for _, r := range e.R.WBL {
				if r.Kind == 1 {
					add(int64(r.Ref), r.L, "wbl-sample")
				}
			}
			for _, c := range e.R.Chunks {
				for _, g := range c.Ghosts {
					if c.OOO {
						add(int64(c.Ref), g, "ooo-chunk-file")
					} else {
						add(int64(c.Ref), g, "chunk-file")
					}
				}
			}
		case "tx":
			for _, a := range e.Apps {
				if !a.OK {
					continue
				}
				for l, src := range bind[a.Ret] {
					if l != a.L && shape == "ok" {
						shape = "ref-reused-while-" + src + "-refers-to-it"
					}
				}
				add(a.Ret, a.L, "client-cache")
			}
		case "query":
			for _, q := range e.Q {
				for _, g := range q.Ghosts {
					if g != q.L && shape == "ok" {
						shape = "query-returns-sample-under-wrong-labels"
					}
				}
			}
		}
	}
	return shape
}

// ---------------------------------------------------------------- histories

func newRunner(root string, r *gen.Rand, cfg sysCfg, fast bool) (*runner, error) {
	s := &sys{root: root, dir: filepath.Join(root, "g0"), cfg: cfg}
	if err := os.MkdirAll(s.dir, 0o755); err != nil {
		return nil, err
	}
	if err := s.open(fast); err != nil {
		return nil, err
	}
	return &runner{s: s, r: r, clock: 100, cache: map[int64]uint64{}, lastT: map[int64]int64{}, used: map[[2]int64]bool{}, classes: map[string]bool{}, nLife: 1}, nil
}

func (x *runner) randomTx(nl int64, ooo bool) {
	n := 1 + x.r.Intn(3)
	var sp []appSpec
	seen := map[int64]bool{}
	for i := 0; i < n; i++ {
		l := int64(x.r.Intn(int(nl)))
		if x.r.Chance(1, 2) {
			l = int64(x.r.Intn(2)) // two long-lived series
		}
		if seen[l] {
			continue
		}
		seen[l] = true
		a := appSpec{L: l, UseRef: x.r.Chance(2, 3)}
		if ooo && x.r.Chance(1, 4) {
			a.OOO = true
		}
		if l >= 2 && x.r.Chance(1, 8) {
			a.Stale = true
		}
		sp = append(sp, a)
	}
	x.tx(sp)
}

func randomHistory(x *runner, steps int) {
	ooo := x.s.cfg.OOOWindow > 0
	nl := int64(4 + x.r.Intn(4))
	for i := 0; i < steps && len(x.errs) == 0; i++ {
		switch p := x.r.Intn(100); {
		case p < 52:
			x.randomTx(nl, ooo)
		case p < 64:
			x.trunc(x.r.Chance(1, 3))
		case p < 68:
			if ooo {
				x.oooCompact()
			}
		case p < 72:
			x.staleCompact()
		case p < 75:
			x.selected([]int64{int64(2 + x.r.Intn(int(nl-2)))})
		case p < 84:
			x.restart(true, x.r.Chance(1, 2))
		case p < 91:
			x.restart(false, x.r.Chance(1, 2))
		case p < 96:
			x.mmap()
		default:
			x.query()
		}
	}
	if len(x.errs) == 0 {
		x.query()
		if x.restart(x.r.Bool(), x.r.Bool()) {
			x.randomTx(nl, ooo)
			x.randomTx(nl, ooo)
			x.query()
		}
	}
}

// corpus: fixed histories run first.
var corpus = []struct {
	name string
	cfg  sysCfg
	fast bool
	step int64
	run  func(x *runner)
}{
	{"retire-highest-ref-then-restart", sysCfg{SamplesPerChunk: 3}, false, 420, func(x *runner) {
		// series 0 lives on; series 1 (highest ref) is appended once and garbage-collected; several
		// restarts and truncations later its records leave the WAL; new series are created after a restart.
		x.tx([]appSpec{{L: 0}, {L: 1}})
		x.restart(true, false)
		x.restart(true, false)
		x.restart(true, false)
		for i := 0; i < 9; i++ {
			x.tx([]appSpec{{L: 0, UseRef: true}})
			x.trunc(false)
		}
		x.restart(true, false)
		x.tx([]appSpec{{L: 2}, {L: 0, UseRef: true}})
		x.query()
		x.restart(false, false)
		x.tx([]appSpec{{L: 3}, {L: 1}})
		x.query()
	}},
	{"stale-eviction-tombstone-keeps-ref", sysCfg{SamplesPerChunk: 3}, true, 300, func(x *runner) {
		x.tx([]appSpec{{L: 0}, {L: 1}, {L: 2}})
		x.tx([]appSpec{{L: 0, UseRef: true}, {L: 2, UseRef: true, Stale: true}})
		x.staleCompact()
		x.tx([]appSpec{{L: 0, UseRef: true}, {L: 2, UseRef: true}})
		x.restart(true, true)
		x.tx([]appSpec{{L: 3}, {L: 2}})
		x.query()
		x.restart(false, true)
		x.tx([]appSpec{{L: 4}})
		x.query()
	}},
	{"fast-startup-toggle", sysCfg{SamplesPerChunk: 3}, true, 300, func(x *runner) {
		x.tx([]appSpec{{L: 0}, {L: 1}})
		x.restart(true, false)
		x.tx([]appSpec{{L: 2}, {L: 3}})
		x.restart(true, true) // reads the stale state file of lifetime 1
		x.tx([]appSpec{{L: 4}, {L: 2, UseRef: true}})
		x.query()
		x.restart(false, true)
		x.tx([]appSpec{{L: 5}})
		x.query()
	}},
	{"ooo-chunk-file-outlives-series", sysCfg{SamplesPerChunk: 3, OOOWindow: 100000, OOOCapMax: 4}, false, 450, func(x *runner) {
		x.tx([]appSpec{{L: 0}, {L: 1}})
		x.tx([]appSpec{{L: 0, UseRef: true}, {L: 1, UseRef: true}})
		x.tx([]appSpec{{L: 1, UseRef: true, OOO: true}})
		x.restart(true, false)
		x.restart(true, false)
		for i := 0; i < 8; i++ {
			x.tx([]appSpec{{L: 0, UseRef: true}})
		}
		x.mmap()
		x.oooCompact()
		for i := 0; i < 6; i++ {
			x.trunc(false)
			x.tx([]appSpec{{L: 0, UseRef: true}})
		}
		x.restart(true, false)
		x.tx([]appSpec{{L: 2}})
		x.query()
		x.restart(true, false)
		x.tx([]appSpec{{L: 3}})
		x.query()
	}},
	{"tombstone-only-remembers-evicted-ref", sysCfg{SamplesPerChunk: 3}, false, 100, func(x *runner) {
		// series 2 (highest ref) turns stale and is evicted by CompactStaleHead (a full-range tombstone
		// record is logged); the first checkpoint drops its series record while the tombstone is still
		// in a later segment: after the restart only the tombstone remembers that ref 3 was allocated.
		x.tx([]appSpec{{L: 0}, {L: 1}, {L: 2}})
		x.restart(true, false)
		x.restart(true, false)
		x.restart(true, false)
		x.tx([]appSpec{{L: 0, UseRef: true}, {L: 1}, {L: 2}})
		x.tx([]appSpec{{L: 0, UseRef: true}, {L: 2, UseRef: true, Stale: true}})
		x.staleCompact()
		for i := 0; i < 16; i++ {
			x.tx([]appSpec{{L: 0, UseRef: true}, {L: 1, UseRef: true}})
		}
		x.trunc(false)
		x.restart(true, false)
		x.tx([]appSpec{{L: 3}, {L: 0}})
		x.query()
		x.restart(false, false)
		x.tx([]appSpec{{L: 4}, {L: 2}})
		x.query()
	}},
}

type desc struct {
	Shape  string   `json:"shape"`
	Corpus string   `json:"corpus,omitempty"`
	Cfg    sysCfg   `json:"cfg"`
	Fast0  bool     `json:"fast0"`
	Trace  string   `json:"trace"`
	Errs   []string `json:"errors,omitempty"`
}

func main() {
	fl := gallina.ParseFlags()
	if p := os.Getenv("C22_CPUPROFILE"); p != "" {
		f, _ := os.Create(p)
		pprof.StartCPUProfile(f)
		defer pprof.StopCPUProfile()
	}
	meta := gallina.NewMeta("C22", fl.Seed, fl.Tier)
	meta.Rule = "a case counts as non-trivial when its history contains at least one restart after a series was removed from the head (gc/eviction) and a series created afterwards; distinct = distinct operation traces"
	cf := &gallina.CaseFile{Dir: fl.Out, Type: "case", PerShard: 8, Footer: gallina.StdFooter,
		Preamble: "From Coq Require Import List ZArith Bool.\nFrom Verif Require Import model.SeriesRef corr.CorrC22.\nImport ListNotations.\nOpen Scope Z_scope.\n"}
	root, err := os.MkdirTemp(fl.Out, "c22db")
	if err != nil {
		panic(err)
	}
	defer os.RemoveAll(root)
	n := fl.Count(50, 700)
	distinct := map[string]bool{}
	emit := func(id int, name string, cfg sysCfg, fast bool, x *runner) {
		it := make([]string, len(x.evs))
		for i, e := range x.evs {
			it[i] = e.gallina()
		}
		cf.Add(fmt.Sprintf("mkCase %d %s", id, gallina.List(it)))
		shape := shapeOf(x.evs)
		if len(x.errs) > 0 {
			shape = "harness-error"
			meta.GoViol = append(meta.GoViol, gallina.GoViolation{ID: fmt.Sprint(id), Shape: shape, What: strings.Join(x.errs, "; ")})
		}
		tr := strings.Join(x.trace, " ")
		meta.Case(id, desc{Shape: shape, Corpus: name, Cfg: cfg, Fast0: fast, Trace: tr, Errs: x.errs})
		meta.Evaluations++
		var cl []string
		for c := range x.classes {
			cl = append(cl, c)
			meta.Hit(c)
		}
		sort.Strings(cl)
		meta.Hit("shape:" + shape)
		removed := x.classes["gc"] || x.classes["stale-removed"] || x.classes["selected-removed"] || x.classes["ooo-removed"]
		if removed && x.nLife > 1 && !distinct[tr] {
			distinct[tr] = true
			meta.Nontrivial++
		}
	}
	// cases are computed by a few workers (each case has its own directory and PRNG) and emitted in order
	type job struct {
		name string
		cfg  sysCfg
		fast bool
		x    *runner
	}
	jobs := make([]job, n)
	if n < len(corpus) {
		n = len(corpus)
		jobs = make([]job, n)
	}
	sem := make(chan struct{}, 4)
	var wg sync.WaitGroup
	for id := 0; id < n; id++ {
		wg.Add(1)
		sem <- struct{}{}
		go func(id int) {
			defer wg.Done()
			defer func() { <-sem }()
			dir := filepath.Join(root, fmt.Sprintf("c%d", id))
			r := gen.Fork(fl.Seed, id)
			if id < len(corpus) {
				c := corpus[id]
				x, err := newRunner(dir, r, c.cfg, c.fast)
				if err != nil {
					panic(err)
				}
				x.fixed = c.step
				c.run(x)
				x.s.db.Close()
				jobs[id] = job{c.name, c.cfg, c.fast, x}
			} else {
				cfg := sysCfg{SamplesPerChunk: 2 + r.Intn(3)}
				if r.Chance(1, 2) {
					cfg.OOOWindow = 100000
					cfg.OOOCapMax = int64(2 + r.Intn(4))
				}
				fast := r.Bool()
				x, err := newRunner(dir, r, cfg, fast)
				if err != nil {
					panic(err)
				}
				randomHistory(x, 14+r.Intn(22))
				x.s.db.Close()
				jobs[id] = job{"", cfg, fast, x}
			}
			os.RemoveAll(dir)
		}(id)
	}
	wg.Wait()
	for id, j := range jobs {
		emit(id, j.name, j.cfg, j.fast, j.x)
	}
	// Go-side scenario (chunk snapshots are not modelled in Coq)
	{
		id := n
		viol, tr, err := snapshotScenario(root)
		shape := "ok"
		var errs []string
		if err != nil {
			shape = "harness-error"
			errs = []string{err.Error()}
			meta.GoViol = append(meta.GoViol, gallina.GoViolation{ID: fmt.Sprint(id), Shape: shape, What: err.Error()})
		} else if viol != "" {
			shape = "fast-startup-stale-state-file-lowers-lastSeriesID-below-snapshot"
			meta.GoViol = append(meta.GoViol, gallina.GoViolation{ID: fmt.Sprint(id), Shape: shape, What: viol})
		}
		meta.Case(id, desc{Shape: shape, Corpus: "snapshot-stale-state-file (Go-side)", Cfg: sysCfg{SamplesPerChunk: 3, Snapshot: true}, Fast0: true, Trace: tr, Errs: errs})
		meta.Evaluations++
		meta.Hit("snapshot-scenario")
		meta.Hit("shape:" + shape)
	}
	// further Go-side history classes (snapshots with a head-chunk-less highest-ref series, failed commits)
	reps := 1
	if fl.Tier == "thorough" {
		reps = 6 // the failed-commit class draws its interleavings from the PRNG
	}
	for k := 0; k < reps*len(gsScenarios); k++ {
		sc := gsScenarios[k%len(gsScenarios)]
		id := n + 1 + k
		viol, tr, err := runGoSide(root, sc, gen.Fork(fl.Seed, id))
		shape := "ok"
		var errs []string
		if err != nil {
			shape = "harness-error"
			errs = []string{err.Error()}
			meta.GoViol = append(meta.GoViol, gallina.GoViolation{ID: fmt.Sprint(id), Shape: shape, What: err.Error()})
		} else if viol != "" {
			shape = sc.shape
			meta.GoViol = append(meta.GoViol, gallina.GoViolation{ID: fmt.Sprint(id), Shape: shape, What: viol})
		}
		meta.Case(id, desc{Shape: shape, Corpus: sc.name + " (Go-side)", Cfg: sc.cfg, Fast0: sc.fast0, Trace: tr, Errs: errs})
		meta.Evaluations++
		meta.Hit("goside:" + sc.name)
		meta.Hit("shape:" + shape)
	}
	cf.Flush()
	meta.Write(fl.Out)
}

// goside.go: history classes that are judged on the Go side only, because they use features
// the Coq model does not have: chunk snapshots (EnableMemorySnapshotOnShutdown), native histogram
// samples, and a Commit whose WAL write fails. The statement checked is C22 itself, on the
// implementation's observable behaviour:
//   - a ref returned by Append for label set l is never the ref of a live head series with other
//     labels (ref uniqueness among live series);
//   - after every transaction and after every restart, every sample of every successfully
//     committed transaction is returned by a query under exactly the label set it was appended
//     with, and no series returns a sample appended with another label set.
package main

import (
	"context"
	"fmt"
	"math"
	"os"
	"path/filepath"
	"sort"
	"strings"

	"github.com/prometheus/prometheus/model/histogram"
	"github.com/prometheus/prometheus/model/labels"
	"github.com/prometheus/prometheus/storage"
	"github.com/prometheus/prometheus/tsdb/chunkenc"

	"verif/harness/internal/gen"
)

type gsReq struct {
	CRef uint64
	L    int64
	T    int64
	Hist bool // native histogram sample (Sum carries the ghost value)
}

type gs struct {
	s      *sys
	r      *gen.Rand
	seq    int64
	tr     []string
	viols  []string
	acked  map[int64]map[int64]bool // label set -> timestamps of committed samples
	refOf  map[int64]uint64         // label set -> last ref handed out (this lifetime)
	nFail  int
	nMixed int
}

func (g *gs) note(f string, a ...any) { g.tr = append(g.tr, fmt.Sprintf(f, a...)) }
func (g *gs) bad(f string, a ...any) {
	if len(g.viols) < 12 {
		g.viols = append(g.viols, fmt.Sprintf(f, a...))
	}
}

func ghostHist(v float64) *histogram.Histogram {
	return &histogram.Histogram{Schema: 0, Count: 1, Sum: v, ZeroThreshold: 0.001,
		PositiveSpans: []histogram.Span{{Offset: 0, Length: 1}}, PositiveBuckets: []int64{1}}
}

type gsSample struct {
	T     int64
	Ghost int64
}

// queryAll returns, per label set, every sample (float or histogram) with its ghost id.
func (g *gs) queryAll() (map[int64][]gsSample, error) {
	q, err := g.s.db.Querier(math.MinInt64, math.MaxInt64)
	if err != nil {
		return nil, err
	}
	defer q.Close()
	ss := q.Select(context.Background(), true, nil, labels.MustNewMatcher(labels.MatchRegexp, "l", ".+"))
	out := map[int64][]gsSample{}
	for ss.Next() {
		sr := ss.At()
		l := idOf(sr.Labels())
		it := sr.Iterator(nil)
	loop:
		for {
			var t int64
			var v float64
			switch it.Next() {
			case chunkenc.ValNone:
				break loop
			case chunkenc.ValFloat:
				t, v = it.At()
			case chunkenc.ValHistogram:
				var h *histogram.Histogram
				t, h = it.AtHistogram(nil)
				v = h.Sum
			case chunkenc.ValFloatHistogram:
				var h *histogram.FloatHistogram
				t, h = it.AtFloatHistogram(nil)
				v = h.Sum
			}
			if gh, ok := ghostOf(v); ok {
				out[l] = append(out[l], gsSample{t, gh})
			}
		}
		if it.Err() != nil {
			return nil, it.Err()
		}
	}
	return out, ss.Err()
}

// check evaluates the attribution statement on a query over everything.
func (g *gs) check(tag string) {
	res, err := g.queryAll()
	if err != nil {
		g.bad("%s: query: %v", tag, err)
		return
	}
	for l, sms := range res {
		for _, x := range sms {
			if x.Ghost != l {
				g.bad("%s: query returns the sample appended to {l=%d} at t=%d under {l=%d}", tag, x.Ghost, x.T, l)
			}
		}
	}
	var ls []int64
	for l := range g.acked {
		ls = append(ls, l)
	}
	sort.Slice(ls, func(i, j int) bool { return ls[i] < ls[j] })
	for _, l := range ls {
		have := map[int64]bool{}
		for _, x := range res[l] {
			if x.Ghost == l {
				have[x.T] = true
			}
		}
		for t := range g.acked[l] {
			if !have[t] {
				g.bad("%s: committed sample {l=%d} t=%d is not returned under its labels", tag, l, t)
				break
			}
		}
	}
	g.note("%s(last=%d)", tag, g.s.last())
}

// tx runs one appender. failWAL: the WAL write of Commit fails (the head keeps running).
func (g *gs) tx(reqs []gsReq, failWAL bool) {
	before, _ := g.s.seriesMap()
	app := g.s.db.Appender(context.Background())
	type res struct {
		ok  bool
		ref uint64
	}
	var rs []res
	for _, rq := range reqs {
		g.seq++
		v := float64(rq.L*ghostMul + g.seq%ghostMul)
		var ref storage.SeriesRef
		var err error
		if rq.Hist {
			ref, err = app.AppendHistogram(storage.SeriesRef(rq.CRef), lsetOf(rq.L), rq.T, ghostHist(v), nil)
		} else {
			ref, err = app.Append(storage.SeriesRef(rq.CRef), lsetOf(rq.L), rq.T, v)
		}
		rs = append(rs, res{err == nil, uint64(ref)})
		g.note("app(l%d,ref%d,t%d%s)->%d/%v", rq.L, rq.CRef, rq.T, map[bool]string{true: ",hist"}[rq.Hist], ref, err == nil)
		if err == nil {
			for _, p := range before {
				if p[0] == int64(ref) && p[1] != rq.L {
					g.bad("Append for {l=%d} returned ref %d which the live head series {l=%d} uses", rq.L, ref, p[1])
				}
			}
		}
	}
	var cerr error
	if failWAL {
		scratch := filepath.Join(g.s.root, "failwal")
		os.RemoveAll(scratch)
		if e := g.s.db.Head().VerifC22WithFailingWAL(scratch, func() { cerr = app.Commit() }); e != nil {
			g.bad("failing WAL setup: %v", e)
		}
		os.RemoveAll(scratch)
		g.nFail++
		g.note("commit(WAL write fails)->%v", cerr != nil)
		if cerr == nil {
			g.bad("Commit with a failing WAL write returned no error")
		}
		return
	}
	cerr = app.Commit()
	if cerr != nil {
		g.bad("commit: %v", cerr)
		return
	}
	for i, rq := range reqs {
		if rs[i].ok {
			if g.acked[rq.L] == nil {
				g.acked[rq.L] = map[int64]bool{}
			}
			g.acked[rq.L][rq.T] = true
			g.refOf[rq.L] = rs[i].ref
		}
	}
}

func (g *gs) reopen(fast bool) error {
	if err := g.s.db.Close(); err != nil {
		return err
	}
	g.refOf = map[int64]uint64{}
	g.note("restart(clean,fast->%v)", fast)
	return g.s.open(fast)
}

type gsScenario struct {
	name  string
	shape string // reported when the statement fails
	cfg   sysCfg
	fast0 bool
	run   func(g *gs) error
}

var gsScenarios = []gsScenario{
	{"snapshot-ooo-only-highest-ref", "snapshot-restart-reissues-ref-of-series-without-head-chunk",
		sysCfg{SamplesPerChunk: 3, Snapshot: true, OOOWindow: 100000, OOOCapMax: 8}, false, func(g *gs) error {
			// {l=1} (highest ref) only ever receives out-of-order samples: at the clean shutdown it is
			// alive but has no in-order head chunk; the WAL behind the snapshot is not replayed.
			g.tx([]gsReq{{L: 0, T: 5000}}, false)
			g.tx([]gsReq{{L: 0, T: 5100}, {L: 1, T: 1001}}, false)
			g.tx([]gsReq{{CRef: g.refOf[1], L: 1, T: 1203}}, false)
			g.check("L1")
			if err := g.reopen(false); err != nil {
				return err
			}
			g.check("L2-open")
			g.tx([]gsReq{{L: 2, T: 5200}, {L: 0, T: 5200}}, false)
			g.check("L2-created")
			g.tx([]gsReq{{L: 1, T: 1405}, {CRef: g.refOf[2], L: 2, T: 5300}}, false)
			g.check("L2-end")
			if err := g.reopen(false); err != nil {
				return err
			}
			g.check("L3-open")
			g.tx([]gsReq{{L: 3, T: 5400}, {L: 1, T: 1607}}, false)
			g.check("L3-end")
			return nil
		}},
	{"snapshot-head-chunk-gone-after-compaction", "snapshot-restart-reissues-ref-of-series-without-head-chunk",
		sysCfg{SamplesPerChunk: 3, Snapshot: true, OOOWindow: 100000, OOOCapMax: 8}, false, func(g *gs) error {
			// {l=1} has one in-order sample and one out-of-order sample; head compaction removes its
			// in-order chunk, the out-of-order data keeps the series alive with a nil head chunk.
			g.tx([]gsReq{{L: 0, T: 100}, {L: 1, T: 900}}, false)
			g.tx([]gsReq{{L: 0, T: 1500}, {CRef: g.refOf[1], L: 1, T: 701}}, false)
			g.tx([]gsReq{{L: 0, T: 2100}}, false)
			g.tx([]gsReq{{L: 0, T: 2700}}, false)
			if g.s.db.Head().VerifCompactable() {
				if _, err := g.s.truncateStep(); err != nil {
					return err
				}
				g.note("trunc")
			}
			g.check("L1")
			if err := g.reopen(false); err != nil {
				return err
			}
			g.check("L2-open")
			g.tx([]gsReq{{L: 2, T: 2800}}, false)
			g.check("L2-created")
			g.tx([]gsReq{{L: 1, T: 1903}, {L: 2, T: 2900}}, false)
			g.check("L2-end")
			if err := g.reopen(false); err != nil {
				return err
			}
			g.check("L3-open")
			return nil
		}},
	{"failed-commit-then-mixed-batches", "failed-commit-corrupts-later-appenders",
		sysCfg{SamplesPerChunk: 4}, false, func(g *gs) error {
			// floats for {l=0..2}, native histograms for {l=10..12}; a Commit whose WAL write fails
			// (only samples of existing series, so nothing but the refused samples is lost), then
			// appenders that carry float and histogram samples of different series and create series.
			t := int64(1000)
			g.tx([]gsReq{{L: 0, T: t}, {L: 1, T: t}, {L: 10, T: t, Hist: true}, {L: 11, T: t, Hist: true}}, false)
			g.check("init")
			next := int64(20)
			for round := 0; round < 4; round++ {
				t += 100
				g.tx([]gsReq{{CRef: g.refOf[0], L: 0, T: t}, {CRef: g.refOf[10], L: 10, T: t, Hist: true}, {L: 1, T: t}}, true)
				for k := 0; k < 3; k++ {
					t += 100
					var reqs []gsReq
					fl := []int64{0, 1}
					hs := []int64{10, 11}
					if g.r.Bool() {
						fl[0], fl[1] = fl[1], fl[0]
					}
					if g.r.Bool() {
						hs[0], hs[1] = hs[1], hs[0]
					}
					// interleavings of float / histogram / new-series appends inside one appender
					switch g.r.Intn(4) {
					case 0:
						reqs = []gsReq{{L: fl[0], T: t}, {L: hs[0], T: t, Hist: true}, {L: fl[1], T: t}, {L: hs[1], T: t, Hist: true}}
					case 1:
						reqs = []gsReq{{L: fl[0], T: t}, {L: fl[1], T: t}, {L: hs[0], T: t, Hist: true}, {L: next, T: t}}
						next++
					case 2:
						reqs = []gsReq{{L: hs[0], T: t, Hist: true}, {L: fl[0], T: t}, {L: next, T: t}, {L: hs[1], T: t, Hist: true}}
						next++
					default:
						reqs = []gsReq{{L: fl[0], T: t}, {L: next, T: t}, {L: hs[0], T: t, Hist: true}}
						next++
					}
					for i := range reqs {
						if g.r.Bool() {
							reqs[i].CRef = g.refOf[reqs[i].L]
						}
					}
					g.tx(reqs, false)
					g.nMixed++
					g.check(fmt.Sprintf("r%d.%d", round, k))
				}
			}
			if err := g.reopen(false); err != nil {
				return err
			}
			g.check("reopened")
			return nil
		}},
}

// runGoSide runs one Go-side scenario; returns what violates C22 ("" if nothing) and the trace.
func runGoSide(root string, sc gsScenario, r *gen.Rand) (viol, trace string, err error) {
	s := &sys{root: root, dir: filepath.Join(root, "gs"), cfg: sc.cfg}
	os.RemoveAll(s.dir)
	if err = os.MkdirAll(s.dir, 0o755); err != nil {
		return
	}
	defer os.RemoveAll(s.dir)
	if err = s.open(sc.fast0); err != nil {
		return
	}
	g := &gs{s: s, r: r, acked: map[int64]map[int64]bool{}, refOf: map[int64]uint64{}}
	err = sc.run(g)
	s.db.Close()
	return strings.Join(g.viols, "; "), strings.Join(g.tr, " "), err
}

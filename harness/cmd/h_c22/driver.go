// driver.go: drives a real tsdb.DB through lifetimes (open ... close/crash) and observes
// everything C22 talks about: references returned by Append, Head.lastSeriesID, the head's
// ref->labels map, Head.walExpiries, the durable WAL (checkpoint + segments, decoded), the WBL,
// the head-chunk files (decoded), series_state.json, and query results.
package main

import (
	"context"
	"encoding/json"
	"fmt"
	"io"
	"log/slog"
	"math"
	"os"
	"path/filepath"
	"sort"
	"strconv"
	"time"

	"github.com/prometheus/prometheus/model/labels"
	"github.com/prometheus/prometheus/model/value"
	"github.com/prometheus/prometheus/storage"
	"github.com/prometheus/prometheus/tsdb"
	"github.com/prometheus/prometheus/tsdb/chunkenc"
	"github.com/prometheus/prometheus/tsdb/chunks"
	"github.com/prometheus/prometheus/tsdb/record"
	"github.com/prometheus/prometheus/tsdb/wlog"
)

const (
	blockRange = 1000
	ghostMul   = 1000000
)

// rec is one WAL / WBL entry, flattened: kind 0 = series (ref, lset), 1 = sample (ref, ghost, t),
// 2 = full-range tombstone (ref), 3 = interval tombstone (ref).
type rec struct {
	Kind int
	Ref  uint64
	L    int64 // lset id (series) or ghost id (sample)
	T    int64
}

type chunkObs struct {
	Ref    uint64
	OOO    bool
	MaxT   int64
	Ghosts []int64
}

type sysCfg struct {
	OOOWindow       int64
	SamplesPerChunk int
	OOOCapMax       int64
	Snapshot        bool `json:",omitempty"` // EnableMemorySnapshotOnShutdown (exploration only; not modelled)
}

type sys struct {
	root string
	gen  int
	dir  string
	db   *tsdb.DB
	fast bool
	cfg  sysCfg
}

func lsetOf(id int64) labels.Labels {
	return labels.FromStrings("__name__", "m", "l", strconv.FormatInt(id, 10))
}

func idOf(l labels.Labels) int64 {
	v := l.Get("l")
	n, err := strconv.ParseInt(v, 10, 64)
	if err != nil {
		return -1
	}
	return n
}

func ghostOf(v float64) (int64, bool) {
	if math.IsNaN(v) {
		return 0, false
	}
	return int64(v) / ghostMul, true
}

func (s *sys) options(fast bool) *tsdb.Options {
	t := tsdb.DefaultOptions()
	t.MinBlockDuration = blockRange
	t.MaxBlockDuration = blockRange * 27
	t.RetentionDuration = 0
	t.MaxBytes = 0
	t.OutOfOrderTimeWindow = s.cfg.OOOWindow
	if s.cfg.OOOCapMax > 0 {
		t.OutOfOrderCapMax = s.cfg.OOOCapMax
	}
	if s.cfg.SamplesPerChunk > 0 {
		t.SamplesPerChunk = s.cfg.SamplesPerChunk
	}
	t.NoLockfile = true
	t.StripeSize = 64
	t.BlockReloadInterval = 24 * time.Hour
	t.WALSegmentSize = 1 << 20
	t.HeadChunksWriteBufferSize = 64 * 1024
	t.HeadChunksWriteQueueSize = 0
	t.EnableDelayedCompaction = false
	t.EnableFastStartup = fast
	t.EnableMemorySnapshotOnShutdown = s.cfg.Snapshot
	t.WALReplayConcurrency = 2
	return t
}

func (s *sys) open(fast bool) error {
	db, err := tsdb.Open(s.dir, slog.New(slog.NewTextHandler(io.Discard, nil)), nil, s.options(fast), nil)
	if err != nil {
		return err
	}
	db.DisableCompactions()
	s.db = db
	s.fast = fast
	return nil
}

// seriesMap returns the head's series as (ref, lset id) sorted by ref, and per ref the distinct
// ghost ids found in its chunks.
func (s *sys) seriesMap() (m [][2]int64, ghosts map[uint64][]int64) {
	ghosts = map[uint64][]int64{}
	for _, d := range s.db.Head().VerifDump() {
		m = append(m, [2]int64{int64(d.Ref), idOf(d.Labels)})
		set := map[int64]bool{}
		add := func(cs []tsdb.VerifChunk) {
			for _, c := range cs {
				for _, x := range c.Samples {
					if g, ok := ghostOf(x.V); ok {
						set[g] = true
					}
				}
			}
		}
		add(d.InOrder)
		add(d.OOO)
		var l []int64
		for g := range set {
			l = append(l, g)
		}
		sort.Slice(l, func(i, j int) bool { return l[i] < l[j] })
		ghosts[d.Ref] = l
	}
	return m, ghosts
}

func (s *sys) last() int64 { return int64(s.db.Head().VerifC22LastSeriesID()) }

type qres struct {
	L      int64
	Ghosts []int64 // distinct ghost ids of the returned samples
}

func (s *sys) query() ([]qres, error) {
	q, err := s.db.Querier(math.MinInt64, math.MaxInt64)
	if err != nil {
		return nil, err
	}
	defer q.Close()
	ss := q.Select(context.Background(), true, nil, labels.MustNewMatcher(labels.MatchRegexp, "l", ".+"))
	var out []qres
	for ss.Next() {
		sr := ss.At()
		r := qres{L: idOf(sr.Labels())}
		set := map[int64]bool{}
		it := sr.Iterator(nil)
		for it.Next() == chunkenc.ValFloat {
			_, v := it.At()
			if g, ok := ghostOf(v); ok {
				set[g] = true
			}
		}
		if it.Err() != nil {
			return nil, it.Err()
		}
		for g := range set {
			r.Ghosts = append(r.Ghosts, g)
		}
		sort.Slice(r.Ghosts, func(i, j int) bool { return r.Ghosts[i] < r.Ghosts[j] })
		out = append(out, r)
	}
	return out, ss.Err()
}

// ---------------------------------------------------------------- durable state readers

func decodeInto(out *[]rec, dec *record.Decoder, b []byte) error {
	switch dec.Type(b) {
	case record.Series:
		ss, err := dec.Series(b, nil)
		if err != nil {
			return err
		}
		for _, x := range ss {
			*out = append(*out, rec{Kind: 0, Ref: uint64(x.Ref), L: idOf(x.Labels)})
		}
	case record.Samples:
		ss, err := dec.Samples(b, nil)
		if err != nil {
			return err
		}
		for _, x := range ss {
			if value.IsStaleNaN(x.V) || math.IsNaN(x.V) {
				continue // staleness markers carry no ghost id; the model does not log them either
			}
			g, _ := ghostOf(x.V)
			*out = append(*out, rec{Kind: 1, Ref: uint64(x.Ref), L: g, T: x.T})
		}
	case record.Tombstones:
		ts, err := dec.Tombstones(b, nil)
		if err != nil {
			return err
		}
		var part []rec
		for _, x := range ts {
			k := 3
			if len(x.Intervals) == 1 && x.Intervals[0].Mint == math.MinInt64 && x.Intervals[0].Maxt == math.MaxInt64 {
				k = 2
			}
			part = append(part, rec{Kind: k, Ref: uint64(x.Ref)})
		}
		// the stones of one record are written in map iteration order: canonicalise
		sort.SliceStable(part, func(i, j int) bool { return part[i].Ref < part[j].Ref })
		*out = append(*out, part...)
	}
	return nil
}

func readStream(r io.Reader) ([]rec, error) {
	var out []rec
	rd := wlog.NewReader(r)
	dec := record.NewDecoder(labels.NewSymbolTable(), slog.New(slog.NewTextHandler(io.Discard, nil)))
	for rd.Next() {
		if err := decodeInto(&out, &dec, rd.Record()); err != nil {
			return nil, err
		}
	}
	return out, rd.Err()
}

// readWAL decodes the last checkpoint and every segment of a WAL/WBL directory.
func readWAL(dir string) (ckpt []rec, segs [][]rec, first int, err error) {
	if _, e := os.Stat(dir); e != nil {
		return nil, nil, 0, nil
	}
	cdir, idx, e := wlog.LastCheckpoint(dir)
	if e == nil {
		sr, e2 := wlog.NewSegmentsReader(cdir)
		if e2 != nil {
			return nil, nil, 0, e2
		}
		ckpt, err = readStream(sr)
		sr.Close()
		if err != nil {
			return nil, nil, 0, fmt.Errorf("checkpoint: %w", err)
		}
	} else {
		idx = -1
	}
	f, l, e := wlog.Segments(dir)
	if e != nil {
		return nil, nil, 0, e
	}
	if l < 0 {
		return ckpt, nil, idx + 1, nil
	}
	first = f
	if idx+1 > first {
		first = idx + 1 // leftover segments below the checkpoint are ignored by replay
	}
	for i := first; i <= l; i++ {
		sg, e := wlog.OpenReadSegment(wlog.SegmentName(dir, i))
		if e != nil {
			return nil, nil, 0, e
		}
		rs, e := readStream(wlog.NewSegmentBufReader(sg))
		sg.Close()
		if e != nil {
			return nil, nil, 0, fmt.Errorf("segment %d: %w", i, e)
		}
		segs = append(segs, rs)
	}
	return ckpt, segs, first, nil
}

// readChunks decodes the head-chunk files of dir (on a scratch copy, so that nothing the
// mapper repairs on open touches the directory the database will be opened on).
func readChunks(dir, scratch string) ([]chunkObs, error) {
	src := filepath.Join(dir, "chunks_head")
	if _, err := os.Stat(src); err != nil {
		return nil, nil
	}
	dst := filepath.Join(scratch, "chunks_head")
	os.RemoveAll(scratch)
	if err := copyTree(src, dst); err != nil {
		return nil, err
	}
	defer os.RemoveAll(scratch)
	cdm, err := chunks.NewChunkDiskMapper(nil, dst, chunkenc.NewPool(), 64*1024, 0)
	if err != nil {
		return nil, err
	}
	defer cdm.Close()
	var out []chunkObs
	type pend struct {
		o   chunkObs
		ref chunks.ChunkDiskMapperRef
	}
	var ps []pend
	err = cdm.IterateAllChunks(func(sref chunks.HeadSeriesRef, cref chunks.ChunkDiskMapperRef, _, maxt int64, _ uint16, _ chunkenc.Encoding, isOOO bool) error {
		ps = append(ps, pend{chunkObs{Ref: uint64(sref), OOO: isOOO, MaxT: maxt}, cref})
		return nil
	})
	if err != nil {
		// the real loader drops the corrupted tail (removeCorruptedMmappedChunks); a torn file only
		// arises in our crash copies when the buffered tail was not flushed, i.e. never mid-chunk.
		return nil, err
	}
	for _, p := range ps {
		c, err := cdm.Chunk(p.ref)
		if err != nil {
			return nil, err
		}
		set := map[int64]bool{}
		it := c.Iterator(nil)
		for it.Next() == chunkenc.ValFloat {
			_, v := it.At()
			if g, ok := ghostOf(v); ok {
				set[g] = true
			}
		}
		for g := range set {
			p.o.Ghosts = append(p.o.Ghosts, g)
		}
		sort.Slice(p.o.Ghosts, func(i, j int) bool { return p.o.Ghosts[i] < p.o.Ghosts[j] })
		out = append(out, p.o)
	}
	return out, nil
}

type stateFile struct {
	LastSeriesID   uint64 `json:"last_series_id"`
	LastWALSegment int    `json:"last_wal_segment"`
	CleanShutdown  bool   `json:"clean_shutdown"`
}

func readStateFile(dir string) *stateFile {
	b, err := os.ReadFile(filepath.Join(dir, "wal", tsdb.VerifC22SeriesStateFilename))
	if err != nil {
		return nil
	}
	var s stateFile
	if json.Unmarshal(b, &s) != nil {
		return nil
	}
	return &s
}

// copyTree copies a directory. Head-chunk files are preallocated (128 MiB) while open: only the
// written prefix (found by trimming the zero tail of the first MiB; our data is far smaller)
// plus a short zero pad is copied, which is what the loader sees as "end of data".
func copyTree(src, dst string) error {
	return filepath.Walk(src, func(p string, info os.FileInfo, err error) error {
		if err != nil {
			return err
		}
		rel, _ := filepath.Rel(src, p)
		t := filepath.Join(dst, rel)
		if info.IsDir() {
			return os.MkdirAll(t, 0o755)
		}
		if !info.Mode().IsRegular() {
			return nil
		}
		f, err := os.Open(p)
		if err != nil {
			return err
		}
		defer f.Close()
		var data []byte
		if info.Size() > 4<<20 {
			buf := make([]byte, 1<<20)
			n, _ := io.ReadFull(f, buf)
			buf = buf[:n]
			end := len(buf)
			for end > 0 && buf[end-1] == 0 {
				end--
			}
			end += 64
			if end > len(buf) {
				end = len(buf)
			}
			data = buf[:end]
		} else {
			data, err = io.ReadAll(f)
			if err != nil {
				return err
			}
		}
		return os.WriteFile(t, data, 0o644)
	})
}

// inOrderBlocksMaxTime mirrors DB.inOrderBlocksMaxTime on the loaded blocks (the value
// Head.Init received as minValidTime).
func (s *sys) initMinValid() int64 {
	mv := int64(math.MinInt64)
	for _, b := range s.db.Blocks() {
		m := b.Meta()
		if !m.Compaction.FromOutOfOrder() && !m.Compaction.FromStaleSeries() && !m.Compaction.FromSelectedSeries() && m.MaxTime > mv {
			mv = m.MaxTime
		}
	}
	return mv
}

// restartObs is what is read from the directory the next lifetime is opened on.
type restartObs struct {
	Clean    bool
	FastOld  bool
	FastNew  bool
	SF       *stateFile
	MinValid int64
	Chunks   []chunkObs
	WBL      []rec
	Ckpt     []rec
	Segs     [][]rec
	First    int
	ExpAfter [][2]int64
	Alive    []int64
}

func sortedExp(m map[uint64]int64) [][2]int64 {
	var out [][2]int64
	for k, v := range m {
		out = append(out, [2]int64{int64(k), v})
	}
	sort.Slice(out, func(i, j int) bool { return out[i][0] < out[j][0] })
	return out
}

// restart closes (clean) or abandons a copy of (unclean) the current lifetime and opens the next.
func (s *sys) restart(clean, fastNew bool) (*restartObs, error) {
	o := &restartObs{Clean: clean, FastOld: s.fast, FastNew: fastNew}
	if clean {
		if err := s.db.Close(); err != nil {
			return nil, fmt.Errorf("close: %w", err)
		}
	} else {
		s.gen++
		nd := filepath.Join(s.root, fmt.Sprintf("g%d", s.gen))
		if err := copyTree(s.dir, nd); err != nil {
			return nil, fmt.Errorf("crash copy: %w", err)
		}
		if err := s.db.Close(); err != nil {
			return nil, fmt.Errorf("close abandoned: %w", err)
		}
		os.RemoveAll(s.dir)
		s.dir = nd
	}
	var err error
	o.SF = readStateFile(s.dir)
	if o.Ckpt, o.Segs, o.First, err = readWAL(filepath.Join(s.dir, "wal")); err != nil {
		return nil, fmt.Errorf("read wal: %w", err)
	}
	_, wsegs, _, err := readWAL(filepath.Join(s.dir, "wbl"))
	if err != nil {
		return nil, fmt.Errorf("read wbl: %w", err)
	}
	for _, sg := range wsegs {
		o.WBL = append(o.WBL, sg...)
	}
	if o.Chunks, err = readChunks(s.dir, filepath.Join(s.root, "scratch")); err != nil {
		return nil, fmt.Errorf("read chunks: %w", err)
	}
	if err := s.open(fastNew); err != nil {
		return nil, fmt.Errorf("open: %w", err)
	}
	o.MinValid = s.initMinValid()
	o.ExpAfter = sortedExp(s.db.Head().VerifC22WALExpiries())
	m, _ := s.seriesMap()
	for _, p := range m {
		o.Alive = append(o.Alive, p[0])
	}
	return o, nil
}

// gcObs: series that disappeared from the head during an operation, with their walExpiries
// entry afterwards (missing entries get `missing`).
func deadOf(before, after [][2]int64, exp map[uint64]int64, missing int64) [][2]int64 {
	alive := map[int64]bool{}
	for _, p := range after {
		alive[p[0]] = true
	}
	var out [][2]int64
	for _, p := range before {
		if !alive[p[0]] {
			k, ok := exp[uint64(p[0])]
			if !ok {
				k = missing
			}
			out = append(out, [2]int64{p[0], k})
		}
	}
	return out
}

// truncateStep is one iteration of DB.Compact's head loop: the block [mint, maxt) is cut, the
// head is truncated (gc) and the WAL is truncated at maxt. Returns the truncation time.
func (s *sys) truncateStep() (int64, error) {
	h := s.db.Head()
	mint := h.MinTime()
	maxt := (mint/blockRange)*blockRange + blockRange
	rh := tsdb.NewRangeHead(h, mint, maxt-1)
	h.WaitForAppendersOverlapping(rh.MaxTime())
	if err := s.db.CompactHead(rh); err != nil {
		return 0, err
	}
	return maxt, nil
}

type appReq struct {
	CRef  uint64
	L     int64
	T     int64
	Stale bool
	V     float64
}

type appRes struct {
	OK  bool
	Ret uint64
}

func (s *sys) tx(reqs []appReq) ([]appRes, error) {
	app := s.db.Appender(context.Background())
	var out []appRes
	for _, r := range reqs {
		v := r.V
		if r.Stale {
			v = math.Float64frombits(value.StaleNaN)
		}
		ref, err := app.Append(storage.SeriesRef(r.CRef), lsetOf(r.L), r.T, v)
		out = append(out, appRes{OK: err == nil, Ret: uint64(ref)})
	}
	return out, app.Commit()
}

package main

import (
	"fmt"
	"os"
	"path/filepath"
	"strings"
)

// snapshotScenario is judged on the Go side only (chunk snapshots are not part of the Coq model):
// fast startup on -> off -> on with EnableMemorySnapshotOnShutdown. The state file written by the
// first lifetime is stale when the third lifetime reads it, while the series of the second
// lifetime come back from the snapshot. Returns a description of what violates C22 ("" if nothing)
// and the trace.
func snapshotScenario(root string) (viol, trace string, err error) {
	s := &sys{root: root, dir: filepath.Join(root, "snap"), cfg: sysCfg{SamplesPerChunk: 3, Snapshot: true}}
	if err = os.MkdirAll(s.dir, 0o755); err != nil {
		return
	}
	defer os.RemoveAll(s.dir)
	var tr, viols []string
	note := func(f string, a ...any) { tr = append(tr, fmt.Sprintf(f, a...)) }
	bad := func(f string, a ...any) { viols = append(viols, fmt.Sprintf(f, a...)) }
	live := map[int64]int64{} // ref -> label set, as handed out
	tx := func(reqs []appReq) error {
		before, _ := s.seriesMap()
		res, e := s.tx(reqs)
		if e != nil {
			return e
		}
		for i, rq := range reqs {
			note("app(l%d,ref%d,t%d)->%d/%v", rq.L, rq.CRef, rq.T, res[i].Ret, res[i].OK)
			if !res[i].OK {
				continue
			}
			for _, p := range before {
				if p[0] == int64(res[i].Ret) && p[1] != rq.L {
					bad("Append for {l=%d} returned ref %d which the live head series {l=%d} uses", rq.L, res[i].Ret, p[1])
				}
			}
			live[int64(res[i].Ret)] = rq.L
		}
		return nil
	}
	check := func(tag string, want []int64) {
		q, e := s.query()
		if e != nil {
			bad("%s: query: %v", tag, e)
			return
		}
		seen := map[int64]bool{}
		for _, r := range q {
			seen[r.L] = true
			for _, g := range r.Ghosts {
				if g != r.L {
					bad("%s: query returns a sample appended to {l=%d} under {l=%d}", tag, g, r.L)
				}
			}
		}
		for _, l := range want {
			if !seen[l] {
				bad("%s: series {l=%d} is no longer returned by queries", tag, l)
			}
		}
		note("%s last=%d", tag, s.last())
	}
	reopen := func(fast bool) error {
		if e := s.db.Close(); e != nil {
			return e
		}
		note("restart(clean,fast->%v)", fast)
		return s.open(fast)
	}
	if err = s.open(true); err != nil {
		return
	}
	defer func() { s.db.Close() }()
	if err = tx([]appReq{{L: 0, T: 100, V: 0*ghostMul + 1}, {L: 1, T: 100, V: 1*ghostMul + 2}}); err != nil {
		return
	}
	if err = reopen(false); err != nil {
		return
	}
	if err = tx([]appReq{{L: 2, T: 200, V: 2*ghostMul + 3}, {L: 3, T: 200, V: 3*ghostMul + 4}}); err != nil {
		return
	}
	ref2 := uint64(0)
	for r, l := range live {
		if l == 2 {
			ref2 = uint64(r)
		}
	}
	if err = reopen(true); err != nil { // reads the state file of the first lifetime; series come from the snapshot
		return
	}
	check("L3-open", []int64{0, 1, 2, 3})
	if err = tx([]appReq{{L: 4, T: 300, V: 4*ghostMul + 5}, {L: 5, T: 300, V: 5*ghostMul + 6}}); err != nil {
		return
	}
	check("L3-created", []int64{0, 1, 2, 3, 4, 5})
	// the ref {l=2} was created with; still valid from the client's point of view had it been handed out in this lifetime
	if err = tx([]appReq{{CRef: 0, L: 2, T: 400, V: 2*ghostMul + 7}}); err != nil {
		return
	}
	_ = ref2
	check("L3-end", []int64{0, 1, 2, 3, 4, 5})
	if err = reopen(true); err != nil {
		return
	}
	check("L4-open", []int64{0, 1, 2, 3, 4, 5})
	return strings.Join(viols, "; "), strings.Join(tr, " "), nil
}

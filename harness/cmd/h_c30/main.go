// h_c30: correspondence harness for C30 (rate/increase/delta/irate/idelta/resets/changes).
// For every case it serves one generated float series (with start timestamps) from an
// in-memory storage.Queryable, runs the REAL promql engine on the seven instant queries
// f(m[<range>ms] offset <off>ms) at a chosen evaluation time, and writes the series, the query
// parameters and the observed results (absent / float64 as exact rational) for Coq.
package main

import (
	"context"
	"errors"
	"fmt"
	"math"
	"math/big"
	"strings"
	"time"

	"github.com/prometheus/prometheus/model/histogram"
	"github.com/prometheus/prometheus/model/labels"
	"github.com/prometheus/prometheus/promql"
	"github.com/prometheus/prometheus/promql/parser"
	"github.com/prometheus/prometheus/storage"
	"github.com/prometheus/prometheus/tsdb/chunkenc"
	"github.com/prometheus/prometheus/tsdb/chunks"
	"github.com/prometheus/prometheus/util/annotations"

	"verif/harness/internal/gallina"
	"verif/harness/internal/gen"
)

// ---- in-memory series -------------------------------------------------------------------

type smp struct {
	T  int64   `json:"t"`
	F  float64 `json:"v"`
	St int64   `json:"st"`
}

type cs struct{ s smp }

func (c cs) T() int64                    { return c.s.T }
func (c cs) ST() int64                   { return c.s.St }
func (c cs) F() float64                  { return c.s.F }
func (cs) H() *histogram.Histogram       { return nil }
func (cs) FH() *histogram.FloatHistogram { return nil }
func (cs) Type() chunkenc.ValueType      { return chunkenc.ValFloat }
func (c cs) Copy() chunks.Sample         { return c }

type oneSet struct {
	s    storage.Series
	done bool
}

func (o *oneSet) Next() bool {
	if o.done || o.s == nil {
		return false
	}
	o.done = true
	return true
}
func (o *oneSet) At() storage.Series              { return o.s }
func (*oneSet) Err() error                        { return nil }
func (*oneSet) Warnings() annotations.Annotations { return nil }

func queryable(ss []smp) storage.Queryable {
	l := make([]chunks.Sample, len(ss))
	for i, s := range ss {
		l[i] = cs{s}
	}
	lbls := labels.FromStrings("__name__", "m")
	return &storage.MockQueryable{MockQuerier: &storage.MockQuerier{
		SelectMockFunction: func(bool, *storage.SelectHints, ...*labels.Matcher) storage.SeriesSet {
			return &oneSet{s: storage.NewListSeries(lbls, l)}
		}}}
}

// ---- running the engine ---------------------------------------------------------------------

var fns = []string{"rate", "increase", "delta", "irate", "idelta", "resets", "changes"}

type obs struct {
	present bool
	v       float64
}

func newEngine(useST bool) *promql.Engine {
	return promql.NewEngine(promql.EngineOpts{
		MaxSamples:               1000000,
		Timeout:                  100 * time.Second,
		NoStepSubqueryIntervalFn: func(int64) int64 { return 60000 },
		EnableAtModifier:         true,
		EnableNegativeOffset:     true,
		LookbackDelta:            5 * time.Minute,
		UseStartTimestamps:       useST,
		Parser:                   parser.NewParser(parser.Options{}),
	})
}

func run(ng *promql.Engine, q storage.Queryable, fn string, ts, rng, off int64) (o obs, overlap bool, err error) {
	defer func() {
		if r := recover(); r != nil {
			err = fmt.Errorf("panic: %v", r)
		}
	}()
	expr := fmt.Sprintf("%s(m[%dms] offset %dms)", fn, rng, off)
	if off < 0 {
		expr = fmt.Sprintf("%s(m[%dms] offset -%dms)", fn, rng, -off)
	}
	qry, err := ng.NewInstantQuery(context.Background(), q, nil, expr, time.UnixMilli(ts))
	if err != nil {
		return o, false, err
	}
	defer qry.Close()
	res := qry.Exec(context.Background())
	if res.Err != nil {
		return o, false, res.Err
	}
	vec, err := res.Vector()
	if err != nil {
		return o, false, err
	}
	for _, w := range res.Warnings.AsErrors() {
		if errors.Is(w, annotations.StartTimeOverlapWarning) {
			overlap = true
		}
	}
	switch len(vec) {
	case 0:
		return obs{}, overlap, nil
	case 1:
		if vec[0].H != nil {
			return o, overlap, fmt.Errorf("histogram result")
		}
		return obs{true, vec[0].F}, overlap, nil
	}
	return o, overlap, fmt.Errorf("%d result samples", len(vec))
}

// runRange runs rate(m[rng] offset off) as a range query over [start, end] with the given
// step and returns, per step, the observed value (absent when the step has no output).
func runRange(ng *promql.Engine, q storage.Queryable, start, end, step, rng, off int64) (steps []int64, out []obs, err error) {
	defer func() {
		if r := recover(); r != nil {
			err = fmt.Errorf("panic: %v", r)
		}
	}()
	expr := fmt.Sprintf("rate(m[%dms] offset %dms)", rng, off)
	if off < 0 {
		expr = fmt.Sprintf("rate(m[%dms] offset -%dms)", rng, -off)
	}
	qry, err := ng.NewRangeQuery(context.Background(), q, nil, expr, time.UnixMilli(start), time.UnixMilli(end), time.Duration(step)*time.Millisecond)
	if err != nil {
		return nil, nil, err
	}
	defer qry.Close()
	res := qry.Exec(context.Background())
	if res.Err != nil {
		return nil, nil, res.Err
	}
	mat, err := res.Matrix()
	if err != nil {
		return nil, nil, err
	}
	if len(mat) > 1 {
		return nil, nil, fmt.Errorf("%d result series", len(mat))
	}
	got := map[int64]float64{}
	if len(mat) == 1 {
		if len(mat[0].Histograms) > 0 {
			return nil, nil, fmt.Errorf("histogram result")
		}
		for _, p := range mat[0].Floats {
			got[p.T] = p.F
		}
	}
	for t := start; t <= end; t += step {
		steps = append(steps, t)
		if v, ok := got[t]; ok {
			out = append(out, obs{true, v})
			delete(got, t)
		} else {
			out = append(out, obs{})
		}
	}
	if len(got) != 0 {
		return nil, nil, fmt.Errorf("output at a non-step timestamp")
	}
	return steps, out, nil
}

// ---- printing ---------------------------------------------------------------------------------

func qOf(f float64) string {
	r := new(big.Rat).SetFloat64(f)
	if r == nil {
		panic("non-finite")
	}
	num, den := r.Num().String(), r.Denom().String()
	if strings.HasPrefix(num, "-") {
		num = "(" + num + ")"
	}
	return "(Qmake " + num + "%Z " + den + "%positive)"
}

func optQ(o obs) string {
	if !o.present {
		return "None"
	}
	return "(Some " + qOf(o.v) + ")"
}

func stepList(it []string) string {
	if len(it) == 0 {
		return "([] : list (Z * option Q))"
	}
	return gallina.List(it)
}

func samplesTerm(ss []smp) string {
	it := make([]string, len(ss))
	for i, s := range ss {
		it[i] = fmt.Sprintf("mkS %s %s %s", gallina.Z(s.T), qOf(s.F), gallina.Z(s.St))
	}
	return gallina.List(it)
}

type desc struct {
	Samples []smp    `json:"samples"`
	UseST   bool     `json:"use_st"`
	Ts      int64    `json:"ts"`
	Range   int64    `json:"range_ms"`
	Off     int64    `json:"offset_ms"`
	Obs     []string `json:"obs"`
	Overlap bool     `json:"overlap_warning"`
	Steps   []string `json:"range_query_steps,omitempty"`
	Shape   string   `json:"shape"`
	Corpus  string   `json:"corpus,omitempty"`
}

// ---- generators ---------------------------------------------------------------------------------

type tcase struct {
	ss          []smp
	useST       bool
	ts, rng, of int64
	corpus      string
	nsteps      int   // > 0: also run rate() as a range query ending at ts
	step        int64 // its step (ms)
}

var intervals = []int64{1000, 5000, 10000, 15000, 30000, 60000, 7000, 3000, 12345}

// value stream kinds
func genValues(r *gen.Rand, n int) []float64 {
	v := make([]float64, n)
	kind := r.Intn(8)
	den := float64(int64(1) << uint(r.Intn(4))) // 1,2,4,8: dyadic values
	cur := float64(r.Range(0, 40)) / den
	if kind == 5 {
		cur = float64(r.Range(-20, 20)) / den
	}
	for i := 0; i < n; i++ {
		switch kind {
		case 0, 1, 2: // counter with occasional resets (also at first/last step)
			if i > 0 {
				if r.Chance(1, 5) || (i == 1 && r.Chance(1, 4)) || (i == n-1 && r.Chance(1, 4)) {
					cur = float64(r.Range(0, 6)) / den // reset
				} else {
					cur += float64(r.Range(0, 12)) / den
				}
			}
		case 3: // constant
		case 4: // counter starting at / near zero, steep: zero point close to the first sample
			if i > 0 {
				cur += float64(r.Range(5, 60)) / den
			} else {
				cur = float64(r.Range(0, 3)) / den
			}
		case 5: // gauge, both signs
			cur += float64(r.Range(-15, 15)) / den
		case 6: // mostly equal values with a few changes
			if r.Chance(1, 4) {
				cur += float64(r.Range(-3, 3)) / den
				if cur < 0 {
					cur = 0
				}
			}
		case 7: // strictly decreasing (reset at every step)
			cur = float64(int64(n-i)*3) / den
		}
		v[i] = cur
	}
	return v
}

// start timestamp stream kinds
func genSTs(r *gen.Rand, ts []int64, vals []float64, iv int64) []int64 {
	n := len(ts)
	st := make([]int64, n)
	if n == 0 {
		return st
	}
	kind := r.Intn(9)
	first := ts[0] - r.PickI64(1, iv/2, iv, 2*iv, 10*iv, 1000*iv)
	if first <= 0 {
		first = 1
	}
	cur := first
	for i := 0; i < n; i++ {
		switch kind {
		case 0, 1: // absent
			st[i] = 0
		case 2: // cumulative, constant ST, new ST after value drops (consistent resets)
			if i > 0 && vals[i] < vals[i-1] {
				cur = ts[i-1] + r.Range(1, ts[i]-ts[i-1]-1+1)
				if cur >= ts[i] {
					cur = ts[i] - 1
				}
			}
			st[i] = cur
		case 3: // cumulative with ST resets that the values do not show
			if i > 0 && r.Chance(1, 3) {
				cur = ts[i-1] + r.Range(0, ts[i]-ts[i-1])
			}
			st[i] = cur
		case 4: // delta style: ST = previous T
			if i == 0 {
				st[i] = first
			} else {
				st[i] = ts[i-1]
			}
		case 5: // OTel unknown start: ST == T, sometimes ST > T
			st[i] = ts[i]
			if r.Chance(1, 4) {
				st[i] = ts[i] + r.Range(1, iv)
			}
		case 6: // overlapping / decreasing STs
			st[i] = ts[i] - r.Range(1, 3*iv)
			if st[i] <= 0 {
				st[i] = 1
			}
		case 7: // mixture per sample
			switch r.Intn(6) {
			case 0:
				st[i] = 0
			case 1:
				st[i] = cur
			case 2:
				if i > 0 {
					st[i] = ts[i-1]
				}
			case 3:
				if i > 0 {
					st[i] = ts[i-1] + r.Range(-1, 1)
				}
			case 4:
				st[i] = ts[i] - r.Range(0, 2)
			default:
				cur = ts[i] - r.Range(1, iv)
				if cur <= 0 {
					cur = 1
				}
				st[i] = cur
			}
		case 8: // only the first sample carries an ST (inside or outside the range later)
			if i == 0 {
				st[i] = first
			}
		}
	}
	return st
}

// pick d (ms) near the extrapolation threshold 1.1*S/nn, bounded by [lo,hi]
func nearThreshold(r *gen.Rand, S, nn, lo, hi int64) int64 {
	var d int64
	if nn > 0 && S > 0 {
		thrFloor := 11 * S / (10 * nn)
		switch r.Intn(10) {
		case 0, 1, 2:
			d = thrFloor // exact tie whenever 10*nn divides 11*S
		case 3:
			d = thrFloor - 1
		case 4:
			d = thrFloor + 1
		case 5:
			d = S / nn // one average interval
		case 6:
			d = S / (2 * nn)
		case 7:
			d = r.Range(lo, hi)
		case 8:
			d = thrFloor + r.Range(-3, 3)
		default:
			d = r.Range(0, 2*thrFloor+2)
		}
	} else {
		d = r.Range(lo, lo+20000)
	}
	if d < lo {
		d = lo
	}
	if d > hi {
		d = hi
	}
	return d
}

func genCase(r *gen.Rand) tcase {
	iv := gen.Pick(r, intervals)
	n := r.Intn(11)
	if r.Chance(1, 10) {
		n = r.Intn(3)
	}
	ts := make([]int64, n)
	t := r.Range(100000, 5000000)
	regular := r.Chance(1, 2)
	for i := 0; i < n; i++ {
		ts[i] = t
		switch {
		case regular:
			t += iv
			if r.Chance(1, 8) {
				t += iv * r.Range(1, 3) // missed scrapes
			}
		default:
			t += r.Range(1, 2*iv)
		}
	}
	vals := genValues(r, n)
	sts := genSTs(r, ts, vals, iv)
	ss := make([]smp, n)
	for i := range ss {
		ss[i] = smp{T: ts[i], F: vals[i], St: sts[i]}
	}
	c := tcase{ss: ss, useST: !r.Chance(1, 5)}
	if n == 0 {
		c.rng = r.Range(1, 100000)
		c.ts = r.Range(100000, 5000000)
		return c
	}
	// choose the sub-window i..j of samples that the range will contain
	i := r.Intn(n)
	j := i + r.Intn(n-i)
	if r.Chance(1, 2) {
		i, j = 0, n-1
	}
	if r.Chance(1, 3) && n >= 2 {
		j = n - 1
		i = r.Intn(n - 1)
	}
	S, nn := ts[j]-ts[i], int64(j-i)
	// distance of the window start before sample i: in [1, gap to sample i-1]
	hiS := int64(20 * iv)
	if i > 0 {
		hiS = ts[i] - ts[i-1]
	}
	hiE := int64(20 * iv)
	if j < n-1 {
		hiE = ts[j+1] - ts[j] - 1
	}
	dS := nearThreshold(r, S, nn, 1, hiS)
	dE := nearThreshold(r, S, nn, 0, hiE)
	if r.Chance(1, 6) {
		dE = 0
	}
	if r.Chance(1, 8) && ss[i].St != 0 {
		// put the window start right around the first sample's ST
		cand := ts[i] - ss[i].St + r.Range(-1, 1)
		if cand >= 1 && cand <= hiS {
			dS = cand
		}
	}
	rs, re := ts[i]-dS, ts[j]+dE
	c.rng = re - rs
	if r.Chance(1, 3) {
		c.of = r.PickI64(1, 1000, 5000, 60000, 123457, -1000, -60000)
	}
	c.ts = re + c.of
	if r.Chance(1, 3) {
		c.nsteps = 2 + r.Intn(5)
		c.step = r.PickI64(iv, iv/2, 2*iv, iv+1, c.rng, 1, iv/3+1)
	}
	return c
}

// ---- main ---------------------------------------------------------------------------------------

func reg(t0, iv int64, vals ...float64) []smp {
	ss := make([]smp, len(vals))
	for i, v := range vals {
		ss[i] = smp{T: t0 + int64(i)*iv, F: v}
	}
	return ss
}

func withST(ss []smp, sts ...int64) []smp {
	for i := range ss {
		if i < len(sts) {
			ss[i].St = sts[i]
		}
	}
	return ss
}

func corpus() []tcase {
	var l []tcase
	// exact ties of the 1.1x threshold at both ends (10s interval: threshold 11s), and +-1ms
	for _, d := range []int64{10999, 11000, 11001} {
		l = append(l, tcase{ss: reg(100000, 10000, 1, 2, 4, 7), ts: 130000 + d, rng: 30000 + 2*d, corpus: fmt.Sprintf("tie10s-%d", d)})
	}
	// 3s interval: 3.0*1.1 rounds above 3.3 in float64, so the exact tie counts as "close"
	for _, d := range []int64{3299, 3300, 3301} {
		l = append(l, tcase{ss: reg(100000, 3000, 5, 6, 8), ts: 106000 + d, rng: 6000 + 2*d, corpus: fmt.Sprintf("tie3s-%d", d)})
	}
	// zero point clamp: counter 1 -> 101 over 10s, window start 10s before
	l = append(l, tcase{ss: reg(100000, 10000, 1, 101), ts: 115000, rng: 25000, corpus: "zero-point"})
	// reset at first and at last step
	l = append(l, tcase{ss: reg(100000, 10000, 9, 2, 5, 8, 1), ts: 141000, rng: 50000, corpus: "reset-first-last"})
	// single sample with ST inside / outside the range
	l = append(l, tcase{ss: withST(reg(100000, 10000, 7), 95000), useST: true, ts: 103000, rng: 10000, corpus: "single-st-inside"})
	l = append(l, tcase{ss: withST(reg(100000, 10000, 7), 93000), useST: true, ts: 103000, rng: 10000, corpus: "single-st-at-rangestart"})
	l = append(l, tcase{ss: withST(reg(100000, 10000, 7), 95000), useST: false, ts: 103000, rng: 10000, corpus: "single-st-ignored"})
	// ST reset without a value drop; delta style; cumulative with unknown start
	l = append(l, tcase{ss: withST(reg(100000, 10000, 5, 8, 9), 50000, 105000, 105000), useST: true, ts: 121000, rng: 30000, corpus: "st-reset-no-drop"})
	l = append(l, tcase{ss: withST(reg(100000, 10000, 5, 8, 9), 90000, 100000, 110000), useST: true, ts: 121000, rng: 30000, corpus: "st-delta"})
	l = append(l, tcase{ss: withST(reg(100000, 10000, 5, 8, 9), 100000, 100000, 110000), useST: true, ts: 121000, rng: 30000, corpus: "st-unknown-prev"})
	l = append(l, tcase{ss: withST(reg(100000, 10000, 5, 8, 9), 50000, 95000, 95000), useST: true, ts: 121000, rng: 30000, corpus: "st-overlap"})
	// equal values, equal negative, gauge
	l = append(l, tcase{ss: reg(100000, 5000, 3, 3, 3, 3), ts: 117000, rng: 20000, corpus: "equal"})
	l = append(l, tcase{ss: reg(100000, 5000, -3, 4, -1.5, 2.25), ts: 117000, rng: 20000, corpus: "gauge"})
	// range queries: the matrix buffer (and its start timestamps) is reused between steps
	l = append(l, tcase{ss: withST(reg(100000, 10000, 5, 8, 9, 3, 6, 10), 50000, 50000, 50000, 125000, 125000, 125000), useST: true, ts: 161000, rng: 30000, nsteps: 6, step: 10000, corpus: "range-query-st"})
	l = append(l, tcase{ss: reg(100000, 10000, 1, 2, 4, 7, 11, 16), ts: 161000, rng: 25000, nsteps: 5, step: 7000, corpus: "range-query"})
	return l
}

func main() {
	f := gallina.ParseFlags()
	meta := gallina.NewMeta("C30", f.Seed, f.Tier)
	meta.Rule = "corpus + seeded cases: one float series (0..10 samples; regular/irregular spacing, missed scrapes; counter/reset/constant/gauge/dyadic values; start timestamps absent/cumulative/reset/delta/unknown/overlapping) and a range chosen so that the window holds samples i..j and both boundary distances are steered to the 1.1x threshold (tie, +-1ms), the zero point or the first ST; non-trivial = window holds >= 2 samples (rate is defined) or the single-sample ST path fires; distinct by (series, ts, range, offset, use_st)"
	cf := &gallina.CaseFile{Dir: f.Out, Type: "case", PerShard: 800,
		Preamble: "From Coq Require Import List ZArith QArith.\nFrom Verif Require Import model.Rate corr.CorrC30.\nImport ListNotations.\nOpen Scope Z_scope.\n",
		Footer:   gallina.StdFooter}
	engines := map[bool]*promql.Engine{true: newEngine(true), false: newEngine(false)}
	id := 0
	seen := map[string]bool{}
	emit := func(c tcase) {
		key := fmt.Sprint(c.ss, c.ts, c.rng, c.of, c.useST)
		if seen[key] {
			return
		}
		seen[key] = true
		q := queryable(c.ss)
		var os [7]obs
		var obsS []string
		overlap := false
		bad := ""
		for k, fn := range fns {
			o, ov, err := run(engines[c.useST], q, fn, c.ts, c.rng, c.of)
			if err != nil {
				bad = fmt.Sprintf("%s: %v", fn, err)
				break
			}
			if o.present && (math.IsNaN(o.v) || math.IsInf(o.v, 0)) {
				bad = fmt.Sprintf("%s: non-finite result %v", fn, o.v)
				break
			}
			os[k] = o
			if fn == "rate" {
				overlap = ov
			}
			if o.present {
				obsS = append(obsS, fmt.Sprintf("%s=%v", fn, o.v))
			} else {
				obsS = append(obsS, fn+"=absent")
			}
		}
		var stepTerms, stepS []string
		if c.nsteps > 0 && bad == "" {
			start := c.ts - int64(c.nsteps-1)*c.step
			sts, outs, err := runRange(engines[c.useST], q, start, c.ts, c.step, c.rng, c.of)
			if err != nil {
				bad = fmt.Sprintf("range query: %v", err)
			}
			for k := range sts {
				if outs[k].present && (math.IsNaN(outs[k].v) || math.IsInf(outs[k].v, 0)) {
					bad = fmt.Sprintf("range query: non-finite result %v", outs[k].v)
					break
				}
				stepTerms = append(stepTerms, gallina.Pair(gallina.Z(sts[k]), optQ(outs[k])))
				if outs[k].present {
					stepS = append(stepS, fmt.Sprintf("%d:%v", sts[k], outs[k].v))
				} else {
					stepS = append(stepS, fmt.Sprintf("%d:absent", sts[k]))
				}
			}
			if bad != "" {
				stepTerms, stepS = nil, nil
			}
			meta.Hit("range-query")
		}
		// classification (harness-side bookkeeping only; Coq recomputes everything it judges)
		rs, re := c.ts-c.of-c.rng, c.ts-c.of
		var w []smp
		for _, s := range c.ss {
			if s.T > rs && s.T <= re {
				w = append(w, s)
			}
		}
		shape := "ok"
		switch len(w) {
		case 0:
			meta.Hit("window-0")
		case 1:
			meta.Hit("window-1")
			if os[0].present {
				meta.Hit("single-sample-st-rate")
				meta.Nontrivial++
			}
		default:
			meta.Nontrivial++
			if len(w) == 2 {
				meta.Hit("window-2")
			} else {
				meta.Hit("window-3+")
			}
			S, nn := w[len(w)-1].T-w[0].T, int64(len(w)-1)
			for _, side := range []struct {
				n string
				d int64
			}{{"start", w[0].T - rs}, {"end", re - w[len(w)-1].T}} {
				x := 10*nn*side.d - 11*S
				switch {
				case x == 0:
					meta.Hit("thr-tie-" + side.n)
				case x > 0 && x <= 10*nn*2:
					meta.Hit("thr-just-above-" + side.n)
				case x < 0 && -x <= 10*nn*2:
					meta.Hit("thr-just-below-" + side.n)
				case x > 0:
					meta.Hit("thr-above-" + side.n)
				default:
					meta.Hit("thr-below-" + side.n)
				}
			}
			if w[1].F < w[0].F {
				meta.Hit("reset-at-first-step")
			}
			if w[len(w)-1].F < w[len(w)-2].F {
				meta.Hit("reset-at-last-step")
			}
			eq := true
			for _, s := range w {
				if s.F != w[0].F {
					eq = false
				}
			}
			if eq {
				meta.Hit("all-equal")
			}
		}
		if len(w) > 0 && c.useST && w[0].St != 0 && w[0].St > rs && w[0].St < w[0].T {
			meta.Hit("first-st-inside-range")
		}
		if overlap {
			meta.Hit("st-overlap-warning")
		}
		if !c.useST {
			meta.Hit("engine-without-st")
		}
		if bad != "" {
			shape = "engine-error"
			meta.GoViol = append(meta.GoViol, gallina.GoViolation{ID: fmt.Sprint(id), Shape: shape, What: bad})
		}
		cf.Add(fmt.Sprintf("mkCase %s %s %s %s %s %s %s %s %s %s %s %s %s %s %s",
			gallina.Z(int64(id)), samplesTerm(c.ss), gallina.Bool(c.useST),
			gallina.Z(c.ts), gallina.Z(c.rng), gallina.Z(c.of),
			optQ(os[0]), optQ(os[1]), optQ(os[2]), optQ(os[3]), optQ(os[4]), optQ(os[5]), optQ(os[6]),
			gallina.Bool(overlap), stepList(stepTerms)))
		meta.Case(id, desc{Samples: c.ss, UseST: c.useST, Ts: c.ts, Range: c.rng, Off: c.of, Obs: obsS, Overlap: overlap, Steps: stepS, Shape: shape, Corpus: c.corpus})
		meta.Evaluations++
		id++
	}
	for _, c := range corpus() {
		emit(c)
	}
	n := f.Count(900, 25000)
	for i := 0; i < n; i++ {
		emit(genCase(gen.Fork(f.Seed, i)))
	}
	cf.Flush()
	meta.Write(f.Out)
}

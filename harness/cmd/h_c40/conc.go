package main

import (
	"context"
	"errors"
	"fmt"
	"os"
	"path/filepath"
	"sort"
	"strconv"
	"strings"
	"sync"
	"sync/atomic"
	"time"

	"github.com/golang/snappy"
	"github.com/prometheus/client_golang/prometheus"
	dto "github.com/prometheus/client_model/go"
	"github.com/prometheus/common/model"
	"github.com/prometheus/common/promslog"

	"github.com/prometheus/prometheus/config"
	"github.com/prometheus/prometheus/model/histogram"
	"github.com/prometheus/prometheus/model/labels"
	"github.com/prometheus/prometheus/model/relabel"
	"github.com/prometheus/prometheus/prompb"
	"github.com/prometheus/prometheus/storage/remote"
	"github.com/prometheus/prometheus/tsdb/chunks"
	"github.com/prometheus/prometheus/tsdb/record"
	"github.com/prometheus/prometheus/tsdb/wlog"
	"github.com/prometheus/prometheus/util/compression"

	"verif/harness/internal/gallina"
	"verif/harness/internal/gen"
)

// ---- label interning: names get ids in byte order of the names (the model keeps label sets
// sorted by name), values get ids in order of first use ----

var nameVocab = []string{"__name__", "a", "b", "cluster", "drop", "env", "job", "region", "zone"}

type interner struct {
	names  map[string]int64
	values map[string]int64
}

func newInterner() *interner {
	in := &interner{names: map[string]int64{}, values: map[string]int64{}}
	for i, n := range nameVocab {
		in.names[n] = int64(i + 1)
	}
	return in
}

func (in *interner) name(s string) int64 {
	if id, ok := in.names[s]; ok {
		return id
	}
	id := int64(100 + len(in.names))
	in.names[s] = id
	return id
}

func (in *interner) value(s string) int64 {
	if id, ok := in.values[s]; ok {
		return id
	}
	id := int64(1 + len(in.values))
	in.values[s] = id
	return id
}

func (in *interner) pairs(ls []labels.Label) string {
	items := make([]string, 0, len(ls))
	for _, l := range ls {
		items = append(items, gallina.Pair(gallina.Z(in.name(l.Name)), gallina.Z(in.value(l.Value))))
	}
	return gallina.List(items)
}

// ---- relabel rules: the same small family as corr/CorrC40.v ----

type rule struct {
	Kind string `json:"kind"` // drop | keep | labeldrop | replace
	N    string `json:"n"`
	V    string `json:"v,omitempty"`
}

func (r rule) config() *relabel.Config {
	c := relabel.DefaultRelabelConfig
	c.NameValidationScheme = model.UTF8Validation
	switch r.Kind {
	case "drop":
		c.Action, c.SourceLabels, c.Regex = relabel.Drop, model.LabelNames{model.LabelName(r.N)}, relabel.MustNewRegexp(r.V)
	case "keep":
		c.Action, c.SourceLabels, c.Regex = relabel.Keep, model.LabelNames{model.LabelName(r.N)}, relabel.MustNewRegexp(r.V)
	case "labeldrop":
		c.Action, c.Regex = relabel.LabelDrop, relabel.MustNewRegexp(r.N)
	case "replace":
		c.Action, c.TargetLabel, c.Replacement = relabel.Replace, r.N, r.V
	}
	return &c
}

func (r rule) gallina(in *interner) string {
	switch r.Kind {
	case "drop":
		return fmt.Sprintf("RDrop %s %s", gallina.Z(in.name(r.N)), gallina.Z(in.value(r.V)))
	case "keep":
		return fmt.Sprintf("RKeep %s %s", gallina.Z(in.name(r.N)), gallina.Z(in.value(r.V)))
	case "labeldrop":
		return fmt.Sprintf("RLabelDrop %s", gallina.Z(in.name(r.N)))
	default:
		return fmt.Sprintf("RReplace %s %s", gallina.Z(in.name(r.N)), gallina.Z(in.value(r.V)))
	}
}

// the harness's own evaluation of external labels + rules (only to classify samples as
// dropped-by-relabelling; the expected label sets are computed in Coq)
func keptBy(rules []rule, ext, raw map[string]string) bool {
	m := map[string]string{}
	for k, v := range raw {
		m[k] = v
	}
	for k, v := range ext {
		if _, ok := m[k]; !ok {
			m[k] = v
		}
	}
	for _, r := range rules {
		switch r.Kind {
		case "drop":
			if m[r.N] == r.V {
				return false
			}
		case "keep":
			if m[r.N] != r.V {
				return false
			}
		case "labeldrop":
			delete(m, r.N)
		case "replace":
			m[r.N] = r.V
		}
	}
	return true
}

// ---- the fake remote endpoint ----

type recItem struct {
	id   int64
	lbls []labels.Label
}

type recReq struct {
	outcome int // 0 ok, 1 recoverable, 2 unrecoverable / cancelled
	items   []recItem
}

type fakeClient struct {
	mu          sync.Mutex
	rng         *gen.Rand
	pRec, pUnre int // percent
	maxLatUs    int
	blockAfter  int // >= 0: from this request on, block until the context is cancelled (hard shutdown runs)
	reqs        []recReq
	decodeErr   string
	consecRec   int
	gate        chan struct{} // non-nil: a successful Store returns only once the gate is closed (slow endpoint)
	failing     atomic.Bool   // true: every Store fails with a recoverable error (endpoint down for a while)
}

func (c *fakeClient) Name() string     { return "verif-c40" }
func (c *fakeClient) Endpoint() string { return "http://verif.invalid/write" }

func (c *fakeClient) Store(ctx context.Context, req []byte, _ int) (remote.WriteResponseStats, error) {
	raw, err := snappy.Decode(nil, req)
	var wr prompb.WriteRequest
	if err == nil {
		err = wr.Unmarshal(raw)
	}
	c.mu.Lock()
	if err != nil {
		c.decodeErr = err.Error()
		c.mu.Unlock()
		return remote.WriteResponseStats{}, err
	}
	var items []recItem
	for _, ts := range wr.Timeseries {
		ls := make([]labels.Label, 0, len(ts.Labels))
		for _, l := range ts.Labels {
			ls = append(ls, labels.Label{Name: l.Name, Value: l.Value})
		}
		for _, s := range ts.Samples {
			items = append(items, recItem{id: int64(s.Value), lbls: ls})
		}
		for _, e := range ts.Exemplars {
			items = append(items, recItem{id: int64(e.Value), lbls: ls})
		}
		for _, h := range ts.Histograms {
			items = append(items, recItem{id: int64(h.Sum), lbls: ls})
		}
	}
	outcome := 0
	block := c.blockAfter >= 0 && len(c.reqs) >= c.blockAfter
	if !block {
		p := c.rng.Intn(100)
		switch {
		case p < c.pUnre:
			outcome = 2
		case p < c.pUnre+c.pRec && c.consecRec < 4:
			outcome = 1
		}
	} else {
		outcome = 2
	}
	if c.failing.Load() {
		outcome = 1
	}
	if outcome == 1 {
		c.consecRec++
	} else {
		c.consecRec = 0
	}
	lat := 0
	if c.maxLatUs > 0 && c.rng.Chance(1, 3) {
		lat = c.rng.Intn(c.maxLatUs)
	}
	c.reqs = append(c.reqs, recReq{outcome: outcome, items: items})
	c.mu.Unlock()

	if block {
		<-ctx.Done()
		return remote.WriteResponseStats{}, ctx.Err()
	}
	if lat > 0 {
		time.Sleep(time.Duration(lat) * time.Microsecond)
	}
	if c.gate != nil && outcome == 0 {
		select {
		case <-c.gate:
		case <-ctx.Done():
			return remote.WriteResponseStats{}, ctx.Err()
		}
	}
	switch outcome {
	case 1:
		return remote.WriteResponseStats{}, remote.VerifRecoverable(errors.New("injected 503"))
	case 2:
		return remote.WriteResponseStats{}, errors.New("injected 400")
	}
	return remote.WriteResponseStats{}, nil
}

// ---- one concurrent run ----

type seriesSpec struct {
	ref  uint64
	raw  map[string]string
	lset labels.Labels
}

type action struct {
	kind    byte // 'S' StoreSeries, 'R' SeriesReset, 'A' Append
	series  []int
	seg     int
	samples []sampleSpec
}

type sampleSpec struct {
	series int // index into specs, or -1: a ref that is never stored
	old    bool
	kind   int // 0 float sample, 1 exemplar, 2 native histogram
}

type concDesc struct {
	Kind      string   `json:"kind"`
	Shape     string   `json:"shape"`
	Idx       int      `json:"idx"`
	Mode      string   `json:"mode"`
	Shards    int      `json:"shards"`
	Bsz       int      `json:"max_samples_per_send"`
	Cap       int      `json:"capacity"`
	Deadline  string   `json:"batch_send_deadline"`
	Rules     []rule   `json:"rules"`
	Ext       []string `json:"external_labels"`
	Series    int      `json:"series"`
	Samples   int      `json:"samples"`
	Reshards  []int    `json:"reshards"`
	Requests  int      `json:"requests"`
	Failures  [3]int   `json:"requests_by_outcome"`
	Hard      bool     `json:"hard_shutdown"`
	AgeLimit  bool     `json:"age_limit"`
	Settled   bool     `json:"settled"`
	Counters  []int64  `json:"counters_sent_failed_retried_old_dropped_unint"`
	DecodeErr string   `json:"decode_error,omitempty"`
}

func must(err error) {
	if err != nil {
		panic(err)
	}
}

func counterValue(c prometheus.Metric) int64 {
	var m dto.Metric
	if err := c.Write(&m); err != nil {
		return -1
	}
	return int64(m.GetCounter().GetValue())
}

func mapLabels(m map[string]string) labels.Labels {
	var kv []string
	keys := make([]string, 0, len(m))
	for k := range m {
		keys = append(keys, k)
	}
	sort.Strings(keys)
	for _, k := range keys {
		kv = append(kv, k, m[k])
	}
	return labels.FromStrings(kv...)
}

func labelSlice(ls labels.Labels) []labels.Label {
	var out []labels.Label
	ls.Range(func(l labels.Label) { out = append(out, l) })
	return out
}

var ruleMenu = []rule{
	{"drop", "drop", "1"},
	{"keep", "job", "j1"},
	{"labeldrop", "b", ""},
	{"replace", "zone", "z9"},
	{"drop", "cluster", "c1"}, // an external label decides
	{"replace", "env", "forced"},
	{"labeldrop", "region", ""}, // removes an external label again
}

func runConc(id int, seed uint64, idx int, outDir string, cf *gallina.CaseFile, meta *gallina.Meta) {
	r := gen.Fork(seed, idx)
	in := newInterner()

	// configuration
	n0 := 1 + r.Intn(4)
	bsz := []int{1, 2, 3, 5, 8}[r.Intn(5)]
	capa := bsz * (1 + r.Intn(3))
	if r.Chance(1, 6) && bsz > 1 {
		capa = 1 + r.Intn(bsz-1) // capacity below one batch
	}
	deadline := []time.Duration{400 * time.Millisecond, 2 * time.Second, 5 * time.Second}[r.Intn(3)]
	hard := r.Chance(1, 12)
	ageLimit := r.Chance(1, 3)
	// a quarter of the runs go through a real WAL read by the queue manager's own watcher
	wal := !hard && r.Chance(1, 4)
	// half of the direct-feed runs mix float samples, exemplars and native histograms
	kinds := !wal && r.Chance(1, 2)
	if wal {
		ageLimit = false                  // the watcher itself skips samples older than its start
		deadline = 400 * time.Millisecond // the last partial batch is sent by the timer before Stop
	}
	cfg := config.DefaultQueueConfig
	cfg.MinShards, cfg.MaxShards = n0, 8
	if n0 > cfg.MaxShards {
		cfg.MaxShards = n0
	}
	cfg.MaxSamplesPerSend, cfg.Capacity = bsz, capa
	cfg.BatchSendDeadline = model.Duration(deadline)
	cfg.MinBackoff, cfg.MaxBackoff = model.Duration(2*time.Millisecond), model.Duration(10*time.Millisecond)
	if ageLimit {
		cfg.SampleAgeLimit = model.Duration(10 * time.Minute)
	}
	flushDeadline := 120 * time.Second
	if hard {
		flushDeadline = 150 * time.Millisecond
		// the client blocks: everything must fit into the queues, or Append would spin until Stop
		capa = bsz * 200
		cfg.Capacity = capa
	}

	// external labels and rules
	ext := map[string]string{}
	for _, n := range []string{"cluster", "region", "env"} {
		if r.Chance(1, 2) {
			ext[n] = map[string]string{"cluster": "c1", "region": "eu", "env": "prod"}[n]
			if n == "cluster" && r.Chance(1, 2) {
				ext[n] = "c2"
			}
		}
	}
	var rules []rule
	for i, k := 0, r.Intn(3); i < k; i++ {
		rules = append(rules, ruleMenu[r.Intn(len(ruleMenu))])
	}
	var rcfgs []*relabel.Config
	for _, ru := range rules {
		rcfgs = append(rcfgs, ru.config())
	}

	// series
	nSeries := 2 + r.Intn(9)
	specs := make([]seriesSpec, 0, nSeries)
	used := map[uint64]bool{}
	for len(specs) < nSeries {
		var ref uint64
		switch r.Intn(6) {
		case 0:
			ref = 1<<63 + uint64(r.Intn(50)) // above MaxInt64: the modulus is taken on uint64
		case 1:
			ref = ^uint64(0) - uint64(r.Intn(8))
		default:
			ref = uint64(1 + r.Intn(40))
		}
		if used[ref] {
			continue
		}
		used[ref] = true
		raw := map[string]string{"__name__": "m" + strconv.Itoa(len(specs)%4), "job": []string{"j1", "j2"}[r.Intn(2)]}
		if r.Chance(1, 4) {
			raw["drop"] = []string{"1", "0"}[r.Intn(2)]
		}
		if r.Chance(1, 4) {
			raw["cluster"] = []string{"c1", "own"}[r.Intn(2)] // the series' own label wins over the external one
		}
		if r.Chance(1, 4) {
			raw["b"] = "bv"
		}
		if r.Chance(1, 5) {
			raw["a"] = "s" + strconv.FormatUint(ref%7, 10)
		}
		specs = append(specs, seriesSpec{ref: ref, raw: raw, lset: mapLabels(raw)})
	}
	neverRef := uint64(1000 + r.Intn(10))

	// feeder program
	var prog []action
	stored := map[int]bool{}
	seg := 0
	late := map[int]bool{}
	for i := range specs {
		if r.Chance(1, 5) {
			late[i] = true
		}
	}
	var first []int
	for i := range specs {
		if !late[i] {
			first = append(first, i)
			stored[i] = true
		}
	}
	prog = append(prog, action{kind: 'S', series: first, seg: seg})
	nSamples := 30 + r.Intn(220)
	if hard {
		nSamples = 20 + r.Intn(40)
	}
	total := 0
	for total < nSamples {
		switch c := r.Intn(100); {
		case c < 6 && len(late) > 0:
			var batch []int
			for i := range specs {
				if late[i] && r.Chance(1, 2) {
					batch = append(batch, i)
					delete(late, i)
				}
			}
			if len(batch) > 0 {
				prog = append(prog, action{kind: 'S', series: batch, seg: seg})
			}
		case c < 10 && wal:
			prog = append(prog, action{kind: 'N'}) // segment rotation
		case c < 10:
			seg++
			// a checkpoint: some series are stored again under the new segment, the rest is reset away
			var batch []int
			for i := range specs {
				if !late[i] && r.Chance(3, 4) {
					batch = append(batch, i)
				}
			}
			prog = append(prog, action{kind: 'S', series: batch, seg: seg})
			if r.Chance(2, 3) {
				prog = append(prog, action{kind: 'R', seg: seg})
			}
		default:
			k := 1 + r.Intn(12)
			var ss []sampleSpec
			for j := 0; j < k; j++ {
				sp := sampleSpec{series: r.Intn(len(specs))}
				if r.Chance(1, 25) {
					sp.series = -1
				}
				if ageLimit && r.Chance(1, 10) {
					sp.old = true
				}
				if kinds {
					switch c := r.Intn(10); {
					case c < 2:
						sp.kind = 1
					case c < 4:
						sp.kind = 2
					}
				}
				ss = append(ss, sp)
			}
			total += k
			prog = append(prog, action{kind: 'A', samples: ss})
		}
	}

	// the client
	cl := &fakeClient{rng: gen.Fork(seed, idx+7777777), blockAfter: -1}
	switch r.Intn(4) {
	case 0: // no failures at all
	case 1:
		cl.pRec = 10
	case 2:
		cl.pRec = 30
	case 3:
		cl.pRec, cl.pUnre = 15, 4
	}
	cl.maxLatUs = []int{0, 300, 2000}[r.Intn(3)]
	if hard {
		cl.blockAfter = 1 + r.Intn(4)
	}

	dir, err := os.MkdirTemp(outDir, "c40_")
	if err != nil {
		panic(err)
	}
	defer os.RemoveAll(dir)

	logger := promslog.NewNopLogger()
	if os.Getenv("VERIF_C40_ONLY") != "" {
		lvl := promslog.NewLevel()
		_ = lvl.Set("debug")
		logger = promslog.New(&promslog.Config{Level: lvl})
	}
	qm := remote.VerifNewQueueManager(logger, dir, cfg, mapLabels(ext), rcfgs, cl, flushDeadline, kinds, kinds, false)

	// mirror of the series bookkeeping, to classify each sample
	type known struct {
		seg  int
		kept bool
	}
	tab := map[int]known{}
	var fed []string // (ref, class)
	fedClass := [4]int{}
	nowMs := time.Now().UnixMilli()
	tBase := nowMs

	var wl *wlog.WL
	var enc record.Encoder
	walNote := ""
	if wal {
		// samples must be newer than the watcher's start time to be sent at all
		tBase = nowMs + 3600_000
		wl, err = wlog.NewSize(nil, nil, filepath.Join(dir, "wal"), 32*1024, compression.None)
		if err != nil {
			panic(err)
		}
		defer wl.Close()
		// before the queue starts: the first series records, samples that must never be sent,
		// possibly a rotation (segment 0 is then replayed for series only) and a checkpoint
		a := prog[0]
		prog = prog[1:]
		var rs []record.RefSeries
		var pre []record.RefSample
		for j, i := range a.series {
			rs = append(rs, record.RefSeries{Ref: chunks.HeadSeriesRef(specs[i].ref), Labels: specs[i].lset})
			tab[i] = known{seg: 0, kept: keptBy(rules, ext, specs[i].raw)}
			pre = append(pre, record.RefSample{Ref: chunks.HeadSeriesRef(specs[i].ref), T: 1000 + int64(j), V: float64(-1 - j)})
		}
		must(wl.Log(enc.Series(rs, nil)))
		if len(pre) > 0 {
			must(wl.Log(enc.Samples(pre, nil)))
		}
		if r.Chance(1, 2) {
			_, err := wl.NextSegment()
			must(err)
			walNote = "rotated-before-start"
			if r.Chance(1, 2) {
				_, err := wlog.Checkpoint(promslog.NewNopLogger(), wl, 0, 0, func(chunks.HeadSeriesRef) bool { return true }, 0, false)
				must(err)
				must(wl.Truncate(1))
				walNote = "checkpoint-before-start"
			}
			if r.Chance(1, 2) { // old samples in the segment that is tailed from the start
				must(wl.Log(enc.Samples(pre, nil)))
			}
		}
	}
	qm.Start()
	if wal {
		// "Written after the queue started" means after the watcher has listed the segments and is
		// tailing the last one: a segment that is rotated away before that moment is replayed for
		// series records only (samples in it are skipped by design).  So wait for the watcher
		// before feeding: a probe sample of a series that was never stored must show up in
		// droppedSamplesTotal{unintentionally_dropped_series}.
		_, _, _, _, dv := qm.VerifCounters()
		_, _, ru := remote.VerifDropReasons()
		fed = append(fed, gallina.Pair(gallina.ZU(neverRef), gallina.Z(3)))
		fedClass[3]++
		must(wl.Log(enc.Samples([]record.RefSample{{Ref: chunks.HeadSeriesRef(neverRef), T: tBase, V: 0}}, nil)))
		started := false
		for i := 0; i < 24000; i++ { // up to 120 s
			qm.VerifNotify()
			if counterValue(dv.WithLabelValues(ru)) >= 1 {
				started = true
				break
			}
			time.Sleep(5 * time.Millisecond)
		}
		if !started {
			meta.GoViol = append(meta.GoViol, gallina.GoViolation{ID: strconv.Itoa(id), Shape: "watcher-not-started", What: "the WAL watcher did not hand the probe sample to Append within 120 s"})
		}
	}

	var feederDone atomic.Bool
	var progress atomic.Int64
	var reshards []int
	var wg sync.WaitGroup
	wg.Add(1)
	go func() { // forced reshards at random points of the feed
		defer wg.Done()
		rr := gen.Fork(seed, idx+5555555)
		maxRe := rr.Intn(6)
		if hard {
			maxRe = 0
		}
		for i := 0; i < maxRe && !feederDone.Load(); i++ {
			target := progress.Load() + int64(rr.Intn(60))
			for progress.Load() < target && !feederDone.Load() {
				time.Sleep(200 * time.Microsecond)
			}
			n := 1 + rr.Intn(5)
			qm.VerifReshard(n)
			reshards = append(reshards, n)
		}
	}()

	appendOK := true
	feedRet := make(chan struct{})
	go func() {
		defer close(feedRet)
		for _, a := range prog {
			switch a.kind {
			case 'S':
				var rs []record.RefSeries
				for _, i := range a.series {
					rs = append(rs, record.RefSeries{Ref: chunks.HeadSeriesRef(specs[i].ref), Labels: specs[i].lset})
					tab[i] = known{seg: a.seg, kept: keptBy(rules, ext, specs[i].raw)}
				}
				if wal {
					must(wl.Log(enc.Series(rs, nil)))
					qm.VerifNotify()
				} else {
					qm.StoreSeries(rs, a.seg)
				}
			case 'N':
				_, err := wl.NextSegment()
				must(err)
				qm.VerifNotify()
			case 'R':
				qm.SeriesReset(a.seg)
				for i, k := range tab {
					if k.seg < a.seg {
						delete(tab, i)
					}
				}
			case 'A':
				var ss []record.RefSample
				var es []record.RefExemplar
				var hs []record.RefHistogramSample
				lastKind := 0
				flush := func() { // one Append* call per maximal run of one kind, in order
					switch {
					case len(es) > 0:
						if !qm.AppendExemplars(es) {
							appendOK = false
						}
						es = nil
					case len(hs) > 0:
						if !qm.AppendHistograms(hs) {
							appendOK = false
						}
						hs = nil
					case len(ss) > 0 && kinds:
						if !qm.Append(ss) {
							appendOK = false
						}
						ss = nil
					}
				}
				for _, sp := range a.samples {
					if kinds && sp.kind != lastKind {
						flush()
						lastKind = sp.kind
					}
					sid := int64(len(fed))
					ref := neverRef
					if sp.series >= 0 {
						ref = specs[sp.series].ref
					}
					t := tBase + sid
					class := 3
					if k, ok := tab[sp.series]; ok && sp.series >= 0 {
						if k.kept {
							class = 0
						} else {
							class = 2
						}
					}
					if sp.old {
						t = nowMs - 3600_000
						class = 1
					}
					fed = append(fed, gallina.Pair(gallina.ZU(ref), gallina.Z(int64(class))))
					fedClass[class]++
					switch sp.kind {
					case 1:
						es = append(es, record.RefExemplar{Ref: chunks.HeadSeriesRef(ref), T: t, V: float64(sid), Labels: labels.FromStrings("trace_id", strconv.FormatInt(sid, 10))})
					case 2:
						hs = append(hs, record.RefHistogramSample{Ref: chunks.HeadSeriesRef(ref), T: t, H: &histogram.Histogram{
							Count: 1, Sum: float64(sid), PositiveSpans: []histogram.Span{{Offset: 0, Length: 1}}, PositiveBuckets: []int64{1}}})
					default:
						ss = append(ss, record.RefSample{Ref: chunks.HeadSeriesRef(ref), T: t, V: float64(sid)})
					}
				}
				if kinds {
					flush()
				}
				if wal {
					must(wl.Log(enc.Samples(ss, nil)))
					qm.VerifNotify()
				} else if !kinds && !qm.Append(ss) {
					appendOK = false
				}
				progress.Add(int64(len(a.samples)))
				if r.Chance(1, 4) {
					time.Sleep(time.Duration(r.Intn(400)) * time.Microsecond)
				}
			}
		}
	}()
	hung := false
	select {
	case <-feedRet:
	case <-time.After(240 * time.Second):
		hung = true
		meta.GoViol = append(meta.GoViol, gallina.GoViolation{ID: strconv.Itoa(id), Shape: "feed-hang", What: "StoreSeries/Append feed did not finish within 240 s"})
	}
	feederDone.Store(true)
	if !hung {
		wg.Wait()
	}

	walTimeout := false
	if wal && !hung {
		// wait until the watcher has handed everything to the queue and the queue has sent it
		_, _, _, _, dv := qm.VerifCounters()
		_, rd, ru := remote.VerifDropReasons()
		deadlineAt := time.Now().Add(180 * time.Second)
		for {
			cl.mu.Lock()
			seen := map[int64]bool{}
			for _, q := range cl.reqs {
				if q.outcome != 1 {
					for _, it := range q.items {
						seen[it.id] = true
					}
				}
			}
			cl.mu.Unlock()
			handled := int64(len(seen)) + counterValue(dv.WithLabelValues(rd)) + counterValue(dv.WithLabelValues(ru))
			if handled >= int64(len(fed)) {
				break
			}
			if time.Now().After(deadlineAt) {
				walTimeout = true
				meta.GoViol = append(meta.GoViol, gallina.GoViolation{ID: strconv.Itoa(id), Shape: "wal-feed-timeout",
					What: fmt.Sprintf("only %d of %d samples written to the WAL were sent or counted as dropped within 180 s", handled, len(fed))})
				break
			}
			qm.VerifNotify()
			time.Sleep(5 * time.Millisecond)
		}
	}

	stopped := make(chan struct{})
	go func() { qm.Stop(); close(stopped) }()
	settled := false
	select {
	case <-stopped:
		settled = !walTimeout
	case <-time.After(300 * time.Second):
		meta.GoViol = append(meta.GoViol, gallina.GoViolation{ID: strconv.Itoa(id), Shape: "stop-hang", What: "QueueManager.Stop did not return within 300 s"})
	}
	if hung {
		select { // Stop makes a spinning Append return
		case <-feedRet:
		case <-time.After(60 * time.Second):
		}
	}
	if !appendOK && !hung {
		meta.GoViol = append(meta.GoViol, gallina.GoViolation{ID: strconv.Itoa(id), Shape: "append-false", What: "Append returned false before Stop"})
	}

	sentK, failedK, retriedK, droppedK := qm.VerifCountersByKind()
	ro, rd, ru := remote.VerifDropReasons()
	cnt := make([]int64, 6) // samples + exemplars + histograms
	for k := 0; k < 3; k++ {
		cnt[0] += counterValue(sentK[k])
		cnt[1] += counterValue(failedK[k])
		cnt[2] += counterValue(retriedK[k])
		cnt[3] += counterValue(droppedK[k].WithLabelValues(ro))
		cnt[4] += counterValue(droppedK[k].WithLabelValues(rd))
		cnt[5] += counterValue(droppedK[k].WithLabelValues(ru))
	}

	cl.mu.Lock()
	reqs := cl.reqs
	decodeErr := cl.decodeErr
	cl.mu.Unlock()
	if decodeErr != "" {
		meta.GoViol = append(meta.GoViol, gallina.GoViolation{ID: strconv.Itoa(id), Shape: "undecodable-request", What: decodeErr})
	}

	// emit
	var seriesG []string
	for _, sp := range specs {
		seriesG = append(seriesG, gallina.Pair(gallina.ZU(sp.ref), in.pairs(labelSlice(sp.lset))))
	}
	var rulesG []string
	for _, ru := range rules {
		rulesG = append(rulesG, ru.gallina(in))
	}
	var reqG []string
	byOutcome := [3]int{}
	dupWhole := false
	seen := map[string]bool{}
	for _, q := range reqs {
		byOutcome[q.outcome]++
		var its []string
		var key []string
		for _, it := range q.items {
			its = append(its, gallina.Pair(gallina.Z(it.id), in.pairs(it.lbls)))
			key = append(key, strconv.FormatInt(it.id, 10))
		}
		k := strings.Join(key, ",")
		if seen[k] {
			dupWhole = true
		}
		seen[k] = true
		reqG = append(reqG, gallina.Pair(gallina.Z(int64(q.outcome)), gallina.List(its)))
	}
	var extStr []string
	for k, v := range ext {
		extStr = append(extStr, k+"="+v)
	}
	sort.Strings(extStr)
	cf.Add(fmt.Sprintf("CCase %s (mkCC %s %s %s %s %s %s %s %s %s %s %s %s %s %s)", gallina.Z(int64(id)),
		gallina.Nat(bsz), in.pairs(labelSlice(mapLabels(ext))), gallina.List(rulesG), gallina.List(seriesG),
		gallina.List(fed), gallina.List(reqG), gallina.Bool(hard), gallina.Bool(settled),
		gallina.Z(cnt[0]), gallina.Z(cnt[1]), gallina.Z(cnt[2]), gallina.Z(cnt[3]), gallina.Z(cnt[4]), gallina.Z(cnt[5])))

	shape := "conc"
	if dupWhole && byOutcome[1] == 0 && byOutcome[2] == 0 {
		shape = "conc-whole-request-repeated-without-failure"
	}
	meta.Evaluations++
	if len(reqs) >= 2 && (len(reshards) > 0 || byOutcome[1]+byOutcome[2] > 0) {
		meta.Nontrivial++
	}
	meta.Hit("conc")
	mode := "direct"
	if wal {
		mode = "wal"
		meta.Hit("conc:wal")
		if walNote != "" {
			meta.Hit("conc:wal:" + walNote)
		}
	}
	meta.Hit(fmt.Sprintf("conc:reshards=%d", min(len(reshards), 3)))
	if byOutcome[1] > 0 {
		meta.Hit("conc:recoverable")
	}
	if byOutcome[2] > 0 && !hard {
		meta.Hit("conc:unrecoverable")
	}
	if hard {
		meta.Hit("conc:hard-shutdown")
	}
	if fedClass[1] > 0 {
		meta.Hit("conc:too-old")
	}
	if fedClass[2] > 0 {
		meta.Hit("conc:relabel-dropped")
	}
	if fedClass[3] > 0 {
		meta.Hit("conc:unknown-series")
	}
	if len(ext) > 0 {
		meta.Hit("conc:external-labels")
	}
	if kinds {
		meta.Hit("conc:exemplars-histograms")
	}
	if capa < bsz {
		meta.Hit("conc:capacity-below-batch")
	}
	meta.Case(id, concDesc{Kind: "conc", Shape: shape, Idx: idx, Mode: mode, Shards: n0, Bsz: bsz, Cap: capa,
		Deadline: deadline.String(), Rules: rules, Ext: extStr, Series: len(specs), Samples: len(fed), Reshards: reshards,
		Requests: len(reqs), Failures: byOutcome, Hard: hard, AgeLimit: ageLimit, Settled: settled, Counters: cnt, DecodeErr: decodeErr})
}

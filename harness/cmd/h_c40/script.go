package main

import (
	"fmt"
	"strconv"
	"strings"
	"time"

	"github.com/prometheus/prometheus/model/labels"
	"github.com/prometheus/prometheus/storage/remote"

	"verif/harness/internal/gallina"
	"verif/harness/internal/gen"
)

// one step of a queue script: 'a' Append(x), 'r' receive from Chan(), 't' Batch() (timer branch),
// 'f' tryEnqueueingBatch, 's' FlushAndShutdown, 'B' FlushAndShutdown started on a full channel with a
// non-empty partial batch: it must stay blocked (retrying every second) until a receive makes room
type sop struct {
	K byte  `json:"k"`
	X int64 `json:"x,omitempty"`
}

type fixedScript struct {
	Name     string
	Bsz, Cap int
	Ops      []sop
}

func ap(xs ...int64) []sop {
	var out []sop
	for _, x := range xs {
		out = append(out, sop{'a', x})
	}
	return out
}

func cat(parts ...[]sop) []sop {
	var out []sop
	for _, p := range parts {
		out = append(out, p...)
	}
	return out
}

var (
	oR = []sop{{K: 'r'}}
	oT = []sop{{K: 't'}}
	oF = []sop{{K: 'f'}}
	oS = []sop{{K: 's'}}
	oB = []sop{{K: 'B'}}
)

var fixedScripts = []fixedScript{
	{"fill-and-drain", 2, 4, cat(ap(1, 2, 3, 4, 5), oR, oR, oT, oR, oS, oR)},
	{"channel-full-retry", 2, 2, cat(ap(1, 2, 3, 4, 5), oR, ap(4, 5), oR, oS, oR, oR)},
	{"capacity-below-batch", 3, 1, cat(ap(1, 2, 3, 4, 5, 6), oR, ap(6), oT, oT, oS, oR)},
	{"timer-prefers-channel", 2, 4, cat(ap(1, 2, 3), oT, oT, oT, oS, oR)},
	{"flush-partial", 3, 6, cat(ap(1, 2, 3, 4), oS, oR, oR, oR, oT)},
	{"flush-retry-when-full", 2, 2, cat(ap(1, 2, 3), oF, oR, oS, oR, oR)},
	{"batch-one", 1, 3, cat(ap(1, 2, 3, 4), oR, ap(4), oR, oR, oR, oS, oR)},
	// the timer fires between the two critical sections of FlushAndShutdown (regression for the
	// duplicate send fixed by dca118dfcb)
	{"flush-timer-duplicate", 3, 3, cat(ap(1, 2), oF, oR, oT, oS, oR)},
	{"flush-then-timer-then-recv", 2, 4, cat(ap(1, 2, 3), oF, oT, oT, oR, oS, oR)},
	// FlushAndShutdown keeps retrying while the channel is full, for longer than two of its 1 s waits
	{"flush-blocked-until-drained", 2, 2, cat(ap(1, 2, 3), oB, oR, oR)},
	{"flush-blocked-two-slots", 3, 6, cat(ap(1, 2, 3, 4, 5, 6, 7, 8), oB, oR, oR, oR)},
}

type scriptDesc struct {
	Kind  string `json:"kind"`
	Shape string `json:"shape"`
	Name  string `json:"name,omitempty"`
	Bsz   int    `json:"batch_size"`
	Cap   int    `json:"capacity"`
	Ops   string `json:"ops"`
}

func gobs(items []remote.VerifItem) []int64 {
	out := make([]int64, 0, len(items))
	for _, it := range items {
		out = append(out, int64(it.V))
	}
	return out
}

func runScript(id int, seed uint64, idx int, fixed *fixedScript, cf *gallina.CaseFile, meta *gallina.Meta) {
	r := gen.Fork(seed, idx)
	var bsz, capa int
	if fixed != nil {
		bsz, capa = fixed.Bsz, fixed.Cap
	} else {
		bsz = 1 + r.Intn(4)
		switch r.Intn(4) {
		case 0:
			capa = r.Intn(bsz + 1) // below or at one batch: a single channel slot
		default:
			capa = bsz*(1+r.Intn(3)) + r.Intn(bsz)
		}
	}
	nbq := capa / bsz
	if nbq == 0 {
		nbq = 1
	}
	q := remote.VerifNewQueue(bsz, capa)
	done := make(chan struct{})

	// mirror of the queue's occupancy, used only to choose legal next steps
	chanLen, batchLen := 0, 0
	flushed, shut, closedSeen, aborted := false, false, false, false
	refused, partial, race, blockedFlush := false, false, false, false
	next := int64(1)
	var retry []int64 // values whose Append was refused, to be retried in order

	var opsG, obsG, opsS []string
	do := func(o sop) {
		switch o.K {
		case 'a':
			ok := q.Append(remote.VerifItem{Labels: labels.FromStrings("id", strconv.FormatInt(o.X, 10)), T: o.X, V: float64(o.X)})
			opsG = append(opsG, "QAppend "+gallina.Z(o.X))
			obsG = append(obsG, "OBool "+gallina.Bool(ok))
			opsS = append(opsS, "a"+strconv.FormatInt(o.X, 10))
			if ok {
				batchLen++
				if batchLen == bsz {
					batchLen = 0
					chanLen++
				}
			} else {
				refused = true
			}
			if !ok && fixed == nil {
				retry = append(retry, o.X)
			}
		case 'r':
			items, ok, ready := q.Recv()
			opsG = append(opsG, "QRecv")
			opsS = append(opsS, "r")
			switch {
			case !ready:
				obsG = append(obsG, "OBlock")
			case !ok:
				obsG = append(obsG, "OClosed")
				closedSeen = true
			default:
				obsG = append(obsG, "OBatch "+gallina.ListZ(gobs(items)))
				chanLen--
			}
		case 't':
			items := q.Batch()
			opsG = append(opsG, "QTimer")
			opsS = append(opsS, "t")
			obsG = append(obsG, "OBatch "+gallina.ListZ(gobs(items)))
			if chanLen > 0 {
				chanLen--
			} else if !shut {
				if batchLen > 0 {
					partial = true
				}
				batchLen = 0
			}
		case 'f':
			again := q.TryEnqueueingBatch(done)
			opsG = append(opsG, "QTryFlush")
			opsS = append(opsS, "f")
			obsG = append(obsG, "OBool "+gallina.Bool(again))
			if !again && batchLen > 0 {
				chanLen++
				batchLen = 0 // tryEnqueueingBatch forgets the batch it has handed over
				flushed = true
				partial = true
			}
		case 's':
			// only issued when FlushAndShutdown cannot block (channel has room or batch empty)
			ret := make(chan struct{})
			go func() { q.FlushAndShutdown(done); close(ret) }()
			opsG = append(opsG, "QShutdown")
			opsS = append(opsS, "s")
			select {
			case <-ret:
				obsG = append(obsG, "OUnit")
			case <-time.After(30 * time.Second): // it spins: report and abandon the script
				obsG = append(obsG, "OBlock")
				aborted = true
			}
			if batchLen > 0 {
				chanLen++
				partial = true
			}
			batchLen = 0
			shut = true
		case 'B':
			// precondition (checked by the caller): partial batch non-empty, channel full.
			// Real time: FlushAndShutdown runs concurrently and must not return while the channel
			// stays full (2.3 s > two of its retry waits); one receive; then it must hand the
			// partial batch over and return.  As atomic steps: tryEnqueueingBatch (retry), the
			// receive, tryEnqueueingBatch (success) + close.
			ret := make(chan struct{})
			go func() { q.FlushAndShutdown(done); close(ret) }()
			blocked := true
			select {
			case <-ret:
				blocked = false
			case <-time.After(2300 * time.Millisecond):
			}
			opsG = append(opsG, "QTryFlush")
			opsS = append(opsS, "B")
			obsG = append(obsG, "OBool "+gallina.Bool(blocked))
			items, ok, ready := q.Recv()
			opsG = append(opsG, "QRecv")
			switch {
			case !ready:
				obsG = append(obsG, "OBlock")
			case !ok:
				obsG = append(obsG, "OClosed")
				closedSeen = true
			default:
				obsG = append(obsG, "OBatch "+gallina.ListZ(gobs(items)))
				chanLen--
			}
			opsG = append(opsG, "QShutdown")
			select {
			case <-ret:
				obsG = append(obsG, "OUnit")
			case <-time.After(30 * time.Second):
				obsG = append(obsG, "OBlock")
				aborted = true
			}
			chanLen++
			batchLen = 0
			partial = true
			shut = true
			blockedFlush = true
		}
	}

	if fixed != nil {
		for _, o := range fixed.Ops {
			do(o)
		}
		race = fixed.Name == "flush-timer-duplicate"
	} else {
		n := 5 + r.Intn(40)
		wantRace := r.Chance(1, 40)
		for i := 0; i < n && !shut; i++ {
			c := r.Intn(100)
			switch {
			case c < 55:
				if flushed { // after tryEnqueueingBatch has handed the batch over only the consumer side runs
					do(sop{K: 'r'})
					break
				}
				x := next
				if len(retry) > 0 { // Append's retry loop: the refused sample comes again first
					x = retry[0]
					retry = retry[1:]
				} else {
					next++
				}
				do(sop{'a', x})
			case c < 78:
				do(sop{K: 'r'})
			case c < 90:
				do(sop{K: 't'})
			case c < 95:
				// FlushAndShutdown's first critical section (possibly its retry loop)
				if len(retry) == 0 {
					do(sop{K: 'f'})
				}
			}
		}
		if wantRace && !shut && !flushed && batchLen > 0 && chanLen < nbq && len(retry) == 0 {
			// first half of FlushAndShutdown, runShard consuming, timer on the stale batch, second half
			do(sop{K: 'f'})
			for chanLen > 0 {
				do(sop{K: 'r'})
			}
			do(sop{K: 't'})
			race = true
			batchLen = 0
		}
		_ = flushed
		// shut down: make room first if the partial batch could not be pushed -- or, rarely (it costs
		// 2.3 s of real time), let FlushAndShutdown find the channel full and retry
		if !shut && !flushed && batchLen > 0 && chanLen >= nbq && len(retry) == 0 && r.Chance(1, 60) {
			do(sop{K: 'B'})
		}
		for !shut && batchLen > 0 && chanLen >= nbq {
			do(sop{K: 'r'})
		}
		if !shut {
			do(sop{K: 's'})
		}
		for i := 0; i < nbq+3 && !closedSeen && !aborted; i++ {
			if r.Chance(1, 5) {
				do(sop{K: 't'})
			} else {
				do(sop{K: 'r'})
			}
		}
		if r.Chance(1, 4) && !aborted {
			do(sop{K: 't'}) // Batch() on a closed, empty channel
		}
	}

	shape := "script" // the flush/timer interleaving is a regression case since fix dca118dfcb
	name := ""
	if fixed != nil {
		name = fixed.Name
	}
	cf.Add(fmt.Sprintf("SCase %s %s %s %s %s", gallina.Z(int64(id)), gallina.Nat(bsz), gallina.Nat(capa),
		gallina.List(opsG), gallina.List(obsG)))
	meta.Evaluations++
	if refused || partial {
		meta.Nontrivial++
	}
	meta.Hit("script")
	if refused {
		meta.Hit("script:append-refused")
	}
	if partial {
		meta.Hit("script:partial-batch")
	}
	if race {
		meta.Hit("script:flush-timer-race")
	}
	if blockedFlush {
		meta.Hit("script:flush-blocked-on-full-channel")
	}
	if capa < bsz {
		meta.Hit("script:capacity-below-batch")
	}
	meta.Case(id, scriptDesc{Kind: "script", Shape: shape, Name: name, Bsz: bsz, Cap: capa, Ops: strings.Join(opsS, " ")})
}

package main

import (
	"fmt"
	"os"
	"strconv"
	"time"

	"github.com/prometheus/common/model"
	"github.com/prometheus/common/promslog"

	"github.com/prometheus/prometheus/config"
	"github.com/prometheus/prometheus/model/labels"
	"github.com/prometheus/prometheus/storage/remote"
	"github.com/prometheus/prometheus/tsdb/chunks"
	"github.com/prometheus/prometheus/tsdb/record"

	"verif/harness/internal/gallina"
	"verif/harness/internal/gen"
)

// runFlushRetry: the regime in which FlushAndShutdown has to retry for a long time.
// Every shard is brought into the state "one batch in flight, batchQueue channel full, partial
// batch non-empty"; the endpoint then stalls (a successful Store does not return) or fails
// recoverably for `hold` (> 2.5 s, several of FlushAndShutdown's 1 s retry waits, far below the
// flush deadline) while Stop() or a reshard is requested.  No batch is abandoned, so holds_conc
// demands every appended sample, per series in order, exactly once.
func runFlushRetry(id int, seed uint64, idx int, outDir string, cf *gallina.CaseFile, meta *gallina.Meta) {
	r := gen.Fork(seed, idx)
	in := newInterner()
	n0 := 1 + r.Intn(2)
	bsz := 2 + r.Intn(2)
	nbq := 1 + r.Intn(2)
	stall := idx%2 == 0       // slow endpoint, else recoverable errors
	reshard := (idx/2)%2 == 1 // reshard first, else Stop at once
	hold := time.Duration(2600+r.Intn(700)) * time.Millisecond

	cfg := config.DefaultQueueConfig
	cfg.MinShards, cfg.MaxShards = n0, 8
	cfg.MaxSamplesPerSend, cfg.Capacity = bsz, bsz*nbq
	cfg.BatchSendDeadline = model.Duration(20 * time.Second) // the partial batches wait for the flush
	cfg.MinBackoff, cfg.MaxBackoff = model.Duration(100*time.Millisecond), model.Duration(250*time.Millisecond)
	cl := &fakeClient{rng: gen.Fork(seed, idx+31), blockAfter: -1}
	if stall {
		cl.gate = make(chan struct{})
	} else {
		cl.failing.Store(true)
	}
	dir, err := os.MkdirTemp(outDir, "c40f_")
	if err != nil {
		panic(err)
	}
	defer os.RemoveAll(dir)
	qm := remote.VerifNewQueueManager(promslog.NewNopLogger(), dir, cfg, labels.EmptyLabels(), nil, cl, 5*time.Minute, false, false, false)
	qm.Start()

	// two series per shard (refs k, k+n0 -> shard k)
	type ser struct {
		ref  uint64
		lset labels.Labels
	}
	var series []ser
	var rs []record.RefSeries
	for i := 0; i < 2*n0; i++ {
		s := ser{ref: uint64(10*n0 + i), lset: labels.FromStrings("__name__", "m"+strconv.Itoa(i), "job", "j1")}
		series = append(series, s)
		rs = append(rs, record.RefSeries{Ref: chunks.HeadSeriesRef(s.ref), Labels: s.lset})
	}
	qm.StoreSeries(rs, 0)

	now := time.Now().UnixMilli()
	var fed []string
	appendOK := true
	feed := func(si int) {
		sid := int64(len(fed))
		fed = append(fed, gallina.Pair(gallina.ZU(series[si].ref), gallina.Z(0)))
		if !qm.Append([]record.RefSample{{Ref: chunks.HeadSeriesRef(series[si].ref), T: now + sid, V: float64(sid)}}) {
			appendOK = false
		}
	}
	// per shard: (1 + nbq) full batches (one in flight, nbq in the channel) + p samples in the partial batch
	perShard := (1+nbq)*bsz + 1 + r.Intn(bsz-1)
	feedRet := make(chan struct{})
	go func() {
		defer close(feedRet)
		for j := 0; j < perShard; j++ {
			for k := 0; k < n0; k++ {
				feed(k + n0*(j%2)) // series k and k+n0 both live in shard k
			}
		}
	}()
	hung := false
	select {
	case <-feedRet:
	case <-time.After(120 * time.Second):
		hung = true
		meta.GoViol = append(meta.GoViol, gallina.GoViolation{ID: strconv.Itoa(id), Shape: "feed-hang", What: "flush-retry case: the initial feed did not finish within 120 s"})
	}

	release := func() {
		if stall {
			close(cl.gate)
		} else {
			cl.failing.Store(false)
		}
	}
	stopped := make(chan struct{})
	var reshardTo int
	if !hung && reshard {
		reshardTo = 1 + r.Intn(3)
		qm.VerifReshard(reshardTo) // returns once reshardLoop has taken it and runs stop()
		time.Sleep(hold)
		release()
		// these wait in Append's retry loop until the new shards are started
		for j := 0; j < 2+r.Intn(4); j++ {
			for si := range series {
				feed(si)
			}
		}
		go func() { qm.Stop(); close(stopped) }()
	} else {
		go func() { qm.Stop(); close(stopped) }()
		if !hung {
			time.Sleep(hold)
		}
		release()
	}
	settled := false
	select {
	case <-stopped:
		settled = !hung
	case <-time.After(300 * time.Second):
		meta.GoViol = append(meta.GoViol, gallina.GoViolation{ID: strconv.Itoa(id), Shape: "stop-hang", What: "QueueManager.Stop did not return within 300 s (flush-retry case)"})
	}
	if !appendOK && !hung {
		meta.GoViol = append(meta.GoViol, gallina.GoViolation{ID: strconv.Itoa(id), Shape: "append-false", What: "Append returned false before Stop"})
	}

	sentC, failedC, retriedC, _, droppedV := qm.VerifCounters()
	ro, rd, ru := remote.VerifDropReasons()
	cnt := []int64{counterValue(sentC), counterValue(failedC), counterValue(retriedC),
		counterValue(droppedV.WithLabelValues(ro)), counterValue(droppedV.WithLabelValues(rd)), counterValue(droppedV.WithLabelValues(ru))}
	cl.mu.Lock()
	reqs := cl.reqs
	cl.mu.Unlock()
	var reqG, seriesG []string
	byOutcome := [3]int{}
	received := 0
	for _, q := range reqs {
		byOutcome[q.outcome]++
		var its []string
		for _, it := range q.items {
			its = append(its, gallina.Pair(gallina.Z(it.id), in.pairs(it.lbls)))
			if q.outcome == 0 {
				received++
			}
		}
		reqG = append(reqG, gallina.Pair(gallina.Z(int64(q.outcome)), gallina.List(its)))
	}
	for _, s := range series {
		seriesG = append(seriesG, gallina.Pair(gallina.ZU(s.ref), in.pairs(labelSlice(s.lset))))
	}
	cf.Add(fmt.Sprintf("CCase %s (mkCC %s [] [] %s %s %s false %s %s %s %s %s %s %s)", gallina.Z(int64(id)),
		gallina.Nat(bsz), gallina.List(seriesG), gallina.List(fed), gallina.List(reqG), gallina.Bool(settled),
		gallina.Z(cnt[0]), gallina.Z(cnt[1]), gallina.Z(cnt[2]), gallina.Z(cnt[3]), gallina.Z(cnt[4]), gallina.Z(cnt[5])))
	meta.Evaluations++
	meta.Nontrivial++
	meta.Hit("conc")
	meta.Hit("conc:flush-retry")
	if stall {
		meta.Hit("conc:flush-retry:slow-endpoint")
	} else {
		meta.Hit("conc:flush-retry:recoverable-errors")
	}
	if reshard {
		meta.Hit("conc:flush-retry:reshard")
	} else {
		meta.Hit("conc:flush-retry:stop")
	}
	meta.Case(id, map[string]any{"kind": "conc-flush-retry", "shape": "conc", "idx": idx, "shards": n0, "max_samples_per_send": bsz,
		"capacity": bsz * nbq, "per_shard_before_stop": perShard, "slow_endpoint": stall, "reshard_to": reshardTo, "hold": hold.String(),
		"samples": len(fed), "samples_received_ok": received, "requests": len(reqs), "requests_by_outcome": byOutcome, "settled": settled,
		"what": "every shard: one batch in flight, channel full, partial batch non-empty; endpoint stalls / fails recoverably for `hold` while Stop or a reshard runs; FlushAndShutdown must keep retrying"})
}

// h_c40: harness for C40 (remote write delivers every sample in order despite resharding and
// retries).  Part 1 (script.go): deterministic single-goroutine scripts on a real remote.queue,
// compared return value by return value with the Coq model.  Part 2 (conc.go): concurrent runs of a
// real QueueManager (direct feed, or a real WAL read by the real watcher) against a fake
// WriteClient with injected failures and latency and reshards forced at random points; what the
// client received is checked with the proved predicates.
package main

import (
	"os"
	"strconv"

	"verif/harness/internal/gallina"
)

func main() {
	f := gallina.ParseFlags()
	meta := gallina.NewMeta("C40", f.Seed, f.Tier)
	meta.Rule = "scripts: fixed corpus + seeded random single-goroutine scripts on one real remote.queue (Append / channel receive / Batch / tryEnqueueingBatch / FlushAndShutdown); non-trivial = at least one Append was refused (channel full) or a partial batch was taken by the timer or flushed. concurrent: one case per run of a real QueueManager (1-4 initial shards, forced reshards, recoverable / unrecoverable errors, latency, relabel + external labels, dropped / unknown / too-old samples, SeriesReset; some runs through a real WAL + watcher); non-trivial = at least two Store calls and at least one reshard or one failed Store"
	cf := &gallina.CaseFile{Dir: f.Out, Type: "case", PerShard: 400,
		Preamble: "From Coq Require Import List ZArith.\nFrom Verif Require Import model.RemoteQueue corr.CorrC40.\nImport ListNotations.\nOpen Scope Z_scope.\n",
		Footer:   gallina.StdFooter}
	id := 0
	if v := os.Getenv("VERIF_C40_ONLY"); v != "" { // debugging aid: one concurrent run, logging to stderr
		idx, _ := strconv.Atoi(v)
		runConc(0, f.Seed, idx, f.Out, cf, meta)
		cf.Flush()
		meta.Write(f.Out)
		return
	}
	for i := range fixedScripts {
		runScript(id, f.Seed, -1-i, &fixedScripts[i], cf, meta)
		id++
	}
	reproFlushTimer(id, f.Seed, f.Out, cf, meta)
	id++
	nScripts := f.Count(300, 6000)
	for i := 0; i < nScripts; i++ {
		runScript(id, f.Seed, i, nil, cf, meta)
		id++
	}
	// Stop / reshard while the endpoint stalls or fails for > 2.5 s with full channels and non-empty
	// partial batches: FlushAndShutdown has to keep retrying (a few seconds of real time each)
	nFlush := f.Count(4, 16)
	for i := 0; i < nFlush; i++ {
		runFlushRetry(id, f.Seed, 2000000+i, f.Out, cf, meta)
		id++
	}
	nConc := f.Count(24, 150)
	for i := 0; i < nConc; i++ {
		runConc(id, f.Seed, 1000000+i, f.Out, cf, meta)
		id++
	}
	cf.Flush()
	meta.Notes = append(meta.Notes, "the harness binary is built by the driver without -race; the schedule of part 2 is the Go runtime's")
	meta.Write(f.Out)
}

package main

// Go mirror of the schema of coq/model/Config.v: only key names, omitempty flags and kinds.
// It is used to (a) project a loaded *config.Config onto the modelled field tree by reflection,
// (b) project the printed YAML onto the modelled key skeleton.  Defaults and hooks live in the
// Coq model only; a wrong entry here shows up as a correspondence mismatch.

type kind int

const (
	kInt kind = iota
	kStr
	kBool
	kRegex
	kPtr
	kSeq
	kRec
)

type ty struct {
	k  kind
	e  *ty
	fs []fld
}

type fld struct {
	key  string
	omit bool
	t    *ty
}

var (
	tInt   = &ty{k: kInt}
	tStr   = &ty{k: kStr}
	tBool  = &ty{k: kBool}
	tRegex = &ty{k: kRegex}
)

func ptr(t *ty) *ty     { return &ty{k: kPtr, e: t} }
func seq(t *ty) *ty     { return &ty{k: kSeq, e: t} }
func rec(fs ...fld) *ty { return &ty{k: kRec, fs: fs} }
func F(k string, t *ty) fld { return fld{k, false, t} }
func O(k string, t *ty) fld { return fld{k, true, t} }

var (
	relabelTy = rec(O("source_labels", seq(tStr)), F("separator", tStr), O("regex", tRegex), O("modulus", tInt),
		O("target_label", tStr), F("replacement", tStr), O("action", tStr))
	relabelSeq = seq(ptr(relabelTy))

	globalTy = rec(O("scrape_interval", tInt), O("scrape_timeout", tInt), O("scrape_protocols", seq(tStr)),
		O("evaluation_interval", tInt), O("rule_query_offset", tInt), O("query_log_file", tStr),
		O("scrape_failure_log_file", tStr), O("body_size_limit", tInt), O("sample_limit", tInt),
		O("target_limit", tInt), O("label_limit", tInt), O("label_name_length_limit", tInt),
		O("label_value_length_limit", tInt), O("keep_dropped_targets", tInt),
		O("metric_name_validation_scheme", tStr), O("metric_name_escaping_scheme", tStr),
		O("scrape_native_histograms", ptr(tBool)), O("convert_classic_histograms_to_nhcb", tBool),
		O("always_scrape_classic_histograms", tBool), O("extra_scrape_metrics", ptr(tBool)))

	scrapeTy = rec(F("job_name", tStr), O("honor_labels", tBool), F("honor_timestamps", tBool),
		F("track_timestamps_staleness", tBool), O("scrape_interval", tInt), O("scrape_timeout", tInt),
		O("scrape_protocols", seq(tStr)), O("fallback_scrape_protocol", tStr),
		O("scrape_native_histograms", ptr(tBool)), O("always_scrape_classic_histograms", ptr(tBool)),
		O("convert_classic_histograms_to_nhcb", ptr(tBool)), O("scrape_failure_log_file", tStr),
		O("metrics_path", tStr), O("scheme", tStr), F("enable_compression", tBool),
		O("body_size_limit", tInt), O("sample_limit", tInt), O("target_limit", tInt), O("label_limit", tInt),
		O("label_name_length_limit", tInt), O("label_value_length_limit", tInt),
		O("native_histogram_bucket_limit", tInt), O("keep_dropped_targets", tInt),
		O("metric_name_validation_scheme", tStr), O("metric_name_escaping_scheme", tStr),
		O("extra_scrape_metrics", ptr(tBool)), F("follow_redirects", tBool), F("enable_http2", tBool),
		O("relabel_configs", relabelSeq), O("metric_relabel_configs", relabelSeq))

	amTy = rec(F("follow_redirects", tBool), F("enable_http2", tBool), O("scheme", tStr), O("path_prefix", tStr),
		O("timeout", tInt), F("api_version", tStr), O("relabel_configs", relabelSeq),
		O("alert_relabel_configs", relabelSeq))
	alertingTy = rec(O("alert_relabel_configs", relabelSeq), O("alertmanagers", seq(ptr(amTy))))

	queueTy = rec(O("capacity", tInt), O("max_shards", tInt), O("min_shards", tInt), O("max_samples_per_send", tInt),
		O("batch_send_deadline", tInt), O("min_backoff", tInt), O("max_backoff", tInt),
		O("retry_on_http_429", tBool), O("sample_age_limit", tInt))
	metadataTy = rec(F("send", tBool), F("send_interval", tInt), O("max_samples_per_send", tInt))
	rwTy       = rec(F("url", ptr(tStr)), O("remote_timeout", tInt), O("write_relabel_configs", relabelSeq),
		O("name", tStr), O("send_exemplars", tBool), O("send_native_histograms", tBool),
		O("round_robin_dns", tBool), O("protobuf_message", tStr), O("failed_request_logging", tBool),
		F("follow_redirects", tBool), F("enable_http2", tBool), O("queue_config", queueTy),
		O("metadata_config", metadataTy))
	rrTy = rec(F("url", ptr(tStr)), O("remote_timeout", tInt), O("chunked_read_limit", tInt), O("read_recent", tBool),
		O("name", tStr), F("follow_redirects", tBool), F("enable_http2", tBool),
		O("filter_external_labels", tBool))

	retentionTy = rec(O("time", tInt), O("size", tInt))
	tsdbTy      = rec(F("outofordertimewindow", tInt), O("out_of_order_time_window", tInt),
		O("chunk_encoding", rec(O("floats", tStr))), O("retention", ptr(retentionTy)))
	storageTy = rec(O("tsdb", ptr(tsdbTy)), O("exemplars", ptr(rec(O("max_exemplars", tInt)))))

	otlpTy = rec(O("promote_all_resource_attributes", tBool), O("promote_resource_attributes", seq(tStr)),
		O("ignore_resource_attributes", seq(tStr)), O("translation_strategy", tStr),
		O("keep_identifying_resource_attributes", tBool), O("convert_histograms_to_nhcb", tBool),
		O("promote_scope_metadata", tBool), O("label_name_underscore_sanitization", tBool),
		O("label_name_preserve_multiple_underscores", tBool))

	topTy = rec(F("global", globalTy), O("runtime", rec(O("gogc", tInt))), O("alerting", alertingTy),
		O("rule_files", seq(tStr)), O("scrape_config_files", seq(tStr)), O("scrape_configs", seq(ptr(scrapeTy))),
		O("storage", storageTy), O("remote_write", seq(ptr(rwTy))), O("remote_read", seq(ptr(rrTy))),
		O("otlp", otlpTy))
)

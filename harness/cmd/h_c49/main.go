// h_c49: correspondence harness for C49 (printing a configuration and loading it back is lossless).
//
// For every generated YAML document t0 (a typed tree: modelled keys + extra keys of unmodelled
// fields) it runs the real code
//
//	c1 = config.Load(t0); t1 = c1.String(); c2 = config.Load(t1); t2 = c2.String();
//	c3 = config.Load(t2); t3 = c3.String()
//
// and writes for Coq: the modelled part of t0, the modelled field tree of c1, c2, c3 (by
// reflection), the key skeleton of t1, and hashes of the complete canonical dumps of c1, c2, c3
// (every field, modelled or not) and of the texts.  Coq evaluates
//
//	agree: model load(t0) = c1 (or both reject); keys written by the model's print(c1) = keys in t1;
//	       c1 is a well-typed hook fixed point; model load(print(c1)) = c2
//	holds: c2 = c1 (modelled tree and complete dump), t2 = t1 (the property), and the same for
//	       (c3, t3) against (c2, t2) (idempotence)
package main

import (
	"fmt"
	"os"
	"path/filepath"
	"reflect"
	"sort"
	"strings"

	"github.com/prometheus/common/promslog"
	"go.yaml.in/yaml/v2"

	"github.com/prometheus/prometheus/config"
	_ "github.com/prometheus/prometheus/discovery/file"

	"verif/harness/internal/gallina"
	"verif/harness/internal/gen"
)

type desc struct {
	Shape  string   `json:"shape"`
	Corpus string   `json:"corpus,omitempty"`
	Broken string   `json:"broken,omitempty"`
	Yaml   string   `json:"yaml"`
	Obs    string   `json:"obs"`
	Diff   []string `json:"diff,omitempty"`
}

var logger = promslog.NewNopLogger()

type loaded struct {
	ok   bool
	err  string
	cfg  *config.Config
	tree *N
	dump []string
	text string
}

func load(text string) (l loaded) {
	defer func() {
		if r := recover(); r != nil {
			l = loaded{err: fmt.Sprint("PANIC: ", r)}
		}
	}()
	c, err := config.Load(text, logger)
	if err != nil {
		return loaded{err: err.Error()}
	}
	l.ok, l.cfg = true, c
	l.tree = project(reflect.ValueOf(c), topTy)
	l.dump = dumpOf(c)
	l.text = c.String()
	return l
}

func h2(a, b uint64) string { return fmt.Sprintf("%d %d", a, b) }

type writer struct {
	dir      string
	shard    int
	perShard int
	st       *strTab
	defs     []string
	names    []string
}

const preamble = `From Coq Require Import List ZArith String Uint63.
From Verif Require Import model.Config corr.CorrC49.
Import ListNotations.
Open Scope string_scope.
Open Scope uint63_scope.
`

func (w *writer) flush() {
	if len(w.names) == 0 && w.shard > 0 {
		return
	}
	var sb strings.Builder
	sb.WriteString(preamble)
	if w.st != nil {
		for _, d := range w.st.defs {
			sb.WriteString(d + "\n")
		}
	}
	for _, d := range w.defs {
		sb.WriteString(d + "\n")
	}
	sb.WriteString("Definition cases : list case := [" + strings.Join(w.names, "; ") + "].\n")
	sb.WriteString(gallina.StdFooter + "\n")
	if err := os.WriteFile(filepath.Join(w.dir, fmt.Sprintf("cases_%03d.v", w.shard)), []byte(sb.String()), 0o644); err != nil {
		panic(err)
	}
	w.shard++
	w.st, w.defs, w.names = nil, nil, nil
}

func main() {
	f := gallina.ParseFlags()
	if config.DefaultRuntimeConfig.GoGC != 75 {
		// the model's DefaultRuntimeConfig is the one with GOGC unset
		os.Unsetenv("GOGC")
		fmt.Fprintln(os.Stderr, "h_c49: GOGC is set in the environment; run with GOGC unset")
		os.Exit(2)
	}
	meta := gallina.NewMeta("C49", f.Seed, f.Tier)
	meta.Rule = "corpus (one document per known lossy field, fixed regression documents) + seeded random documents over all modelled sections (global, runtime, alerting, rule_files, scrape_configs with relabeling / static and file SD / HTTP client settings, storage, tracing, remote_write, remote_read, otlp); 15% of the documents may carry explicit zero values in omitempty fields with a non-zero default, 12% carry one deliberate violation of a modelled validation rule; non-trivial = the document is accepted and has at least 3 top-level sections; distinct by YAML text"
	w := &writer{dir: f.Out, perShard: 150}
	id := 0
	seen := map[string]bool{}

	emit := func(doc *N, corpus, broken string, cls map[string]bool) {
		var sb strings.Builder
		doc.yaml(&sb)
		t0 := sb.String() + "\n"
		if seen[t0] {
			return
		}
		seen[t0] = true
		if w.st == nil {
			w.st = &strTab{}
		}
		l1 := load(t0)
		d := desc{Yaml: t0, Corpus: corpus, Broken: broken, Shape: "ok"}
		name := fmt.Sprintf("c%d", id)
		docT := doc.term(w.st)
		w.defs = append(w.defs, fmt.Sprintf("Definition d%d : node := %s.", id, docT))
		for c := range cls {
			meta.Hit(c)
		}
		if !l1.ok {
			d.Obs = "rejected: " + l1.err
			d.Shape = "rejected"
			ctor := "mkRejected"
			if strings.HasPrefix(l1.err, "PANIC") {
				// not a round-trip matter: the model must predict the panic (agree); see notes
				d.Shape = "load-panic"
				ctor = "mkPanicked"
				meta.Hit("load-panic")
			}
			if broken == "" {
				meta.Hit("rejected-unplanned")
			} else {
				meta.Hit("rejected-planned")
			}
			w.defs = append(w.defs, fmt.Sprintf("Definition %s : case := %s %d d%d.", name, ctor, id, id))
		} else {
			if broken != "" {
				meta.Hit("broken-but-accepted")
			}
			meta.Hit("accepted")
			if len(doc.m) >= 3 {
				meta.Nontrivial++
			}
			var y yaml.MapSlice
			if err := yaml.Unmarshal([]byte(l1.text), &y); err != nil {
				panic("printed text does not parse as YAML: " + err.Error())
			}
			skel := skeleton(y, topTy)
			f1 := l1.tree.term(w.st)
			w.defs = append(w.defs, fmt.Sprintf("Definition a%d : node := %s.", id, f1))
			w.defs = append(w.defs, fmt.Sprintf("Definition k%d : node := %s.", id, skel.term(w.st)))
			l2 := load(l1.text)
			l3 := loaded{}
			f2, f3 := "None", "None"
			var d2a, d2b, d3a, d3b, t2a, t2b, t3a, t3b uint64
			d1a, d1b := hash2(l1.dump)
			t1a, t1b := hash2([]string{l1.text})
			var parts []string
			if l2.ok {
				s := l2.tree.term(w.st)
				if s == f1 {
					f2 = fmt.Sprintf("(Some a%d)", id)
				} else {
					w.defs = append(w.defs, fmt.Sprintf("Definition b%d : node := %s.", id, s))
					f2 = fmt.Sprintf("(Some b%d)", id)
				}
				d2a, d2b = hash2(l2.dump)
				t2a, t2b = hash2([]string{l2.text})
				for _, k := range diffKeys(l1.dump, l2.dump) {
					parts = append(parts, "lost:"+strings.TrimPrefix(k, "."))
				}
				if len(parts) == 0 && l1.text != l2.text {
					parts = append(parts, "text-differs")
				}
				d.Diff = parts
				l3 = load(l2.text)
				if l3.ok {
					s3 := l3.tree.term(w.st)
					switch {
					case s3 == s && s == f1:
						f3 = fmt.Sprintf("(Some a%d)", id)
					case s3 == s:
						f3 = fmt.Sprintf("(Some b%d)", id)
					default:
						w.defs = append(w.defs, fmt.Sprintf("Definition e%d : node := %s.", id, s3))
						f3 = fmt.Sprintf("(Some e%d)", id)
					}
					d3a, d3b = hash2(l3.dump)
					t3a, t3b = hash2([]string{l3.text})
					if dk := diffKeys(l2.dump, l3.dump); len(dk) > 0 || l3.text != l2.text {
						parts = append(parts, "not-idempotent")
					}
				} else {
					parts = append(parts, "third-load-rejected")
				}
			} else {
				parts = append(parts, "reload-rejected")
				d.Obs = "reload rejected: " + l2.err
			}
			if len(parts) > 0 {
				sort.Strings(parts)
				d.Shape = strings.Join(parts, "+")
				meta.Hit("round-trip-lossy")
				if d.Obs == "" {
					d.Obs = "accepted; reload differs"
				}
			} else {
				d.Obs = "accepted; reload equal"
				meta.Hit("round-trip-exact")
			}
			w.defs = append(w.defs, fmt.Sprintf("Definition %s : case := mkLoaded %d d%d a%d k%d %s %s %s %s %s %s %s %s.",
				name, id, id, id, id, f2, f3, h2(d1a, d1b), h2(d2a, d2b), h2(d3a, d3b), h2(t1a, t1b), h2(t2a, t2b), h2(t3a, t3b)))
		}
		w.names = append(w.names, name)
		meta.Case(id, d)
		meta.Evaluations++
		id++
		if len(w.names) >= w.perShard {
			w.flush()
		}
	}

	for _, c := range corpus() {
		emit(c.doc, c.name, "", map[string]bool{"corpus": true})
	}
	n := f.Count(230, 3000)
	for i := 0; i < n; i++ {
		r := gen.Fork(f.Seed, i)
		g := &G{r: r, cls: map[string]bool{}}
		switch k := r.Intn(100); {
		case k < 15:
			g.lossy = true
			g.hit("stream:lossy-zeros")
		case k < 27:
			g.broken = gen.Pick(r, brokenKinds)
			g.hit("stream:broken")
		default:
			g.hit("stream:valid")
		}
		b := g.broken
		emit(g.doc(), "", b, g.cls)
	}
	w.flush()
	meta.Write(f.Out)
}

type corpusDoc struct {
	name string
	doc  *N
}

// corpus: one document per field whose explicit zero value is lost by the round trip (each was
// first seen as a failing case), and fixed regression documents that must round-trip exactly.
func corpus() []corpusDoc {
	rw := func() *N { return nM().set("url", nS("http://x/")) }
	sc := func() *N { return nM().set("job_name", nS("a")) }
	top := func(k string, v *N) *N { return nM().set(k, v) }
	return []corpusDoc{
		{"empty", nM()},
		{"plain", nM().set("global", nM().set("scrape_interval", nDur(15*sec))).set("scrape_configs", nQ(sc().ext("static_configs", nQ(nM().set("targets", nStrs("a:1"))))))},
		{"relabel-explicit-default-regex", top("scrape_configs", nQ(sc().set("relabel_configs", nQ(nM().set("regex", nS("(.*)")).set("target_label", nS("x"))))))},
		{"relabel-empty-separator-replacement", top("scrape_configs", nQ(sc().set("relabel_configs", nQ(nM().set("separator", nS("")).set("replacement", nS("")).set("target_label", nS("x"))))))},
		{"http-flags-false", top("scrape_configs", nQ(sc().set("follow_redirects", nB(false)).set("enable_http2", nB(false)).set("honor_timestamps", nB(false)).set("enable_compression", nB(false))))},
		{"gogc-zero", top("runtime", nM().set("gogc", nI(0)))},
		{"exemplars-zero", top("storage", nM().set("exemplars", nM().set("max_exemplars", nI(0))))},
		{"tsdb-ooo", top("storage", nM().set("tsdb", nM().set("out_of_order_time_window", nDur(30*min))))},
		{"metadata-send-false", top("remote_write", nQ(rw().set("metadata_config", nM().set("send", nB(false)))))},
		{"lossy remote_read.filter_external_labels", top("remote_read", nQ(rw().set("filter_external_labels", nB(false))))},
		{"lossy remote_read.remote_timeout", top("remote_read", nQ(rw().set("remote_timeout", nDur(0))))},
		{"lossy remote_read.chunked_read_limit", top("remote_read", nQ(rw().set("chunked_read_limit", nI(0))))},
		{"lossy remote_write.remote_timeout", top("remote_write", nQ(rw().set("remote_timeout", nDur(0))))},
		{"lossy remote_write.queue_config.batch_send_deadline", top("remote_write", nQ(rw().set("queue_config", nM().set("batch_send_deadline", nDur(0)))))},
		{"lossy remote_write.queue_config.min_backoff", top("remote_write", nQ(rw().set("queue_config", nM().set("min_backoff", nDur(0)))))},
		{"lossy remote_write.queue_config.max_backoff", top("remote_write", nQ(rw().set("queue_config", nM().set("min_backoff", nDur(0)).set("max_backoff", nDur(0)))))},
		{"lossy remote_write.metadata_config.max_samples_per_send", top("remote_write", nQ(rw().set("metadata_config", nM().set("max_samples_per_send", nI(0)))))},
		{"lossy remote_write.metadata_config all zero", top("remote_write", nQ(rw().set("metadata_config", nM().set("send", nB(false)).set("send_interval", nDur(0)).set("max_samples_per_send", nI(0)))))},
		{"lossy otlp.label_name_underscore_sanitization", top("otlp", nM().set("label_name_underscore_sanitization", nB(false)))},
		{"lossy otlp.label_name_preserve_multiple_underscores", top("otlp", nM().set("label_name_preserve_multiple_underscores", nB(false)))},
		{"lossy otlp.translation_strategy", top("otlp", nM().set("translation_strategy", nS("")))},
		{"lossy otlp all zero", top("otlp", nM().set("translation_strategy", nS("")).set("label_name_underscore_sanitization", nB(false)).set("label_name_preserve_multiple_underscores", nB(false)))},
		{"lossy alertmanager.timeout", top("alerting", nM().set("alertmanagers", nQ(nM().set("timeout", nDur(0)))))},
		{"lossy alertmanager.scheme", top("alerting", nM().set("alertmanagers", nQ(nM().set("scheme", nS("")))))},
		{"lossy scrape.metrics_path", top("scrape_configs", nQ(sc().set("metrics_path", nS(""))))},
		{"lossy scrape.scheme", top("scrape_configs", nQ(sc().set("scheme", nS(""))))},
		{"alertmanagers-null-panic", top("alerting", nM().set("alertmanagers", nQ(nNull())))},
		{"lossy external label dollar", nM().set("global", nM().ext("external_labels", nM().set("a", nS("x$$HOME_C49_UNSET")))).set("rule_files", nStrs("r.yml"))},
	}
}
